------------------------------ MODULE TxAssembly ------------------------------
(***************************************************************************)
(* Integer model of the four Bitcoin transaction assemblers of the tBTC    *)
(* wallet (/repo/pkg/tbtc):                                                *)
(*                                                                         *)
(*   assembleDepositSweepTransaction      deposit_sweep.go                 *)
(*   assembleRedemptionTransaction        redemption.go                    *)
(*     + withRedemptionTotalFee           redemption.go                    *)
(*   assembleMovingFundsTransaction       moving_funds.go                  *)
(*   assembleMovedFundsSweepUtxo /                                         *)
(*   assembleMovedFundsSweepTransaction   moved_funds_sweep.go             *)
(*                                                                         *)
(* on top of bitcoin.TransactionBuilder (pkg/bitcoin/transaction_builder.go*)
(* AddPublicKeyHashInput / AddScriptHashInput / AddOutput /                *)
(* TotalInputsValue).  A transaction is                                    *)
(*    inputs  : sequence of references (0 = wallet main UTXO, i = item i)  *)
(*    outputs : sequence of [script label, value]                          *)
(* Script labels: "wallet" = P2WPKH of the wallet's own public key,        *)
(* otherwise the label of the redeemer script / target wallet of an item.  *)
(*                                                                         *)
(* The assemblers are deterministic functions of their arguments, so the   *)
(* module enumerates the argument space in Init; one named action per      *)
(* assembler computes the result the code must produce (including which    *)
(* documented error is returned first).  The invariants state the          *)
(* property (C26) declaratively about that result.                         *)
(***************************************************************************)
EXTENDS Integers, Sequences, FiniteSets

CONSTANTS
    MaxK,           \* max number of deposits / requests / target wallets
    MainVals,       \* values of the wallet main UTXO
    DepVals,        \* values of deposit UTXOs and of the moved-funds UTXO
    ReqVals,        \* requested amounts of redemption requests
    TreasVals,      \* treasury fees of redemption requests
    Fees,           \* proposed total transaction fees
    Shapes,         \* subset of {"default", "first", "last"}: redemption change position; "default" =
                    \* the configuration of the production action (newRedemptionAction: ChangeFirst)
    DepKindPatterns,\* sequences (length MaxK) of deposit funding-output kinds
    LabelPatterns,  \* sequences (length MaxK) of redeemer-script / target-wallet labels
    \* ---- proposal resolution (the step the wallet actions perform before assembling)
    PropOutputs,    \* potential deposit outputs <<funding transaction, output index>>
    PropDepOptions, \* subset of DepOptions
    PropMainVals,   \* main UTXO values of the redemption proposal scenarios
    PropWrongAll,   \* TRUE: a wrong reveal block at any key position; FALSE: only at the last key
    PropTxStates,   \* set of functions funding transaction -> {"ok", "unconfirmed", "unknown"}
    PropMaxKeys,    \* max number of deposit keys / redeemer scripts in a proposal
    PropScripts,    \* redeemer output scripts that may have a pending request
    PropReqVals,    \* requested amounts of pending redemption requests
    PropFees,       \* proposed fees of the proposal scenarios
    PropShapes,     \* change shapes of the redemption proposal scenarios
    MaxFeeModes     \* subset of AllMaxFeeModes: how the requests' TxMaxFee relate to their fee shares

\* kinds of the output a UTXO reference points at
MainGood   == {"p2pkh", "p2wpkh"}          \* AddPublicKeyHashInput accepts
DepGood    == {"p2sh", "p2wsh", "p2sh+x", "p2wsh+x"}  \* AddScriptHashInput accepts (+x: deposit script with extra data)
\* "wrongclass": the referenced output has another script class;
\* "unknown": the funding transaction is not known to the Bitcoin chain;
\* "badscript": Deposit.Script() fails (malformed depositor address)
BadRef     == {"wrongclass", "unknown"}

NoMain == [kind |-> "none", value |-> 0]
AnyMainVal == CHOOSE v \in MainVals : TRUE
Mains == {NoMain} \cup [kind : MainGood, value : MainVals] \cup [kind : BadRef, value : {AnyMainVal}]

Item(v, a, l) == [value |-> v, aux |-> a, label |-> l]

DepositLists ==
    UNION { { [i \in 1..k |-> Item(vs[i], 0, p[i])] : vs \in [1..k -> DepVals], p \in DepKindPatterns } : k \in 0..MaxK }
RequestLists ==
    UNION { { [i \in 1..k |-> Item(vs[i], ts[i], p[i])] : vs \in [1..k -> ReqVals], ts \in [1..k -> TreasVals], p \in LabelPatterns } : k \in 0..MaxK }
TargetLists ==
    UNION { { [i \in 1..k |-> Item(0, 0, p[i])] : p \in LabelPatterns } : k \in 0..MaxK }
MovedLists ==
    {<<>>} \cup { <<Item(v, 0, kd)>> : v \in DepVals, kd \in MainGood }
           \cup { <<Item(AnyMainVal, 0, kd)>> : kd \in BadRef }

Inputs ==
    [kind : {"sweep"}, main : Mains, items : DepositLists, fee : Fees, shape : {"default"}]
    \cup [kind : {"redemption"}, main : Mains, items : RequestLists, fee : Fees, shape : Shapes]
    \cup [kind : {"movingFunds"}, main : Mains, items : TargetLists, fee : Fees, shape : {"default"}]
    \cup [kind : {"movedFundsSweep"}, main : Mains, items : MovedLists, fee : Fees, shape : {"default"}]

---------------------------------------------------------------------------
\* Proposals.  depositSweepAction.execute and redemptionAction.execute do not get the
\* assembler arguments from the coordinator: the proposal only *names* deposits (funding
\* transaction hash, output index, reveal block) and redemption requests (redeemer output
\* script); ValidateDepositSweepProposal / ValidateRedemptionProposal look the named
\* entries up on the host chain and the matched chain data becomes the assembler input.
\*
\* Deposit sweep proposal scenario:
\*   dep[o]  what the Bridge knows about output o of a funding transaction:
\*           "absent" not revealed; "b1"/"b2" revealed for this wallet in block 1 / 2;
\*           "other" revealed in block 1 for another wallet; "noreq" revealed (block 1, this
\*           wallet) but without a deposit request
\*   txs[t]  state of funding transaction t on Bitcoin
\*   keys    the proposal's deposit keys (distinct outputs); the proposal's reveal block of
\*           key i is the true one, except for key `wrongAt` (0 = none) where it is the other block
DepOptions == {"absent", "b1", "b2", "other", "noreq"}
PropTxs == { o[1] : o \in PropOutputs }
InjectiveSeqs(S, n) == { q \in [1..n -> S] : \A i, j \in 1..n : i # j => q[i] # q[j] }
KeyLists == UNION { InjectiveSeqs(PropOutputs, n) : n \in 1..PropMaxKeys }
PropMains == {NoMain, [kind |-> "p2wpkh", value |-> AnyMainVal]}
SweepProposals ==
    UNION { [kind : {"sweepProposal"}, main : PropMains, keys : {k}, wrongAt : IF PropWrongAll THEN 0..Len(k) ELSE {0, Len(k)},
             dep : { d \in [PropOutputs -> PropDepOptions] : \A o \in PropOutputs : d[o] = "noreq" => o[2] = 0 },
             txs : PropTxStates, fee : PropFees] : k \in KeyLists }

\* Redemption proposal scenario:
\*   pend[s]  the pending request of this wallet for redeemer script s, if any
\*   foreign  another wallet has pending requests for the same scripts (other amounts)
\*   scripts  the proposal's redeemer output scripts (distinct)
PendOptions == {[p |-> FALSE, amount |-> 0, treasury |-> 0]} \cup [p : {TRUE}, amount : PropReqVals, treasury : TreasVals]
ScriptLists == UNION { InjectiveSeqs(PropScripts, n) : n \in 1..PropMaxKeys }
RedemptionProposals ==
    [kind : {"redemptionProposal"}, main : [kind : {"p2wpkh"}, value : PropMainVals], scripts : ScriptLists,
     pend : [PropScripts -> PendOptions], foreign : BOOLEAN, fee : PropFees, shape : PropShapes,
     maxFee : MaxFeeModes]

ProposalInputs == SweepProposals \cup RedemptionProposals

VARIABLES in, res, done
vars == <<in, res, done>>

---------------------------------------------------------------------------
\* helpers

RECURSIVE SumUpTo(_, _)
SumUpTo(f, n) == IF n = 0 THEN 0 ELSE f[n] + SumUpTo(f, n - 1)
Sum(s) == SumUpTo(s, Len(s))

Min(S) == CHOOSE x \in S : \A y \in S : x <= y

\* Go's % and / truncate towards zero (int64)
GoRem(a, b) == IF a >= 0 THEN a % b ELSE 0 - ((0 - a) % b)
GoDiv(a, b) == (a - GoRem(a, b)) \div b

HasMain(i) == i.main.kind \in MainGood
RefValue(i, r) == IF r = 0 THEN i.main.value ELSE i.items[r].value
Out(s, v) == [script |-> s, value |-> v]

Ok(ins, outs, shares) == [err |-> "", errIdx |-> 0 - 1, inputs |-> ins, outputs |-> outs, shares |-> shares]
Err(e, idx)           == [err |-> e, errIdx |-> idx, inputs |-> <<>>, outputs |-> <<>>, shares |-> <<>>]

InputsValue(i, ins) == Sum([n \in 1..Len(ins) |-> RefValue(i, ins[n])])
OutputsValue(outs)  == Sum([n \in 1..Len(outs) |-> outs[n].value])

---------------------------------------------------------------------------
\* assembleDepositSweepTransaction: optional main UTXO first, then the deposits in
\* proposal order; one P2WPKH output to the wallet worth (sum of inputs - fee).  The
\* fee is "not validated in any way": an excessive fee gives a negative output value.
BadDeposit(d) == d.label \in BadRef \cup {"badscript"}
SweepResult(i) ==
    LET k == Len(i.items) IN
    IF k < 1 THEN Err("noDeposits", 0 - 1)
    ELSE IF i.main.kind \in BadRef THEN Err("mainInput", 0 - 1)
    ELSE LET bad == {n \in 1..k : BadDeposit(i.items[n])} IN
         IF bad # {} THEN
             LET n == Min(bad) IN
             Err(IF i.items[n].label = "badscript" THEN "depositScript" ELSE "depositInput", n - 1)
         ELSE
             LET ins == (IF HasMain(i) THEN <<0>> ELSE <<>>) \o [n \in 1..k |-> n] IN
             Ok(ins, <<Out("wallet", InputsValue(i, ins) - i.fee)>>, <<>>)

\* withRedemptionTotalFee: even split, remainder on the last request
FeeShares(fee, k) ==
    LET rem == GoRem(fee, k)
        per == GoDiv(fee, k)
    IN [n \in 1..k |-> IF n = k THEN per + rem ELSE per]

\* TxMaxFee.  Every redemption request carries the maximum transaction fee share it may incur
\* (RedemptionRequest.TxMaxFee, fixed when the request was created).  The assembler does not
\* look at it: "the fee shares applied to specific requests according to the provided
\* feeDistribution function are not validated in any way" (assembleRedemptionTransaction), the
\* per-request and total limits are enforced by the on-chain validation of the proposal
\* (ValidateRedemptionProposal -> WalletProposalValidator; see also ProposeRedemption in
\* pkg/tbtcpg).  So the PROPOSED shares are applied exactly, whatever TxMaxFee is: a share is
\* never silently clamped, otherwise the transaction would not pay the proposed fee.
\* Modes (k requests, shares = FeeShares(fee, k)):
\*   "high"        every TxMaxFee far above every share
\*   "evenPart"    every TxMaxFee = fee div k: equal to the share of all requests but the last,
\*                 below the last one's whenever fee is not divisible by k
\*   "belowFirst"  TxMaxFee of request 1 = its share - 1 (at least 0), of request n > 1 =
\*                 its share + n (limits differing between requests)
AllMaxFeeModes == {"high", "evenPart", "belowFirst"}
ModeOrder == <<"high", "evenPart", "belowFirst">>
\* plain assembler scenarios rotate through the modes (no additional scenarios); redemption
\* proposals carry the mode as a scenario field
MaxFeeMode(i) ==
    IF i.kind = "redemptionProposal" THEN i.maxFee
    ELSE ModeOrder[((i.fee + i.main.value + Len(i.items)) % 3) + 1]
TxMaxFees(mode, fee, k) ==
    LET sh == FeeShares(fee, k) IN
    [n \in 1..k |-> CASE mode = "high" -> 1000000000
                      [] mode = "evenPart" -> GoDiv(fee, k)
                      [] mode = "belowFirst" -> IF n = 1 THEN (IF sh[1] > 0 THEN sh[1] - 1 ELSE 0) ELSE sh[n] + n]

\* assembleRedemptionTransaction: the main UTXO is the only input; one output per request
\* (redeemer script, amount - treasury fee - fee share) in request order; a change output
\* to the wallet iff the change is positive, first for RedemptionChangeFirst (the default),
\* last for RedemptionChangeLast.
RedemptionResult(i) ==
    LET k == Len(i.items) IN
    IF i.main.kind = "none" THEN Err("noMain", 0 - 1)
    ELSE IF k < 1 THEN Err("noRequests", 0 - 1)
    ELSE IF i.main.kind \in BadRef THEN Err("mainInput", 0 - 1)
    ELSE
        LET shares == FeeShares(i.fee, k)
            outs   == [n \in 1..k |-> Out(i.items[n].label, i.items[n].value - i.items[n].aux - shares[n])]
            change == i.main.value - OutputsValue(outs) - Sum(shares)
            all    == IF change > 0
                      THEN IF i.shape = "last" THEN Append(outs, Out("wallet", change))
                                               ELSE <<Out("wallet", change)>> \o outs
                      ELSE outs
        IN Ok(<<0>>, all, shares)

\* assembleMovingFundsTransaction: the main UTXO is the only input; (value - fee) split
\* evenly over the target wallets in commitment order, the remainder on the last.
MovingFundsResult(i) ==
    LET k == Len(i.items) IN
    IF k < 1 THEN Err("noTargets", 0 - 1)
    ELSE IF i.main.kind = "none" THEN Err("noMain", 0 - 1)
    ELSE IF i.main.kind \in BadRef THEN Err("mainInput", 0 - 1)
    ELSE
        LET total == i.main.value - i.fee
            rem   == GoRem(total, k)
            per   == GoDiv(total, k)
        IN Ok(<<0>>, [n \in 1..k |-> Out(i.items[n].label, IF n = k THEN per + rem ELSE per)], <<>>)

\* assembleMovedFundsSweepUtxo + assembleMovedFundsSweepTransaction: the moved funds UTXO
\* (value read from the moving funds transaction on the Bitcoin chain) is the first input,
\* the main UTXO, if any, the second; one wallet output worth (sum of inputs - fee).
MovedFundsSweepResult(i) ==
    IF Len(i.items) < 1 THEN Err("noMoved", 0 - 1)
    ELSE IF i.items[1].label = "unknown" THEN Err("movedLookup", 0 - 1)
    ELSE IF i.items[1].label = "wrongclass" THEN Err("movedInput", 0 - 1)
    ELSE IF i.main.kind \in BadRef THEN Err("mainInput", 0 - 1)
    ELSE
        LET ins == <<1>> \o (IF HasMain(i) THEN <<0>> ELSE <<>>) IN
        Ok(ins, <<Out("wallet", InputsValue(i, ins) - i.fee)>>, <<>>)

---------------------------------------------------------------------------
\* ValidateDepositSweepProposal: for every deposit key, in proposal order: the funding
\* transaction must be known and sufficiently confirmed; the DepositRevealed events of the
\* wallet in the proposal's reveal block are fetched and the one with the key's funding
\* transaction hash AND output index is taken; its deposit request must exist.  The matched
\* events (outpoint, amount) are the deposits handed to assembleDepositSweepTransaction.
PropValue(o) == 4 + 5 * o[2] + 700000 * (o[1] - 1)     \* amount of the deposit at output o
TrueBlock(d) == IF d = "b2" THEN 2 ELSE 1
ClaimedBlock(i, n) == LET b == TrueBlock(i.dep[i.keys[n]]) IN IF i.wrongAt = n THEN 3 - b ELSE b
RevealedForWallet(i, o, b) == i.dep[o] \in {"b1", "b2", "noreq"} /\ TrueBlock(i.dep[o]) = b

KeyError(i, n) ==
    LET o == i.keys[n] IN
    IF i.txs[o[1]] = "unknown" THEN "fundingConfirmations"
    ELSE IF i.txs[o[1]] = "unconfirmed" THEN "fundingUnconfirmed"
    ELSE IF ~RevealedForWallet(i, o, ClaimedBlock(i, n)) THEN "noEvent"
    ELSE IF i.dep[o] = "noreq" THEN "noRequest"
    ELSE ""

\* the assembler arguments a valid proposal resolves to: deposit n is the UTXO named by key n
ResolvedSweep(i) ==
    [kind |-> "sweep", main |-> i.main, fee |-> i.fee, shape |-> "default",
     items |-> [n \in 1..Len(i.keys) |-> Item(PropValue(i.keys[n]), 0, "p2wsh")]]

SweepProposalResult(i) ==
    LET bad == {n \in 1..Len(i.keys) : KeyError(i, n) # ""} IN
    IF bad # {} THEN LET n == Min(bad) IN Err(KeyError(i, n), n - 1)
    ELSE SweepResult(ResolvedSweep(i))

\* ValidateRedemptionProposal: every redeemer script of the proposal must have a pending
\* request of THIS wallet; the requests (amount, treasury fee) in proposal order are handed to
\* assembleRedemptionTransaction.
ResolvedRedemption(i) ==
    [kind |-> "redemption", main |-> i.main, fee |-> i.fee, shape |-> i.shape,
     items |-> [n \in 1..Len(i.scripts) |-> Item(i.pend[i.scripts[n]].amount, i.pend[i.scripts[n]].treasury, i.scripts[n])]]

RedemptionProposalResult(i) ==
    LET bad == {n \in 1..Len(i.scripts) : ~i.pend[i.scripts[n]].p} IN
    IF bad # {} THEN Err("notPending", Min(bad) - 1)
    ELSE RedemptionResult(ResolvedRedemption(i))

Pending == [err |-> "pending", errIdx |-> 0 - 1, inputs |-> <<>>, outputs |-> <<>>, shares |-> <<>>]

Init == in \in (Inputs \cup ProposalInputs) /\ res = Pending /\ done = FALSE

\* one action per assembler (each is a single call of the Go function)
AssembleDepositSweep ==
    /\ ~done /\ in.kind = "sweep"
    /\ res' = SweepResult(in) /\ done' = TRUE /\ UNCHANGED in
AssembleRedemption ==
    /\ ~done /\ in.kind = "redemption"
    /\ res' = RedemptionResult(in) /\ done' = TRUE /\ UNCHANGED in
AssembleMovingFunds ==
    /\ ~done /\ in.kind = "movingFunds"
    /\ res' = MovingFundsResult(in) /\ done' = TRUE /\ UNCHANGED in
AssembleMovedFundsSweep ==
    /\ ~done /\ in.kind = "movedFundsSweep"
    /\ res' = MovedFundsSweepResult(in) /\ done' = TRUE /\ UNCHANGED in

\* the wallet actions: resolve the proposal against the chains, then assemble
ExecuteDepositSweepProposal ==
    /\ ~done /\ in.kind = "sweepProposal"
    /\ res' = SweepProposalResult(in) /\ done' = TRUE /\ UNCHANGED in
ExecuteRedemptionProposal ==
    /\ ~done /\ in.kind = "redemptionProposal"
    /\ res' = RedemptionProposalResult(in) /\ done' = TRUE /\ UNCHANGED in

Next == \/ AssembleDepositSweep
        \/ AssembleRedemption
        \/ AssembleMovingFunds
        \/ AssembleMovedFundsSweep
        \/ ExecuteDepositSweepProposal
        \/ ExecuteRedemptionProposal

Spec == Init /\ [][Next]_vars

---------------------------------------------------------------------------
\* Invariants (C26).  They are stated about the result, independently of how the
\* *Result operators compute it.

\* the assembler-level arguments of the scenario: the scenario itself, or what a proposal
\* resolves to; "unresolved" if the proposal names something the chains do not have
Unresolved == [kind |-> "unresolved", main |-> NoMain, items |-> <<>>, fee |-> 0, shape |-> "default"]
ai == CASE in.kind = "sweepProposal" ->
               IF \E n \in 1..Len(in.keys) : KeyError(in, n) # "" THEN Unresolved ELSE ResolvedSweep(in)
        [] in.kind = "redemptionProposal" ->
               IF \E n \in 1..Len(in.scripts) : ~in.pend[in.scripts[n]].p THEN Unresolved ELSE ResolvedRedemption(in)
        [] OTHER -> in

Done   == done
Built  == done /\ res.err = ""
K      == Len(ai.items)
InVal  == InputsValue(ai, res.inputs)
OutVal == OutputsValue(res.outputs)

TypeOK ==
    /\ in \in (Inputs \cup ProposalInputs)
    /\ done => /\ res.err \in {"", "noDeposits", "mainInput", "depositScript", "depositInput", "noMain",
                               "noRequests", "noTargets", "noMoved", "movedLookup", "movedInput",
                               "fundingConfirmations", "fundingUnconfirmed", "noEvent", "noRequest", "notPending"}
               /\ \A n \in 1..Len(res.inputs) : res.inputs[n] \in 0..K

\* an assembler fails exactly when a documented precondition does not hold
ErrorsExactlyWhenDocumented ==
    done =>
      (res.err # "" <=>
         CASE ai.kind = "sweep" ->
                  K = 0 \/ ai.main.kind \in BadRef \/ \E n \in 1..K : BadDeposit(ai.items[n])
           [] ai.kind = "redemption" ->
                  K = 0 \/ ~HasMain(ai)
           [] ai.kind = "movingFunds" ->
                  K = 0 \/ ~HasMain(ai)
           [] ai.kind = "unresolved" -> TRUE
           [] ai.kind = "movedFundsSweep" ->
                  K = 0 \/ ai.items[1].label \in BadRef \/ ai.main.kind \in BadRef)

\* inputs are exactly the intended UTXOs, each once, in the intended order
InputsExact ==
    Built =>
      CASE ai.kind = "sweep" ->
               res.inputs = (IF HasMain(ai) THEN <<0>> ELSE <<>>) \o [n \in 1..K |-> n]
        [] ai.kind = "movedFundsSweep" ->
               res.inputs = <<1>> \o (IF HasMain(ai) THEN <<0>> ELSE <<>>)
        [] OTHER -> res.inputs = <<0>>

\* the transaction pays the proposed fee: sum(inputs) - sum(outputs) = fee.  A redemption
\* whose main UTXO cannot cover the redeemable amounts has no (negative) change output; it
\* then pays less than the proposed fee (the Bridge rejects such a proposal beforehand).
Funded ==
    ai.kind = "redemption" =>
        ai.main.value >= Sum([n \in 1..K |-> ai.items[n].value - ai.items[n].aux])
FeeConservation ==
    Built => IF Funded THEN InVal - OutVal = ai.fee ELSE InVal - OutVal < ai.fee

\* fee shares add up to the proposed fee; even split, remainder (< k) on the last
SharesSumToFee ==
    (Built /\ ai.kind = "redemption") =>
        /\ Len(res.shares) = K
        /\ Sum(res.shares) = ai.fee
        /\ \A n \in 1..K : res.shares[n] >= 0
        /\ \A n \in 1..(K - 1) : res.shares[n] = res.shares[1]
        /\ res.shares[K] - res.shares[1] \in 0..(K - 1)

IsChange(o) == o.script = "wallet"

\* only the intended scripts are paid, in the intended order
ScriptsIntended ==
    Built =>
      CASE ai.kind \in {"sweep", "movedFundsSweep"} ->
               /\ Len(res.outputs) = 1
               /\ res.outputs[1].script = "wallet"
        [] ai.kind = "movingFunds" ->
               /\ Len(res.outputs) = K
               /\ \A n \in 1..K : res.outputs[n].script = ai.items[n].label
        [] ai.kind = "redemption" ->
               LET hasChange == Len(res.outputs) = K + 1
                   off == IF hasChange /\ ai.shape # "last" THEN 1 ELSE 0
               IN /\ Len(res.outputs) \in {K, K + 1}
                  /\ \A n \in 1..K : res.outputs[n + off].script = ai.items[n].label
                  /\ hasChange => IsChange(res.outputs[IF ai.shape = "last" THEN K + 1 ELSE 1])

\* each redeemer receives amount - treasury fee - its fee share
RedeemerAmounts ==
    (Built /\ ai.kind = "redemption") =>
        LET off == IF Len(res.outputs) = K + 1 /\ ai.shape # "last" THEN 1 ELSE 0 IN
        \A n \in 1..K : res.outputs[n + off].value = ai.items[n].value - ai.items[n].aux - res.shares[n]

\* a change output exists iff the change is positive (never a zero-value output), and it
\* returns everything that is left to the wallet
ChangeIffPositive ==
    (Built /\ ai.kind = "redemption") =>
        LET change == ai.main.value - Sum([n \in 1..K |-> ai.items[n].value - ai.items[n].aux]) IN
        /\ (Len(res.outputs) = K + 1) <=> (change > 0)
        /\ (change > 0) => res.outputs[IF ai.shape = "last" THEN K + 1 ELSE 1].value = change

\* moving funds: even split with the remainder (< k) on the last target
EvenSplit ==
    (Built /\ ai.kind = "movingFunds") =>
        /\ \A n \in 1..(K - 1) : res.outputs[n].value = res.outputs[1].value
        /\ (ai.main.value >= ai.fee) =>
               /\ res.outputs[K].value - res.outputs[1].value \in 0..(K - 1)
               /\ \A n \in 1..K : res.outputs[n].value >= 0

\* sweeps: everything but the fee goes back to the wallet
SweepKeepsFunds ==
    (Built /\ ai.kind \in {"sweep", "movedFundsSweep"}) =>
        res.outputs[1].value =
            (IF HasMain(ai) THEN ai.main.value ELSE 0)
            + Sum([n \in 1..K |-> ai.items[n].value]) - ai.fee

\* ---- proposal resolution
\* a deposit sweep built from a proposal spends exactly the UTXOs named by the proposal's
\* keys, one input per key, in key order (plus the main UTXO first, if any): input n is
\* the output keys[n] of its funding transaction, with that output's amount -- also when
\* several keys share a funding transaction or a reveal block
SweepSpendsNamedUtxos ==
    (Built /\ in.kind = "sweepProposal") =>
        LET deps == SelectSeq(res.inputs, LAMBDA r : r # 0) IN
        /\ deps = [n \in 1..Len(in.keys) |-> n]
        /\ \A n \in 1..Len(in.keys) : ai.items[n].value = PropValue(in.keys[n])
        /\ Cardinality({ in.keys[n] : n \in 1..Len(in.keys) }) = Len(deps)      \* no UTXO twice
        /\ res.outputs[1].value = (IF HasMain(in) THEN in.main.value ELSE 0)
                                  + Sum([n \in 1..Len(in.keys) |-> PropValue(in.keys[n])]) - in.fee

\* a proposal is executed only if every key names a deposit revealed for this wallet in the
\* claimed block, with a deposit request, in a known and confirmed funding transaction
SweepProposalErrors ==
    (done /\ in.kind = "sweepProposal") =>
        (res.err = "" <=>
            \A n \in 1..Len(in.keys) :
                /\ in.txs[in.keys[n][1]] = "ok"
                /\ in.dep[in.keys[n]] \in {"b1", "b2"}
                /\ in.wrongAt # n)

\* a redemption built from a proposal pays script n of the proposal the amount of THIS
\* wallet's pending request for that script (minus treasury fee and fee share)
RedemptionPaysNamedRequests ==
    (Built /\ in.kind = "redemptionProposal") =>
        LET k == Len(in.scripts)
            off == IF Len(res.outputs) = k + 1 /\ in.shape # "last" THEN 1 ELSE 0
        IN \A n \in 1..k :
              /\ res.outputs[n + off].script = in.scripts[n]
              /\ res.outputs[n + off].value =
                     in.pend[in.scripts[n]].amount - in.pend[in.scripts[n]].treasury - res.shares[n]
\* TxMaxFee plays no role in assembly: the applied shares are the proposed ones (even split,
\* remainder on the last) also for requests whose TxMaxFee is below their share
TxMaxFeeNotApplied ==
    (Built /\ ai.kind = "redemption") =>
        LET k == Len(ai.items)
            limits == TxMaxFees(IF in.kind = "redemptionProposal" THEN in.maxFee ELSE MaxFeeMode(in), ai.fee, k)
            off == IF Len(res.outputs) = k + 1 /\ ai.shape # "last" THEN 1 ELSE 0
        IN /\ res.shares = FeeShares(ai.fee, k)
           /\ \A n \in 1..k :
                 res.outputs[n + off].value = ai.items[n].value - ai.items[n].aux - FeeShares(ai.fee, k)[n]

RedemptionProposalErrors ==
    (done /\ in.kind = "redemptionProposal") =>
        (res.err = "" <=> \A n \in 1..Len(in.scripts) : in.pend[in.scripts[n]].p)
=============================================================================
