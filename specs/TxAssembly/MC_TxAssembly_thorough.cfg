SPECIFICATION Spec
CONSTANTS
  MaxK = 3
  MainVals = {0, 1, 2, 3, 4, 5, 6, 7, 8, 9, 10, 11, 12}
  DepVals = {0, 1, 2, 3, 4, 5, 6, 7, 8}
  ReqVals = {0, 1, 2, 3, 4, 5, 6}
  TreasVals = {0, 1}
  Fees = {0, 1, 2, 3, 4, 5}
  Shapes = {"first", "last"}
  DepKindPatterns <- DepKinds3
  LabelPatterns <- Labels3
  PropOutputs <- PropOutputs4
  PropTxStates <- TxStates
  PropDepOptions = {"absent", "b1", "b2", "other"}
  PropWrongAll = FALSE
  PropMainVals = {13, 1000003}
  PropMaxKeys = 3
  PropScripts = {"rA", "rB", "rC"}
  PropReqVals = {4, 9}
  PropFees = {5}
  PropShapes = {"default", "last"}
  MaxFeeModes = {"high", "evenPart", "belowFirst"}
INVARIANTS TypeOK ErrorsExactlyWhenDocumented InputsExact FeeConservation SharesSumToFee ScriptsIntended RedeemerAmounts ChangeIffPositive EvenSplit SweepKeepsFunds SweepSpendsNamedUtxos SweepProposalErrors RedemptionPaysNamedRequests RedemptionProposalErrors TxMaxFeeNotApplied
