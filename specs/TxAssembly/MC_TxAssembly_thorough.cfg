SPECIFICATION Spec
CONSTANTS
  MaxK = 3
  MainVals = {0, 1, 2, 3, 4, 5, 6, 7, 8, 9, 10, 11, 12}
  DepVals = {0, 1, 2, 3, 4, 5, 6, 7, 8}
  ReqVals = {0, 1, 2, 3, 4, 5, 6}
  TreasVals = {0, 1}
  Fees = {0, 1, 2, 3, 4, 5}
  Shapes = {"first", "last"}
  DepKindPatterns <- DepKinds3
  LabelPatterns <- Labels3
INVARIANTS TypeOK ErrorsExactlyWhenDocumented InputsExact FeeConservation SharesSumToFee ScriptsIntended RedeemerAmounts ChangeIffPositive EvenSplit SweepKeepsFunds
