SPECIFICATION GSpec
CONSTANTS
  MaxK = 3
  MainVals = {0, 9, 13, 1000003}
  DepVals = {0, 4, 700001}
  ReqVals = {4, 9}
  TreasVals = {0, 1}
  Fees = {1, 4, 5}
  Shapes = {"default", "last"}
  DepKindPatterns <- GenDepKindsQ
  LabelPatterns <- GenLabelsQ
INVARIANTS EmitAll
