SPECIFICATION GSpec
CONSTANTS
  MaxK = 3
  MainVals = {0, 9, 13, 1000003}
  DepVals = {0, 4, 700001}
  ReqVals = {4, 9}
  TreasVals = {0, 1}
  Fees = {1, 4, 5}
  Shapes = {"default", "last"}
  DepKindPatterns <- GenDepKindsQ
  LabelPatterns <- GenLabelsQ
  PropOutputs <- PropOutputs3
  PropTxStates <- TxStates
  PropDepOptions = {"absent", "b1", "b2", "noreq"}
  PropWrongAll = TRUE
  PropMainVals = {13}
  PropMaxKeys = 3
  PropScripts = {"rA", "rB", "rC"}
  PropReqVals = {4, 9}
  PropFees = {5}
  PropShapes = {"default", "last"}
  MaxFeeModes = {"high", "evenPart", "belowFirst"}
INVARIANTS EmitAll
