SPECIFICATION GSpec
CONSTANTS
  MaxK = 3
  MainVals = {0, 4, 9, 10, 13, 1000003}
  DepVals = {0, 1, 4, 700001}
  ReqVals = {1, 4, 9}
  TreasVals = {0, 1}
  Fees = {0, 1, 4, 5, 1000}
  Shapes = {"default", "first", "last"}
  DepKindPatterns <- GenDepKinds
  LabelPatterns <- GenLabels
  PropOutputs <- PropOutputs4
  PropTxStates <- TxStates
  PropDepOptions = {"absent", "b1", "b2", "other"}
  PropWrongAll = FALSE
  PropMainVals = {13, 1000003}
  PropMaxKeys = 3
  PropScripts = {"rA", "rB", "rC"}
  PropReqVals = {4, 9}
  PropFees = {5}
  PropShapes = {"default", "last"}
  MaxFeeModes = {"high", "evenPart", "belowFirst"}
INVARIANTS EmitAll
