SPECIFICATION Spec
CONSTANTS
  MaxK = 2
  MainVals = {0, 1, 2, 3, 4, 5, 6}
  DepVals = {0, 1, 2, 3, 4, 5}
  ReqVals = {0, 1, 2, 3, 4}
  TreasVals = {0, 1}
  Fees = {0, 1, 2, 3, 4}
  Shapes = {"default", "last"}
  DepKindPatterns <- DepKinds2
  LabelPatterns <- Labels2
INVARIANTS TypeOK ErrorsExactlyWhenDocumented InputsExact FeeConservation SharesSumToFee ScriptsIntended RedeemerAmounts ChangeIffPositive EvenSplit SweepKeepsFunds
