SPECIFICATION Spec
CONSTANTS
  MaxK = 2
  MainVals = {0, 1, 2, 3, 4, 5, 6}
  DepVals = {0, 1, 2, 3, 4, 5}
  ReqVals = {0, 1, 2, 3, 4}
  TreasVals = {0, 1}
  Fees = {0, 1, 2, 3, 4}
  Shapes = {"default", "last"}
  DepKindPatterns <- DepKinds2
  LabelPatterns <- Labels2
  PropOutputs <- PropOutputs3
  PropTxStates <- TxStates
  PropDepOptions = {"absent", "b1", "b2", "noreq"}
  PropWrongAll = TRUE
  PropMainVals = {13}
  PropMaxKeys = 3
  PropScripts = {"rA", "rB", "rC"}
  PropReqVals = {4, 9}
  PropFees = {5}
  PropShapes = {"default", "last"}
  MaxFeeModes = {"high", "evenPart", "belowFirst"}
INVARIANTS TypeOK ErrorsExactlyWhenDocumented InputsExact FeeConservation SharesSumToFee ScriptsIntended RedeemerAmounts ChangeIffPositive EvenSplit SweepKeepsFunds SweepSpendsNamedUtxos SweepProposalErrors RedemptionPaysNamedRequests RedemptionProposalErrors TxMaxFeeNotApplied
