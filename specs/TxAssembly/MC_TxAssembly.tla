---------------------------- MODULE MC_TxAssembly ----------------------------
(* Constant definitions (tuples cannot be written in a .cfg file).          *)
EXTENDS TxAssembly

\* quick exhaustive check, MaxK = 2
DepKinds2 == {<<"p2wsh", "p2sh">>, <<"p2sh+x", "wrongclass">>, <<"badscript", "unknown">>, <<"unknown", "p2wsh+x">>}
Labels2   == {<<"rA", "rB">>, <<"rB", "rB">>}

\* thorough exhaustive check, MaxK = 3
DepKinds3 == {<<"p2wsh", "p2sh", "p2wsh+x">>, <<"p2sh+x", "wrongclass", "unknown">>, <<"p2wsh", "p2sh", "badscript">>}
Labels3   == {<<"rA", "rB", "rC">>}

\* case generation, MaxK = 3: every deposit kind at every position, the first failing
\* index not always the first bad one's kind, duplicates and permutations of labels
GenDepKinds == {<<"p2wsh", "p2sh", "p2wsh+x">>, <<"p2sh+x", "p2wsh", "p2sh">>,
                <<"p2wsh", "wrongclass", "unknown">>, <<"badscript", "p2wsh", "p2wsh">>,
                <<"p2sh", "p2wsh+x", "badscript">>, <<"unknown", "badscript", "p2sh">>,
                <<"p2wsh", "p2sh+x", "wrongclass">>}
GenLabels   == {<<"rA", "rB", "rC">>, <<"rD", "rA", "rD">>, <<"rC", "rB", "rA">>}
\* quick generation
GenDepKindsQ == {<<"p2wsh", "p2sh", "p2wsh+x">>, <<"p2sh+x", "wrongclass", "unknown">>,
                 <<"p2sh", "p2wsh+x", "badscript">>, <<"unknown", "badscript", "p2sh">>}
GenLabelsQ   == {<<"rA", "rB", "rC">>, <<"rD", "rA", "rD">>}

\* proposal-resolution scenarios: funding transaction 1 has up to three deposit outputs,
\* transaction 2 one
PropOutputs3 == {<<1, 0>>, <<1, 1>>, <<2, 0>>}
PropOutputs4 == {<<1, 0>>, <<1, 1>>, <<1, 2>>, <<2, 0>>}
TxStates == { [t \in {1, 2} |-> "ok"],
              [t \in {1, 2} |-> IF t = 1 THEN "unconfirmed" ELSE "ok"],
              [t \in {1, 2} |-> IF t = 2 THEN "unknown" ELSE "ok"] }
=============================================================================
