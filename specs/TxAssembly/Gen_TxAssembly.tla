--------------------------- MODULE Gen_TxAssembly ---------------------------
(* Case generation: every argument combination of the configured (sparse)   *)
(* value sets together with the transaction the specification expects,      *)
(* written in one batch (one JSON document per line).  The generation model *)
(* has a single state; the cases are computed with the same *Result         *)
(* operators the actions of TxAssembly use.                                 *)
EXTENDS MC_TxAssembly, TLC, Json, SequencesExt

Result(i) ==
    CASE i.kind = "sweep"           -> SweepResult(i)
      [] i.kind = "redemption"      -> RedemptionResult(i)
      [] i.kind = "movingFunds"     -> MovingFundsResult(i)
      [] i.kind = "movedFundsSweep" -> MovedFundsSweepResult(i)

Cases == { [in |-> i, expected |-> Result(i)] : i \in Inputs }

GInit == /\ in = [kind |-> "generation"] /\ res = Pending /\ done = TRUE
GNext == FALSE /\ UNCHANGED vars
GSpec == GInit /\ [][GNext]_vars

EmitAll == ndJsonSerialize("cases.ndjson", SetToSeq(Cases))
=============================================================================
