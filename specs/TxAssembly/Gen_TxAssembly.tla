--------------------------- MODULE Gen_TxAssembly ---------------------------
(* Case generation: every argument combination of the configured (sparse)   *)
(* value sets together with the transaction the specification expects,      *)
(* written in one batch (one JSON document per line).  The generation model *)
(* has a single state; the cases are computed with the same *Result         *)
(* operators the actions of TxAssembly use.                                 *)
EXTENDS MC_TxAssembly, TLC, Json, SequencesExt

Result(i) ==
    CASE i.kind = "sweep"              -> SweepResult(i)
      [] i.kind = "redemption"         -> RedemptionResult(i)
      [] i.kind = "movingFunds"        -> MovingFundsResult(i)
      [] i.kind = "movedFundsSweep"    -> MovedFundsSweepResult(i)
      [] i.kind = "sweepProposal"      -> SweepProposalResult(i)
      [] i.kind = "redemptionProposal" -> RedemptionProposalResult(i)

\* JSON-friendly rendering of a scenario (functions over tuples become lists of records)
Render(i) ==
    IF i.kind = "sweepProposal" THEN
        [kind |-> i.kind, main |-> i.main, fee |-> i.fee, wrongAt |-> i.wrongAt, txs |-> i.txs,
         keys |-> [n \in 1..Len(i.keys) |-> [tx |-> i.keys[n][1], idx |-> i.keys[n][2], block |-> ClaimedBlock(i, n),
                                              value |-> PropValue(i.keys[n])]],
         deposits |-> SetToSeq({ [tx |-> o[1], idx |-> o[2], state |-> i.dep[o], block |-> TrueBlock(i.dep[o]),
                                  value |-> PropValue(o)] : o \in PropOutputs })]
    ELSE IF i.kind = "redemption" THEN
        [kind |-> i.kind, main |-> i.main, items |-> i.items, fee |-> i.fee, shape |-> i.shape,
         maxFee |-> MaxFeeMode(i),
         txMaxFee |-> IF Len(i.items) > 0 THEN TxMaxFees(MaxFeeMode(i), i.fee, Len(i.items)) ELSE <<>>]
    ELSE IF i.kind = "redemptionProposal" THEN
        [kind |-> i.kind, main |-> i.main, scripts |-> i.scripts, pend |-> i.pend, foreign |-> i.foreign,
         fee |-> i.fee, shape |-> i.shape, maxFee |-> i.maxFee,
         txMaxFee |-> TxMaxFees(i.maxFee, i.fee, Len(i.scripts))]
    ELSE i

Cases == { [in |-> Render(i), expected |-> Result(i)] : i \in Inputs \cup ProposalInputs }

GInit == /\ in = [kind |-> "generation"] /\ res = Pending /\ done = TRUE
GNext == FALSE /\ UNCHANGED vars
GSpec == GInit /\ [][GNext]_vars

EmitAll == ndJsonSerialize("cases.ndjson", SetToSeq(Cases))
=============================================================================
