SPECIFICATION TSpec
CONSTANTS
  N = 4
  Silent = {2}
  Peers = {1, 2}
  MaxDup = 1000000
  MaxForeign = 1000000
  Faults = {"initiate", "next"}
  MayCancel = TRUE
CONSTRAINT Hwm
INVARIANTS TypeOK EarlyRetained NoSkip LeftOnlyWhenComplete OutcomeClassified RegisteredIff
POSTCONDITION Accepted
