SPECIFICATION Spec
CONSTANTS
  N = 3
  Silent = {2}
  Peers = {1, 2}
  MaxDup = 1
  MaxForeign = 1
  Faults = {"initiate", "next"}
  MayCancel = TRUE
INVARIANTS TypeOK EarlyRetained NoSkip LeftOnlyWhenComplete OutcomeClassified RegisteredIff
PROPERTIES TransitionGate SignalAfterInitiate HistoryAppendOnly QuietAfterReturn
