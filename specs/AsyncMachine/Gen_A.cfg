SPECIFICATION GSpec
CONSTANTS
  N = 4
  Silent = {2}
  Peers = {1, 2}
  MaxDup = 2
  MaxForeign = 1
  Faults = {"initiate", "next"}
  MayCancel = TRUE
INVARIANTS Emit
