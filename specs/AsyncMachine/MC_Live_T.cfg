SPECIFICATION FairSpec
CONSTANTS
  N = 3
  Silent = {2}
  Peers = {1, 2}
  MaxDup = 1
  MaxForeign = 1
  Faults = {}
  MayCancel = FALSE
INVARIANTS TypeOK
PROPERTIES ReachesFinal
