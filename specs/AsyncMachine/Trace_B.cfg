SPECIFICATION TSpec
CONSTANTS
  N = 3
  Silent = {}
  Peers = {1, 2, 3}
  MaxDup = 1000000
  MaxForeign = 1000000
  Faults = {"initiate", "next"}
  MayCancel = TRUE
CONSTRAINT Hwm
INVARIANTS TypeOK EarlyRetained NoSkip LeftOnlyWhenComplete OutcomeClassified RegisteredIff
POSTCONDITION Accepted
