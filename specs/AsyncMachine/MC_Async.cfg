SPECIFICATION Spec
CONSTANTS
  N = 2
  Silent = {}
  Peers = {1, 2}
  MaxDup = 1
  MaxForeign = 1
  Faults = {"initiate", "next"}
  MayCancel = TRUE
INVARIANTS TypeOK EarlyRetained NoSkip LeftOnlyWhenComplete OutcomeClassified RegisteredIff
PROPERTIES TransitionGate SignalAfterInitiate HistoryAppendOnly QuietAfterReturn
