-------------------------- MODULE Gen_AsyncMachine --------------------------
(* Behaviour generation for conformance replay of AsyncMachine.  Each step  *)
(* records the action, its arguments and the abstract state afterwards; a   *)
(* behaviour is written when Execute has returned.                          *)
(*                                                                          *)
(* Go's select cannot be forced to prefer one ready case, therefore the     *)
(* generated behaviours are restricted to those a harness can realize       *)
(* deterministically (the unrestricted model is what MC_* and the trace     *)
(* validation of free-running executions use):                              *)
(*   - once the context is done the loop's next step out of its select is   *)
(*     ExitCancelled (a Receive that was running when the context ended     *)
(*     may finish first: HandOffBegin, Cancel, ..., HandOffEnd is generated *)
(*     on purpose -- when the loop comes back to its select the context is  *)
(*     done AND the transition goroutine has seen it, the situation in      *)
(*     which only the context error may be returned), and the ticker        *)
(*     goroutine does not signal any more;                                  *)
(*   - nothing is recorded after Execute returned.                          *)
EXTENDS AsyncMachine, TLC, Json, CSV, IOUtils

VARIABLES hist,
          plan,   \* sampling only: where the run may be cancelled / fail (drawn at Exec)
          nPre    \* sampling only: arrivals before Execute started
gvars == <<vars, hist, plan, nPre>>

\* cir: cancel only while the loop is inside Receive
Plans == [cancelAt : 0..(2 * N), cir : BOOLEAN, fkind : {"none", "none2", "none3", "initiate", "next"}, fk : States]

HistProj(h) == [t \in States |-> [j \in 1..Len(h[t]) |-> <<h[t][j].s, h[t][j].n>>]]

Proj == [pc |-> pc, lp |-> lp, cur |-> cur, init |-> init, history |-> HistProj(history),
         qlen |-> Len(queue), ctxDone |-> ctxDone, registered |-> registered,
         visible |-> HistProj(visible[cur]), executed |-> executed, outcome |-> outcome]

Log(a, t, s, n) == hist' = Append(hist, [a |-> a, t |-> t, s |-> s, n |-> n, st |-> Proj'])

GInit == Init /\ hist = <<>> /\ plan = [cancelAt |-> 0, cir |-> FALSE, fkind |-> "none", fk |-> 1] /\ nPre = 0

MayFail(kind) == plan.fkind = kind /\ plan.fk = cur
ArriveOk == registered \/ (pc = "idle" /\ nPre < 2)

GNext ==
    /\ pc # "returned"
    /\ \/ Exec /\ Log("Exec", 0, 0, 0) /\ plan' \in Plans
       \/ /\ UNCHANGED plan
          /\ \/ ~ctxDone /\ HandOffBegin /\ Log("HandOffBegin", 0, 0, 0)
             \/ HandOffEnd /\ Log("HandOffEnd", 0, 0, 0)
             \/ ~MayFail("initiate") /\ InitiateOk /\ Log("InitiateOk", 0, 0, 0)
             \/ MayFail("initiate") /\ InitiateErr /\ Log("InitiateErr", 0, 0, 0)
             \/ ~ctxDone /\ TickCheck /\ Log("TickCheck", 0, 0, 0)
             \/ ~ctxDone /\ ~MayFail("next") /\ Transition /\ Log("Transition", 0, 0, 0)
             \/ ~ctxDone /\ MayFail("next") /\ NextFailed /\ Log("NextFailed", 0, 0, 0)
             \/ ~ctxDone /\ InitFailed /\ Log("InitFailed", 0, 0, 0)
             \/ ExitCancelled /\ Log("ExitCancelled", 0, 0, 0)
             \/ ((plan.cancelAt = cur /\ (plan.cir => lp = "receiving")) \/ (pc = "idle" /\ nPre = 1)) /\ Cancel /\ Log("Cancel", 0, 0, 0)
             \/ ArriveOk /\ \E t \in States \ Silent, s \in Peers : ArriveNew(t, s) /\ Log("Arrive", t, s, 1)
             \/ ArriveOk /\ \E t \in States \ Silent, s \in Peers : ArriveDup(t, s) /\ Log("Arrive", t, s, 2)
             \/ ArriveOk /\ \E t \in States : ArriveForeign(t) /\ Log("Arrive", t, 0, 1)
    /\ nPre' = IF pc = "idle" /\ pc' = "idle" THEN nPre + 1 ELSE nPre

GSpec == GInit /\ [][GNext]_gvars

Emit ==
    pc = "returned" =>
        CSVWrite("%1$s", <<ToJson([n |-> N, silent |-> Silent, peers |-> Peers, steps |-> hist])>>,
                 "behaviours.ndjson")
=============================================================================
