------------------------- MODULE Trace_AsyncMachine -------------------------
(* Trace validation of real, free-running executions of                     *)
(* AsyncMachine.Execute (delivery goroutines, a canceller, random           *)
(* initiation durations, injected Initiate/Next errors, the real 100 ms     *)
(* ticker) against the unrestricted AsyncMachine model.                     *)
(*                                                                          *)
(* Events (harness fakes, one mutex, logged at the linearization points):   *)
(*   Reset                   a new independent run                          *)
(*   Exec                    channel.Recv was called                        *)
(*   Initiate{k,vis}         Initiate of state k entered; vis = what        *)
(*                           GetAllReceivedMessages returns per type        *)
(*   InitiateRet{k,err}      Initiate returns nil / an error                *)
(*   Can{k,res}              CanTransition of state k evaluated to res      *)
(*   Receive{k,t,s,n}        Receive on state k entered; the message is     *)
(*                           admitted (ReceiveToHistory) in the same        *)
(*                           critical section                               *)
(*   ReceiveRet{k}           Receive returns                                *)
(*   Next{k,res}             Next of state k entered; res = state|nil|err   *)
(*   Cancel                  the machine's context was cancelled            *)
(*   Arrive{t,s,n} / Drop    handler invoked / no live registration         *)
(*   Return{kind,state}      Execute returned                               *)
EXTENDS AsyncMachine, TraceKit

VARIABLE l
tvars == <<vars, l>>
Ev == Trace[l]
IsEvent(e) == l <= Len(Trace) /\ Ev.event = e /\ l' = l + 1

TInit == Init /\ l = 1 /\ HwmInit

TReset ==
    /\ IsEvent("Reset")
    /\ pc' = "idle" /\ lp' = "select" /\ cur' = 1
    /\ init' = [k \in States |-> "idle"]
    /\ history' = Empty /\ queue' = <<>>
    /\ ctxDone' = FALSE /\ registered' = FALSE
    /\ sent' = {} /\ nDup' = 0 /\ nForeign' = 0
    /\ visible' = [k \in States |-> Empty]
    /\ executed' = <<>> /\ outcome' = Running

TExec == IsEvent("Exec") /\ Exec

Vis(v) == [t \in States |-> [j \in 1..Len(v[t]) |-> Msg(t, v[t][j][1], v[t][j][2])]]

\* check only: what the state can read when it starts contains everything
\* admitted before its transition goroutine was started, and nothing that was
\* not admitted
TInitiate ==
    /\ IsEvent("Initiate")
    /\ Ev.k = cur
    /\ init[cur] = "running"
    /\ \A t \in States : /\ IsPrefix(visible[cur][t], Vis(Ev.vis)[t])
                         /\ IsPrefix(Vis(Ev.vis)[t], history[t])
    /\ UNCHANGED vars

TInitiateRet ==
    /\ IsEvent("InitiateRet")
    /\ Ev.k = cur
    /\ IF Ev.err THEN InitiateErr ELSE InitiateOk

\* CanTransition is only consulted for the current state after its Initiate
\* returned nil, and its answer is the predicate on the admitted history
TCan ==
    /\ IsEvent("Can")
    /\ Ev.k = cur
    /\ init[cur] = "ticking"
    /\ Ev.res = CanTransition(cur)
    /\ IF Ev.res THEN TickCheck ELSE UNCHANGED vars

TReceive ==
    /\ IsEvent("Receive")
    /\ Ev.k = cur
    /\ queue # <<>> /\ Head(queue) = Msg(Ev.t, Ev.s, Ev.n)
    /\ HandOffBegin

TReceiveRet ==
    /\ IsEvent("ReceiveRet")
    /\ Ev.k = cur
    /\ HandOffEnd

TNextEv ==
    /\ IsEvent("Next")
    /\ Ev.k = cur
    /\ init[cur] = "signalled"     \* Next only on a state that reported it can move on
    /\ pc = "running" /\ lp = "select"
    /\ CASE Ev.res = "state" -> cur < N /\ Transition
         [] Ev.res = "nil"   -> cur = N /\ UNCHANGED vars
         [] Ev.res = "err"   -> "next" \in Faults /\ UNCHANGED vars
         [] OTHER            -> FALSE

TCancel == IsEvent("Cancel") /\ Cancel

TArrive ==
    /\ IsEvent("Arrive")
    /\ registered
    /\ CASE Ev.s = 0 -> ArriveForeign(Ev.t)
         [] Ev.n = 1 -> ArriveNew(Ev.t, Ev.s)
         [] OTHER    -> ArriveDup(Ev.t, Ev.s)

\* could Execute have returned already (its deferred cancelRecvCtx has run)
\* although the Return event is not logged yet?
ExitWindow ==
    pc = "running" /\ (ctxDone \/ init[cur] = "failed" \/ init[cur] = "signalled")

TDrop ==
    /\ IsEvent("Drop")
    /\ ~registered \/ ExitWindow
    /\ UNCHANGED vars

TReturn ==
    /\ IsEvent("Return")
    /\ CASE Ev.kind = "final"   -> cur = N /\ Transition
         [] Ev.kind = "nextErr" -> NextFailed
         [] Ev.kind = "initErr" -> InitFailed
         [] Ev.kind = "ctxErr"  -> ExitCancelled
         [] OTHER               -> FALSE
    /\ outcome'.kind = Ev.kind
    /\ Ev.kind = "final" => outcome'.state = Ev.state     \* every error returns a nil state

\* the ticker goroutine ending on ctx.Done() leaves no trace
Silent1 == l' = l /\ TickerStop

TNext == TReset \/ TExec \/ TInitiate \/ TInitiateRet \/ TCan \/ TReceive \/ TReceiveRet \/ TNextEv
         \/ TCancel \/ TArrive \/ TDrop \/ TReturn
TSpec == TInit /\ [][TNext]_tvars

Hwm == HwmConstraint(l)
Accepted == HwmAccepted
=============================================================================
