SPECIFICATION GSpec
CONSTANTS
  N = 3
  Silent = {}
  Peers = {1, 2, 3}
  MaxDup = 2
  MaxForeign = 1
  Faults = {"initiate", "next"}
  MayCancel = TRUE
INVARIANTS Emit
