----------------------------- MODULE AsyncMachine -----------------------------
(***************************************************************************)
(* The message-driven protocol state machine of                            *)
(* pkg/protocol/state/async_machine.go (AsyncMachine.Execute and           *)
(* asyncStateTransition) together with the message history of              *)
(* pkg/protocol/state/state.go (BaseAsyncState), for one member whose      *)
(* protocol has N states.  State k is either silent (CanTransition is      *)
(* always true) or waits for one message of type k from every peer (the    *)
(* shape of the tECDSA DKG / signing states: history filtered by type,     *)
(* de-duplicated by sender, compared with the number of peers).            *)
(*                                                                         *)
(* Processes of the Go code and their steps:                               *)
(*  loop (Execute):                                                        *)
(*    Exec          channel.Recv(recvCtx, handler); the first state's      *)
(*                  transition goroutine is started                        *)
(*    HandOffBegin  case msg := <-recvChan: currentState.Receive(msg) is   *)
(*                  entered (the states admit a message of an operating    *)
(*                  peer into the shared BaseAsyncState whatever its type  *)
(*                  is); the loop is busy, it is NOT in its select         *)
(*    HandOffEnd    Receive returned, the loop is back in its select.      *)
(*                  Anything can happen in between: the context can be     *)
(*                  cancelled and the transition goroutine can observe it, *)
(*                  so that several cases are ready when the loop selects  *)
(*                  again                                                  *)
(*    Transition    case err := <-onStateDone with err = nil (channel      *)
(*                  closed): Next(); nil -> return (currentState, nil),    *)
(*                  else the next state becomes current and its            *)
(*                  transition goroutine is started                        *)
(*    NextFailed    ... Next() returned an error -> return (nil, err)      *)
(*    InitFailed    case err := <-onStateDone with err # nil -> return     *)
(*    ExitCancelled case <-ctx.Done() -> return (nil, ctx.Err())           *)
(*  transition goroutine of state k (asyncStateTransition):                *)
(*    InitiateOk    Initiate(ctx) returned nil; the 100 ms ticker starts   *)
(*    InitiateErr   Initiate(ctx) returned an error; onDone <- err blocks  *)
(*                  until the loop takes it                                *)
(*    TickCheck     case <-ticker.C: CanTransition() is true -> close      *)
(*                  (onDone) (a false answer changes nothing)              *)
(*    TickerStop    case <-ctx.Done(): the goroutine ends without a signal *)
(*  environment:                                                           *)
(*    Arrive*       the broadcast channel invokes the handler (push to     *)
(*                  recvChan) while recvCtx is live                        *)
(*    Cancel        the context given to NewAsyncMachine is cancelled or   *)
(*                  times out                                              *)
(*                                                                         *)
(* Go's select picks at random among the ready cases, so HandOffBegin,     *)
(* Transition / InitFailed and ExitCancelled are simply all enabled while  *)
(* the loop selects.  In particular a done signal that was given BEFORE    *)
(* the cancellation may still be taken after it (Transition has no         *)
(* ~ctxDone guard); what can never happen is a transition out of a state   *)
(* whose CanTransition was not reported true (init[cur] = "signalled" is   *)
(* only set by TickCheck) -- e.g. because the goroutine's exit on           *)
(* ctx.Done() were mistaken for a done signal.                             *)
(***************************************************************************)
EXTENDS Integers, Sequences, FiniteSets

CONSTANTS
    N,          \* number of protocol states
    Silent,     \* subset of 1..N: states whose CanTransition is constantly true
    Peers,      \* the other operating members
    MaxDup,     \* retransmissions / duplicates of already sent messages
    MaxForeign, \* messages of senders the states do not accept
    Faults,     \* subset of {"initiate", "next"}
    MayCancel   \* BOOLEAN

VARIABLES
    pc,         \* "idle" | "running" | "returned"
    lp,         \* where the loop is while running: "select" | "receiving" (inside Receive)
    cur,        \* index of currentState
    init,       \* k -> "idle" | "running" | "ticking" | "failed" | "signalled" | "stopped"
    history,    \* type -> sequence of admitted messages (BaseAsyncState.messages)
    queue,      \* recvChan
    ctxDone,    \* the machine's context is done
    registered, \* recvCtx is live (handler registered)
    sent,       \* set of <<type, sender>> the peers have sent so far
    nDup, nForeign,
    visible,    \* k -> history as it was when Initiate(k) started (empty before)
    executed,   \* sequence of states whose transition goroutine was started
    outcome     \* [kind, state]; kind = "running" until Execute returns

vars == <<pc, lp, cur, init, history, queue, ctxDone, registered, sent, nDup, nForeign,
          visible, executed, outcome>>

States == 1..N
Running == [kind |-> "running", state |-> 0]
Empty == [t \in States |-> <<>>]
Msg(t, s, n) == [t |-> t, s |-> s, n |-> n]   \* n = 1 first transmission, 2 a different retransmission, s = 0 foreign sender

Senders(t) == { history[t][j].s : j \in 1..Len(history[t]) }
\* CanTransition of state k, evaluated on the message history
CanTransition(k) == k \in Silent \/ Peers \subseteq Senders(k)

Init ==
    /\ pc = "idle" /\ lp = "select" /\ cur = 1
    /\ init = [k \in States |-> "idle"]
    /\ history = Empty
    /\ queue = <<>>
    /\ ctxDone = FALSE /\ registered = FALSE
    /\ sent = {} /\ nDup = 0 /\ nForeign = 0
    /\ visible = [k \in States |-> Empty]
    /\ executed = <<>>
    /\ outcome = Running

\* asyncStateTransition(ctx, state k): go func() { Initiate(ctx) ... }
StartState(k) ==
    /\ init' = [init EXCEPT ![k] = "running"]
    /\ visible' = [visible EXCEPT ![k] = history]
    /\ executed' = Append(executed, k)

Exec ==
    /\ pc = "idle"
    /\ pc' = "running"
    /\ registered' = ~ctxDone          \* recvCtx is derived from the machine's context
    /\ StartState(1)
    /\ UNCHANGED <<cur, history, queue, ctxDone, sent, nDup, nForeign, outcome, lp>>

Return(o) ==
    /\ pc' = "returned"
    /\ outcome' = o
    /\ registered' = FALSE             \* defer cancelRecvCtx()

\* case msg := <-recvChan: currentState.Receive(msg) entered; the states admit
\* every message of an operating peer
HandOffBegin ==
    /\ pc = "running" /\ lp = "select"
    /\ queue # <<>>
    /\ LET m == Head(queue) IN
       history' = IF m.s \in Peers THEN [history EXCEPT ![m.t] = Append(@, m)] ELSE history
    /\ queue' = Tail(queue)
    /\ lp' = "receiving"
    /\ UNCHANGED <<pc, cur, init, ctxDone, registered, sent, nDup, nForeign, visible, executed, outcome>>

\* Receive returned
HandOffEnd ==
    /\ lp = "receiving"
    /\ lp' = "select"
    /\ UNCHANGED <<pc, cur, init, history, queue, ctxDone, registered, sent, nDup, nForeign, visible, executed, outcome>>

InitiateOk ==
    /\ init[cur] = "running"           \* only the current state can be initiating
    /\ init' = [init EXCEPT ![cur] = "ticking"]
    /\ UNCHANGED <<pc, cur, history, queue, ctxDone, registered, sent, nDup, nForeign, visible, executed, outcome, lp>>

InitiateErr ==
    /\ "initiate" \in Faults
    /\ init[cur] = "running"
    /\ init' = [init EXCEPT ![cur] = "failed"]
    /\ UNCHANGED <<pc, cur, history, queue, ctxDone, registered, sent, nDup, nForeign, visible, executed, outcome, lp>>

\* the ticker fired and CanTransition() returned true
TickCheck ==
    /\ init[cur] = "ticking"
    /\ CanTransition(cur)
    /\ init' = [init EXCEPT ![cur] = "signalled"]
    /\ UNCHANGED <<pc, cur, history, queue, ctxDone, registered, sent, nDup, nForeign, visible, executed, outcome, lp>>

\* the goroutine saw ctx.Done() first
TickerStop ==
    /\ init[cur] = "ticking"
    /\ ctxDone
    /\ init' = [init EXCEPT ![cur] = "stopped"]
    /\ UNCHANGED <<pc, cur, history, queue, ctxDone, registered, sent, nDup, nForeign, visible, executed, outcome, lp>>

Transition ==
    /\ pc = "running" /\ lp = "select"
    /\ init[cur] = "signalled"
    /\ IF cur = N
          THEN /\ Return([kind |-> "final", state |-> cur])
               /\ UNCHANGED <<cur, init, visible, executed>>
          ELSE /\ cur' = cur + 1
               /\ StartState(cur + 1)
               /\ UNCHANGED <<pc, registered, outcome, lp>>
    /\ UNCHANGED <<history, queue, ctxDone, sent, nDup, nForeign, lp>>

NextFailed ==
    /\ "next" \in Faults
    /\ pc = "running" /\ lp = "select"
    /\ init[cur] = "signalled"
    /\ Return([kind |-> "nextErr", state |-> cur])
    /\ UNCHANGED <<cur, init, history, queue, ctxDone, sent, nDup, nForeign, visible, executed, lp>>

InitFailed ==
    /\ pc = "running" /\ lp = "select"
    /\ init[cur] = "failed"
    /\ Return([kind |-> "initErr", state |-> cur])
    /\ UNCHANGED <<cur, init, history, queue, ctxDone, sent, nDup, nForeign, visible, executed, lp>>

ExitCancelled ==
    /\ pc = "running" /\ lp = "select"
    /\ ctxDone
    /\ Return([kind |-> "ctxErr", state |-> cur])
    /\ UNCHANGED <<cur, init, history, queue, ctxDone, sent, nDup, nForeign, visible, executed, lp>>

Cancel ==
    /\ MayCancel
    /\ ~ctxDone
    /\ ctxDone' = TRUE
    /\ registered' = FALSE
    /\ UNCHANGED <<pc, cur, init, history, queue, sent, nDup, nForeign, visible, executed, outcome, lp>>

Push(m) ==
    /\ queue' = IF registered THEN Append(queue, m) ELSE queue
    /\ UNCHANGED <<pc, cur, init, history, ctxDone, registered, visible, executed, outcome, lp>>

\* a peer's message of any type (for the current, an earlier or a later state).
\* The channel retransmits a message until it has been delivered, so an
\* arrival that finds no live registration leaves the message to be sent again.
ArriveNew(t, s) ==
    /\ <<t, s>> \notin sent
    /\ sent' = IF registered THEN sent \cup {<<t, s>>} ELSE sent
    /\ Push(Msg(t, s, 1))
    /\ UNCHANGED <<nDup, nForeign>>

\* another message of the same type from the same peer
ArriveDup(t, s) ==
    /\ <<t, s>> \in sent
    /\ nDup < MaxDup
    /\ nDup' = nDup + 1
    /\ Push(Msg(t, s, 2))
    /\ UNCHANGED <<sent, nForeign>>

\* a message the states' filter rejects
ArriveForeign(t) ==
    /\ nForeign < MaxForeign
    /\ nForeign' = nForeign + 1
    /\ Push(Msg(t, 0, 1))
    /\ UNCHANGED <<sent, nDup>>

Needed == { <<t, s>> : t \in States \ Silent, s \in Peers }

DoArriveNew     == \E t \in States \ Silent, s \in Peers : ArriveNew(t, s)
DoArriveDup     == \E t \in States \ Silent, s \in Peers : ArriveDup(t, s)
DoArriveForeign == \E t \in States : ArriveForeign(t)

Next ==
    \/ Exec \/ HandOffBegin \/ HandOffEnd \/ InitiateOk \/ InitiateErr \/ TickCheck \/ TickerStop
    \/ Transition \/ NextFailed \/ InitFailed \/ ExitCancelled \/ Cancel
    \/ DoArriveNew \/ DoArriveDup \/ DoArriveForeign

Spec == Init /\ [][Next]_vars

\* liveness assumptions: the machine's goroutines keep running and every
\* needed message is eventually sent
FairSpec ==
    /\ Spec
    /\ WF_vars(Exec) /\ WF_vars(HandOffBegin) /\ WF_vars(HandOffEnd) /\ WF_vars(InitiateOk) /\ WF_vars(TickCheck)
    /\ WF_vars(Transition)
    /\ \A t \in States \ Silent, s \in Peers : WF_vars(ArriveNew(t, s))

---------------------------------------------------------------------------
(* Properties *)

IsPrefix(a, b) == Len(a) <= Len(b) /\ SubSeq(b, 1, Len(a)) = a

InitStates == {"idle", "running", "ticking", "failed", "signalled", "stopped"}

TypeOK ==
    /\ pc \in {"idle", "running", "returned"}
    /\ lp \in {"select", "receiving"}
    /\ lp = "receiving" => pc = "running"
    /\ cur \in States
    /\ \A k \in States : init[k] \in InitStates
    /\ ctxDone \in BOOLEAN /\ registered \in BOOLEAN

\* C15: the machine moves on only from a state that finished initiating and
\* whose CanTransition held, one state at a time, never backwards
TransitionGate ==
    [][cur' # cur =>
          /\ cur' = cur + 1
          /\ init[cur] = "signalled"
          /\ CanTransition(cur)
          /\ init'[cur'] = "running"]_vars

\* a state reaches "signalled" only through "ticking": CanTransition is not
\* consulted before Initiate returned nil
SignalAfterInitiate ==
    [][\A k \in States : (init'[k] = "signalled" /\ init[k] # "signalled") =>
            (init[k] = "ticking" /\ k = cur /\ CanTransition(k))]_vars

\* C15: the history only grows (BaseAsyncState never forgets)
HistoryAppendOnly ==
    [][\A t \in States : IsPrefix(history[t], history'[t])]_vars

\* C15: a message admitted before a state started is visible to that state,
\* whatever state was current when it arrived (early messages are retained)
EarlyRetained ==
    \A k \in States :
        /\ \A t \in States : IsPrefix(visible[k][t], history[t])
        /\ init[k] = "idle" => visible[k] = Empty

\* states are executed in order, none skipped, none twice
NoSkip ==
    /\ executed = [j \in 1..Len(executed) |-> j]
    /\ pc # "idle" => Len(executed) = cur
    /\ \A k \in States : (init[k] # "idle") <=> (k <= Len(executed))
    /\ \A k \in States : k < cur => init[k] = "signalled"

\* whatever a state needed was really received: when the machine has left
\* state k, every peer's type-k message is in the history
LeftOnlyWhenComplete ==
    \A k \in States : (k < cur \/ (k = cur /\ init[k] = "signalled")) => CanTransition(k)

\* C15: Execute ends in the final state, or with an error, or cancelled
OutcomeClassified ==
    /\ pc = "returned" <=> outcome # Running
    /\ outcome # Running =>
        /\ outcome.state = cur
        /\ outcome.kind \in {"final", "initErr", "nextErr", "ctxErr"}
        /\ outcome.kind = "final" => (cur = N /\ \A k \in States : init[k] = "signalled")
        /\ outcome.kind = "initErr" => init[cur] = "failed"
        /\ outcome.kind = "nextErr" => init[cur] = "signalled"
        /\ outcome.kind = "ctxErr" => ctxDone
        /\ ~registered

\* nothing changes in the machine after Execute returned
QuietAfterReturn ==
    [][pc = "returned" => (cur' = cur /\ history' = history /\ executed' = executed /\ outcome' = outcome)]_vars

RegisteredIff == registered <=> (pc = "running" /\ ~ctxDone)

\* liveness: all needed messages arrive, nobody cancels, nothing fails ->
\* the final state is reached
ReachesFinal == <>(outcome.kind = "final")
=============================================================================
