------------------------------- MODULE Support -------------------------------
(***************************************************************************)
(* Support counting for a key-generation result or an inactivity claim     *)
(* (C13): which signature messages make a member a supporter, and the      *)
(* threshold gate of the submission.                                       *)
(*                                                                         *)
(* Three implementations share the shape                                   *)
(*    Receive* ; Verify ; Submit                                           *)
(* and differ in the duplicate rule and in the gate:                       *)
(*                                                                         *)
(*  beacon      pkg/beacon/dkg/result                                      *)
(*     resultSigningState.Receive          -> Receive (Accept filter:      *)
(*        shouldAcceptMessage, isValidKeyUsed, sessionID)                  *)
(*     SigningMember.VerifyDKGResultSignatures -> Verify, rule "dropAll":  *)
(*        a sender with more than one accepted message is ignored          *)
(*     SubmittingMember.SubmitDKGResult    -> Submit, gate                 *)
(*        honest + (n - honest) / 2                                        *)
(*  tecdsa      pkg/tecdsa/dkg                                             *)
(*     resultSigningState.Receive (ReceiveToHistory)      -> Receive       *)
(*     receivedMessages (first message of a sender wins) +                 *)
(*     signingMember.verifyDKGResultSignatures            -> Verify,       *)
(*        rule "firstWins"                                                 *)
(*     pkg/tbtc dkgResultSubmitter.SubmitResult           -> Submit, gate  *)
(*        GroupQuorum                                                      *)
(*  inactivity  pkg/protocol/inactivity                                    *)
(*     claimSigningState.Receive, receivedMessages,                        *)
(*     signingMember.verifyInactivityClaimSignatures      -> as tecdsa     *)
(*     pkg/tbtc inactivityClaimSubmitter.SubmitClaim      -> Submit, gate  *)
(*        HonestThreshold                                                  *)
(*                                                                         *)
(* A message is abstracted to                                              *)
(*   sender  claimed member index (may be the receiver itself)             *)
(*   hash    "mine" | "other"    the signed hash equals the receiver's     *)
(*   sig     "valid" | "invalid" | "copy"  the signature verifies for      *)
(*                               (hash, key in the message) / for nobody / *)
(*                               it is the exact byte string of ANOTHER    *)
(*                               member's (src) genuine signature          *)
(*   key     "network" | "other" the key in the message is the key the     *)
(*                               network layer pinned for the sender       *)
(*   origin  "member" | "foreign" the pinned network key belongs to the    *)
(*                               operator seated at the claimed index      *)
(* The harness realizes every class with real keys and signatures (several *)
(* realizations per class: garbage / malformed / other-hash signatures;    *)
(* impostor / outsider / wrong session for "foreign").                     *)
(***************************************************************************)
EXTENDS Integers, Sequences, FiniteSets

CONSTANTS N,            \* group size
          Self,         \* the receiving member
          Protos,       \* subset of {"beacon", "tecdsa", "inactivity"}
          NonOps,       \* set of sets: members marked inactive or disqualified in the group
          Hs,           \* honest thresholds to explore
          Qs,           \* group quorums to explore (tecdsa)
          MaxLen,       \* bound on the number of messages
          SrcMode       \* "abstract" | "concrete" (see Msgs)

VARIABLE par          \* [proto, nonop]: the configuration, fixed in Init

Proto        == par.proto
NonOperating == par.nonop

\* value for NonOps (cfg files cannot write sets of sets)
NonOpsDef == { {}, {N} }

Pars == { [proto |-> p, nonop |-> no] : p \in Protos, no \in NonOps }

\* The submission gate is explored for every (honest threshold h, quorum q,
\* actual size m of the group that signs).  m is the number of members of the
\* wallet (inactivity claim: len(groupMembers), wallets created by a DKG with
\* excluded members have q <= m < N members) resp. of operating members of the
\* DKG group (tECDSA result).  The thresholds are the NOMINAL ones of the
\* group parameters whatever m is: the chain requires them regardless of the
\* wallet's size (EcdsaInactivity.verifyClaim: signaturesCount >=
\* groupThreshold; EcdsaDkgValidator: signaturesCount >= groupThreshold+...,
\* both constants).  The beacon gate reads the chain config only (m = N).
HQM == { t \in Hs \X Qs \X (1..N) :
           /\ t[1] <= t[2] /\ t[2] <= t[3]
           /\ (Proto = "beacon" => t[3] = N) }
HQ == HQM

Rule == IF Proto = "beacon" THEN "dropAll" ELSE "firstWins"

\* NOTE: no dependence on the actual group size m
ThresholdP(proto, h, q) ==
    CASE proto = "beacon"     -> h + (N - h) \div 2
      [] proto = "tecdsa"     -> q
      [] proto = "inactivity" -> h


Senders == 1..N

\* sig = "valid"   : the signature verifies for (hash, key carried in the message)
\* sig = "invalid" : it verifies for nobody (garbage / other hash / malformed)
\* sig = "copy"    : the EXACT signature bytes of member src's genuine signature
\*                   over the same hash (re-broadcast under the sender's own
\*                   index and key): valid for src's key, not for the sender's.
\*                   src = 0 in the abstract mode (the process model does not
\*                   care whose bytes were copied), a member other than the
\*                   sender in the concrete mode (case generation).
BaseMsgs == [sender : Senders, hash : {"mine", "other"}, sig : {"valid", "invalid"},
             key : {"network", "other"}, origin : {"member", "foreign"}, src : {0}]
CopyMsgs == { [sender |-> s, hash |-> h, sig |-> "copy", key |-> "network", origin |-> "member", src |-> a] :
                s \in Senders, h \in {"mine", "other"},
                a \in (IF SrcMode = "abstract" THEN {0} ELSE Senders) }
Msgs == BaseMsgs \cup { m \in CopyMsgs : m.src # m.sender }

\* whose key the signature verifies for (0: nobody's / not the sender's)
ValidFor(m) == CASE m.sig = "valid" -> m.sender
                 [] m.sig = "copy"  -> m.src
                 [] OTHER           -> 0

VARIABLES phase,      \* "signing" | "verified" | "done"
          nrecv,      \* messages received so far
          accepted,   \* sequence of messages that passed the Receive filter
          supporters, \* the signature map's key set after verification
          outcome     \* for every (h, q) of HQ: "none" | "submitted" | "refused"

vars == <<par, phase, nrecv, accepted, supporters, outcome>>

Init == /\ par \in Pars
        /\ phase = "signing" /\ nrecv = 0 /\ accepted = <<>>
        /\ supporters = {} /\ outcome = [hq \in HQ |-> "none"]

\* Receive filter: shouldAcceptMessage (not from self, valid membership of
\* the pinned key at the claimed index, sender operating), isValidKeyUsed.
AcceptP(m, nonop) ==
    /\ m.sender # Self
    /\ m.origin = "member"
    /\ m.sender \notin nonop
    /\ m.key = "network"

Accept(m) == AcceptP(m, NonOperating)

Receive(m) ==
    /\ phase = "signing" /\ nrecv < MaxLen
    /\ nrecv' = nrecv + 1
    /\ accepted' = IF Accept(m) THEN Append(accepted, m) ELSE accepted
    /\ UNCHANGED <<par, phase, supporters, outcome>>

From(acc, s) == { k \in 1..Len(acc) : acc[k].sender = s }
\* the signature must verify for the SENDER's own key, not for somebody else's
Good(m) == m.hash = "mine" /\ m.sig = "valid" /\ ValidFor(m) = m.sender
Min(S) == CHOOSE x \in S : \A y \in S : x <= y

SupportersP(acc, rule) ==
    {Self} \cup
    { s \in Senders :
        /\ From(acc, s) # {}
        /\ IF rule = "dropAll"
              THEN Cardinality(From(acc, s)) = 1 /\ Good(acc[Min(From(acc, s))])
              ELSE Good(acc[Min(From(acc, s))]) }

SupportersOf(acc) == SupportersP(acc, Rule)

\* the accepted message whose signature ends up in the map for supporter s
Witness(acc, s) == Min(From(acc, s))

Verify ==
    /\ phase = "signing"
    /\ phase' = "verified"
    /\ supporters' = SupportersOf(accepted)
    /\ UNCHANGED <<par, nrecv, accepted, outcome>>

Submit ==
    /\ phase = "verified"
    /\ phase' = "done"
    /\ outcome' = [hq \in HQ |->
                     IF Cardinality(supporters) > hq[3] THEN "none"  \* more supporters than members: n/a
                     ELSE IF Cardinality(supporters) >= ThresholdP(Proto, hq[1], hq[2])
                          THEN "submitted" ELSE "refused"]
    /\ UNCHANGED <<par, nrecv, accepted, supporters>>

DoReceive == \E m \in Msgs : Receive(m)

Next == DoReceive \/ Verify \/ Submit
Spec == Init /\ [][Next]_vars

---------------------------------------------------------------------------
TypeOK == /\ phase \in {"signing", "verified", "done"}
          /\ nrecv \in 0..MaxLen /\ Len(accepted) <= nrecv
          /\ supporters \subseteq Senders
          /\ outcome \in [HQ -> {"none", "submitted", "refused"}]

\* C13: the own signature is always part of the set.
SelfSupports == phase # "signing" => Self \in supporters

\* C13: every other supporter is an operating member that signed the same
\* hash with its network key, and the signature verifies.
SupportersSound ==
    phase # "signing" =>
        \A s \in supporters \ {Self} :
            /\ s \notin NonOperating
            /\ \E k \in 1..Len(accepted) :
                  /\ accepted[k].sender = s /\ accepted[k].origin = "member"
                  /\ accepted[k].key = "network" /\ accepted[k].hash = "mine"
                  /\ accepted[k].sig = "valid" /\ ValidFor(accepted[k]) = s

\* C13: at most one signature per member: the map has one entry per
\* supporter, taken from a single accepted message (the witness).
OnePerMember ==
    phase # "signing" =>
        \A s \in supporters \ {Self} : Good(accepted[Witness(accepted, s)])

\* beacon rule: conflicting or repeated accepted messages disqualify the sender
DuplicatesDropped ==
    (Rule = "dropAll" /\ phase # "signing") =>
        \A s \in Senders : Cardinality(From(accepted, s)) > 1 => s \notin supporters

\* C13: submission only with a set that reaches the (nominal) threshold, for
\* every actual group size m.
SubmitGate ==
    phase = "done" => \A hq \in HQ : outcome[hq] = "submitted" =>
                          Cardinality(supporters) >= ThresholdP(Proto, hq[1], hq[2])
RefuseOnlyBelow ==
    phase = "done" => \A hq \in HQ : outcome[hq] = "refused" =>
                          Cardinality(supporters) < ThresholdP(Proto, hq[1], hq[2])

\* nothing that failed the Receive filter is ever stored
AcceptedOnlyFiltered == \A k \in 1..Len(accepted) : Accept(accepted[k])
=============================================================================
