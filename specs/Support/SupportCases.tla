---------------------------- MODULE SupportCases ----------------------------
(* Case generation for C13: histories of signature messages with the        *)
(* specification's verdict on each.  Every state is one case: a set of      *)
(* non-operating members and a history (all histories up to ExhLen messages *)
(* plus the sampled longer ones the engine wrote to sample.ndjson).         *)
(* Emitted per case: which messages pass the Receive filter, the supporter  *)
(* set under both duplicate rules and, per supporter, the position of the   *)
(* message whose signature must be the one in the map.                      *)
(* gates.ndjson: the submission thresholds per protocol and (h, q).         *)
EXTENDS Support, TLC, Json, CSV, IOUtils

CONSTANTS ExhLen

VARIABLE c

Sample == ndJsonDeserialize("sample.ndjson")

Histories == UNION { [1..l -> Msgs] : l \in 0..ExhLen }
                \cup { Sample[k].msgs : k \in 1..Len(Sample) }

\* the process variables of Support are not used here; they get fixed values
CInit == /\ c \in { [nonop |-> no, msgs |-> h] : no \in NonOpsDef, h \in Histories }
         /\ par = CHOOSE p \in Pars : TRUE
         /\ phase = "signing" /\ nrecv = 0 /\ accepted = <<>>
         /\ supporters = {} /\ outcome = [hq \in HQ |-> "none"]
CNext == UNCHANGED <<c, vars>>
CSpec == CInit /\ [][CNext]_<<c, vars>>

RECURSIVE AccIdx(_, _, _)
AccIdx(h, no, k) ==
    IF k > Len(h) THEN <<>>
    ELSE IF AcceptP(h[k], no) THEN <<k>> \o AccIdx(h, no, k + 1) ELSE AccIdx(h, no, k + 1)

Acc(h, no) == LET ix == AccIdx(h, no, 1) IN [j \in 1..Len(ix) |-> h[ix[j]]]

Verdict(rule) ==
    LET ix  == AccIdx(c.msgs, c.nonop, 1)
        acc == [j \in 1..Len(ix) |-> c.msgs[ix[j]]]
        sup == SupportersP(acc, rule)
    IN { [m |-> s, at |-> IF s = Self THEN 0 ELSE ix[Witness(acc, s)]] : s \in sup }

\* the case invariants, evaluated on the emitted data as well
CaseSound ==
    \A rule \in {"dropAll", "firstWins"} :
        \A v \in Verdict(rule) :
            v.m # Self => /\ c.msgs[v.at].sender = v.m /\ c.msgs[v.at].hash = "mine"
                          /\ c.msgs[v.at].sig = "valid" /\ ValidFor(c.msgs[v.at]) = v.m
                          /\ c.msgs[v.at].key = "network"
                          /\ c.msgs[v.at].origin = "member" /\ v.m \notin c.nonop

Emit ==
    CSVWrite("%1$s", <<ToJson([nonop |-> c.nonop, msgs |-> c.msgs,
                               accepted |-> [k \in 1..Len(c.msgs) |-> AcceptP(c.msgs[k], c.nonop)],
                               dropAll |-> Verdict("dropAll"),
                               firstWins |-> Verdict("firstWins")])>>, "supportcases.ndjson")

Gates ==
    { [proto |-> p, n |-> N, h |-> h, q |-> q, m |-> m, threshold |-> ThresholdP(p, h, q)] :
        p \in Protos, h \in Hs, q \in Qs, m \in 1..N }   \* all triples; the harness uses m >= q (beacon: m = N)
    \cup
    \* the tbtc group parameters used on mainnet (100 / 90 / 51), every legal wallet size
    { [proto |-> p, n |-> 100, h |-> 51, q |-> 90, m |-> m, threshold |-> ThresholdP(p, 51, 90)] :
        p \in Protos \cap {"tecdsa", "inactivity"}, m \in 90..100 }

EmitGates == CSVWrite("%1$s", <<ToJson(Gates)>>, "gates.ndjson")
=============================================================================
