SPECIFICATION Spec
CONSTANTS
  N = 4
  Self = 1
  Protos = {"beacon", "tecdsa", "inactivity"}
  NonOps <- NonOpsDef
  Hs = {1, 2, 3, 4}
  Qs = {2, 3, 4}
  MaxLen = 4
  SrcMode = "abstract"
INVARIANTS TypeOK SelfSupports SupportersSound OnePerMember DuplicatesDropped SubmitGate RefuseOnlyBelow AcceptedOnlyFiltered
