SPECIFICATION Spec
CONSTANTS
  N = 4
  Self = 1
  Protos = {"beacon", "tecdsa", "inactivity"}
  NonOps <- NonOpsDef
  Hs = {2, 3}
  Qs = {3, 4}
  MaxLen = 3
  SrcMode = "abstract"
INVARIANTS TypeOK SelfSupports SupportersSound OnePerMember DuplicatesDropped SubmitGate RefuseOnlyBelow AcceptedOnlyFiltered
