SPECIFICATION GSpec
CONSTANTS
  L = 2016
  BigEpoch = 392
  Offsets <- MCOffsets
  Factors <- MCFactors
  Diffs <- MCDiffs
  Confs <- MCConfs
  LowDiffs <- MCLowDiffs
  LowConfs <- MCLowConfs
  Race = FALSE
INVARIANTS Emit
