------------------------ MODULE MC_SpvConfirmations ------------------------
EXTENDS SpvConfirmations
MCOffsets == -8..8
MCFactors == 1..8
MCDiffs   == 1..6
MCDiffsQuick == {1, 2, 3, 5}
MCConfs   == {0, 1, 6, 50}
MCConfsQuick == {6}
MCLowDiffs == {1, 2, 5}
MCLowDiffsQuick == {2, 5}
MCLowConfs == {0, 1, 50, 2100}
MCLowConfsQuick == {0, 1, 2100}
MCDiffsRace == {2, 3}
MCLowDiffsRace == {2}
MCLowConfsRace == {1}
=============================================================================
