SPECIFICATION GSpec
CONSTANTS
  L = 2016
  BigEpoch = 392
  Offsets <- MCOffsets
  Factors <- MCFactors
  Diffs <- MCDiffsQuick
  Confs <- MCConfsQuick
  LowDiffs <- MCLowDiffsQuick
  LowConfs <- MCLowConfsQuick
  Race = FALSE
INVARIANTS Emit
