-------------------------- MODULE SpvConfirmations --------------------------
(***************************************************************************)
(* Required SPV confirmations: pkg/maintainer/spv/spv.go getProofInfo.     *)
(*                                                                         *)
(* The function is a decision function over the answers of five queries:   *)
(*   btcChain.GetLatestBlockHeight            -> QueryLatest               *)
(*   btcChain.GetTransactionConfirmations     -> QueryConfirmations        *)
(*   spvChain.TxProofDifficultyFactor         -> QueryFactor               *)
(*   btcDiffChain.CurrentEpoch                -> QueryEpoch                *)
(*   (classification of the nominal range)    -> Classify                  *)
(*   btcDiffChain.GetCurrentAndPrevEpochDifficulty (spanning proofs only)  *)
(*                                            -> QueryDifficulties         *)
(*   (arithmetic on the difficulties)         -> Compute                   *)
(* Every query can fail (errAt), which ends the call with an error.        *)
(*                                                                         *)
(* The input space is enumerated in Init: the proof's start block is       *)
(* placed `off` blocks around the first block of epoch ce + d, where ce is *)
(* the relay's current epoch.  Two definitions of the answer are given:    *)
(*   - the DECLARATIVE one (Class, MinHeaders): what the on-chain Bridge   *)
(*     requires - the accumulated difficulty of the headers must reach     *)
(*     factor x the difficulty of the first header, every header must be   *)
(*     at the relay's current or previous epoch difficulty - and the       *)
(*     smallest number of headers that achieves it;                        *)
(*   - the CODED one (the steps below): the arithmetic of getProofInfo     *)
(*     transcribed statement by statement.                                 *)
(* TLC compares them on the whole space (sufficiency, minimality,          *)
(* classification); the harness compares the real function with the        *)
(* declarative one.                                                        *)
(*                                                                         *)
(* CONSTANT Race = TRUE adds the hazard step MineBetween: a Bitcoin block  *)
(* arrives between the two Bitcoin queries, so the confirmations answer    *)
(* is one ahead of the height answer (the function derives the start block *)
(* from two non-atomic reads).  Used by MC_Race only, model level.         *)
(***************************************************************************)
EXTENDS Integers, Sequences, FiniteSets

CONSTANTS L,            \* difficulty epoch length (2016)
          BigEpoch,     \* relay epoch used for the main input space
          Offsets,      \* start offsets around an epoch's first block
          Factors,      \* txProofDifficultyFactor values
          Diffs,        \* epoch difficulties
          Confs,        \* accumulated confirmations, main space
          LowDiffs,     \* difficulties / confirmations used for the relay's first epochs
          LowConfs,
          Race          \* hazard: a block is mined between the two Bitcoin queries

Queries == {"latest", "confirmations", "factor", "epoch", "difficulties"}

VARIABLES
    \* ---- inputs (fixed by Init)
    ce,        \* relay's current epoch
    d,         \* the start is placed around the first block of epoch ce + d
    off,       \* ... at this offset
    factor,    \* txProofDifficultyFactor
    prevD, curD,  \* relay's previous / current epoch difficulty
    conf,      \* confirmations of the transaction when the call starts
    errAt,     \* the query that fails ("none": no failure)
    \* ---- the Bitcoin chain while the call runs
    height,    \* latest block height
    \* ---- the call
    pc,        \* next step of getProofInfo
    view,      \* local variables of getProofInfo
    asked,     \* set of queries issued
    result     \* what the call returned

inputs == <<ce, d, off, factor, prevD, curD, conf, errAt>>
vars == <<ce, d, off, factor, prevD, curD, conf, errAt, height, pc, view, asked, result>>

---------------------------------------------------------------------------
(* The transaction's real position and the declarative answer.             *)

TxBlock == (ce + d) * L + off          \* block holding the transaction (conf >= 1);
                                       \* for conf = 0 the block it would enter next
Latest0 == TxBlock + conf - 1          \* chain tip when the call starts

Epoch(b) == b \div L

\* difficulty of block b as the relay knows it (0: not known to the relay)
DiffAt(b) == IF Epoch(b) = ce THEN curD
             ELSE IF Epoch(b) = ce - 1 THEN prevD
             ELSE 0
Known(b) == b >= 0 /\ DiffAt(b) > 0

Nominal(start, f) == start .. (start + f - 1)

\* classification of the nominal proof range start .. start + factor - 1
Class(start, f) ==
    IF \A b \in Nominal(start, f) : b >= 0 /\ Epoch(b) = ce THEN "current"
    ELSE IF \A b \in Nominal(start, f) : b >= 0 /\ Epoch(b) = ce - 1 THEN "previous"
    ELSE IF start >= 0 /\ Epoch(start) = ce - 1 /\ \A b \in Nominal(start, f) : Known(b) THEN "spanning"
    ELSE "outside"

RECURSIVE Acc(_, _)
Acc(b, m) == IF m <= 0 THEN 0 ELSE DiffAt(b) + Acc(b + 1, m - 1)

\* what the Bridge asks for: factor x the difficulty of the first header
Target(start, f) == f * DiffAt(start)

MaxHeaders == 60
\* least number of headers from `start` whose accumulated difficulty reaches the target
MinHeaders(start, f) ==
    CHOOSE m \in 1..MaxHeaders :
        /\ Acc(start, m) >= Target(start, f)
        /\ \A k \in 1..(m - 1) : Acc(start, k) < Target(start, f)

Needed(q, start, f) == q # "difficulties" \/ Class(start, f) = "spanning"

ErrResult  == [err |-> TRUE,  within |-> FALSE, acc |-> 0, req |-> 0]
SkipResult == [err |-> FALSE, within |-> FALSE, acc |-> 0, req |-> 0]

\* the specified answer for a consistent view (start block, confirmations c)
Expected(start, f, c) ==
    IF errAt # "none" /\ Needed(errAt, start, f) THEN ErrResult
    ELSE IF Class(start, f) = "outside" THEN SkipResult
    ELSE [err |-> FALSE, within |-> TRUE, acc |-> c, req |-> MinHeaders(start, f)]

---------------------------------------------------------------------------
Init ==
    /\ \/ \* main space: relay far from genesis
          /\ ce = BigEpoch /\ d \in -2..2 /\ off \in Offsets /\ factor \in Factors
          /\ prevD \in Diffs /\ curD \in Diffs /\ conf \in Confs /\ errAt = "none"
       \/ \* relay at its first epochs (no previous epoch / previous epoch 0), odd confirmations
          /\ ce \in {0, 1} /\ d \in -1..2 /\ off \in Offsets /\ factor \in {1, 2, 6, 8}
          /\ prevD \in LowDiffs /\ curD \in LowDiffs /\ conf \in LowConfs /\ errAt = "none"
       \/ \* failing queries
          /\ ce = BigEpoch /\ d \in -1..1 /\ off \in Offsets /\ factor \in {2, 6}
          /\ prevD \in {2, 3} /\ curD \in {2, 3} /\ conf \in {6} /\ errAt \in Queries
    /\ TxBlock >= 0 /\ Latest0 >= 0
    /\ height = Latest0
    /\ pc = "latest" /\ asked = {} /\ result = [status |-> "pending"]
    /\ view = [latest |-> 0, confs |-> 0, start |-> 0, class |-> "none", nPrev |-> 0]

Fail(q) == errAt = q

Return(r) == /\ pc' = "done" /\ result' = r

\* latestBlockHeight, err := btcChain.GetLatestBlockHeight()
QueryLatest ==
    /\ pc = "latest" /\ asked' = asked \cup {"latest"}
    /\ IF Fail("latest") THEN Return(ErrResult) /\ UNCHANGED view
       ELSE /\ view' = [view EXCEPT !.latest = height]
            /\ pc' = "confirmations" /\ UNCHANGED result
    /\ UNCHANGED <<inputs, height>>

\* hazard: a block is mined between the two Bitcoin queries
MineBetween ==
    /\ Race /\ pc = "confirmations" /\ height = Latest0
    /\ height' = height + 1
    /\ UNCHANGED <<inputs, pc, view, asked, result>>

\* accumulatedConfirmations, err := btcChain.GetTransactionConfirmations(hash)
\* (an Electrum server answers tip - txBlock + 1 for a mined transaction)
QueryConfirmations ==
    /\ pc = "confirmations" /\ asked' = asked \cup {"confirmations"}
    /\ IF Fail("confirmations") THEN Return(ErrResult) /\ UNCHANGED view
       ELSE /\ view' = [view EXCEPT !.confs = IF conf = 0 THEN 0 ELSE height - TxBlock + 1]
            /\ pc' = "factor" /\ UNCHANGED result
    /\ UNCHANGED <<inputs, height>>

\* txProofDifficultyFactor, err := spvChain.TxProofDifficultyFactor()
\* proofStartBlock := latestBlockHeight - accumulatedConfirmations + 1
QueryFactor ==
    /\ pc = "factor" /\ asked' = asked \cup {"factor"}
    /\ IF Fail("factor") THEN Return(ErrResult) /\ UNCHANGED view
       ELSE /\ view' = [view EXCEPT !.start = view.latest - view.confs + 1]
            /\ pc' = "epoch" /\ UNCHANGED result
    /\ UNCHANGED <<inputs, height>>

\* currentEpoch, err := btcDiffChain.CurrentEpoch(); previousEpoch := currentEpoch - 1
\* followed by the three range tests on the epochs of the first and the last nominal block
QueryEpoch ==
    /\ pc = "epoch" /\ asked' = asked \cup {"epoch"}
    /\ IF Fail("epoch") THEN Return(ErrResult) /\ UNCHANGED view
       ELSE LET se == Epoch(view.start)
                ee == Epoch(view.start + factor - 1)
                \* uint64 arithmetic: for ce = 0 previousEpoch wraps to 2^64-1, which no block's epoch equals
                pe == IF ce = 0 THEN -7 ELSE ce - 1
                cl == IF se = ce /\ ee = ce THEN "current"
                      ELSE IF se = pe /\ ee = pe THEN "previous"
                      ELSE IF se = pe /\ ee = ce THEN "spanning"
                      ELSE "outside"
            IN /\ view' = [view EXCEPT !.class = cl]
               /\ IF cl \in {"current", "previous"}
                     THEN Return([err |-> FALSE, within |-> TRUE, acc |-> view.confs, req |-> factor])
                  ELSE IF cl = "outside" THEN Return(SkipResult)
                  ELSE pc' = "difficulties" /\ UNCHANGED result
    /\ UNCHANGED <<inputs, height>>

\* currentEpochDifficulty, previousEpochDifficulty, err := btcDiffChain.GetCurrentAndPrevEpochDifficulty()
\* and the arithmetic of the spanning branch
QueryDifficulties ==
    /\ pc = "difficulties" /\ asked' = asked \cup {"difficulties"}
    /\ IF Fail("difficulties") THEN Return(ErrResult) /\ UNCHANGED view
       ELSE LET total   == prevD * factor                     \* totalDifficultyRequired
                nPrev   == L - (view.start % L)               \* numberOfBlocksPreviousEpoch
                fromCur == total - nPrev * prevD              \* totalDifficultyCurrentEpoch
                q       == fromCur \div curD                  \* DivMod
                r       == fromCur % curD
                nCur    == IF r > 0 THEN q + 1 ELSE q         \* numberOfBlocksCurrentEpoch
            IN /\ view' = [view EXCEPT !.nPrev = nPrev]
               /\ Return([err |-> FALSE, within |-> TRUE, acc |-> view.confs, req |-> nPrev + nCur])
    /\ UNCHANGED <<inputs, height>>

Next == QueryLatest \/ MineBetween \/ QueryConfirmations \/ QueryFactor \/ QueryEpoch \/ QueryDifficulties

Spec == Init /\ [][Next]_vars

---------------------------------------------------------------------------
Done == pc = "done"
Raced == height # Latest0

\* the answer the function owes for the transaction's real position
Owed == Expected(TxBlock, factor, IF conf = 0 THEN 0 ELSE height - TxBlock + 1)

TypeOK ==
    /\ pc \in {"latest", "confirmations", "factor", "epoch", "difficulties", "done"}
    /\ asked \subseteq Queries
    /\ Done => result \in [err : BOOLEAN, within : BOOLEAN, acc : Nat, req : Nat]

\* C32: the range is classified correctly (no race: the view is consistent)
ClassificationCorrect ==
    (Done /\ ~result.err /\ ~Raced) =>
        /\ view.class = Class(TxBlock, factor)
        /\ result.within = (Class(TxBlock, factor) # "outside")

\* C32: the required headers reach factor x the first header's difficulty ...
Sufficient ==
    (Done /\ result.within /\ ~Raced) =>
        Acc(TxBlock, result.req) >= Target(TxBlock, factor)

\* ... and one header less would not
Minimal ==
    (Done /\ result.within /\ ~Raced) =>
        /\ result.req >= 1
        /\ Acc(TxBlock, result.req - 1) < Target(TxBlock, factor)

\* every required header is at a difficulty the relay knows (otherwise the Bridge reverts)
HeadersKnown ==
    (Done /\ result.within /\ ~Raced) =>
        \A b \in TxBlock .. (TxBlock + result.req - 1) : Known(b)

\* coded == declarative, field by field
MatchesDeclarative == (Done /\ ~Raced) => result = Owed

\* a failing query that was issued yields an error; errors only come from failing queries
ErrorsPropagate ==
    Done => (result.err <=> (errAt # "none" /\ errAt \in asked))

\* the difficulties are only fetched for spanning proofs
DifficultiesOnlyWhenSpanning ==
    ("difficulties" \in asked /\ ~Raced) => Class(TxBlock, factor) = "spanning"

\* the accumulated confirmations are passed through unchanged; skipped ranges report zeros
PassThrough ==
    Done => /\ (result.within => result.acc = view.confs)
            /\ (~result.within => result.acc = 0 /\ result.req = 0)

\* a difficulty drop never lowers the requirement below the factor, a rise never lifts it above
Monotone ==
    (Done /\ result.within /\ ~Raced) =>
        /\ (curD <= prevD => result.req >= factor)
        /\ (curD >= prevD => result.req <= factor)
        /\ (curD = prevD => result.req = factor)

\* an unconfirmed transaction is never reported provable
UnconfirmedNeverProvable ==
    (Done /\ conf = 0 /\ result.within) => result.acc < result.req

\* What proveTransactions does with the answer (spv.go proveTransactions):
\* error -> the round is aborted; range outside -> skipped; too few confirmations -> skipped;
\* otherwise the proof is assembled with `req` headers and submitted.
Decision(r) == IF r.err THEN "error"
               ELSE IF ~r.within THEN "skip-range"
               ELSE IF r.acc < r.req THEN "skip-confirmations"
               ELSE "submit"

\* a submission happens only when the mined headers on top of the transaction reach the target
SubmitOnlyWhenProvable ==
    (Done /\ ~Raced /\ Decision(result) = "submit") =>
        /\ conf >= 1
        /\ TxBlock + result.req - 1 <= height            \* all required headers are mined
        /\ Acc(TxBlock, result.req) >= Target(TxBlock, factor)

\* ... and is not delayed beyond the first moment the target is reached
SubmitAsSoonAsProvable ==
    (Done /\ ~Raced /\ Decision(result) = "skip-confirmations") =>
        Acc(TxBlock, result.acc) < Target(TxBlock, factor)

\* hazard statement (expected to FAIL with Race = TRUE): even if a block arrives
\* between the two Bitcoin queries the answer is the one owed for the real position
RaceFree == Done => result = Owed
=============================================================================
