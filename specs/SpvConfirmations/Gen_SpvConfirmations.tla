------------------------ MODULE Gen_SpvConfirmations ------------------------
(* Case generation: one JSON document per input of the enumerated space,    *)
(* with the DECLARATIVE answer (Owed) the real getProofInfo must return.    *)
EXTENDS MC_SpvConfirmations, TLC, Json, CSV, IOUtils
\* generation needs the inputs only: the initial states are the cases, there is no step
GSpec == Init /\ [][FALSE]_vars
Emit ==
    (pc = "latest") => CSVWrite("%1$s", <<ToJson([
                ce |-> ce, d |-> d, off |-> off, factor |-> factor, prevD |-> prevD, curD |-> curD,
                conf |-> conf, errAt |-> errAt,
                txBlock |-> TxBlock, latest |-> Latest0,
                class |-> Class(TxBlock, factor),
                expected |-> Owed, decision |-> Decision(Owed)])>>, "cases.ndjson")
=============================================================================
