SPECIFICATION Spec
CONSTANTS
  L = 2016
  BigEpoch = 392
  Offsets <- MCOffsets
  Factors <- MCFactors
  Diffs <- MCDiffsRace
  Confs <- MCConfsQuick
  LowDiffs <- MCLowDiffsRace
  LowConfs <- MCLowConfsRace
  Race = TRUE
INVARIANTS TypeOK RaceFree
