------------------------------ MODULE TraceKit ------------------------------
(***************************************************************************)
(* Helpers shared by every Trace_* specification.                          *)
(*                                                                         *)
(* A recorded trace is an ndjson file (one event per line) read with       *)
(* ndJsonDeserialize.  The trace spec keeps a cursor `l`; each trace       *)
(* action consumes line l.  Acceptance is by POSTCONDITION on a            *)
(* high-water mark held in TLC register 1 (updated from a CONSTRAINT), so  *)
(* that specs with silent / branching steps are handled too.  Run with     *)
(* -workers 1.                                                             *)
(***************************************************************************)
EXTENDS Naturals, Sequences, TLC, Json

TraceFile == "trace.ndjson"
Trace == ndJsonDeserialize(TraceFile)

\* call in Init:  /\ HwmInit
HwmInit == TLCSet(1, 1)

\* CONSTRAINT: records the furthest cursor position reached.
HwmConstraint(l) == IF l > TLCGet(1) THEN TLCSet(1, l) ELSE TRUE

\* POSTCONDITION: every line was consumed on some path.
HwmAccepted ==
    IF TLCGet(1) = Len(Trace) + 1 THEN TRUE
    ELSE /\ PrintT(<<"VERIF_HWM", TLCGet(1)>>)
         /\ PrintT(<<"VERIF_REJECTED_AT", IF TLCGet(1) <= Len(Trace) THEN Trace[TLCGet(1)] ELSE "eof">>)
         /\ FALSE

Field(e, k, d) == IF k \in DOMAIN e THEN e[k] ELSE d
=============================================================================
