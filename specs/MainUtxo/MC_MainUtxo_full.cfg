SPECIFICATION Spec
CONSTANTS
  MaxTxs = 2
  OutShapes <- OutsFull
  InShapes <- InsFull
  Faults = {"none"}
INVARIANTS TypeOK LookupCorrect MainIsWalletOutput SyncCorrect SyncOnlyAfterLookup FaultsSurface
