---------------------------- MODULE Gen_MainUtxo ----------------------------
(* Case generation: every scenario of the configured space with the results *)
(* the specification expects from DetermineWalletMainUtxo and, when the     *)
(* lookup succeeds, from EnsureWalletSyncedBetweenChains called with its    *)
(* result (the way every wallet action uses the two functions), plus the    *)
(* chain views the fake Bitcoin chain of the harness must present.  Written *)
(* in one batch; the generation model has a single state.                   *)
EXTENDS MC_MainUtxo, TLC, Json, SequencesExt, Randomization

CONSTANT SampleSize   \* 0: all scenarios; n: all shorter scenarios plus n random ones of full length (TLC -seed)

Case(s, reg, f) ==
    LET m == DetermineResult(s, reg, f)
        h == History(s)
    IN [ txs |-> s, registered |-> reg, fault |-> f,
         main |-> m,
         sync |-> IF m.err = "" THEN SyncResult(s, f, m) ELSE "-",
         history |-> [i \in 1..Len(h) |-> h[i][1]],
         confirmedUtxos |-> ConfirmedUtxos(s),
         mempoolUtxos |-> MempoolUtxos(s) ]

Picked ==
    LET all == Scenarios(MaxTxs) IN
    IF SampleSize = 0 THEN all
    ELSE { s \in all : Len(s) < MaxTxs } \cup RandomSubset(SampleSize, { s \in all : Len(s) = MaxTxs })

Cases == UNION { { Case(s, reg, f) : reg \in Registrations(s), f \in Faults } : s \in Picked }

GInit == /\ txs = <<>> /\ registered = [kind |-> "none", t |-> 0, o |-> 0] /\ fault = "none"
         /\ pc = "done" /\ main = MainErr("pending") /\ sync = "-"
GNext == FALSE /\ UNCHANGED vars
GSpec == GInit /\ [][GNext]_vars

EmitAll == ndJsonSerialize("cases.ndjson", SetToSeq(Cases))
=============================================================================
