SPECIFICATION Spec
CONSTANTS
  MaxTxs = 3
  OutShapes <- OutsMid
  InShapes <- InsMid
  Faults = {"none"}
INVARIANTS TypeOK LookupCorrect MainIsWalletOutput SyncCorrect SyncOnlyAfterLookup FaultsSurface
