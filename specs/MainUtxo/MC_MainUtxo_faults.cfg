SPECIFICATION Spec
CONSTANTS
  MaxTxs = 2
  OutShapes <- OutsSmall
  InShapes <- InsSmall
  Faults = {"none", "getWallet", "txHashes", "getTx", "utxos", "mempoolUtxos", "depositRequest", "movedRequest"}
INVARIANTS TypeOK LookupCorrect MainIsWalletOutput SyncCorrect SyncOnlyAfterLookup FaultsSurface
