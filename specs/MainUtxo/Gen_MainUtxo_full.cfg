SPECIFICATION GSpec
CONSTANTS
  MaxTxs = 2
  OutShapes <- OutsFull
  InShapes <- InsFull
  SampleSize = 0
  Faults = {"none"}
INVARIANTS EmitAll
