SPECIFICATION GSpec
CONSTANTS
  MaxTxs = 2
  OutShapes <- OutsFull
  InShapes <- InsFull
  Faults = {"none"}
INVARIANTS EmitAll
