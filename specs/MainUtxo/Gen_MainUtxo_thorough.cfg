SPECIFICATION GSpec
CONSTANTS
  MaxTxs = 3
  OutShapes <- OutsMid
  InShapes <- InsMid
  SampleSize = 6000
  Faults = {"none"}
INVARIANTS EmitAll
