SPECIFICATION GSpec
CONSTANTS
  MaxTxs = 3
  OutShapes <- OutsMid
  InShapes <- InsMid
  Faults = {"none"}
INVARIANTS EmitAll
