SPECIFICATION GSpec
CONSTANTS
  MaxTxs = 2
  OutShapes <- OutsMid
  InShapes <- InsMid
  Faults = {"none"}
INVARIANTS EmitAll
