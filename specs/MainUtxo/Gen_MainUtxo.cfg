SPECIFICATION GSpec
CONSTANTS
  MaxTxs = 2
  OutShapes <- OutsMid
  InShapes <- InsMid
  SampleSize = 0
  Faults = {"none"}
INVARIANTS EmitAll
