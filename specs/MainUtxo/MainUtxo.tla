------------------------------- MODULE MainUtxo -------------------------------
(***************************************************************************)
(* Main UTXO lookup and Bitcoin/host-chain sync check of a tBTC wallet     *)
(* (/repo/pkg/tbtc/wallet.go):                                             *)
(*                                                                         *)
(*   DetermineWalletMainUtxo           -> action Determine                 *)
(*   EnsureWalletSyncedBetweenChains   -> action EnsureSynced              *)
(*                                                                         *)
(* A scenario is                                                           *)
(*   txs        the Bitcoin transactions around the wallet, confirmed ones *)
(*              (in block order) followed by mempool ones; each has        *)
(*                outs : sequence of "w" (pays the wallet, P2PKH or P2WPKH)*)
(*                       / "o" (pays somebody else)                        *)
(*                ins  : shape of its inputs, one letter per input:        *)
(*                       D = a revealed deposit, M = a moved funds sweep   *)
(*                       request, S = neither (spam / unrelated),          *)
(*                       R = spends output `ref` of an earlier transaction,*)
(*                       Q = spends `ref`, which the Bridge knows as a     *)
(*                           moved funds sweep request                     *)
(*                ref  : the earlier output spent by R / Q (or NoRef)      *)
(*   registered the main UTXO hash the Bridge holds for the wallet:        *)
(*              none / hash of an output (t, o) with its true value /      *)
(*              same outpoint with a wrong value / a hash of nothing       *)
(*   fault      which chain call fails (error-path coverage), or "none"    *)
(*                                                                         *)
(* The Bitcoin chain interface is modelled as documented in                *)
(* pkg/bitcoin/chain.go: history = confirmed transactions paying the       *)
(* wallet, ascending; confirmed UTXOs = wallet outputs of confirmed        *)
(* transactions not used as input of any confirmed or mempool transaction, *)
(* ascending; mempool UTXOs likewise for mempool transactions.             *)
(***************************************************************************)
EXTENDS Integers, Sequences, FiniteSets

CONSTANTS
    MaxTxs,       \* max number of transactions in a scenario
    OutShapes,    \* set of sequences over {"w", "o"}
    InShapes,     \* set of sequences over {"D", "M", "S", "R", "Q"}
    Faults        \* subset of FaultKinds, must contain "none"

FaultKinds == {"none", "getWallet", "txHashes", "getTx", "utxos", "mempoolUtxos", "depositRequest", "movedRequest"}

NoRef == <<0, 0>>
Ref(t, o) == <<t, o>>

HasRefInput(shape) == \E n \in 1..Len(shape) : shape[n] \in {"R", "Q"}

\* all outputs of transactions 1..n that pay the wallet
WalletOutsUpTo(s, n) == { r \in (1..n) \X (1..2) : r[2] <= Len(s[r[1]].outs) /\ s[r[1]].outs[r[2]] = "w" }

TxRecords(prevOuts) ==
    { x \in [where : {"confirmed", "mempool"}, outs : OutShapes, ins : InShapes, ref : prevOuts \cup {NoRef}] :
          HasRefInput(x.ins) <=> x.ref # NoRef }

\* scenarios: confirmed transactions precede mempool ones; no output is spent twice;
\* a confirmed transaction only spends outputs of confirmed transactions
RECURSIVE Scenarios(_)
Scenarios(n) ==
    IF n = 0 THEN {<<>>}
    ELSE LET shorter == Scenarios(n - 1) IN
         shorter \cup
         UNION { { Append(s, x) : x \in { y \in TxRecords(WalletOutsUpTo(s, Len(s))) :
                                             /\ (Len(s) > 0 /\ s[Len(s)].where = "mempool") => y.where = "mempool"
                                             /\ \A t \in 1..Len(s) : y.ref = NoRef \/ s[t].ref # y.ref
                                             /\ (y.where = "confirmed" /\ y.ref # NoRef) => s[y.ref[1]].where = "confirmed" } }
                 : s \in { z \in shorter : Len(z) = n - 1 } }

AllOuts(txs) == { r \in (1..Len(txs)) \X (1..2) : r[2] <= Len(txs[r[1]].outs) }

Registrations(txs) ==
    {[kind |-> "none", t |-> 0, o |-> 0], [kind |-> "bogus", t |-> 0, o |-> 0]}
    \cup { [kind |-> "out", t |-> r[1], o |-> r[2]] : r \in AllOuts(txs) }
    \cup { [kind |-> "wrongvalue", t |-> r[1], o |-> r[2]] :
               r \in { x \in AllOuts(txs) : txs[x[1]].outs[x[2]] = "w" /\ txs[x[1]].where = "confirmed" } }

VARIABLES
    txs, registered, fault,   \* the scenario
    pc,                       \* "determine" -> "sync" -> "done"
    main,                     \* result of Determine: [err, t, o]; t = 0: no main UTXO
    sync                      \* result of EnsureSynced: error label, "" = synced, "-" = not run
vars == <<txs, registered, fault, pc, main, sync>>

---------------------------------------------------------------------------
\* the Bitcoin chain as seen through bitcoin.Chain

IsWallet(s, r)   == s[r[1]].outs[r[2]] = "w"
Spent(s, r)      == \E t \in 1..Len(s) : s[t].ref = r
Confirmed(s, t)  == s[t].where = "confirmed"

\* sequence of the elements of a set of references in ascending (tx, output) order
RECURSIVE SortRefs(_)
SortRefs(S) ==
    IF S = {} THEN <<>>
    ELSE LET m == CHOOSE x \in S : \A y \in S : x[1] < y[1] \/ (x[1] = y[1] /\ x[2] <= y[2])
         IN <<m>> \o SortRefs(S \ {m})

\* GetTxHashesForPublicKeyHash
History(s) == SortRefs({ Ref(t, 0) : t \in { u \in 1..Len(s) : Confirmed(s, u) /\ \E o \in 1..Len(s[u].outs) : s[u].outs[o] = "w" } })
\* GetUtxosForPublicKeyHash / GetMempoolUtxosForPublicKeyHash
ConfirmedUtxos(s) == SortRefs({ r \in AllOuts(s) : IsWallet(s, r) /\ Confirmed(s, r[1]) /\ ~Spent(s, r) })
MempoolUtxos(s)   == SortRefs({ r \in AllOuts(s) : IsWallet(s, r) /\ ~Confirmed(s, r[1]) /\ ~Spent(s, r) })

\* Bridge: what the first input of transaction t refers to
In0Class(s, t) == CASE s[t].ins[1] = "D" -> "deposit"
                    [] s[t].ins[1] \in {"M", "Q"} -> "moved"
                    [] OTHER -> "spam"

\* ComputeMainUtxoHash is injective: the registered hash equals the hash of output r
\* (with its true value) iff it was computed from exactly that output and value
HashMatches(reg, r) == reg.kind = "out" /\ reg.t = r[1] /\ reg.o = r[2]

---------------------------------------------------------------------------
\* DetermineWalletMainUtxo

MainOk(t, o) == [err |-> "", t |-> t, o |-> o]
MainErr(e)   == [err |-> e, t |-> 0, o |-> 0]

\* first wallet output matching the registered hash when scanning the outputs of
\* transaction t in order; 0 if none
MatchIn(s, reg, t) ==
    LET c == { o \in 1..Len(s[t].outs) : s[t].outs[o] = "w" /\ HashMatches(reg, Ref(t, o)) }
    IN IF c = {} THEN 0 ELSE CHOOSE o \in c : \A p \in c : o <= p

\* scan the history from the latest transaction backwards
RECURSIVE ScanHistory(_, _, _, _)
ScanHistory(s, reg, h, i) ==
    IF i = 0 THEN MainErr("notFound")
    ELSE LET t == h[i][1]
             o == MatchIn(s, reg, t)
         IN IF o # 0 THEN MainOk(t, o) ELSE ScanHistory(s, reg, h, i - 1)

DetermineResult(s, reg, f) ==
    IF f = "getWallet" THEN MainErr("getWallet")
    ELSE IF reg.kind = "none" THEN MainOk(0, 0)
    ELSE IF f = "txHashes" THEN MainErr("txHashes")
    ELSE LET h == History(s) IN
         IF Len(h) > 0 /\ f = "getTx" THEN MainErr("getTx")
         ELSE ScanHistory(s, reg, h, Len(h))

---------------------------------------------------------------------------
\* EnsureWalletSyncedBetweenChains

\* fresh wallet: walk over confirmed + mempool UTXOs; only outputs with index 0 can come
\* from a transaction made by the wallet (its first transaction has a single output)
RECURSIVE ScanFresh(_, _, _, _)
ScanFresh(s, f, all, i) ==
    IF i > Len(all) THEN ""
    ELSE LET r == all[i] IN
         IF r[2] # 1 THEN ScanFresh(s, f, all, i + 1)      \* OutputIndex != 0
         ELSE IF f = "getTx" THEN "getTx"
         ELSE IF f = "depositRequest" THEN "depositRequest"
         ELSE IF In0Class(s, r[1]) = "deposit" THEN "depositSweep"
         ELSE IF f = "movedRequest" THEN "movedRequest"
         ELSE IF In0Class(s, r[1]) = "moved" THEN "movedSweep"
         ELSE ScanFresh(s, f, all, i + 1)

SyncResult(s, f, m) ==
    IF f = "utxos" THEN "utxos"
    ELSE LET cu == ConfirmedUtxos(s) IN
         IF m.t # 0 THEN
             IF Len(cu) = 0 THEN "noUtxos"
             ELSE IF \E i \in 1..Len(cu) : cu[i] = Ref(m.t, m.o) THEN "" ELSE "spent"
         ELSE IF f = "mempoolUtxos" THEN "mempoolUtxos"
         ELSE LET all == cu \o MempoolUtxos(s) IN ScanFresh(s, f, all, 1)

---------------------------------------------------------------------------
Init ==
    /\ txs \in Scenarios(MaxTxs)
    /\ registered \in Registrations(txs)
    /\ fault \in Faults
    /\ pc = "determine" /\ main = MainErr("pending") /\ sync = "-"

\* wallet actions call DetermineWalletMainUtxo first ...
Determine ==
    /\ pc = "determine"
    /\ main' = DetermineResult(txs, registered, fault)
    /\ pc' = IF main'.err = "" THEN "sync" ELSE "done"
    /\ UNCHANGED <<txs, registered, fault, sync>>

\* ... and, if it succeeded, EnsureWalletSyncedBetweenChains with its result
EnsureSynced ==
    /\ pc = "sync"
    /\ sync' = SyncResult(txs, fault, main)
    /\ pc' = "done"
    /\ UNCHANGED <<txs, registered, fault, main>>

Next == Determine \/ EnsureSynced
Spec == Init /\ [][Next]_vars

---------------------------------------------------------------------------
\* Invariants (C34), stated declaratively

Done == pc = "done"
NoFault == fault = "none"

TypeOK ==
    /\ pc \in {"determine", "sync", "done"}
    /\ main.err \in {"pending", "", "getWallet", "txHashes", "getTx", "notFound"}
    /\ sync \in {"-", "", "utxos", "noUtxos", "spent", "mempoolUtxos", "getTx", "depositRequest",
                 "depositSweep", "movedRequest", "movedSweep"}

\* the outputs the registered hash can legitimately denote: wallet outputs of confirmed
\* transactions (the history never contains mempool transactions)
Candidates == { r \in AllOuts(txs) : IsWallet(txs, r) /\ Confirmed(txs, r[1]) /\ HashMatches(registered, r) }

\* lookup: the unique wallet output with the registered hash; none if nothing is
\* registered; an error otherwise
LookupCorrect ==
    (pc # "determine" /\ NoFault) =>
        /\ Cardinality(Candidates) <= 1
        /\ registered.kind = "none" => main = MainOk(0, 0)
        /\ (registered.kind # "none" /\ Candidates = {}) => main.err = "notFound"
        /\ \A r \in Candidates : main = MainOk(r[1], r[2])

\* a returned main UTXO is always a wallet output of a confirmed transaction
MainIsWalletOutput ==
    (pc # "determine" /\ main.err = "" /\ main.t # 0) =>
        /\ IsWallet(txs, Ref(main.t, main.o)) /\ Confirmed(txs, main.t)
        /\ HashMatches(registered, Ref(main.t, main.o))

\* outputs of the wallet's own (sweep) transactions among the unspent index-0 outputs
OwnUnspent == { r \in AllOuts(txs) : /\ IsWallet(txs, r) /\ ~Spent(txs, r) /\ r[2] = 1
                                     /\ In0Class(txs, r[1]) \in {"deposit", "moved"} }

\* sync check passes exactly when the main UTXO is unspent (by confirmed and mempool
\* transactions), or, for a fresh wallet, none of its unspent index-0 outputs comes from
\* one of its own sweep transactions
SyncCorrect ==
    (Done /\ NoFault /\ main.err = "") =>
        IF main.t # 0
        THEN (sync = "") <=> ~Spent(txs, Ref(main.t, main.o))
        ELSE (sync = "") <=> OwnUnspent = {}

\* the sync check only runs after a successful lookup
SyncOnlyAfterLookup == (sync # "-") => (main.err = "" /\ Done)

\* a fault makes the operation fail whenever the failing call is actually needed
FaultsSurface ==
    Done =>
        /\ fault = "getWallet" => main.err = "getWallet"
        /\ (fault = "txHashes" /\ registered.kind # "none") => main.err = "txHashes"
        /\ (fault = "utxos" /\ main.err = "") => sync = "utxos"
        /\ (fault = "mempoolUtxos" /\ main.err = "" /\ main.t = 0) => sync = "mempoolUtxos"
=============================================================================
