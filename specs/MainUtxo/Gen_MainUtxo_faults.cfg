SPECIFICATION GSpec
CONSTANTS
  MaxTxs = 2
  OutShapes <- OutsSmall
  InShapes <- InsSmall
  SampleSize = 0
  Faults = {"none", "getWallet", "txHashes", "getTx", "utxos", "mempoolUtxos", "depositRequest", "movedRequest"}
INVARIANTS EmitAll
