SPECIFICATION GSpec
CONSTANTS
  MaxTxs = 2
  OutShapes <- OutsSmall
  InShapes <- InsSmall
  Faults = {"none", "getWallet", "txHashes", "getTx", "utxos", "mempoolUtxos", "depositRequest", "movedRequest"}
INVARIANTS EmitAll
