SPECIFICATION Spec
CONSTANTS
  Seats = {1, 2, 3}
  Included = {1, 3}
  Owner <- OwnerDistinct
  Alphabet <- SmallAlphabet
  TimeoutBlock = 10
  MaxMsgs = 3
  CheckIncluded = FALSE
  AtomicCheck = TRUE
INVARIANTS TypeOK DoneOnlyIncluded
