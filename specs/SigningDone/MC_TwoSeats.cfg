SPECIFICATION Spec
CONSTANTS
  Seats = {1, 2, 3, 4}
  Included = {1, 2, 4}
  Owner <- OwnerTwoSeats
  Alphabet <- FullAlphabet4
  TimeoutBlock = 10
  MaxMsgs = 4
  CheckIncluded = TRUE
  AtomicCheck = TRUE
INVARIANTS TypeOK DoneOnlyIncluded DoneCommonSignature DoneEndBlock DoneJustified
           ConfirmedAuthentic MismatchJustified NoResultUnlessDone CompleteIsStable
PROPERTIES FirstWins OutcomeFinal
