SPECIFICATION GSpec
CONSTANTS
  Seats = {1, 2, 3}
  Included = {1, 3}
  Owner <- OwnerDistinct
  Alphabet <- GenAlphabet
  TimeoutBlock = 10
  MaxMsgs = 3
  CheckIncluded = TRUE
  AtomicCheck = TRUE
INVARIANTS Emit
