---------------------------- MODULE SigningDone ----------------------------
(***************************************************************************)
(* Signing completion ("signing done check") of pkg/tbtc/signing_done.go,  *)
(* as used by signingRetryLoop.start (pkg/tbtc/signing_loop.go).           *)
(*                                                                         *)
(* Code structure mirrored here:                                           *)
(*   signingDoneCheck.listen          installs a receiver on the broadcast *)
(*       channel and a goroutine that, for every received message, runs    *)
(*       isValidDoneMessage and stores the message in doneSigners under    *)
(*       doneSignersMutex                      -> Deliver(m)               *)
(*   signingDoneCheck.isValidDoneMessage                -> Valid(m)        *)
(*   signingDoneCheck.waitUntilAllDone  every 100 ms compares the number   *)
(*       of confirmations with the number of members of the attempt, then  *)
(*       folds the confirmations into (signature, latest end block) or a   *)
(*       "not matching signatures" error        -> Check / ReadLen, Visit, *)
(*                                                 FinishIter              *)
(*       ctx.Done() (the attempt's timeout block) -> Timeout               *)
(*                                                                         *)
(* CONSTANT CheckIncluded selects what the listener requires of a sender:  *)
(*   TRUE   the contract of property C35: only members INCLUDED in the     *)
(*          attempt may confirm;                                           *)
(*   FALSE  any seat of the wallet whose operator key matches may confirm  *)
(*          (group.MembershipValidator.IsValidMembership only).            *)
(* CONSTANT AtomicCheck selects the grain of the waiter's check:           *)
(*   TRUE   the read of the confirmations is one step (reads under the     *)
(*          mutex);                                                        *)
(*   FALSE  hazard grain: len(doneSigners) is read, then the map is        *)
(*          iterated entry by entry while the listener may insert          *)
(*          (Go: an entry inserted during iteration may or may not be      *)
(*          produced).                                                     *)
(***************************************************************************)
EXTENDS Integers, Sequences, FiniteSets

CONSTANTS Seats,          \* member indexes of the wallet's signing group
          Included,       \* seats included in the signing attempt
          Owner,          \* [Seats -> operator key]: who controls each seat
          Alphabet,       \* set of messages the network may deliver
          TimeoutBlock,   \* the attempt's timeout block
          MaxMsgs,        \* bound on the number of deliveries
          CheckIncluded,  \* see above
          AtomicCheck     \* see above

ASSUME Included \subseteq Seats /\ Included # {}

(* A message as seen by the listener:                                      *)
(*   key  operator key of the transport-level sender (authenticated by the *)
(*        network layer; net.Message.SenderPublicKey)                      *)
(*   sid  senderID claimed in the payload                                  *)
(*   msg  TRUE iff payload.message is the message being signed             *)
(*   att  TRUE iff payload.attemptNumber is this attempt                   *)
(*   end  payload.endBlock                                                 *)
(*   sig  payload.signature: "nil" or a signature name                     *)

VARIABLES confirmed,   \* doneSigners: seat -> [sig, end] of the accepted confirmation
          delivered,   \* number of messages processed by the listener
          outcome,     \* "waiting" | "done" | "mismatch" | "timeout": what waitUntilAllDone returned
          resSig,      \* returned signature ("nil" unless done)
          resEnd,      \* returned end block (0 unless done)
          resFrom,     \* seats whose confirmations were folded into the result
          authentic,   \* ghost: [seat, sig, end] of every delivered message that was sent by
                       \* the seat's owner for this message and attempt with a signature and
                       \* an end block within the timeout
          wpc,         \* waiter (hazard grain): "idle" | "iter"
          wstart,      \* seats present when the iteration started
          wseen,       \* seats produced by the iteration so far
          wsig, wend   \* local variables `signature` / `latestEndBlock`

vars == <<confirmed, delivered, outcome, resSig, resEnd, resFrom, authentic,
          wpc, wstart, wseen, wsig, wend>>

Max(S) == CHOOSE x \in S : \A y \in S : y <= x

Init ==
    /\ confirmed = <<>>
    /\ delivered = 0
    /\ outcome = "waiting" /\ resSig = "nil" /\ resEnd = 0 /\ resFrom = {}
    /\ authentic = {}
    /\ wpc = "idle" /\ wstart = {} /\ wseen = {} /\ wsig = "none" /\ wend = 0

---------------------------------------------------------------------------
(* group.MembershipValidator.IsValidMembership(senderID, senderPublicKey)  *)
IsValidMembership(sid, key) == sid \in Seats /\ Owner[sid] = key

(* isValidDoneMessage, in the order of the code.  The duplicate test comes *)
(* first and only sees ACCEPTED confirmations, so an invalid message does  *)
(* not use up the sender's slot.                                           *)
ValidIn(c, m) ==
    /\ m.sid \notin DOMAIN c
    /\ IsValidMembership(m.sid, m.key)
    /\ (CheckIncluded => m.sid \in Included)
    /\ m.msg
    /\ m.att
    /\ m.end <= TimeoutBlock
    /\ m.sig # "nil"

Valid(m) == ValidIn(confirmed, m)

(* doneSigners after the listener processed m *)
Stored(c, m) ==
    IF ValidIn(c, m)
       THEN [s \in DOMAIN c \cup {m.sid} |->
                IF s = m.sid THEN [sig |-> m.sig, end |-> m.end] ELSE c[s]]
       ELSE c

Authentic(m) ==
    /\ IsValidMembership(m.sid, m.key)
    /\ m.msg /\ m.att /\ m.end <= TimeoutBlock /\ m.sig # "nil"

(* One iteration of the listener goroutine.  The goroutine may still       *)
(* process a buffered message after waitUntilAllDone returned (select      *)
(* between messagesChan and receiveCtx.Done()), so the action does not     *)
(* depend on `outcome`.                                                    *)
Deliver(m) ==
    /\ delivered < MaxMsgs
    /\ delivered' = delivered + 1
    /\ confirmed' = Stored(confirmed, m)
    /\ authentic' = IF Authentic(m)
                       THEN authentic \cup {[seat |-> m.sid, sig |-> m.sig, end |-> m.end]}
                       ELSE authentic
    /\ UNCHANGED <<outcome, resSig, resEnd, resFrom, wpc, wstart, wseen, wsig, wend>>

(* expectedSignersCount == len(doneSigners) *)
Complete(c) == Cardinality(DOMAIN c) = Cardinality(Included)

SigsOf(c, S) == { c[s].sig : s \in S }

(* what one atomic pass of the ticker branch of waitUntilAllDone yields *)
CheckOutcome(c) ==
    IF ~Complete(c) THEN [o |-> "waiting", sig |-> "nil", end |-> 0]
    ELSE IF Cardinality(SigsOf(c, DOMAIN c)) > 1
            THEN [o |-> "mismatch", sig |-> "nil", end |-> 0]
            ELSE [o |-> "done",
                  sig |-> CHOOSE s \in SigsOf(c, DOMAIN c) : TRUE,
                  end |-> Max({ c[s].end : s \in DOMAIN c })]

(* waitUntilAllDone, case <-ticker.C, contract grain *)
Check ==
    /\ AtomicCheck
    /\ outcome = "waiting"
    /\ Complete(confirmed)
    /\ LET r == CheckOutcome(confirmed) IN
          /\ outcome' = r.o /\ resSig' = r.sig /\ resEnd' = r.end
          /\ resFrom' = DOMAIN confirmed
    /\ UNCHANGED <<confirmed, delivered, authentic, wpc, wstart, wseen, wsig, wend>>

(* hazard grain: `if sdc.expectedSignersCount == len(sdc.doneSigners)` *)
ReadLen ==
    /\ ~AtomicCheck
    /\ outcome = "waiting" /\ wpc = "idle"
    /\ Complete(confirmed)
    /\ wpc' = "iter" /\ wstart' = DOMAIN confirmed /\ wseen' = {}
    /\ wsig' = "none" /\ wend' = 0
    /\ UNCHANGED <<confirmed, delivered, outcome, resSig, resEnd, resFrom, authentic>>

(* hazard grain: one iteration of `for _, doneMessage := range doneSigners` *)
Visit(s) ==
    /\ ~AtomicCheck
    /\ outcome = "waiting" /\ wpc = "iter"
    /\ s \in DOMAIN confirmed /\ s \notin wseen
    /\ wseen' = wseen \cup {s}
    /\ IF wsig # "none" /\ confirmed[s].sig # wsig
          THEN /\ outcome' = "mismatch" /\ resFrom' = wseen \cup {s}
               /\ wpc' = "idle"
               /\ UNCHANGED <<wsig, wend, resSig, resEnd>>
          ELSE /\ wsig' = confirmed[s].sig
               /\ wend' = IF confirmed[s].end > wend THEN confirmed[s].end ELSE wend
               /\ UNCHANGED <<outcome, resFrom, wpc, resSig, resEnd>>
    /\ UNCHANGED <<confirmed, delivered, authentic, wstart>>

(* hazard grain: the range loop ends; every entry present at its start was  *)
(* produced, entries inserted meanwhile may have been skipped               *)
FinishIter ==
    /\ ~AtomicCheck
    /\ outcome = "waiting" /\ wpc = "iter"
    /\ wstart \subseteq wseen
    /\ outcome' = "done" /\ resSig' = wsig /\ resEnd' = wend /\ resFrom' = wseen
    /\ wpc' = "idle"
    /\ UNCHANGED <<confirmed, delivered, authentic, wstart, wseen, wsig, wend>>

(* waitUntilAllDone, case <-ctx.Done(): the attempt's timeout block arrived *)
Timeout ==
    /\ outcome = "waiting" /\ wpc = "idle"
    /\ outcome' = "timeout"
    /\ UNCHANGED <<confirmed, delivered, resSig, resEnd, resFrom, authentic,
                   wpc, wstart, wseen, wsig, wend>>

DoDeliver == \E m \in Alphabet : Deliver(m)
DoVisit   == \E s \in Seats : Visit(s)

Next == DoDeliver \/ Check \/ ReadLen \/ DoVisit \/ FinishIter \/ Timeout

Spec == Init /\ [][Next]_vars

---------------------------------------------------------------------------
(* Property C35 and the surrounding contract.                              *)

TypeOK ==
    /\ DOMAIN confirmed \subseteq Seats
    /\ delivered \in 0..MaxMsgs
    /\ outcome \in {"waiting", "done", "mismatch", "timeout"}
    /\ resFrom \subseteq Seats
    /\ wpc \in {"idle", "iter"}

(* a signature is reported only when exactly the included members -- all   *)
(* of them and no one else -- were counted                                 *)
DoneOnlyIncluded == outcome = "done" => resFrom = Included

(* ... all with that same signature *)
DoneCommonSignature ==
    outcome = "done" =>
        /\ resSig # "nil"
        /\ \A s \in Included : s \in DOMAIN confirmed /\ confirmed[s].sig = resSig

(* ... the reported end block is the latest of the included members' end   *)
(* blocks and lies within the attempt timeout                              *)
DoneEndBlock ==
    outcome = "done" =>
        /\ \A s \in Included : s \in DOMAIN confirmed
        /\ resEnd = Max({ confirmed[s].end : s \in Included })
        /\ resEnd <= TimeoutBlock

(* ... and each of these confirmations was really sent by the seat's owner *)
(* for this message and attempt (stated on the delivery history)           *)
DoneJustified ==
    outcome = "done" =>
        /\ \A s \in Included :
              \E a \in authentic : a.seat = s /\ a.sig = resSig /\ a.end <= resEnd
        /\ \E a \in authentic : a.seat \in Included /\ a.sig = resSig /\ a.end = resEnd

(* the confirmation map only ever holds authentic confirmations, of        *)
(* included members *)
ConfirmedAuthentic ==
    \A s \in DOMAIN confirmed :
        /\ [seat |-> s, sig |-> confirmed[s].sig, end |-> confirmed[s].end] \in authentic
        /\ (CheckIncluded => s \in Included)

(* a mismatch error is reported only if two counted confirmations differ *)
MismatchJustified ==
    outcome = "mismatch" =>
        /\ \E s, t \in resFrom : s \in DOMAIN confirmed /\ t \in DOMAIN confirmed
                                   /\ confirmed[s].sig # confirmed[t].sig
        /\ (CheckIncluded => resFrom \subseteq Included)

(* nothing is reported unless something was decided *)
NoResultUnlessDone == outcome # "done" => (resSig = "nil" /\ resEnd = 0)

(* the first accepted confirmation of a seat is never replaced or removed *)
FirstWinsStep ==
    \A s \in DOMAIN confirmed : s \in DOMAIN confirmed' /\ confirmed'[s] = confirmed[s]
FirstWins == [][FirstWinsStep]_vars

(* waitUntilAllDone returns once *)
OutcomeFinalStep ==
    outcome # "waiting" => (outcome' = outcome /\ resSig' = resSig /\ resEnd' = resEnd
                            /\ resFrom' = resFrom)
OutcomeFinal == [][OutcomeFinalStep]_vars

(* under the contract a complete set never changes again, which is why     *)
(* the unsynchronized iteration cannot change the RESULT once senders are  *)
(* restricted to included members (the data race itself remains)           *)
CompleteIsStable ==
    (CheckIncluded /\ Complete(confirmed)) => DOMAIN confirmed = Included
=============================================================================
