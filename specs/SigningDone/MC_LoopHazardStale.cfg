SPECIFICATION Spec
CONSTANTS
  Seats = {1, 2, 3}
  Self = 1
  Threshold = 2
  MaxAttempts = 2
  StartBlock = 100
  Msgs <- LoopMsgs
  MaxPerAttempt = 3
  ListenerBoundToLoop = TRUE
INVARIANTS TypeOK NoStaleReceiver
