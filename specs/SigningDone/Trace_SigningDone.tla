-------------------------- MODULE Trace_SigningDone --------------------------
(* Trace validation of real runs of signingDoneCheck (listener goroutine +  *)
(* waitUntilAllDone, messages delivered concurrently) against the contract  *)
(* grain of SigningDone.                                                    *)
(* Events (harness /verif/harness/pkg/tbtc/c35_test.go):                    *)
(*   Reset                 a new independent run starts                     *)
(*   Deq(key,sid,...)      the listener goroutine took this message from    *)
(*                         its queue (logged from Message.Payload(), i.e.   *)
(*                         BEFORE the message is validated and stored, and  *)
(*                         AFTER the previous message was fully processed)  *)
(*   DeqOther              the listener took a message of another type      *)
(*   Sync(conf)            a marker message reached the listener: every     *)
(*                         earlier message is processed; conf = doneSigners *)
(*                         read under the mutex at that moment              *)
(*   Return(o,sig,end)     waitUntilAllDone returned                        *)
(* The application of a dequeued message, the waiter's periodic check and   *)
(* the timeout are not logged: they are silent steps inferred by TLC.       *)
EXTENDS MC_SigningDone, TraceKit

VARIABLES l, pending
tvars == <<vars, l, pending>>

NoMsg == [key |-> -1]

TInit == Init /\ l = 1 /\ pending = NoMsg /\ HwmInit

IsEvent(e) == l <= Len(Trace) /\ Trace[l].event = e /\ l' = l + 1

MsgOf(e) == [key |-> e.key, sid |-> e.sid, msg |-> e.msg, att |-> e.att,
             end |-> e.end, sig |-> e.sig]

ConfOf(c) == { [seat |-> s, sig |-> c[s].sig, end |-> c[s].end] : s \in DOMAIN c }
SetOf(seq) == { [seat |-> seq[i].seat, sig |-> seq[i].sig, end |-> seq[i].end] : i \in 1..Len(seq) }

TReset ==
    /\ IsEvent("Reset")
    /\ confirmed' = <<>> /\ delivered' = 0
    /\ outcome' = "waiting" /\ resSig' = "nil" /\ resEnd' = 0 /\ resFrom' = {}
    /\ authentic' = {}
    /\ wpc' = "idle" /\ wstart' = {} /\ wseen' = {} /\ wsig' = "none" /\ wend' = 0
    /\ pending' = NoMsg

TDeq ==
    /\ IsEvent("Deq")
    /\ pending = NoMsg
    /\ pending' = MsgOf(Trace[l])
    /\ UNCHANGED vars

(* the payload is not a signingDoneMessage: `if !ok { continue }` *)
TDeqOther ==
    /\ IsEvent("DeqOther")
    /\ pending = NoMsg
    /\ UNCHANGED <<vars, pending>>

Apply ==
    /\ l' = l
    /\ pending # NoMsg
    /\ Deliver(pending)
    /\ pending' = NoMsg

TSync ==
    /\ IsEvent("Sync")
    /\ pending = NoMsg
    /\ ConfOf(confirmed) = SetOf(Trace[l].conf)
    /\ UNCHANGED <<vars, pending>>

SilentCheck   == l' = l /\ Check /\ UNCHANGED pending
SilentTimeout == l' = l /\ Timeout /\ UNCHANGED pending

TReturn ==
    /\ IsEvent("Return")
    /\ outcome = Trace[l].o
    /\ resSig = Trace[l].sig
    /\ resEnd = Trace[l].end
    /\ UNCHANGED <<vars, pending>>

TNext == TReset \/ TDeq \/ TDeqOther \/ Apply \/ TSync \/ SilentCheck \/ SilentTimeout \/ TReturn
TSpec == TInit /\ [][TNext]_tvars

Hwm == HwmConstraint(l)
Accepted == HwmAccepted
=============================================================================
