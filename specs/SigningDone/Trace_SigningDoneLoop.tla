------------------------ MODULE Trace_SigningDoneLoop ------------------------
(* Trace validation of scripted runs of the real signingRetryLoop.start with  *)
(* the real signingDoneCheck against SigningDoneLoop.  Every line is one      *)
(* action of the specification (named, with its parameters) together with     *)
(* what was observed afterwards: live receivers, doneSigners, attempt, and     *)
(* what start returned.  Reset starts a new loop.                             *)
EXTENDS MC_Loop, TraceKit

VARIABLE l
tvars == <<vars, l>>

TInit == Init /\ l = 1 /\ HwmInit

IsEvent(e) == l <= Len(Trace) /\ Trace[l].event = e /\ l' = l + 1

SetOf(q) == { q[i] : i \in 1..Len(q) }
ConfOf(c) == { [seat |-> s, sig |-> c[s].sig, end |-> c[s].end] : s \in DOMAIN c }
ConfSet(q) == { [seat |-> q[i].seat, sig |-> q[i].sig, end |-> q[i].end] : i \in 1..Len(q) }

TReset ==
    /\ IsEvent("Reset")
    /\ att' = 0 /\ stage' = "idle" /\ included' = <<>> /\ receivers' = {} /\ confirmed' = <<>>
    /\ perAttempt' = 0 /\ result' = NoResult /\ lastAct' = Act("Init", {}, NoMsg)

TStep ==
    /\ IsEvent("Step")
    /\ LET e == Trace[l] IN
       /\ \/ (e.a = "Begin" /\ BeginAttempt)
          \/ (e.a = "AnnounceFails" /\ AnnounceFails)
          \/ (e.a = "Select" /\ Select(SetOf(e.inc)))
          \/ (e.a = "OwnRunFails" /\ OwnRunFails)
          \/ (e.a = "OwnRunOk" /\ OwnRunOk)
          \/ (e.a = "SignalFails" /\ SignalFails)
          \/ (e.a = "SignalOk" /\ SignalOk)
          \/ (e.a = "Deliver" /\ Deliver([sid |-> e.sid, lab |-> e.lab, sig |-> e.sig]))
          \/ (e.a = "Check" /\ Check)
          \/ (e.a = "Mismatch" /\ Mismatch)
          \/ (e.a = "WaitTimeout" /\ WaitTimeout)
          \/ (e.a = "Stop" /\ StopBody)
       /\ att' = e.att
       /\ receivers' = SetOf(e.recv)
       /\ ConfOf(confirmed') = ConfSet(e.conf)
       /\ result'.o = e.res.o /\ result'.sig = e.res.sig /\ result'.end = e.res.end
       /\ result'.timeoutBlock = e.res.timeoutBlock

TNext == TReset \/ TStep
TSpec == TInit /\ [][TNext]_tvars

Hwm == HwmConstraint(l)
Accepted == HwmAccepted
=============================================================================
