SPECIFICATION Spec
CONSTANTS
  Seats = {1, 2, 3}
  Included = {1, 3}
  Owner <- OwnerDistinct
  Alphabet <- MidAlphabet
  TimeoutBlock = 10
  MaxMsgs = 3
  CheckIncluded = TRUE
  AtomicCheck = FALSE
INVARIANTS TypeOK DoneOnlyIncluded DoneCommonSignature DoneEndBlock DoneJustified
           ConfirmedAuthentic MismatchJustified NoResultUnlessDone CompleteIsStable
PROPERTIES FirstWins OutcomeFinal
