-------------------------- MODULE SigningDoneLoop --------------------------
(***************************************************************************)
(* The signing done check across the attempts of signingRetryLoop.start    *)
(* (pkg/tbtc/signing_loop.go) using ONE signingDoneCheck                   *)
(* (pkg/tbtc/signing_done.go), as signingExecutor.sign wires them.         *)
(*                                                                         *)
(* Per attempt N the loop                                                  *)
(*   waits for the announcement start block            -> BeginAttempt     *)
(*   announces; the announcer may fail                 -> AnnounceFails    *)
(*   selects the included members, arms                                    *)
(*     doneCheckTimeoutCtx = withCancelOnBlock(ctx, timeoutBlock(N)) and   *)
(*     calls doneCheck.listen(doneCheckTimeoutCtx, message, N,             *)
(*     timeoutBlock(N), included(N))                   -> Select(I)        *)
(*   if the member is included: runs the protocol      -> OwnRunFails /    *)
(*                                                        OwnRunOk         *)
(*     and broadcasts its done message                 -> SignalFails /    *)
(*                                                        SignalOk         *)
(*   waits in waitUntilAllDone(doneCheckTimeoutCtx)    -> Check / Mismatch *)
(*                                                        / WaitTimeout    *)
(* and on every failure `continue`s with attempt N + 1.                    *)
(*                                                                         *)
(* listen(N) starts a RECEIVER: a handler on the broadcast channel plus a  *)
(* goroutine validating every message with attempt N's number, members and *)
(* timeout block.  The receiver is bound to the context handed to listen   *)
(* and is additionally cancelled when waitUntilAllDone returns.  When the  *)
(* own run or signalDone fails, waitUntilAllDone is never called for that  *)
(* attempt, so only the attempt's context (cancelled at timeoutBlock(N),   *)
(* which lies a cool-down before attempt N + 1 starts) ends the receiver.  *)
(* All receivers store into the ONE map signingDoneCheck.doneSigners,      *)
(* which listen re-creates for every attempt.                              *)
(*                                                                         *)
(* CONSTANT ListenerBoundToLoop = TRUE is the hazard variant: listen is    *)
(* handed the loop's context, so a receiver of an earlier attempt lives on *)
(* and stores confirmations validated for ITS attempt into the map of the  *)
(* current one.                                                            *)
(***************************************************************************)
EXTENDS Integers, Sequences, FiniteSets

CONSTANTS Seats,               \* member indexes of the signing group
          Self,                \* the member running this loop
          Threshold,           \* number of members included in an attempt
          MaxAttempts,
          StartBlock,          \* initial start block of the loop
          Msgs,                \* done messages the network may deliver: [sid, lab, sig]
          MaxPerAttempt,       \* bound on deliveries per attempt
          ListenerBoundToLoop  \* see above

(* signing_loop.go block constants *)
AnnDelay == 1
AnnActive == 5
ProtoBlocks == 30
CoolDown == 5
AttemptBlocks == AnnDelay + AnnActive + ProtoBlocks + CoolDown
AttemptStart(n) == StartBlock + (n - 1) * AttemptBlocks
AnnStart(n)     == AttemptStart(n) + AnnDelay
TimeoutBlock(n) == AnnStart(n) + AnnActive + ProtoBlocks

(* A done message: sender seat (authenticated, see SigningDone for the     *)
(* sender checks), attempt label, signature.  Its end block is fixed by    *)
(* label and seat so that end blocks differ between members.               *)
EndOf(m) == TimeoutBlock(m.lab) - m.sid
NoMsg == [sid |-> 0, lab |-> 0, sig |-> "none"]
OwnMsg(n) == [sid |-> Self, lab |-> n, sig |-> "A"]

VARIABLES att,        \* attempt counter of the loop
          stage,      \* "idle" | "announce" | "run" | "signal" | "wait" | "next" | "returned" | "stopped"
          included,   \* attempt -> members included in it (attempts that reached listen)
          receivers,  \* attempts whose receiver is alive
          confirmed,  \* doneSigners: seat -> [sig, end, by, lab]; by = attempt of the accepting
                      \* receiver, lab = attempt label of the message (ghosts)
          perAttempt, \* deliveries since the attempt began
          result,     \* what start returned
          lastAct     \* the action that led here (for generation / trace validation)

vars == <<att, stage, included, receivers, confirmed, perAttempt, result, lastAct>>

Act(a, inc, m) == [a |-> a, inc |-> inc, m |-> m]
NoResult == [o |-> "none", sig |-> "none", end |-> 0, att |-> 0, timeoutBlock |-> 0]

Init ==
    /\ att = 0 /\ stage = "idle"
    /\ included = <<>>
    /\ receivers = {}
    /\ confirmed = <<>>
    /\ perAttempt = 0
    /\ result = NoResult
    /\ lastAct = Act("Init", {}, NoMsg)

Subsets(S, k) == { T \in SUBSET S : Cardinality(T) = k }
Max(S) == CHOOSE x \in S : \A y \in S : y <= x

(* the loop waits for the announcement start block of the next attempt;    *)
(* that block lies after the previous attempt's timeout block, at which    *)
(* the previous attempt's context was cancelled                            *)
BeginAttempt ==
    /\ stage \in {"idle", "next"} /\ att < MaxAttempts
    /\ att' = att + 1 /\ stage' = "announce" /\ perAttempt' = 0
    /\ receivers' = IF ListenerBoundToLoop THEN receivers
                    ELSE { r \in receivers : TimeoutBlock(r) > AnnStart(att + 1) }
    /\ lastAct' = Act("Begin", {}, NoMsg)
    /\ UNCHANGED <<included, confirmed, result>>

(* announcer error / too few ready members: `continue` *)
AnnounceFails ==
    /\ stage = "announce"
    /\ stage' = "next"
    /\ lastAct' = Act("AnnounceFails", {}, NoMsg)
    /\ UNCHANGED <<att, included, receivers, confirmed, perAttempt, result>>

(* members selected; doneCheck.listen: new map, new receiver *)
Select(I) ==
    /\ stage = "announce"
    /\ included' = [n \in DOMAIN included \cup {att} |-> IF n = att THEN I ELSE included[n]]
    /\ receivers' = receivers \cup {att}
    /\ confirmed' = <<>>
    /\ stage' = IF Self \in I THEN "run" ELSE "wait"
    /\ lastAct' = Act("Select", I, NoMsg)
    /\ UNCHANGED <<att, perAttempt, result>>

OwnRunFails ==
    /\ stage = "run" /\ stage' = "next"
    /\ lastAct' = Act("OwnRunFails", {}, NoMsg)
    /\ UNCHANGED <<att, included, receivers, confirmed, perAttempt, result>>

OwnRunOk ==
    /\ stage = "run" /\ stage' = "signal"
    /\ lastAct' = Act("OwnRunOk", {}, NoMsg)
    /\ UNCHANGED <<att, included, receivers, confirmed, perAttempt, result>>

SignalFails ==
    /\ stage = "signal" /\ stage' = "next"
    /\ lastAct' = Act("SignalFails", {}, NoMsg)
    /\ UNCHANGED <<att, included, receivers, confirmed, perAttempt, result>>

SignalOk ==
    /\ stage = "signal" /\ stage' = "wait"
    /\ lastAct' = Act("SignalOk", {}, NoMsg)
    /\ UNCHANGED <<att, included, receivers, confirmed, perAttempt, result>>

(* isValidDoneMessage as run by the receiver of attempt r against the      *)
(* CURRENT map                                                             *)
ValidFor(r, m) ==
    /\ m.sid \notin DOMAIN confirmed
    /\ m.sid \in Seats
    /\ m.sid \in included[r]
    /\ m.lab = r
    /\ EndOf(m) <= TimeoutBlock(r)

Stored(m) ==
    LET acc == { r \in receivers : ValidFor(r, m) } IN
    IF acc = {} THEN confirmed
    ELSE [s \in DOMAIN confirmed \cup {m.sid} |->
             IF s = m.sid THEN [sig |-> m.sig, end |-> EndOf(m), by |-> CHOOSE r \in acc : TRUE, lab |-> m.lab]
             ELSE confirmed[s]]

(* the network delivers m to every live receiver *)
Deliver(m) ==
    /\ stage \in {"run", "signal", "wait", "next"}
    /\ perAttempt < MaxPerAttempt
    /\ perAttempt' = perAttempt + 1
    /\ confirmed' = Stored(m)
    /\ lastAct' = Act("Deliver", {}, m)
    /\ UNCHANGED <<att, stage, included, receivers, result>>

Complete == Cardinality(DOMAIN confirmed) = Cardinality(included[att])
Sigs == { confirmed[s].sig : s \in DOMAIN confirmed }

(* waitUntilAllDone: all expected confirmations, one signature *)
Check ==
    /\ stage = "wait" /\ Complete /\ Cardinality(Sigs) = 1
    /\ stage' = "returned"
    /\ result' = [o |-> "done", sig |-> CHOOSE g \in Sigs : TRUE,
                  end |-> Max({ confirmed[s].end : s \in DOMAIN confirmed }),
                  att |-> att, timeoutBlock |-> TimeoutBlock(att)]
    /\ receivers' = receivers \ {att}
    /\ lastAct' = Act("Check", {}, NoMsg)
    /\ UNCHANGED <<att, included, confirmed, perAttempt>>

(* waitUntilAllDone: not matching signatures -> error -> `continue` *)
Mismatch ==
    /\ stage = "wait" /\ Complete /\ Cardinality(Sigs) > 1
    /\ stage' = "next"
    /\ receivers' = receivers \ {att}
    /\ lastAct' = Act("Mismatch", {}, NoMsg)
    /\ UNCHANGED <<att, included, confirmed, perAttempt, result>>

(* the attempt's timeout block arrives while waiting -> `continue` *)
WaitTimeout ==
    /\ stage = "wait"
    /\ stage' = "next"
    /\ receivers' = receivers \ {att}
    /\ lastAct' = Act("WaitTimeout", {}, NoMsg)
    /\ UNCHANGED <<att, included, confirmed, perAttempt, result>>

(* the loop's context is cancelled (signing executor's loop timeout) *)
StopBody ==
    /\ stage = "next"
    /\ stage' = "stopped"
    /\ receivers' = {}
    /\ result' = [NoResult EXCEPT !.o = "cancelled"]
    /\ lastAct' = Act("Stop", {}, NoMsg)
    /\ UNCHANGED <<att, included, confirmed, perAttempt>>

(* in the bounded configurations the loop is stopped after the last attempt *)
Stop == att = MaxAttempts /\ StopBody

DoSelect  == \E I \in Subsets(Seats, Threshold) : Select(I)
DoDeliver == \E m \in Msgs : Deliver(m)

Next == BeginAttempt \/ AnnounceFails \/ DoSelect \/ OwnRunFails \/ OwnRunOk \/ SignalFails
        \/ SignalOk \/ DoDeliver \/ Check \/ Mismatch \/ WaitTimeout \/ Stop

Spec == Init /\ [][Next]_vars

---------------------------------------------------------------------------
Listening == stage \in {"run", "signal", "wait"}

TypeOK ==
    /\ att \in 0..MaxAttempts
    /\ stage \in {"idle", "announce", "run", "signal", "wait", "next", "returned", "stopped"}
    /\ receivers \subseteq 1..MaxAttempts
    /\ DOMAIN confirmed \subseteq Seats

(* a confirmation is only ever counted for the attempt whose receiver      *)
(* accepted it, with THAT attempt's number and members                     *)
CountedByOwnListener ==
    (Listening \/ stage = "returned") =>
    \A s \in DOMAIN confirmed :
        /\ confirmed[s].by = att
        /\ confirmed[s].lab = att
        /\ s \in included[att]
        /\ confirmed[s].end <= TimeoutBlock(att)

(* no receiver of an earlier attempt is alive once the current attempt     *)
(* listens                                                                 *)
NoStaleReceiver == Listening => receivers \subseteq {att}

(* at most the receiver of the attempt that just failed survives between   *)
(* attempts (until its timeout block), and it can only touch its own map   *)
OnlyLastBetweenAttempts == stage \in {"next", "announce"} => receivers \subseteq {att, att - 1}

(* C35 across attempts *)
DoneExact ==
    result.o = "done" =>
        /\ DOMAIN confirmed = included[result.att]
        /\ \A s \in DOMAIN confirmed :
              confirmed[s].sig = result.sig /\ confirmed[s].lab = result.att /\ confirmed[s].by = result.att
        /\ result.end = Max({ confirmed[s].end : s \in DOMAIN confirmed })
        /\ result.end <= result.timeoutBlock
        /\ result.timeoutBlock = TimeoutBlock(result.att)
=============================================================================
