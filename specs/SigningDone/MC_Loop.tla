------------------------------- MODULE MC_Loop -------------------------------
(* Constants for the configurations of SigningDoneLoop.                      *)
EXTENDS SigningDoneLoop

LoopMsgs == [sid : Seats, lab : 1..MaxAttempts, sig : {"A", "B"}]

M(s, l, g) == [sid |-> s, lab |-> l, sig |-> g]
B == Act("Begin", {}, NoMsg)
Sel(I) == Act("Select", I, NoMsg)
D(s, l, g) == Act("Deliver", {}, M(s, l, g))
A0(a) == Act(a, {}, NoMsg)

NoScenario == <<>>

(* Directed scenarios (Self = 1, seats 1..3, two of three included).         *)
(* 1: the own run of attempt 1 fails; in attempt 2 member 2 is excluded and  *)
(*    sends a done message labelled for attempt 1; then member 3 confirms.   *)
Scenario1 == << B, Sel({1, 2}), A0("OwnRunFails"), D(2, 1, "A"),
                B, Sel({1, 3}), A0("OwnRunOk"), A0("SignalOk"), D(1, 2, "A"), D(2, 1, "A"),
                D(3, 2, "A"), A0("Check") >>
(* 2: signalDone of attempt 1 fails; attempt 2 excludes the member itself;   *)
(*    stale confirmations of attempt 1 arrive from 1 and 2; attempt 2 times   *)
(*    out with only member 3's confirmation; attempt 3 completes.            *)
Scenario2 == << B, Sel({1, 2}), A0("OwnRunOk"), A0("SignalFails"),
                B, Sel({2, 3}), D(1, 1, "A"), D(2, 1, "A"), D(3, 2, "A"), A0("WaitTimeout"),
                B, Sel({1, 3}), A0("OwnRunOk"), A0("SignalOk"), D(2, 2, "B"), D(3, 3, "A"), D(1, 3, "A"), A0("Check") >>
(* 3: announcement of attempt 1 fails, own run of attempt 2 fails, stale     *)
(*    message with another signature arrives in attempt 3                    *)
Scenario3 == << B, A0("AnnounceFails"), B, Sel({1, 3}), A0("OwnRunFails"),
                B, Sel({1, 2}), A0("OwnRunOk"), A0("SignalOk"), D(3, 2, "B"), D(1, 3, "A"), D(3, 2, "B"),
                A0("WaitTimeout"), A0("Stop") >>
(* 4: done checks of attempt 1 arrive, the own run fails (no wait); attempt 2  *)
(*    has another included set and fewer than all of its members confirm      *)
Scenario4 == << B, Sel({1, 2}), D(2, 1, "A"), A0("OwnRunFails"),
                B, Sel({1, 3}), A0("OwnRunOk"), A0("SignalOk"), D(1, 2, "A"), A0("WaitTimeout") >>
(* 5: the same with the member itself excluded from attempt 2 *)
Scenario5 == << B, Sel({1, 3}), D(3, 1, "A"), D(1, 1, "A"), A0("OwnRunFails"),
                B, Sel({2, 3}), D(2, 2, "A"), A0("WaitTimeout") >>
(* 6: signalDone fails after done checks arrived; attempt 2 completes         *)
Scenario6 == << B, Sel({1, 2}), D(2, 1, "B"), A0("OwnRunOk"), A0("SignalFails"),
                B, Sel({1, 3}), A0("OwnRunOk"), A0("SignalOk"), D(3, 2, "A"), D(1, 2, "A"), A0("Check") >>
AllScenarios == << Scenario1, Scenario2, Scenario3, Scenario4, Scenario5, Scenario6 >>
=============================================================================
