--------------------------- MODULE Gen_SigningDone ---------------------------
(* Behaviour generation for the conformance replay of SigningDone.          *)
(* Every delivery history over Alphabet of length 1..MaxMsgs is emitted     *)
(* exactly once, grouped by its prefix: a state reached by delivering       *)
(* `prefix` (length < MaxMsgs) emits                                        *)
(*   [prefix |-> <<step...>>, next |-> {step for every m in Alphabet}]      *)
(* where step = [m    |-> delivered message,                                *)
(*               ok   |-> whether the listener accepts it,                  *)
(*               conf |-> the confirmations afterwards,                     *)
(*               chk  |-> what a check of the waiter yields afterwards].    *)
(* The harness expands each line into the histories prefix \o <<n>>,        *)
(* delivers the messages to the real listener one by one, compares          *)
(* doneSigners with conf after every message, and the value returned by     *)
(* the real waitUntilAllDone with chk (waiter started after the last        *)
(* message: chk of the last step; waiter running from the start: the first  *)
(* chk that is not "waiting").                                              *)
EXTENDS MC_SigningDone, TLC, Json, CSV, IOUtils

VARIABLE hist
gvars == <<vars, hist>>

(* senders: the three seat owners speaking for themselves (seat 2 is the    *)
(* excluded one), an outsider and the excluded member claiming an included  *)
(* seat                                                                     *)
GenSenders == { <<1, 1>>, <<2, 2>>, <<3, 3>>, <<0, 1>>, <<2, 3>> }
(* contents: msg, att, end, sig *)
GenContents == { <<TRUE, TRUE, TimeoutBlock - 1, "A">>,
                 <<TRUE, TRUE, TimeoutBlock, "A">>,
                 <<TRUE, TRUE, TimeoutBlock, "B">>,
                 <<TRUE, TRUE, TimeoutBlock + 1, "A">>,
                 <<TRUE, FALSE, TimeoutBlock - 1, "A">> }
GenAlphabet ==
    { [key |-> s[1], sid |-> s[2], msg |-> c[1], att |-> c[2], end |-> c[3], sig |-> c[4]] :
        s \in GenSenders, c \in GenContents }

ConfOf(c) == { [seat |-> s, sig |-> c[s].sig, end |-> c[s].end] : s \in DOMAIN c }

StepOf(c, m) == [m |-> m, ok |-> ValidIn(c, m), conf |-> ConfOf(Stored(c, m)),
                 chk |-> CheckOutcome(Stored(c, m))]

GInit == Init /\ hist = <<>>

GDeliver(m) ==
    /\ delivered < MaxMsgs - 1
    /\ Deliver(m)
    /\ hist' = Append(hist, StepOf(confirmed, m))

GNext == \E m \in Alphabet : GDeliver(m)

GSpec == GInit /\ [][GNext]_gvars

Emit ==
    CSVWrite("%1$s", <<ToJson([prefix |-> hist,
                               next |-> { StepOf(confirmed, m) : m \in Alphabet }])>>,
             "histories.ndjson")
=============================================================================
