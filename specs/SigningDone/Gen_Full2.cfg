SPECIFICATION GSpec
CONSTANTS
  Seats = {1, 2, 3}
  Included = {1, 3}
  Owner <- OwnerDistinct
  Alphabet <- FullAlphabet
  TimeoutBlock = 10
  MaxMsgs = 2
  CheckIncluded = TRUE
  AtomicCheck = TRUE
INVARIANTS Emit
