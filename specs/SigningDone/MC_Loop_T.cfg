SPECIFICATION Spec
CONSTANTS
  Seats = {1, 2, 3}
  Self = 1
  Threshold = 2
  MaxAttempts = 3
  StartBlock = 100
  Msgs <- LoopMsgs
  MaxPerAttempt = 3
  ListenerBoundToLoop = FALSE
INVARIANTS TypeOK CountedByOwnListener NoStaleReceiver OnlyLastBetweenAttempts DoneExact
