SPECIFICATION TSpec
CONSTANTS
  Seats = {1, 2, 3}
  Included = {1, 3}
  Owner <- OwnerDistinct
  Alphabet <- FullAlphabet
  TimeoutBlock = 10
  MaxMsgs = 1000000
  CheckIncluded = TRUE
  AtomicCheck = TRUE
CONSTRAINT Hwm
INVARIANTS DoneOnlyIncluded DoneCommonSignature DoneEndBlock DoneJustified
           ConfirmedAuthentic MismatchJustified NoResultUnlessDone
POSTCONDITION Accepted
