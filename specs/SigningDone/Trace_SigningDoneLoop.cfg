SPECIFICATION TSpec
CONSTANTS
  Seats = {1, 2, 3}
  Self = 1
  Threshold = 2
  MaxAttempts = 1000
  StartBlock = 100
  Msgs <- LoopMsgs
  MaxPerAttempt = 1000000
  ListenerBoundToLoop = FALSE
CONSTRAINT Hwm
INVARIANTS CountedByOwnListener NoStaleReceiver OnlyLastBetweenAttempts DoneExact
POSTCONDITION Accepted
