--------------------------- MODULE MC_SigningDone ---------------------------
(* Constant definitions for the exhaustive configurations of SigningDone.   *)
EXTENDS SigningDone

(* operator keys: 0 is an operator outside the wallet *)
MCKeys    == 0..3
(* claimed sender ids: 4 is out of the group's range *)
MCSeatIds == 1..4
MCEnds    == {TimeoutBlock - 1, TimeoutBlock, TimeoutBlock + 1}
MCSigs    == {"A", "B", "nil"}

(* every combination of every field *)
FullAlphabet ==
    [key : MCKeys, sid : MCSeatIds, msg : BOOLEAN, att : BOOLEAN, end : MCEnds, sig : MCSigs]

(* quick tier: six sender/claimed-seat pairs (the three owners, an outsider *)
(* and the excluded member claiming included seats, an owner claiming an    *)
(* out-of-range seat) with every content                                    *)
MidSenders == { <<1, 1>>, <<2, 2>>, <<3, 3>>, <<0, 1>>, <<2, 3>>, <<1, 4>> }
MidAlphabet ==
    { [key |-> s[1], sid |-> s[2], msg |-> c.msg, att |-> c.att, end |-> c.end, sig |-> c.sig] :
        s \in MidSenders, c \in [msg : BOOLEAN, att : BOOLEAN, end : MCEnds, sig : MCSigs] }

(* counterexample search for the as-coded variants *)
SmallAlphabet ==
    { [key |-> s, sid |-> s, msg |-> TRUE, att |-> TRUE, end |-> e, sig |-> g] :
        s \in 1..3, e \in {TimeoutBlock - 1, TimeoutBlock}, g \in {"A", "B"} }

(* three seats, three operators; the configurations exclude seat 2 *)
OwnerDistinct == [s \in 1..3 |-> s]

(* four seats; operator 1 holds the included seat 1 and the excluded seat 3 *)
OwnerTwoSeats == [s \in 1..4 |-> CASE s = 1 -> 1 [] s = 2 -> 2 [] s = 3 -> 1 [] s = 4 -> 3]
MCSeatIds5 == 1..5
FullAlphabet4 ==
    [key : MCKeys, sid : MCSeatIds5, msg : BOOLEAN, att : BOOLEAN, end : MCEnds, sig : MCSigs]
=============================================================================
