------------------------- MODULE Gen_SigningDoneLoop -------------------------
(* Behaviour generation for the replay of SigningDoneLoop on the real        *)
(* signingRetryLoop.start + signingDoneCheck.  Run in TLC simulation mode    *)
(* (random behaviours) or with Scenarios # <<>> (exactly those behaviours).     *)
(* Every terminal state emits                                                *)
(*   [steps |-> << [act, att, stage, recv, conf, result, stale] ... >>]      *)
(* i.e. after every action everything the harness can observe: the attempt   *)
(* and stage of the loop, the live receivers, doneSigners and what start     *)
(* returned.  `stale` marks deliveries of a message labelled for an earlier  *)
(* attempt from a member of that attempt that the current attempt excludes.  *)
EXTENDS MC_Loop, TLC, Json, CSV, IOUtils

CONSTANT Scenarios   \* <<>>: unconstrained (simulation); otherwise a sequence of action sequences
VARIABLES hist, pos, scn
gvars == <<vars, hist, pos, scn>>

Directed == IF scn = 0 THEN <<>> ELSE Scenarios[scn]

ConfOf(c) == { [seat |-> s, sig |-> c[s].sig, end |-> c[s].end] : s \in DOMAIN c }

IsStale(m) ==
    /\ stage \in {"run", "signal", "wait"}
    /\ m.lab < att /\ m.lab \in DOMAIN included
    /\ m.sid \in included[m.lab] /\ m.sid \notin included[att]

Obs == [act |-> lastAct', att |-> att', stage |-> stage', recv |-> receivers',
        conf |-> ConfOf(confirmed'), result |-> result',
        stale |-> (lastAct'.a = "Deliver" /\ IsStale(lastAct'.m))]

CompleteWaiting == stage = "wait" /\ Complete

GInit == /\ Init /\ hist = <<>> /\ pos = 0
         /\ scn \in (IF Scenarios = <<>> THEN {0} ELSE 1..Len(Scenarios))

GNext ==
    /\ Next
    \* the real waiter reports at its next tick: nothing else is scripted in between
    /\ (CompleteWaiting => lastAct'.a \in {"Check", "Mismatch"})
    /\ (Directed # <<>> => (pos < Len(Directed) /\ lastAct' = Directed[pos + 1]))
    /\ pos' = pos + 1 /\ scn' = scn
    /\ hist' = Append(hist, Obs)

GSpec == GInit /\ [][GNext]_gvars

Terminal == stage \in {"returned", "stopped"} \/ (Directed # <<>> /\ pos = Len(Directed))

Emit ==
    Terminal => CSVWrite("%1$s", <<ToJson([steps |-> hist])>>, "loops.ndjson")
=============================================================================
