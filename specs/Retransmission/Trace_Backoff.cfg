SPECIFICATION TSpec
CONSTANTS
  MaxTicks = 1000000
  Backoff = TRUE
  Atomic = TRUE
  MayCancel = TRUE
CONSTRAINT Hwm
INVARIANTS BackoffExact StopsAfterCancel NeverAhead
POSTCONDITION Accepted
