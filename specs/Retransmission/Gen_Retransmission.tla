------------------------- MODULE Gen_Retransmission -------------------------
(* Behaviour generation: every complete schedule of the (hazard-grain)      *)
(* model with a history variable, written as JSON when nothing is left to   *)
(* do.  Each emitted document is                                            *)
(*   [steps |-> <<[a, g]...>>, retx |-> final retx, expected |-> contract]  *)
EXTENDS Retransmission, TLC, Json, CSV, IOUtils

VARIABLE hist
gvars == <<vars, hist>>

GInit == Init /\ hist = <<>>

Step(a, g) == hist' = Append(hist, [a |-> a, g |-> g])

GNext ==
    \/ DeliverTick /\ Step("DeliverTick", sent + 1)
    \/ Cancel /\ Step("Cancel", 0)
    \/ \E g \in Goroutines :
          \/ Call(g) /\ Step("Call", g)
          \/ (Atomic /\ AtomicTick(g) /\ Step("AtomicTick", g))
          \/ (~Atomic /\ Inc(g) /\ Step("Inc", g))
          \/ (~Atomic /\ Decide(g) /\ Step("Decide", g))

GSpec == GInit /\ [][GNext]_gvars

Done == sent = MaxTicks /\ Quiescent

\* what the contract promises for the callbacks that ran
Expected == IF Backoff THEN Cardinality(Sched(Len(pc))) ELSE Len(pc)

Emit ==
    Done => CSVWrite("%1$s", <<ToJson([steps |-> hist, retx |-> retx,
                                        observedCount |-> Len(retx),
                                        expectedCount |-> Expected,
                                        callbacks |-> Len(pc)])>>, "behaviours.ndjson")
=============================================================================
