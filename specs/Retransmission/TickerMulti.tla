----------------------------- MODULE TickerMulti -----------------------------
(***************************************************************************)
(* Several messages scheduled on ONE retransmission ticker                 *)
(* (pkg/net/retransmission/ticker.go: Ticker.onTick / Ticker.start;        *)
(* retransmission.go: ScheduleRetransmissions).  In the client every       *)
(* broadcast channel shares one ticker for all its messages, each message  *)
(* with its own context.                                                   *)
(*                                                                         *)
(*   Register(h)  ScheduleRetransmissions -> ticker.onTick(ctx_h, fn_h):   *)
(*                a new entry in the handlers map under a fresh key        *)
(*   Cancel(h)    ctx_h ends; the entry is removed lazily by the next tick *)
(*   Tick         Ticker.start body: every entry whose context ended is    *)
(*                deleted, every other entry's fn runs (one callback)      *)
(*                                                                         *)
(* C17 for several messages: each message is retransmitted on every tick   *)
(* (standard strategy) / on its own backoff schedule counted from its own  *)
(* registration, for as long as ITS context is live, whatever the other    *)
(* messages on the ticker do (register, end, be removed).                  *)
(***************************************************************************)
EXTENDS Naturals, Sequences, FiniteSets, TLC, Json, CSV, IOUtils

CONSTANTS Handlers,   \* message ids, e.g. {"A","B","C"}
          MaxSteps

VARIABLES state,      \* h -> "new" | "registered" | "cancelled" | "removed"
          calls,      \* h -> number of tick callbacks the message received
          hist

vars == <<state, calls, hist>>

Init == /\ state = [h \in Handlers |-> "new"]
        /\ calls = [h \in Handlers |-> 0]
        /\ hist = <<>>

Log(a, h) == hist' = Append(hist, [a |-> a, h |-> h, calls |-> calls'])

Register(h) ==
    /\ Len(hist) < MaxSteps /\ state[h] = "new"
    /\ state' = [state EXCEPT ![h] = "registered"]
    /\ UNCHANGED calls
    /\ Log("Register", h)

Cancel(h) ==
    /\ Len(hist) < MaxSteps /\ state[h] = "registered"
    /\ state' = [state EXCEPT ![h] = "cancelled"]
    /\ UNCHANGED calls
    /\ Log("Cancel", h)

Tick ==
    /\ Len(hist) < MaxSteps
    /\ \E h \in Handlers : state[h] \in {"registered", "cancelled"}
    /\ calls' = [h \in Handlers |-> IF state[h] = "registered" THEN calls[h] + 1 ELSE calls[h]]
    /\ state' = [h \in Handlers |-> IF state[h] = "cancelled" THEN "removed" ELSE state[h]]
    /\ Log("Tick", "")

DoRegister == \E h \in Handlers : Register(h)
DoCancel   == \E h \in Handlers : Cancel(h)
Next == DoRegister \/ DoCancel \/ Tick
Spec == Init /\ [][Next]_vars

\* ticks delivered while h was registered and live, recomputed from the history
LiveTicks(h) ==
    LET reg == { i \in 1..Len(hist) : hist[i].a = "Register" /\ hist[i].h = h }
        can == { i \in 1..Len(hist) : hist[i].a = "Cancel" /\ hist[i].h = h }
        from == IF reg = {} THEN Len(hist) + 1 ELSE CHOOSE i \in reg : TRUE
        to   == IF can = {} THEN Len(hist) + 1 ELSE CHOOSE i \in can : TRUE
    IN Cardinality({ i \in 1..Len(hist) : hist[i].a = "Tick" /\ i > from /\ i < to })

\* every message gets exactly one callback per tick of its own live period
ExactPerMessage == \A h \in Handlers : calls[h] = LiveTicks(h)

\* nothing after its context ended
StopsAfterCancel == \A h \in Handlers : state[h] = "removed" => calls[h] = LiveTicks(h)

Emit == (Len(hist) = MaxSteps) => CSVWrite("%1$s", <<ToJson([steps |-> hist])>>, "multi.ndjson")
=============================================================================
