SPECIFICATION TSpec
CONSTANTS
  MaxTicks = 1000000
  Backoff = FALSE
  Atomic = TRUE
  MayCancel = TRUE
CONSTRAINT Hwm
INVARIANTS StandardExact StopsAfterCancel NeverAhead
POSTCONDITION Accepted
