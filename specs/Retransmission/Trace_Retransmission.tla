------------------------ MODULE Trace_Retransmission ------------------------
(* Trace validation of real runs of Ticker + ScheduleRetransmissions +      *)
(* Strategy against the contract grain of Retransmission.                   *)
(* Events (harness, /verif/harness/pkg/net/retransmission/c17_test.go):     *)
(*   Reset          a new independent run starts                            *)
(*   Tick           one value was accepted by the ticker's channel          *)
(*   Cancel         the sender's context was cancelled (cancel returned)    *)
(*   Quiet(retx)    every spawned callback completed; retx = number of      *)
(*                  retransmit calls observed so far                        *)
(* Callback executions are not logged: they are silent steps inferred by    *)
(* TLC between a Tick and the next Quiet.                                   *)
EXTENDS Retransmission, TraceKit

VARIABLE l
tvars == <<vars, l>>

TInit == Init /\ l = 1 /\ HwmInit

IsEvent(e) == l <= Len(Trace) /\ Trace[l].event = e /\ l' = l + 1

TReset ==
    /\ IsEvent("Reset")
    /\ sent' = 0 /\ live' = TRUE /\ registered' = TRUE /\ pc' = <<>>
    /\ tc' = 0 /\ delay' = 1 /\ rt' = 1 /\ retx' = <<>>
    /\ sentAtCancel' = MaxTicks + 1

TTick   == IsEvent("Tick") /\ DeliverTick
TCancel == IsEvent("Cancel") /\ Cancel
TQuiet  == /\ IsEvent("Quiet")
           /\ Quiescent
           /\ Len(retx) = Trace[l].retx
           /\ UNCHANGED vars

Silent == /\ l' = l
          /\ \E g \in Goroutines : AtomicTick(g) \/ Call(g)

TNext == TReset \/ TTick \/ TCancel \/ TQuiet \/ Silent
TSpec == TInit /\ [][TNext]_tvars

Hwm == HwmConstraint(l)
Accepted == HwmAccepted
=============================================================================
