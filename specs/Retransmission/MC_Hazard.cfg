SPECIFICATION Spec
CONSTANTS
  MaxTicks = 3
  Backoff = TRUE
  Atomic = FALSE
  MayCancel = FALSE
INVARIANTS TypeOK BackoffExact
