SPECIFICATION GSpec
CONSTANTS
  MaxTicks = 4
  Backoff = TRUE
  Atomic = FALSE
  MayCancel = FALSE
INVARIANTS Emit
