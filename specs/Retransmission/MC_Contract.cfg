SPECIFICATION Spec
CONSTANTS
  MaxTicks = 12
  Backoff = TRUE
  Atomic = TRUE
  MayCancel = TRUE
INVARIANTS TypeOK BackoffExact StandardExact StopsAfterCancel NeverAhead
