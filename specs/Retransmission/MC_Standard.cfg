SPECIFICATION Spec
CONSTANTS
  MaxTicks = 8
  Backoff = FALSE
  Atomic = TRUE
  MayCancel = TRUE
INVARIANTS TypeOK BackoffExact StandardExact StopsAfterCancel NeverAhead
