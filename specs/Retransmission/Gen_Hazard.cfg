SPECIFICATION GSpec
CONSTANTS
  MaxTicks = 3
  Backoff = TRUE
  Atomic = FALSE
  MayCancel = FALSE
INVARIANTS Emit
