--------------------------- MODULE Retransmission ---------------------------
(***************************************************************************)
(* Retransmission scheduling of pkg/net/retransmission.                    *)
(*                                                                         *)
(* Code structure mirrored here:                                           *)
(*   Ticker.start           -> DeliverTick: for every tick read from the   *)
(*                             channel, each live handler's fn is called;  *)
(*                             a handler whose context ended is dropped.   *)
(*   ScheduleRetransmissions-> the handler fn spawns a goroutine per tick  *)
(*                             that calls strategy.Tick(retransmit).       *)
(*   StandardStrategy.Tick  -> Call: retransmit on every tick.             *)
(*   BackoffStrategy.Tick   -> Inc (tickCounter++), then Decide (compare   *)
(*                             with retransmitTick, update, retransmit).   *)
(*                                                                         *)
(* CONSTANT Atomic selects the grain: TRUE = the contract (one tick        *)
(* callback is one indivisible step), FALSE = the hazard variant in which  *)
(* Inc and Decide of different goroutines interleave freely, which is what *)
(* the Go memory model permits when Tick has no synchronization.           *)
(***************************************************************************)
EXTENDS Naturals, Sequences, FiniteSets

CONSTANTS MaxTicks,      \* number of ticks the ticker delivers
          Backoff,       \* TRUE: BackoffStrategy, FALSE: StandardStrategy
          Atomic,        \* grain of a tick callback
          MayCancel      \* whether the context can be cancelled

VARIABLES sent,          \* ticks read from the tick channel so far
          live,          \* the sender's context is not cancelled
          registered,    \* the handler is still in the ticker's map
          pc,            \* goroutine id (= tick number) -> "start" | "counted" | "done"
          tc, delay, rt, \* BackoffStrategy.tickCounter / delay / retransmitTick
          retx,          \* sequence of tickCounter values seen at each retransmission
          sentAtCancel   \* value of `sent` when Cancel returned (MaxTicks + 1 while live)

vars == <<sent, live, registered, pc, tc, delay, rt, retx, sentAtCancel>>

Goroutines == DOMAIN pc

Init ==
    /\ sent = 0 /\ live = TRUE /\ registered = TRUE
    /\ pc = <<>>
    /\ tc = 0 /\ delay = 1 /\ rt = 1
    /\ retx = <<>>
    /\ sentAtCancel = MaxTicks + 1

\* Ticker.start body for one tick.
DeliverTick ==
    /\ sent < MaxTicks
    /\ sent' = sent + 1
    /\ IF registered /\ live
          THEN /\ pc' = Append(pc, "start")
               /\ UNCHANGED <<registered, sentAtCancel>>
          ELSE /\ registered' = FALSE          \* handler.ctx.Err() != nil -> delete
               /\ UNCHANGED <<pc, sentAtCancel>>
    /\ UNCHANGED <<live, tc, delay, rt, retx>>

Cancel ==
    /\ MayCancel /\ live
    /\ live' = FALSE
    /\ sentAtCancel' = sent
    /\ UNCHANGED <<sent, registered, pc, tc, delay, rt, retx>>

\* BackoffStrategy.Tick, first statement.
Inc(g) ==
    /\ Backoff /\ pc[g] = "start"
    /\ tc' = tc + 1
    /\ pc' = [pc EXCEPT ![g] = "counted"]
    /\ UNCHANGED <<sent, live, registered, delay, rt, retx, sentAtCancel>>

\* BackoffStrategy.Tick, the if statement.
Decide(g) ==
    /\ Backoff /\ pc[g] = "counted"
    /\ pc' = [pc EXCEPT ![g] = "done"]
    /\ IF tc = rt
          THEN /\ rt' = rt + delay + 1
               /\ delay' = 2 * delay
               /\ retx' = Append(retx, tc)
          ELSE UNCHANGED <<rt, delay, retx>>
    /\ UNCHANGED <<sent, live, registered, tc, sentAtCancel>>

\* StandardStrategy.Tick.
Call(g) ==
    /\ ~Backoff /\ pc[g] = "start"
    /\ pc' = [pc EXCEPT ![g] = "done"]
    /\ retx' = Append(retx, 0)
    /\ UNCHANGED <<sent, live, registered, tc, delay, rt, sentAtCancel>>

\* Contract grain: the whole callback in one step.
AtomicTick(g) ==
    /\ Backoff /\ pc[g] = "start"
    /\ tc' = tc + 1
    /\ pc' = [pc EXCEPT ![g] = "done"]
    /\ IF tc + 1 = rt
          THEN /\ rt' = rt + delay + 1
               /\ delay' = 2 * delay
               /\ retx' = Append(retx, tc + 1)
          ELSE UNCHANGED <<rt, delay, retx>>
    /\ UNCHANGED <<sent, live, registered, sentAtCancel>>

\* one named top-level disjunct per action, so that TLC's coverage names them
DoCall       == \E g \in Goroutines : Call(g)
DoAtomicTick == \E g \in Goroutines : Atomic /\ AtomicTick(g)
DoInc        == \E g \in Goroutines : ~Atomic /\ Inc(g)
DoDecide     == \E g \in Goroutines : ~Atomic /\ Decide(g)

Next == DeliverTick \/ Cancel \/ DoCall \/ DoAtomicTick \/ DoInc \/ DoDecide

Spec == Init /\ [][Next]_vars

---------------------------------------------------------------------------
(* The documented schedule: R _ R _ _ R _ _ _ _ R ...  i.e. retransmission *)
(* k happens at tick r_k with r_1 = 1, r_{k+1} = r_k + 2^(k-1) + 1.        *)
RECURSIVE SchedTick(_)
SchedTick(k) == IF k = 1 THEN 1 ELSE SchedTick(k - 1) + 2 ^ (k - 2) + 1

\* only the first dozen schedule points can fall into the tick counts the configurations reach
\* (SchedTick(12) = 2059); bounding k keeps 2^(k-2) inside TLC's integers for long traces
Sched(n) == { t \in 1..n : \E k \in 1..(IF n < 12 THEN n ELSE 12) : SchedTick(k) = t }

Quiescent == \A g \in Goroutines : pc[g] = "done"

\* C17, backoff: once every callback has finished, the retransmissions that
\* happened are exactly the scheduled ones among the callbacks that ran.
BackoffExact ==
    (Backoff /\ Quiescent) =>
        /\ Len(retx) = Cardinality(Sched(Len(pc)))
        /\ \A i \in 1..Len(retx) : retx[i] = SchedTick(i)

\* C17, standard: one retransmission per tick callback.
StandardExact ==
    (~Backoff /\ Quiescent) => Len(retx) = Len(pc)

\* Retransmission stops once the context ended: a tick delivered after the
\* cancellation never spawns a callback, so callbacks (and retransmissions)
\* are bounded by the ticks delivered before Cancel returned.
StopsAfterCancel == (~live) => (Len(pc) <= sentAtCancel /\ Len(retx) <= sentAtCancel)

\* In flight, never more retransmissions than the schedule allows.
NeverAhead == Backoff => Len(retx) <= Cardinality(Sched(Len(pc)))

TypeOK ==
    /\ sent \in 0..MaxTicks /\ live \in BOOLEAN /\ registered \in BOOLEAN
    /\ \A g \in Goroutines : pc[g] \in {"start", "counted", "done"}
=============================================================================
