SPECIFICATION Spec
CONSTANTS
  Handlers = {"A", "B", "C"}
  MaxSteps = 7
INVARIANTS ExactPerMessage StopsAfterCancel Emit
