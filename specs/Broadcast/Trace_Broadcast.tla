-------------------------- MODULE Trace_Broadcast --------------------------
(* Trace validation of recorded real executions of a broadcast channel       *)
(* (pkg/net/libp2p channel, pkg/net/local localChannel) against Broadcast.   *)
(*                                                                           *)
(* The harness logs what it can see from outside the channel; everything     *)
(* else is a silent step TLC has to place:                                   *)
(*   RegisterCall/Ret(h)   around Recv(ctx, handler)        silent: Register *)
(*   CancelCall/Ret(h)     around the context's cancel()    silent: Cancel   *)
(*   SendCall/Ret(c, s, n) around Send() of sender s; n = the seqno the      *)
(*                         message carried   silent: Send, StartDeliver, ... *)
(*   DeliverCall/Ret(c, m) around a synchronous re-publication of message m  *)
(*                         (what the RetransmitFn does)                      *)
(*   Tick                  before a retransmission tick is fed: every        *)
(*                         message sent so far may be published once more,   *)
(*                         asynchronously                                    *)
(*   InvokeStart/End(h, m) first / last statement of the handler function    *)
(*   ObsQueue(h, n)        len(messageHandler.channel) read atomically       *)
(*   ObsHandlers(list)     messageHandlers read under the channel's mutex    *)
(* "Call" events are logged before the call, "Ret"/Invoke/Obs events after   *)
(* the effect, so the real order of effects is always an admissible          *)
(* placement of the silent steps: a rejected trace is a real execution the   *)
(* specification cannot explain.                                             *)
(*                                                                           *)
(* What rejection means for C16: an InvokeStart(h, m) can only be matched    *)
(* if m was published, accepted into h's queue, dequeued while the model     *)
(* could still pass CheckCtx (so not after a CancelRet that precedes the     *)
(* previous InvokeEnd), and not seen by h's filter before; and a handler     *)
(* cannot reach a later message without the earlier first-seen ones having   *)
(* been handed to it.                                                        *)
EXTENDS Broadcast, TraceKit

VARIABLES l,      \* cursor
          regP,   \* [Handlers -> {"idle","called","done","ret"}]
          canP,   \* [Handlers -> {"idle","called","done","ret"}]
          sc      \* pending synchronous Send / re-publication calls [c, s, m, st]

tvars == <<vars, l, regP, canP, sc>>

InitPrimed ==
    /\ counter' = [s \in Senders |-> 0]
    /\ budget' = [m \in Msgs |-> 0]
    /\ dl' = {}
    /\ handlers' = <<>>
    /\ ctxDone' = [h \in Handlers |-> FALSE]
    /\ removed' = [h \in Handlers |-> FALSE]
    /\ pc' = [h \in Handlers |-> "none"]
    /\ queue' = [h \in Handlers |-> <<>>]
    /\ cur' = [h \in Handlers |-> NoMsg]
    /\ seen' = [h \in Handlers |-> {}]
    /\ ninv' = [h \in Handlers |-> [m \in Msgs |-> 0]]
    /\ stale' = [h \in Handlers |-> FALSE]
    /\ acc' = [h \in Handlers |-> {}]
    /\ regP' = [h \in Handlers |-> "idle"]
    /\ canP' = [h \in Handlers |-> "idle"]
    /\ sc' = {}

TInit == /\ Init /\ l = 1 /\ HwmInit
         /\ regP = [h \in Handlers |-> "idle"]
         /\ canP = [h \in Handlers |-> "idle"]
         /\ sc = {}

IsEvent(e) == l <= Len(Trace) /\ Trace[l].event = e /\ l' = l + 1
Ev == Trace[l]

TReset == IsEvent("Reset") /\ InitPrimed

---- \* receiver lifecycle
TRegisterCall ==
    /\ IsEvent("RegisterCall") /\ regP[Ev.h] = "idle"
    /\ regP' = [regP EXCEPT ![Ev.h] = "called"]
    /\ UNCHANGED <<vars, canP, sc>>
SRegister(h) ==
    /\ regP[h] = "called" /\ Register(h)
    /\ regP' = [regP EXCEPT ![h] = "done"]
    /\ UNCHANGED <<l, canP, sc>>
TRegisterRet ==
    /\ IsEvent("RegisterRet") /\ regP[Ev.h] = "done"
    /\ regP' = [regP EXCEPT ![Ev.h] = "ret"]
    /\ UNCHANGED <<vars, canP, sc>>

TCancelCall ==
    /\ IsEvent("CancelCall") /\ canP[Ev.h] = "idle"
    /\ canP' = [canP EXCEPT ![Ev.h] = "called"]
    /\ UNCHANGED <<vars, regP, sc>>
SCancel(h) ==
    /\ canP[h] = "called" /\ Cancel(h)
    /\ canP' = [canP EXCEPT ![h] = "done"]
    /\ UNCHANGED <<l, regP, sc>>
TCancelRet ==
    /\ IsEvent("CancelRet") /\ canP[Ev.h] = "done"
    /\ canP' = [canP EXCEPT ![Ev.h] = "ret"]
    /\ UNCHANGED <<vars, regP, sc>>

---- \* senders
TSendCall ==
    /\ IsEvent("SendCall")
    /\ sc' = sc \cup {[c |-> Ev.c, s |-> Ev.s, m |-> NoMsg, st |-> "called"]}
    /\ UNCHANGED <<vars, regP, canP>>
\* nextSeqno inside Send
SAlloc(p) ==
    /\ p \in sc /\ p.st = "called" /\ Send(p.s)
    /\ sc' = (sc \ {p}) \cup {[p EXCEPT !.m = [s |-> p.s, n |-> counter[p.s] + 1], !.st = "alloc"]}
    /\ UNCHANGED <<l, regP, canP>>
\* the publication made by the call itself
SStart(p) ==
    /\ p \in sc /\ p.st = "alloc" /\ StartDeliverC(p.m, p.c)
    /\ sc' = (sc \ {p}) \cup {[p EXCEPT !.st = "started"]}
    /\ UNCHANGED <<l, regP, canP>>
Finished(p) == p.st = "started" /\ \A d \in dl : d.c # p.c
TSendRet ==
    /\ IsEvent("SendRet")
    /\ \E p \in sc : /\ p.c = Ev.c /\ Finished(p) /\ p.m.n = Ev.n
                     /\ sc' = sc \ {p}
    /\ UNCHANGED <<vars, regP, canP>>
\* synchronous re-publication of a message that was sent before
TDeliverCall ==
    /\ IsEvent("DeliverCall") /\ Ev.m \in Allocated
    /\ budget' = [budget EXCEPT ![Ev.m] = @ + 1]
    /\ sc' = sc \cup {[c |-> Ev.c, s |-> Ev.m.s, m |-> Ev.m, st |-> "alloc"]}
    /\ UNCHANGED <<counter, dl, handlers, ctxDone, removed, pc, queue, cur, seen, ninv, stale, acc, regP, canP>>
TDeliverRet ==
    /\ IsEvent("DeliverRet")
    /\ \E p \in sc : p.c = Ev.c /\ Finished(p) /\ sc' = sc \ {p}
    /\ UNCHANGED <<vars, regP, canP>>
\* a retransmission tick: each message sent so far may be published once more
TTick ==
    /\ IsEvent("Tick")
    /\ budget' = [m \in Msgs |-> IF m \in Allocated THEN budget[m] + 1 ELSE budget[m]]
    /\ UNCHANGED <<counter, dl, handlers, ctxDone, removed, pc, queue, cur, seen, ninv, stale, acc, regP, canP, sc>>

---- \* handler function
TInvokeStart ==
    /\ IsEvent("InvokeStart") /\ cur[Ev.h] = Ev.m /\ Invoke(Ev.h)
    /\ UNCHANGED <<regP, canP, sc>>
TInvokeEnd ==
    /\ IsEvent("InvokeEnd") /\ cur[Ev.h] = Ev.m /\ Return(Ev.h)
    /\ UNCHANGED <<regP, canP, sc>>

---- \* observations
TObsQueue ==
    /\ IsEvent("ObsQueue") /\ Len(queue[Ev.h]) = Ev.n
    /\ UNCHANGED <<vars, regP, canP, sc>>
TObsHandlers ==
    /\ IsEvent("ObsHandlers") /\ handlers = Ev.list
    /\ UNCHANGED <<vars, regP, canP, sc>>

---- \* silent steps
\* asynchronous publications (retransmission goroutines) use only what a Tick granted:
\* the budget of a pending synchronous call is reserved for it
Reserved(m) == Cardinality({p \in sc : p.m = m /\ p.st = "alloc"})
SAsync == \E m \in Msgs : budget[m] > Reserved(m) /\ StartDeliver(m)
Silent ==
    /\ l' = l
    /\ \/ \E h \in Handlers : SRegister(h) \/ SCancel(h)
       \/ \E p \in sc : SAlloc(p) \/ SStart(p)
       \/ /\ UNCHANGED <<regP, canP, sc>>
          /\ \/ SAsync
             \/ DoTrySend \/ DoRemoveHandler \/ DoExitOnDone
             \/ DoDequeue \/ DoCheckCtx \/ DoFilterDup

TNext == \/ TReset
         \/ TRegisterCall \/ TRegisterRet \/ TCancelCall \/ TCancelRet
         \/ TSendCall \/ TSendRet \/ TDeliverCall \/ TDeliverRet \/ TTick
         \/ TInvokeStart \/ TInvokeEnd \/ TObsQueue \/ TObsHandlers
         \/ Silent
TSpec == TInit /\ [][TNext]_tvars

Hwm == HwmConstraint(l)
Accepted == HwmAccepted
=============================================================================
