-------------------------- MODULE Trace_Broadcast --------------------------
(* Trace validation of recorded real executions of a broadcast channel       *)
(* (pkg/net/libp2p channel, pkg/net/local localChannel) against Broadcast.   *)
(*                                                                           *)
(* The harness logs what it can see from outside the channel; everything     *)
(* else is a silent step TLC has to place:                                   *)
(*   RegisterCall/Ret(h)   around Recv(ctx, handler)        silent: Register *)
(*   CancelCall/Ret(h)     around the context's cancel()    silent: Cancel   *)
(*   SendCall/Ret(c, s, n) around Send() of sender s; n = the seqno the      *)
(*                         message carried   silent: Send, StartDeliver, ... *)
(*                         (the harness writes n into the SendCall record    *)
(*                         once it is known: a prophecy that only spares TLC *)
(*                         guessing the order of concurrent nextSeqno calls) *)
(*                         fail = TRUE: the publisher was made to return an  *)
(*                         error for the call's own publication attempt      *)
(*   DeliverCall/Ret(c, m) around a synchronous re-publication of message m  *)
(*                         (what the RetransmitFn does)                      *)
(*   Tick                  before a retransmission tick is fed: every        *)
(*                         message sent so far may be published once more,   *)
(*                         asynchronously                                    *)
(*   Chk(h, live)          the processing goroutine of h called ctx.Err() and *)
(*                         got nil (only such reads are logged), atomically with *)
(*                         the read (the harness serializes its own cancel()  *)
(*                         calls with it). Only present when the Reset event  *)
(*                         says chk = TRUE, i.e. when a calibration run       *)
(*                         showed that the implementation asks ctx.Err()      *)
(*                         exactly once per dequeued message; then Dequeue    *)
(*                         and CheckCtx are taken together at this event (a   *)
(*                         dequeue can always be postponed until the check:   *)
(*                         queues never fill up in these runs and queue       *)
(*                         lengths are only observed while the goroutine is   *)
(*                         held inside the handler). Otherwise both are       *)
(*                         silent steps.                                      *)
(*   InvokeStart/End(h, m) first / last statement of the handler function    *)
(*   ObsQueue(h, n)        len(messageHandler.channel) read atomically       *)
(*   ObsHandlers(list)     messageHandlers read under the channel's mutex    *)
(* "Call" events are logged before the call, "Ret"/Invoke/Obs events after   *)
(* the effect, so the real order of effects is always an admissible          *)
(* placement of the silent steps: a rejected trace is a real execution the   *)
(* specification cannot explain.                                             *)
(*                                                                           *)
(* What rejection means for C16: an InvokeStart(h, m) can only be matched    *)
(* if m was published, accepted into h's queue, dequeued while the model     *)
(* could still pass CheckCtx (so not after a CancelRet that precedes the     *)
(* previous InvokeEnd), and not seen by h's filter before; and a handler     *)
(* cannot reach a later message without the earlier first-seen ones having   *)
(* been handed to it.                                                        *)
EXTENDS Broadcast, TraceKit

VARIABLES l,      \* cursor
          chkOn,  \* Chk events are recorded in this run
          regP,   \* [Handlers -> {"idle","called","done","ret"}]
          canP,   \* [Handlers -> {"idle","called","done","ret"}]
          sc      \* pending synchronous Send / re-publication calls [c, s, m, st]

tvars == <<vars, l, chkOn, regP, canP, sc>>

InitPrimed ==
    /\ counter' = [s \in Senders |-> 0]
    /\ budget' = [m \in Msgs |-> 0]
    /\ dl' = {}
    /\ handlers' = <<>>
    /\ ctxDone' = [h \in Handlers |-> FALSE]
    /\ kind' = [h \in Handlers |-> "live"]
    /\ removed' = [h \in Handlers |-> FALSE]
    /\ pc' = [h \in Handlers |-> "none"]
    /\ queue' = [h \in Handlers |-> <<>>]
    /\ cur' = [h \in Handlers |-> NoMsg]
    /\ seen' = [h \in Handlers |-> {}]
    /\ ninv' = [h \in Handlers |-> [m \in Msgs |-> 0]]
    /\ stale' = [h \in Handlers |-> FALSE]
    /\ acc' = [h \in Handlers |-> {}]
    /\ book' = [calls |-> [s \in Senders |-> 0], tagged |-> [m \in Msgs |-> {}], fails |-> 0]
    /\ regP' = [h \in Handlers |-> "idle"]
    /\ canP' = [h \in Handlers |-> "idle"]
    /\ sc' = {}

TInit == /\ Init /\ l = 1 /\ HwmInit /\ chkOn = FALSE
         /\ regP = [h \in Handlers |-> "idle"]
         /\ canP = [h \in Handlers |-> "idle"]
         /\ sc = {}

IsEvent(e) == l <= Len(Trace) /\ Trace[l].event = e /\ l' = l + 1
Ev == Trace[l]

TReset == IsEvent("Reset") /\ InitPrimed /\ chkOn' = Field(Ev, "chk", FALSE)

---- \* receiver lifecycle
TRegisterCall ==
    /\ IsEvent("RegisterCall") /\ regP[Ev.h] = "idle"
    /\ regP' = [regP EXCEPT ![Ev.h] = "called"]
    /\ UNCHANGED <<vars, chkOn, canP, sc>>
SRegister(h) ==
    /\ regP[h] = "called" /\ Register(h)
    /\ regP' = [regP EXCEPT ![h] = "done"]
    /\ UNCHANGED <<l, chkOn, canP, sc>>
TRegisterRet ==
    /\ IsEvent("RegisterRet") /\ regP[Ev.h] = "done"
    /\ regP' = [regP EXCEPT ![Ev.h] = "ret"]
    /\ UNCHANGED <<vars, chkOn, canP, sc>>

TCancelCall ==
    /\ IsEvent("CancelCall") /\ canP[Ev.h] = "idle"
    /\ canP' = [canP EXCEPT ![Ev.h] = "called"]
    /\ UNCHANGED <<vars, chkOn, regP, sc>>
SCancel(h) ==
    /\ canP[h] = "called" /\ Cancel(h)
    /\ canP' = [canP EXCEPT ![h] = "done"]
    /\ UNCHANGED <<l, chkOn, regP, sc>>
TCancelRet ==
    /\ IsEvent("CancelRet") /\ canP[Ev.h] = "done"
    /\ canP' = [canP EXCEPT ![Ev.h] = "ret"]
    /\ UNCHANGED <<vars, chkOn, regP, sc>>

---- \* senders
TSendCall ==
    /\ IsEvent("SendCall")
    /\ sc' = sc \cup {[c |-> Ev.c, s |-> Ev.s, m |-> [s |-> Ev.s, n |-> Ev.n], st |-> "called",
                        fail |-> Field(Ev, "fail", FALSE)]}
    /\ UNCHANGED <<vars, chkOn, regP, canP>>
\* nextSeqno inside Send
SAlloc(p) ==
    /\ p \in sc /\ p.st = "called" /\ p.m.n = counter[p.s] + 1 /\ Send(p.s)
    /\ sc' = (sc \ {p}) \cup {[p EXCEPT !.st = "alloc"]}
    /\ UNCHANGED <<l, chkOn, regP, canP>>
\* the publication made by the call itself
SStart(p) ==
    /\ p \in sc /\ p.st = "alloc"
    /\ IF p.fail THEN FailPublish(p.m) ELSE StartDeliverC(p.m, p.c)   \* fail: the publisher returned an error
    /\ sc' = (sc \ {p}) \cup {[p EXCEPT !.st = "started"]}
    /\ UNCHANGED <<l, chkOn, regP, canP>>
Finished(p) == p.st = "started" /\ \A d \in dl : d.c # p.c
TSendRet ==
    /\ IsEvent("SendRet")
    /\ \E p \in sc : /\ p.c = Ev.c /\ Finished(p) /\ p.m.n = Ev.n
                     /\ sc' = sc \ {p}
    /\ UNCHANGED <<vars, chkOn, regP, canP>>
\* synchronous re-publication of a message that was sent before
TDeliverCall ==
    /\ IsEvent("DeliverCall") /\ Ev.m \in Allocated
    /\ budget' = [budget EXCEPT ![Ev.m] = @ + 1]
    /\ sc' = sc \cup {[c |-> Ev.c, s |-> Ev.m.s, m |-> Ev.m, st |-> "alloc", fail |-> FALSE]}
    /\ UNCHANGED <<counter, dl, handlers, ctxDone, kind, removed, pc, queue, cur, seen, ninv, stale, acc, chkOn, regP, canP, book>>
TDeliverRet ==
    /\ IsEvent("DeliverRet")
    /\ \E p \in sc : p.c = Ev.c /\ Finished(p) /\ sc' = sc \ {p}
    /\ UNCHANGED <<vars, chkOn, regP, canP>>
\* a retransmission tick: each message sent so far may be published once more
TTick ==
    /\ IsEvent("Tick")
    /\ budget' = [m \in Msgs |-> IF m \in Allocated THEN budget[m] + 1 ELSE budget[m]]
    /\ UNCHANGED <<counter, dl, handlers, ctxDone, kind, removed, pc, queue, cur, seen, ninv, stale, acc, chkOn, regP, canP, sc, book>>

---- \* handler function
TInvokeStart ==
    /\ IsEvent("InvokeStart") /\ cur[Ev.h] = Ev.m /\ Invoke(Ev.h)
    /\ UNCHANGED <<chkOn, regP, canP, sc>>
TInvokeEnd ==
    /\ IsEvent("InvokeEnd") /\ cur[Ev.h] = Ev.m /\ Return(Ev.h)
    /\ UNCHANGED <<chkOn, regP, canP, sc>>

\* ctx.Err() after a dequeue: Dequeue and CheckCtx in one step
TChk ==
    /\ IsEvent("Chk") /\ chkOn
    /\ LET h == Ev.h IN
         /\ pc[h] = "select" /\ queue[h] # <<>>
         /\ Ev.live = ~ctxDone[h]
         /\ queue' = [queue EXCEPT ![h] = Tail(@)]
         /\ IF ctxDone[h]
               THEN UNCHANGED <<pc, cur>>
               ELSE /\ pc' = [pc EXCEPT ![h] = "checked"]
                    /\ cur' = [cur EXCEPT ![h] = Head(queue[h])]
    /\ UNCHANGED <<counter, budget, dl, handlers, ctxDone, kind, removed, seen, ninv, stale, acc, chkOn, regP, canP, sc, book>>

---- \* observations
TObsQueue ==
    /\ IsEvent("ObsQueue") /\ Len(queue[Ev.h]) = Ev.n
    /\ UNCHANGED <<vars, chkOn, regP, canP, sc>>
\* The observation of messageHandlers. When a cancelled handler leaves the list
\* (RemoveHandler / the exit of the local goroutine) matters only for the order of
\* the list (swap-with-last against later appends) and for this observation, so
\* the departures are taken either just before a registration (see Silent) or
\* here, in any order that produces the observed list.
Leaving(h) ==
    /\ ctxDone[h] /\ ~removed[h] /\ pc[h] # "none"
    /\ (Lifecycle = "inline" => pc[h] = "select")
RECURSIVE RemoveAll(_, _)
RemoveAll(seq, ord) == IF ord = <<>> THEN seq ELSE RemoveAll(SwapRemove(seq, Head(ord)), Tail(ord))
Orders(S) == { f \in [1..Cardinality(S) -> S] : \A a, b \in 1..Cardinality(S) : a # b => f[a] # f[b] }
TObsHandlers ==
    /\ IsEvent("ObsHandlers")
    /\ LET obs == Ev.list
           gone == { h \in Range(handlers) : \A k \in DOMAIN obs : obs[k] # h }
       IN /\ \A h \in gone : Leaving(h)
          /\ \E ord \in Orders(gone) : RemoveAll(handlers, ord) = obs
          /\ handlers' = obs
          /\ removed' = [h \in Handlers |-> removed[h] \/ h \in gone]
          /\ pc' = [h \in Handlers |-> IF h \in gone /\ Lifecycle = "inline" THEN "exited" ELSE pc[h]]
    /\ UNCHANGED <<counter, budget, dl, ctxDone, kind, queue, cur, seen, ninv, stale, acc, chkOn, regP, canP, sc, book>>

---- \* silent steps
\* asynchronous publications (retransmission goroutines) use only what a Tick granted:
\* the budget of a pending synchronous call is reserved for it
Reserved(m) == Cardinality({p \in sc : p.m = m /\ p.st = "alloc"})
SAsync == \E m \in Msgs : budget[m] > Reserved(m) /\ StartDeliver(m)
\* The filter's test-and-set touches nothing another step reads: taking it as
\* soon as it is enabled loses no behaviour and saves TLC the interleavings.
Urgent == \E h \in Handlers : pc[h] = "checked"
Silent ==
    /\ l' = l /\ chkOn' = chkOn
    /\ IF Urgent THEN DoFilterDup /\ UNCHANGED <<regP, canP, sc>>
       ELSE \/ \E h \in Handlers : SRegister(h) \/ SCancel(h)
            \/ \E p \in sc : SAlloc(p) \/ SStart(p)
            \/ /\ UNCHANGED <<regP, canP, sc>>
               /\ \/ SAsync
                  \/ DoTrySend
                  \/ ((\E h \in Handlers : regP[h] = "called") /\ (DoRemoveHandler \/ DoExitOnDone))
                  \/ (~chkOn /\ (DoDequeue \/ DoCheckCtx))

Pinned == \/ TReset
          \/ TRegisterCall \/ TRegisterRet \/ TCancelCall \/ TCancelRet
          \/ TSendCall \/ TSendRet \/ TDeliverCall \/ TDeliverRet \/ TTick
          \/ TChk \/ TInvokeStart \/ TInvokeEnd \/ TObsQueue \/ TObsHandlers
TNext == (~Urgent /\ Pinned) \/ Silent
TSpec == TInit /\ [][TNext]_tvars

\* once some path has consumed the whole trace it is explained: stop TLC (no error trace)
Hwm == HwmConstraint(l) /\ (l > Len(Trace) => TLCSet("exit", TRUE))
Accepted == HwmAccepted
=============================================================================
