SPECIFICATION Spec
CONSTANTS
  Senders = {"s1", "s2"}
  Handlers = {"h1"}
  MaxSend = 1
  MaxRetx = 2
  Cap = 2
  Lifecycle = "separate"
  SecondCheck = TRUE
  Filter = TRUE
  EndKinds = {"deadline"}
  Honoured = {"cancel", "deadline", "parent"}
  MaxFail = 1
  GiveBack = FALSE
INVARIANTS TypeOK AtMostOnce NoStaleInvoke OnlyAllocated SeqnoUnique QueueBound HandlersConsistent FilterConsistent NoLoss ExitedIdle InvokedOnlyRegistered
PROPERTIES SeqnoStep
