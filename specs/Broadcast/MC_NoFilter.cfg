SPECIFICATION Spec
CONSTANTS
  Senders = {"s1"}
  Handlers = {"h1"}
  MaxSend = 1
  MaxRetx = 1
  Cap = 2
  Lifecycle = "separate"
  SecondCheck = TRUE
  Filter = FALSE
  EndKinds = {"cancel"}
  Honoured = {"cancel", "deadline", "parent"}
  MaxFail = 0
  GiveBack = FALSE
INVARIANTS AtMostOnce
