-------------------------- MODULE Gen_DupFilterSeq --------------------------
(* Arrival orders for the sequential replay of the duplicate filter.         *)
(* The contract of DupFilter does not look at what a key is made of: the     *)
(* delegate gets a (sender, seqno) exactly once whatever the order in which  *)
(* the sequence numbers of a sender arrive - out of order, with gaps that    *)
(* are filled later, with retransmissions of anything seen before. This      *)
(* module enumerates every sequence of calls (one caller, so every call is   *)
(* Call; TestAndSet; Delegate if absent; Return) over Keys = senders x       *)
(* seqnos up to MaxLen and writes, for every sequence, which calls reach     *)
(* the delegate. The harness additionally retransmits every key seen so far  *)
(* after every step; FAtMostOnce says none of those reaches the delegate.    *)
EXTENDS DupFilter, Sequences, TLC, Json, CSV, IOUtils

CONSTANT MaxLen
VARIABLE hist
gvars == <<fvars, hist>>

GInit == FInit /\ hist = <<>>

\* one whole call of the only caller
GCall(k) ==
    /\ Len(hist) < MaxLen
    /\ cache' = cache \cup {k}
    /\ delegated' = IF k \in cache THEN delegated ELSE [delegated EXCEPT ![k] = @ + 1]
    /\ hist' = Append(hist, [k |-> k, fresh |-> k \notin cache])
    /\ UNCHANGED <<pc, key, absent, calls>>

GNext == \E k \in Keys : GCall(k)
GSpec == GInit /\ [][GNext]_gvars

Emit == (Len(hist) = MaxLen) => CSVWrite("%1$s", <<ToJson([calls |-> hist])>>, "sequences.ndjson")
GenInvariants == FAtMostOnce /\ FExactlyOnce
=============================================================================
