----------------------------- MODULE DupFilter -----------------------------
(***************************************************************************)
(* The duplicate filter of pkg/net/retransmission/retransmission.go        *)
(* (WithRetransmissionSupport) called from several goroutines at once.     *)
(* "The returned handler is thread-safe": the membership test and the      *)
(* insertion of "<sender>-<seqno>" happen under one mutex (TestAndSet);    *)
(* the delegate is called outside the mutex by the caller that found the   *)
(* key absent. Broadcast.FilterDup is this TestAndSet for the single       *)
(* processing goroutine of a handler.                                      *)
(*                                                                         *)
(* Atomic = FALSE is the hazard grain (test and insertion as two steps),   *)
(* which hands a message to the delegate twice (MC_DupFilterHazard).       *)
(***************************************************************************)
EXTENDS Naturals, FiniteSets

CONSTANTS Procs, Keys, Atomic, MaxCalls

VARIABLES cache,      \* SUBSET Keys           the filter's map
          pc,         \* [Procs -> {"idle","called","tested","deleg","ret"}]
          key,        \* [Procs -> Keys]       key of the call in progress
          absent,     \* [Procs -> BOOLEAN]    what the membership test found
          delegated,  \* [Keys -> Nat]         delegate invocations
          calls       \* [Procs -> Nat]        calls made (bound)

fvars == <<cache, pc, key, absent, delegated, calls>>

FInit ==
    /\ cache = {} /\ pc = [p \in Procs |-> "idle"]
    /\ key = [p \in Procs |-> CHOOSE k \in Keys : TRUE]
    /\ absent = [p \in Procs |-> FALSE]
    /\ delegated = [k \in Keys |-> 0]
    /\ calls = [p \in Procs |-> 0]

Call(p, k) ==
    /\ pc[p] = "idle" /\ calls[p] < MaxCalls
    /\ pc' = [pc EXCEPT ![p] = "called"]
    /\ key' = [key EXCEPT ![p] = k]
    /\ calls' = [calls EXCEPT ![p] = @ + 1]
    /\ UNCHANGED <<cache, absent, delegated>>

\* mutex.Lock(); _, seen := cache[id]; if !seen { cache[id] = true }; mutex.Unlock()
TestAndSet(p) ==
    /\ Atomic /\ pc[p] = "called"
    /\ absent' = [absent EXCEPT ![p] = key[p] \notin cache]
    /\ cache' = cache \cup {key[p]}
    /\ pc' = [pc EXCEPT ![p] = IF key[p] \notin cache THEN "deleg" ELSE "ret"]
    /\ UNCHANGED <<key, delegated, calls>>

\* hazard grain
Test(p) ==
    /\ ~Atomic /\ pc[p] = "called"
    /\ absent' = [absent EXCEPT ![p] = key[p] \notin cache]
    /\ pc' = [pc EXCEPT ![p] = "tested"]
    /\ UNCHANGED <<cache, key, delegated, calls>>
Set(p) ==
    /\ ~Atomic /\ pc[p] = "tested"
    /\ cache' = IF absent[p] THEN cache \cup {key[p]} ELSE cache
    /\ pc' = [pc EXCEPT ![p] = IF absent[p] THEN "deleg" ELSE "ret"]
    /\ UNCHANGED <<key, absent, delegated, calls>>

\* if !seen { delegate(message) }
Delegate(p) ==
    /\ pc[p] = "deleg"
    /\ delegated' = [delegated EXCEPT ![key[p]] = @ + 1]
    /\ pc' = [pc EXCEPT ![p] = "ret"]
    /\ UNCHANGED <<cache, key, absent, calls>>

Return(p) ==
    /\ pc[p] = "ret"
    /\ pc' = [pc EXCEPT ![p] = "idle"]
    /\ UNCHANGED <<cache, key, absent, delegated, calls>>

DoCall       == \E p \in Procs, k \in Keys : Call(p, k)
DoTestAndSet == \E p \in Procs : TestAndSet(p)
DoTest       == \E p \in Procs : Test(p)
DoSet        == \E p \in Procs : Set(p)
DoDelegate   == \E p \in Procs : Delegate(p)
DoReturn     == \E p \in Procs : Return(p)

FNext == DoCall \/ DoTestAndSet \/ DoTest \/ DoSet \/ DoDelegate \/ DoReturn
FSpec == FInit /\ [][FNext]_fvars

FTypeOK == cache \subseteq Keys /\ \A p \in Procs : pc[p] \in {"idle", "called", "tested", "deleg", "ret"}

\* C16: a (sender, seqno) reaches the delegate at most once ...
FAtMostOnce == \A k \in Keys : delegated[k] <= 1

\* ... and exactly once when nobody is inside the filter: the first caller does
\* not return before the delegate has run
Quiescent == \A p \in Procs : pc[p] = "idle"
FExactlyOnce == Quiescent => \A k \in Keys : delegated[k] = (IF k \in cache THEN 1 ELSE 0)

\* whoever returns for a key in the cache without having been the one to
\* delegate it found it present: no call returns "new" twice
FOneWinner == \A k \in Keys :
    Cardinality({p \in Procs : pc[p] = "deleg" /\ key[p] = k}) + delegated[k] <= 1
=============================================================================
