SPECIFICATION TSpec
CONSTANTS
  Procs = {"p1", "p2", "p3", "p4", "p5", "p6"}
  Keys = {"s1:1", "s1:2", "s2:1", "s2:2"}
  Atomic = TRUE
  MaxCalls = 1000000
CONSTRAINT Hwm
INVARIANTS FAtMostOnce FExactlyOnce FOneWinner
POSTCONDITION Accepted
