SPECIFICATION Spec
CONSTANTS
  Senders = {"s1", "s2"}
  Handlers = {"h1", "h2"}
  MaxSend = 1
  MaxRetx = 1
  Cap = 1
  Lifecycle = "inline"
  SecondCheck = TRUE
  Filter = TRUE
  EndKinds = {"deadline"}
  Honoured = {"cancel", "deadline", "parent"}
  MaxFail = 0
  GiveBack = FALSE
INVARIANTS TypeOK AtMostOnce NoStaleInvoke OnlyAllocated SeqnoUnique QueueBound HandlersConsistent FilterConsistent NoLoss ExitedIdle InvokedOnlyRegistered
PROPERTIES SeqnoStep
