SPECIFICATION GSpec
CONSTANTS
  Procs = {"p1"}
  Keys = {"s1:1", "s1:2", "s1:3", "s1:4", "s2:1", "s2:2", "s2:3", "s2:4"}
  Atomic = TRUE
  MaxCalls = 1
  MaxLen = 5
INVARIANTS Emit GenInvariants
