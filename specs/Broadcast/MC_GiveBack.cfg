SPECIFICATION Spec
CONSTANTS
  Senders = {"s1"}
  Handlers = {"h1"}
  MaxSend = 2
  MaxRetx = 1
  Cap = 2
  Lifecycle = "separate"
  SecondCheck = TRUE
  Filter = TRUE
  MaxFail = 1
  GiveBack = TRUE
INVARIANTS SeqnoUnique
