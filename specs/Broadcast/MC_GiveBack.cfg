SPECIFICATION Spec
CONSTANTS
  Senders = {"s1"}
  Handlers = {"h1"}
  MaxSend = 2
  MaxRetx = 1
  Cap = 2
  Lifecycle = "separate"
  SecondCheck = TRUE
  Filter = TRUE
  EndKinds = {"cancel"}
  Honoured = {"cancel", "deadline", "parent"}
  MaxFail = 1
  GiveBack = TRUE
INVARIANTS SeqnoUnique
