SPECIFICATION GSpec
CONSTANTS
  Senders = {"s1", "s2"}
  Handlers = {"h1", "h2"}
  MaxSend = 2
  MaxRetx = 2
  Cap = 256
  Lifecycle = "separate"
  SecondCheck = TRUE
  Filter = TRUE
  MaxFail = 1
  GiveBack = FALSE
  MaxSteps = 40
INVARIANTS Emit GenInvariants
