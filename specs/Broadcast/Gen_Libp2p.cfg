SPECIFICATION GSpec
CONSTANTS
  Senders = {"s1", "s2"}
  Handlers = {"h1", "h2"}
  MaxSend = 2
  MaxRetx = 2
  Cap = 256
  Lifecycle = "separate"
  SecondCheck = TRUE
  Filter = TRUE
  EndKinds = {"cancel", "deadline", "parent"}
  Honoured = {"cancel", "deadline", "parent"}
  MaxFail = 1
  GiveBack = FALSE
  MaxSteps = 40
INVARIANTS Emit GenInvariants
