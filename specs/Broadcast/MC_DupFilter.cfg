SPECIFICATION FSpec
CONSTANTS
  Procs = {"p1", "p2", "p3"}
  Keys = {"k1", "k2"}
  Atomic = TRUE
  MaxCalls = 2
INVARIANTS FTypeOK FAtMostOnce FExactlyOnce FOneWinner
