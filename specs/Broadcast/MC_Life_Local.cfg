SPECIFICATION Spec
CONSTANTS
  Senders = {"s1"}
  Handlers = {"h1", "h2"}
  MaxSend = 1
  MaxRetx = 1
  Cap = 1
  Lifecycle = "inline"
  SecondCheck = TRUE
  Filter = TRUE
  EndKinds = {"cancel", "deadline", "parent"}
  Honoured = {"cancel", "deadline", "parent"}
  MaxFail = 1
  GiveBack = FALSE
INVARIANTS TypeOK AtMostOnce NoStaleInvoke OnlyAllocated SeqnoUnique QueueBound HandlersConsistent FilterConsistent NoLoss ExitedIdle InvokedOnlyRegistered
PROPERTIES SeqnoStep
