-------------------------- MODULE Trace_DupFilter --------------------------
(* Linearizability of recorded concurrent calls of the real filter against  *)
(* the atomic grain of DupFilter.                                           *)
(*   Call(p, k)      logged before wrapped(message) is called               *)
(*   Delegate(p, k)  logged inside the delegate                             *)
(*   Return(p)       logged after wrapped(message) returned                 *)
(* The test-and-set is the silent step between Call and Delegate / Return.  *)
EXTENDS DupFilter, TraceKit

VARIABLE l
tvars == <<fvars, l>>

TInit == FInit /\ l = 1 /\ HwmInit
IsEvent(e) == l <= Len(Trace) /\ Trace[l].event = e /\ l' = l + 1
Ev == Trace[l]

TReset ==
    /\ IsEvent("Reset")
    /\ cache' = {} /\ pc' = [p \in Procs |-> "idle"] /\ key' = key
    /\ absent' = [p \in Procs |-> FALSE]
    /\ delegated' = [k \in Keys |-> 0] /\ calls' = [p \in Procs |-> 0]

TCall     == IsEvent("Call") /\ Call(Ev.p, Ev.k)
TDelegate == IsEvent("Delegate") /\ key[Ev.p] = Ev.k /\ Delegate(Ev.p)
TReturn   == IsEvent("Return") /\ Return(Ev.p)
Lin       == l' = l /\ DoTestAndSet

TNext == TReset \/ TCall \/ TDelegate \/ TReturn \/ Lin
TSpec == TInit /\ [][TNext]_tvars
\* once some path has consumed the whole trace it is explained: stop TLC (no error trace)
Hwm == HwmConstraint(l) /\ (l > Len(Trace) => TLCSet("exit", TRUE))
Accepted == HwmAccepted
=============================================================================
