SPECIFICATION FSpec
CONSTANTS
  Procs = {"p1", "p2"}
  Keys = {"k1"}
  Atomic = FALSE
  MaxCalls = 1
INVARIANTS FAtMostOnce
