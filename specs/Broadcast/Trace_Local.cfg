SPECIFICATION TSpec
CONSTANTS
  Senders = {"s1", "s2", "s3", "f"}
  Handlers = {"h1", "h2", "h3"}
  MaxSend = 30
  MaxRetx = 0
  Cap = 256
  Lifecycle = "inline"
  SecondCheck = TRUE
  Filter = TRUE
  EndKinds = {"cancel", "deadline", "parent"}
  Honoured = {"cancel", "deadline", "parent"}
  MaxFail = 0
  GiveBack = FALSE
CONSTRAINT Hwm
INVARIANTS SeqnoUnique AtMostOnce NoStaleInvoke QueueBound
POSTCONDITION Accepted
