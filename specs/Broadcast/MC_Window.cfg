SPECIFICATION Spec
CONSTANTS
  Senders = {"s1"}
  Handlers = {"h1"}
  MaxSend = 1
  MaxRetx = 0
  Cap = 1
  Lifecycle = "separate"
  SecondCheck = TRUE
  Filter = TRUE
  EndKinds = {"cancel"}
  Honoured = {"cancel", "deadline", "parent"}
  MaxFail = 0
  GiveBack = FALSE
INVARIANTS StrictAfterCancel
