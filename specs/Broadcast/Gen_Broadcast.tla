--------------------------- MODULE Gen_Broadcast ---------------------------
(* Behaviour generation for the forced replay of Broadcast on the real      *)
(* channels (pkg/net/libp2p channel, pkg/net/local localChannel).           *)
(*                                                                          *)
(* The harness holds the processing goroutine of every handler at the       *)
(* points it can reach without touching the code: the call of ctx.Done()    *)
(* that precedes every select ("select"), the call of ctx.Err() before and  *)
(* after its evaluation ("dequeued" / "checked") and the handler function   *)
(* ("running"). So every step of the processing goroutine is a separately   *)
(* scheduled step here too, except that FilterDup and Invoke happen         *)
(* together (FilterInvoke). What the harness cannot split is a deliver()    *)
(* call (snapshot + one TrySend per handler: DeliverAll) and, for libp2p,   *)
(* the lifecycle goroutine (Cancel is followed by RemoveHandler before the  *)
(* next step: CancelRemove). The exhaustive MC_* configurations have        *)
(* neither restriction.                                                     *)
(*                                                                          *)
(* When the select of a cancelled handler has a message too, Go picks a     *)
(* case at random: Dequeue / ExitOnDone steps taken in such a state carry   *)
(* race = TRUE and the harness stops the behaviour there if the real select *)
(* went the other way.                                                      *)
(*                                                                          *)
(* Emitted: [steps |-> hist, lifecycle |-> Lifecycle],                      *)
(*   hist[i] = [a, h, m, race, st]   st = abstract state after the step.    *)
EXTENDS Broadcast, Integers, TLC, Json, CSV, IOUtils

CONSTANT MaxSteps

VARIABLE hist
gvars == <<vars, hist>>

View ==
    [handlers |-> handlers',
     h |-> [x \in Handlers |->
              [pc |-> pc'[x], done |-> ctxDone'[x], kind |-> kind'[x], qlen |-> Len(queue'[x]),
               cur |-> cur'[x],
               inv |-> { m \in Msgs : ninv'[x][m] > 0 }]]]

E(a, h, m, race) == hist' = Append(hist, [a |-> a, h |-> h, m |-> m, race |-> race, st |-> View])

GInit == Init /\ hist = <<>>

\* one whole deliver(m): snapshot, then a non-blocking send to every handler
EnqAll(m) ==
    /\ queue' = [x \in Handlers |->
                   IF x \in Range(handlers) /\ Len(queue[x]) < Cap THEN Append(queue[x], m) ELSE queue[x]]
    /\ acc' = [x \in Handlers |->
                   IF x \in Range(handlers) /\ Len(queue[x]) < Cap THEN acc[x] \cup {m} ELSE acc[x]]

\* channel.Send: nextSeqno, then the first publication, synchronously
GSend(s) ==
    /\ counter[s] < MaxSend
    /\ LET m == [s |-> s, n |-> counter[s] + 1] IN
         /\ counter' = [counter EXCEPT ![s] = @ + 1]
         /\ budget' = [budget EXCEPT ![m] = MaxRetx]
         /\ book' = [book EXCEPT !.calls[s] = @ + 1, !.tagged[m] = @ \cup {book.calls[s] + 1}]
         /\ EnqAll(m)
         /\ UNCHANGED <<dl, handlers, ctxDone, kind, removed, pc, cur, seen, ninv, stale>>
         /\ E("Send", "", m, FALSE)

\* channel.Send whose own publication attempt fails (libp2p: the publisher returns an
\* error): the number is taken, the retransmissions are scheduled, nothing is delivered
GSendFail(s) ==
    /\ counter[s] < MaxSend /\ book.fails < MaxFail
    /\ LET m == [s |-> s, n |-> counter[s] + 1] IN
         /\ counter' = [counter EXCEPT ![s] = @ + 1]
         /\ budget' = [budget EXCEPT ![m] = MaxRetx]
         /\ book' = [book EXCEPT !.calls[s] = @ + 1, !.tagged[m] = @ \cup {book.calls[s] + 1}, !.fails = @ + 1]
         /\ UNCHANGED <<dl, handlers, ctxDone, kind, removed, pc, queue, cur, seen, ninv, stale, acc>>
         /\ E("SendFail", "", m, FALSE)

\* one retransmission (the RetransmitFn of Send), synchronously
GRetransmit(m) ==
    /\ budget[m] > 0
    /\ budget' = [budget EXCEPT ![m] = @ - 1]
    /\ EnqAll(m)
    /\ UNCHANGED <<counter, dl, handlers, ctxDone, kind, removed, pc, cur, seen, ninv, stale, book>>
    /\ E("Retransmit", "", m, FALSE)

GRegister(h) == ~ctxDone[h] /\ Register(h) /\ E("Register", h, NoMsg, FALSE)

\* (simulation picks uniformly among successors; cancelling is thinned out so
\* that behaviours get to process messages before their handlers go away)
GCancel(h) ==
    /\ pc[h] # "none"
    /\ Len(hist) % 5 = 4
    /\ IF Lifecycle = "inline"
          THEN Cancel(h) /\ E("Cancel", h, NoMsg, FALSE)
          ELSE /\ ~ctxDone[h]
               /\ ctxDone' = [ctxDone EXCEPT ![h] = TRUE]
               /\ \E k \in EndKinds : kind' = [kind EXCEPT ![h] = k]
               /\ handlers' = SwapRemove(handlers, h)
               /\ removed' = [removed EXCEPT ![h] = TRUE]
               /\ UNCHANGED <<counter, budget, dl, pc, queue, cur, seen, ninv, stale, acc, book>>
               /\ E("CancelRemove", h, NoMsg, FALSE)

GDequeue(h)    == Dequeue(h) /\ E("Dequeue", h, Head(queue[h]), ctxDone[h])
GExitOnDone(h) == ExitOnDone(h) /\ E("ExitOnDone", h, NoMsg, queue[h] # <<>>)
GCheckCtx(h)   == CheckCtx(h) /\ E("CheckCtx", h, cur[h], FALSE)
GReturn(h)     == Return(h) /\ E("Return", h, cur[h], FALSE)

\* FilterDup, and Invoke right away when the message passed the filter
GFilterInvoke(h) ==
    /\ pc[h] = "checked"
    /\ IF cur[h] \in seen[h]
          THEN /\ pc' = [pc EXCEPT ![h] = "select"]
               /\ cur' = [cur EXCEPT ![h] = NoMsg]
               /\ UNCHANGED <<seen, ninv>>
          ELSE /\ pc' = [pc EXCEPT ![h] = "running"]
               /\ seen' = [seen EXCEPT ![h] = @ \cup {cur[h]}]
               /\ ninv' = [ninv EXCEPT ![h][cur[h]] = @ + 1]
               /\ UNCHANGED cur
    /\ UNCHANGED <<counter, budget, dl, handlers, ctxDone, kind, removed, queue, stale, acc, book>>
    /\ E("FilterInvoke", h, cur[h], FALSE)

Stop == Len(hist) >= MaxSteps

GNext ==
    /\ ~Stop
    /\ \/ \E s \in Senders : GSend(s) \/ GSendFail(s)
       \/ \E m \in Msgs : GRetransmit(m)
       \/ \E h \in Handlers :
             \/ GRegister(h) \/ GCancel(h) \/ GDequeue(h) \/ GExitOnDone(h)
             \/ GCheckCtx(h) \/ GFilterInvoke(h) \/ GReturn(h)

GSpec == GInit /\ [][GNext]_gvars

Emit == (Stop \/ ~ENABLED GNext) =>
           CSVWrite("%1$s", <<ToJson([steps |-> hist, lifecycle |-> Lifecycle])>>, "behaviours.ndjson")

\* the generation restriction must not hide violations of its own
GenInvariants == AtMostOnce /\ NoStaleInvoke /\ OnlyAllocated /\ SeqnoUnique /\ HandlersConsistent
                 /\ FilterConsistent /\ NoLoss /\ ExitedIdle
=============================================================================
