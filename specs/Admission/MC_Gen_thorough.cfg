SPECIFICATION Spec
CONSTANTS
  N = 5
  Owner <- Owner5
  Outsider = "X"
  WireIndexes <- Wire5
  StepSet <- Representatives
INVARIANTS
  TypeOK ActedOnlyForHeldSeat NoOutsider NoWrapAround OwnIgnored OtherContextIgnored
  ExcludedIgnored ExcludedBeforeStateIgnored OtherTypeIgnored WrongKeyIgnored SilentIgnores
  FaultAttribution ProposalOnlyFromLeader GenuineActedOn JustDisqualifiedHeard SiblingSeatHeard
  EmitCase
