----------------------------- MODULE Admission -----------------------------
(***************************************************************************)
(* C12 -- sender admission across all protocol steps of keep-core.         *)
(*                                                                         *)
(* Every interactive protocol step receives net.Message values from a      *)
(* broadcast channel.  A message carries (a) the network key the transport *)
(* layer pinned for the sender (SenderPublicKey) and (b) a payload that    *)
(* CLAIMS a member index (senderID, a uint32 on the wire, a uint8 member   *)
(* index after decoding).  Each step decides whether it acts on the        *)
(* message.  The code has one shape for that decision, repeated per step   *)
(* with small differences; this module states it ONCE (Outcome), with the  *)
(* differences as parameters of a rule (Rule), and lists every step with   *)
(* the rule it uses (Steps).                                               *)
(*                                                                         *)
(* Code mirrored (all under /repo/pkg):                                    *)
(*   Decoded            <Msg>.Unmarshal -> validateMemberIndex(pb.SenderID)*)
(*                      (gjkr, beacon/dkg/result, tecdsa/dkg,              *)
(*                       tecdsa/signing, inactivity, announcer, tbtc       *)
(*                       marshaling.go); an undecodable message never      *)
(*                      reaches a step (net layer drops it)                *)
(*   IsValidMembership  protocol/group/membership_validator.go             *)
(*                      (index := int(memberID - 1) on uint8; position     *)
(*                      lookup by the address of the pinned network key)   *)
(*   IsInGroupKey       MembershipValidator.IsInGroup                      *)
(*   IsOperating        protocol/group/group.go IsOperating                *)
(*                      = isInGroup /\ ~isInactive /\ ~isDisqualified      *)
(*   member rule        shouldAcceptMessage of gjkr/message_filter.go,     *)
(*                      beacon/dkg/result/signing.go, tecdsa/dkg/member.go *)
(*                      (member and signingMember), tecdsa/signing/        *)
(*                      member.go, protocol/inactivity/member.go           *)
(*                      + the session comparison in each state's Receive   *)
(*   memberStateStart   gjkr shouldAcceptAccusationMessage (phases 4, 8):  *)
(*                      sender must have been operating when the state     *)
(*                      began (snapshot taken in Initiate after            *)
(*                      MarkInactiveMembers, before the verification that  *)
(*                      may disqualify)                                    *)
(*   memberKey          result/claim signing states: additionally the key  *)
(*                      embedded in the message must equal the pinned key  *)
(*   announce           protocol/announcer/announcer.go Announce loop      *)
(*   coordinate         tbtc/coordination.go executeFollowerRoutine        *)
(*   signingDone        tbtc/signing_done.go listen / isValidDoneMessage   *)
(*   silent             states whose Receive ignores everything            *)
(*                                                                         *)
(* The input space is finite; Init enumerates it (step x case) and the     *)
(* single action Deliver computes the outcome, so that the property's      *)
(* clauses are invariants over decided states.                             *)
(***************************************************************************)
EXTENDS Integers, Sequences, FiniteSets

CONSTANTS
    N,             \* group size (seats 1..N)
    Owner,         \* <<k_1, ..., k_N>>: operator (network key) holding each seat
    Outsider,      \* a network key that holds no seat
    WireIndexes    \* values of the sender index field tried on the wire

MaxMemberIndex == 255
Seats      == 1..N
Operators  == {Owner[i] : i \in Seats}
NetKeys    == Operators \cup {Outsider}
SeatsOf(k) == {i \in Seats : Owner[i] = k}
MinOf(S)   == CHOOSE x \in S : \A y \in S : x <= y

---------------------------------------------------------------------------
(* Rules: the parameters in which the steps differ.                        *)
(*   self       which claimed indexes count as "the receiver's own":       *)
(*              "index" = the executing member's index, "operator" = every *)
(*              seat of the executing operator, "none"                     *)
(*   operating  which exclusion makes a claimed member unacceptable:       *)
(*              "current" = IA/DQ in the group now, "stateStart" = IA/DQ   *)
(*              when the state began, "attempt" = not included in the      *)
(*              signing attempt, "none"                                    *)
(*   ctx        context fields of the message that must match the          *)
(*              receiver's session                                         *)
(*   keyMatch   the payload embeds a public key that must equal the pinned *)
(*              network key                                                *)
(*   leader     only the leader's first seat may propose; another valid    *)
(*              member is recorded as a leader impersonator                *)
(*   extras     payload validity classes tried in addition to "ok"         *)
(*   decoder    the claimed index arrives through a protobuf decoder       *)
(*   index      the step looks at a claimed index at all                   *)
(***************************************************************************)
RuleNames == {"member", "memberStateStart", "memberKey", "announce", "coordinate",
              "signingDone", "silent", "validator", "inGroup"}

Rule(name) ==
    CASE name = "member" ->
           [self |-> "index", operating |-> "current", ctx |-> {"session"}, keyMatch |-> FALSE,
            leader |-> FALSE, extras |-> {"ok"}, decoder |-> TRUE, index |-> TRUE]
      [] name = "memberStateStart" ->
           [self |-> "index", operating |-> "stateStart", ctx |-> {"session"}, keyMatch |-> FALSE,
            leader |-> FALSE, extras |-> {"ok"}, decoder |-> TRUE, index |-> TRUE]
      [] name = "memberKey" ->
           [self |-> "index", operating |-> "current", ctx |-> {"session"}, keyMatch |-> TRUE,
            leader |-> FALSE, extras |-> {"ok"}, decoder |-> TRUE, index |-> TRUE]
      [] name = "announce" ->
           [self |-> "index", operating |-> "none", ctx |-> {"protocol", "session"}, keyMatch |-> FALSE,
            leader |-> FALSE, extras |-> {"ok"}, decoder |-> TRUE, index |-> TRUE]
      [] name = "coordinate" ->
           [self |-> "operator", operating |-> "none", ctx |-> {"block", "wallet"}, keyMatch |-> FALSE,
            leader |-> TRUE, extras |-> {"ok", "actionNotAllowed"}, decoder |-> TRUE, index |-> TRUE]
      [] name = "signingDone" ->
           [self |-> "none", operating |-> "attempt", ctx |-> {"message", "attempt"}, keyMatch |-> FALSE,
            leader |-> FALSE, extras |-> {"ok", "lateEndBlock", "nilSignature", "duplicate"},
            decoder |-> TRUE, index |-> TRUE]
      [] name = "silent" ->
           [self |-> "index", operating |-> "none", ctx |-> {}, keyMatch |-> FALSE,
            leader |-> FALSE, extras |-> {"ok"}, decoder |-> TRUE, index |-> TRUE]
      [] name = "validator" ->   \* MembershipValidator.IsValidMembership itself
           [self |-> "none", operating |-> "none", ctx |-> {}, keyMatch |-> FALSE,
            leader |-> FALSE, extras |-> {"ok"}, decoder |-> FALSE, index |-> TRUE]
      [] name = "inGroup" ->     \* MembershipValidator.IsInGroup (channel filter)
           [self |-> "none", operating |-> "none", ctx |-> {}, keyMatch |-> FALSE,
            leader |-> FALSE, extras |-> {"ok"}, decoder |-> FALSE, index |-> FALSE]

---------------------------------------------------------------------------
(* The steps table.  id = <package>/<state or function>; accepts = payload *)
(* types the step's Receive looks at; others = payload types of the same   *)
(* channel the step must ignore ("foreign" = a payload that is no protocol *)
(* message of the package); observe = how the harness sees "acted on".     *)
(***************************************************************************)
Row(pkg, name, rule, accepts, others, observe) ==
    [id |-> pkg \o "/" \o name, pkg |-> pkg, name |-> name, rule |-> rule,
     accepts |-> accepts, others |-> others, observe |-> observe]

GjkrTypes == {"EphemeralPublicKeyMessage", "PeerSharesMessage", "MemberCommitmentsMessage",
              "SecretSharesAccusationsMessage", "MemberPublicKeySharePointsMessage",
              "PointsAccusationsMessage", "MisbehavedEphemeralKeysMessage"}
GjkrRow(name, rule, accepts) ==
    Row("pkg/beacon/gjkr", name, rule, accepts, GjkrTypes \ accepts,
        "message appended to the state's phase message slice(s) (states.go Receive)")
GjkrSilent(name) ==
    Row("pkg/beacon/gjkr", name, "silent", {}, GjkrTypes, "state value unchanged by Receive")

GjkrSteps == {
    GjkrRow("ephemeralKeyPairGenerationState", "member", {"EphemeralPublicKeyMessage"}),
    GjkrRow("commitmentState", "member", {"PeerSharesMessage", "MemberCommitmentsMessage"}),
    GjkrRow("commitmentsVerificationState", "memberStateStart", {"SecretSharesAccusationsMessage"}),
    GjkrRow("pointsShareState", "member", {"MemberPublicKeySharePointsMessage"}),
    GjkrRow("pointsValidationState", "memberStateStart", {"PointsAccusationsMessage"}),
    GjkrRow("keyRevealState", "member", {"MisbehavedEphemeralKeysMessage"}),
    GjkrSilent("symmetricKeyGenerationState"), GjkrSilent("sharesJustificationState"),
    GjkrSilent("qualificationState"), GjkrSilent("pointsJustificationState"),
    GjkrSilent("reconstructionState"), GjkrSilent("combinationState"),
    GjkrSilent("finalizationState") }

BeaconResultSteps == {
    Row("pkg/beacon/dkg/result", "resultSigningState", "memberKey",
        {"DKGResultHashSignatureMessage"}, {"foreign"},
        "message appended to signatureMessages (states.go resultSigningState.Receive)"),
    Row("pkg/beacon/dkg/result", "signaturesVerificationState", "silent", {},
        {"DKGResultHashSignatureMessage", "foreign"}, "state value unchanged by Receive"),
    Row("pkg/beacon/dkg/result", "resultSubmissionState", "silent", {},
        {"DKGResultHashSignatureMessage", "foreign"}, "state value unchanged by Receive") }

TecdsaDkgProtocolTypes == {"ephemeralPublicKeyMessage", "tssRoundOneMessage", "tssRoundTwoMessage",
                           "tssRoundThreeMessage", "tssFinalizationMessage"}
\* every state of the key generation stores any payload implementing the package's
\* `message` interface (messages of later states are kept for a late member)
TecdsaDkgRow(name) ==
    Row("pkg/tecdsa/dkg", name, "member", TecdsaDkgProtocolTypes \cup {"resultSignatureMessage"},
        {"foreign"}, "message stored in the BaseAsyncState history (ReceiveToHistory)")
TecdsaDkgSteps == {
    TecdsaDkgRow("ephemeralKeyPairGenerationState"), TecdsaDkgRow("symmetricKeyGenerationState"),
    TecdsaDkgRow("tssRoundOneState"), TecdsaDkgRow("tssRoundTwoState"),
    TecdsaDkgRow("tssRoundThreeState"), TecdsaDkgRow("finalizationState"),
    Row("pkg/tecdsa/dkg", "resultSigningState", "memberKey", {"resultSignatureMessage"},
        TecdsaDkgProtocolTypes \cup {"foreign"},
        "message stored in the BaseAsyncState history (ReceiveToHistory)"),
    Row("pkg/tecdsa/dkg", "signaturesVerificationState", "silent", {},
        {"resultSignatureMessage", "tssRoundOneMessage", "foreign"}, "history unchanged by Receive"),
    Row("pkg/tecdsa/dkg", "resultSubmissionState", "silent", {},
        {"resultSignatureMessage", "tssRoundOneMessage", "foreign"}, "history unchanged by Receive") }

TecdsaSigningTypes == {"ephemeralPublicKeyMessage", "tssRoundOneMessage", "tssRoundTwoMessage",
                       "tssRoundThreeMessage", "tssRoundFourMessage", "tssRoundFiveMessage",
                       "tssRoundSixMessage", "tssRoundSevenMessage", "tssRoundEightMessage",
                       "tssRoundNineMessage"}
TecdsaSigningRow(name) ==
    Row("pkg/tecdsa/signing", name, "member", TecdsaSigningTypes, {"foreign"},
        "message stored in the BaseAsyncState history (ReceiveToHistory)")
TecdsaSigningSteps == {
    TecdsaSigningRow("ephemeralKeyPairGenerationState"), TecdsaSigningRow("symmetricKeyGenerationState"),
    TecdsaSigningRow("tssRoundOneState"), TecdsaSigningRow("tssRoundTwoState"),
    TecdsaSigningRow("tssRoundThreeState"), TecdsaSigningRow("tssRoundFourState"),
    TecdsaSigningRow("tssRoundFiveState"), TecdsaSigningRow("tssRoundSixState"),
    TecdsaSigningRow("tssRoundSevenState"), TecdsaSigningRow("tssRoundEightState"),
    TecdsaSigningRow("tssRoundNineState"),
    Row("pkg/tecdsa/signing", "finalizationState", "silent", {}, TecdsaSigningTypes \cup {"foreign"},
        "history unchanged by Receive") }

InactivitySteps == {
    Row("pkg/protocol/inactivity", "claimSigningState", "memberKey", {"claimSignatureMessage"},
        {"foreign"}, "message stored in the BaseAsyncState history (ReceiveToHistory)"),
    Row("pkg/protocol/inactivity", "signaturesVerificationState", "silent", {},
        {"claimSignatureMessage", "foreign"}, "history unchanged by Receive"),
    Row("pkg/protocol/inactivity", "claimSubmissionState", "silent", {},
        {"claimSignatureMessage", "foreign"}, "history unchanged by Receive") }

AnnouncerSteps == {
    Row("pkg/protocol/announcer", "Announcer.Announce", "announce", {"announcementMessage"},
        {"foreign"}, "claimed index in the ready list returned by Announce") }

TbtcSteps == {
    Row("pkg/tbtc", "coordinationExecutor.executeFollowerRoutine", "coordinate",
        {"coordinationMessage"}, {"signingDoneMessage"},
        "proposal returned (accepted) or coordination fault recorded against the sender"),
    Row("pkg/tbtc", "signingDoneCheck.listen", "signingDone", {"signingDoneMessage"},
        {"coordinationMessage"}, "message stored in doneSigners under the claimed index") }

GroupSteps == {
    Row("pkg/protocol/group", "MembershipValidator.IsValidMembership", "validator", {"call"}, {},
        "return value"),
    Row("pkg/protocol/group", "MembershipValidator.IsInGroup", "inGroup", {"call"}, {},
        "return value") }

Steps == GjkrSteps \cup BeaconResultSteps \cup TecdsaDkgSteps \cup TecdsaSigningSteps
         \cup InactivitySteps \cup AnnouncerSteps \cup TbtcSteps \cup GroupSteps

\* one step per rule (case generation: steps with the same rule share their cases)
RepresentativeOf(r) == CHOOSE s \in Steps : s.rule = r
Representatives == {RepresentativeOf(r) : r \in {s.rule : s \in Steps}}

---------------------------------------------------------------------------
(* Cases.                                                                  *)
(*   recv    index of the member executing the step                        *)
(*   key     network key the transport pinned for the sender               *)
(*   wire    sender index on the wire                                      *)
(*   kind    "own" = a payload type the step accepts, "other" = another    *)
(*   badctx  set of context fields that differ from the receiver's         *)
(*   excl    [who, kind, when]: member `who` (0 = nobody) was marked IA or *)
(*           DQ before the state began / disqualified while it initiated;  *)
(*           for rule signingDone: left out of the attempt                 *)
(*   msgKey  which key the payload embeds: the pinned one, the key of the  *)
(*           owner of the claimed seat, the outsider's                     *)
(*   leader  operator that is the coordination leader                      *)
(*   extra   payload validity class                                        *)
(***************************************************************************)
NoExcl == [who |-> 0, kind |-> "-", when |-> "-"]
ExclConfigs(rule, recv) ==
    LET others == Seats \ (IF rule.self = "none" THEN {} ELSE {recv}) IN
    CASE rule.operating = "current" ->
           {NoExcl} \cup {[who |-> x, kind |-> k, when |-> "before"] : x \in others, k \in {"IA", "DQ"}}
      [] rule.operating = "stateStart" ->
           {NoExcl} \cup {[who |-> x, kind |-> k, when |-> "before"] : x \in others, k \in {"IA", "DQ"}}
                    \cup {[who |-> x, kind |-> "DQ", when |-> "during"] : x \in others}
      [] rule.operating = "attempt" ->
           {NoExcl} \cup {[who |-> x, kind |-> "notIncluded", when |-> "before"] : x \in others}
      [] OTHER -> {NoExcl}

Wires(rule) == IF ~rule.index THEN {1}
               ELSE IF rule.decoder THEN WireIndexes
               ELSE 0..MaxMemberIndex      \* no decoder: the whole uint8 domain

CaseSpace(s) ==
    LET rule == Rule(s.rule) IN
    { [recv |-> r, key |-> k, wire |-> w, kind |-> t, badctx |-> b, excl |-> e, msgKey |-> mk,
       leader |-> l, extra |-> x] :
        r \in (IF rule.self = "none" THEN {1} ELSE Seats),
        k \in NetKeys,
        w \in Wires(rule),
        t \in (IF s.rule = "silent" THEN {"other"}
               ELSE IF s.others = {} THEN {"own"} ELSE {"own", "other"}),
        b \in SUBSET rule.ctx,
        e \in UNION {ExclConfigs(rule, rr) : rr \in Seats},
        mk \in (IF rule.keyMatch THEN {"net", "seatOwner", "outsider"} ELSE {"net"}),
        l \in (IF rule.leader THEN Operators ELSE {"-"}),
        x \in rule.extras }

\* combinations that make sense: nobody marks itself, the leader is another operator
WellFormed(s, c) ==
    LET rule == Rule(s.rule) IN
    /\ c.excl \in ExclConfigs(rule, c.recv)
    /\ rule.leader => c.leader # Owner[c.recv]

---------------------------------------------------------------------------
VARIABLES step, case, outcome
vars == <<step, case, outcome>>

\* MC: every step; generation: one representative per rule
StepSet == Steps

Init ==
    /\ step \in StepSet
    /\ case \in {c \in CaseSpace(step) : WellFormed(step, c)}
    /\ outcome = "pending"

---------------------------------------------------------------------------
(* The admission predicate, clause by clause in the order of the code.     *)

\* Unmarshal: validateMemberIndex rejects values that do not fit uint8
Decoded(rule, c) == rule.decoder => c.wire <= MaxMemberIndex
\* the uint8 member index the step sees
Claimed(c) == c.wire % 256

\* membership_validator.go: index := int(memberID - 1) with memberID a uint8
PositionOf(id) == (id + 255) % 256
IsValidMembership(id, k) == \E seat \in SeatsOf(k) : seat - 1 = PositionOf(id)
IsInGroupKey(k) == SeatsOf(k) # {}

OwnIndexes(rule, c) ==
    CASE rule.self = "index"    -> {c.recv}
      [] rule.self = "operator" -> SeatsOf(Owner[c.recv])
      [] OTHER                  -> {}

ExcludedNow(c)     == IF c.excl.who = 0 THEN {} ELSE {c.excl.who}
ExcludedAtStart(c) == IF c.excl.who # 0 /\ c.excl.when = "before" THEN {c.excl.who} ELSE {}

\* group.IsOperating / operatingAtStateStart / attemptMembersIndexes
Acceptable(rule, c, id) ==
    CASE rule.operating = "current"    -> id \in Seats \ ExcludedNow(c)
      [] rule.operating = "stateStart" -> id \in Seats \ ExcludedAtStart(c)
      [] rule.operating = "attempt"    -> id \in Seats \ ExcludedNow(c)
      [] OTHER                         -> TRUE

EmbeddedKey(c) ==
    CASE c.msgKey = "net"       -> c.key
      [] c.msgKey = "seatOwner" -> IF c.wire \in Seats THEN Owner[c.wire] ELSE Outsider
      [] OTHER                  -> Outsider

LeaderID(c) == MinOf(SeatsOf(c.leader))     \* wallet.membersByOperator(leader)[0]

\* signing done: a valid done message of the claimed member is already stored
\* (only possible for a seat included in the attempt)
AlreadyDone(rule, c) ==
    c.extra = "duplicate" /\ c.wire \in Seats \ ExcludedNow(c)

Outcome(s, c) ==
    LET rule == Rule(s.rule)
        id   == Claimed(c) IN
    IF s.rule = "silent"                           THEN "ignored"
    ELSE IF s.rule = "inGroup"                     THEN (IF IsInGroupKey(c.key) THEN "accepted" ELSE "ignored")
    ELSE IF ~Decoded(rule, c)                      THEN "ignored"   \* never reaches the step
    ELSE IF c.kind # "own"                         THEN "ignored"   \* type switch / type assertion
    ELSE IF AlreadyDone(rule, c)                   THEN "ignored"   \* only one done message
    ELSE IF id \in OwnIndexes(rule, c)             THEN "ignored"   \* isMessageFromSelf
    ELSE IF ~IsValidMembership(id, c.key)          THEN "ignored"   \* isSenderValid
    ELSE IF ~Acceptable(rule, c, id)               THEN "ignored"   \* isSenderAccepted
    ELSE IF rule.keyMatch /\ EmbeddedKey(c) # c.key THEN "ignored"  \* isValidKeyUsed
    ELSE IF c.badctx # {}                          THEN "ignored"   \* session / protocol / window / wallet / attempt
    ELSE IF rule.leader /\ id # LeaderID(c)        THEN "fault:impersonation"
    ELSE IF c.extra = "actionNotAllowed"           THEN "fault:mistake"
    ELSE IF c.extra \in {"lateEndBlock", "nilSignature"} THEN "ignored"
    ELSE "accepted"

Deliver ==
    /\ outcome = "pending"
    /\ outcome' = Outcome(step, case)
    /\ UNCHANGED <<step, case>>

Next == Deliver
Spec == Init /\ [][Next]_vars

---------------------------------------------------------------------------
Done    == outcome # "pending"
ActedOn == outcome \in {"accepted", "fault:impersonation", "fault:mistake"}
TheRule == Rule(step.rule)

\* C12, first sentence: a step acts only on a message whose claimed index is a
\* seat held by the network key that sent it (for IsInGroup: the key holds a seat)
ActedOnlyForHeldSeat ==
    (Done /\ ActedOn) =>
        IF TheRule.index THEN /\ case.wire \in Seats
                              /\ Owner[case.wire] = case.key
                         ELSE SeatsOf(case.key) # {}

\* in particular: never an outsider, never index 0, never an index above the
\* group size, never a wire value that only fits after truncation to 8 bits
NoOutsider   == (Done /\ ActedOn) => case.key # Outsider
NoWrapAround == (Done /\ ActedOn /\ TheRule.index) => (case.wire >= 1 /\ case.wire <= N)

\* C12, second sentence
OwnIgnored ==
    (Done /\ TheRule.index /\ Claimed(case) \in OwnIndexes(TheRule, case)) => ~ActedOn
OtherContextIgnored ==
    (Done /\ case.badctx # {}) => ~ActedOn
ExcludedIgnored ==
    (Done /\ TheRule.operating \in {"current", "attempt"} /\ case.excl.who # 0
          /\ Claimed(case) = case.excl.who) => ~ActedOn
ExcludedBeforeStateIgnored ==
    (Done /\ TheRule.operating = "stateStart" /\ case.excl.who # 0 /\ case.excl.when = "before"
          /\ Claimed(case) = case.excl.who) => ~ActedOn
OtherTypeIgnored  == (Done /\ case.kind # "own") => ~ActedOn
WrongKeyIgnored   == (Done /\ TheRule.keyMatch /\ EmbeddedKey(case) # case.key) => ~ActedOn
SilentIgnores     == (Done /\ step.rule = "silent") => ~ActedOn

\* coordination faults are attributed to the key that sent the message, which
\* then holds the claimed seat; a leader mistake only to the leader itself
FaultAttribution ==
    /\ (Done /\ outcome = "fault:impersonation") =>
           (case.key # case.leader \/ Claimed(case) # LeaderID(case))
    /\ (Done /\ outcome = "fault:mistake") =>
           (case.key = case.leader /\ Claimed(case) = LeaderID(case))
ProposalOnlyFromLeader ==
    (Done /\ step.rule = "coordinate" /\ outcome = "accepted") =>
        (case.key = case.leader /\ Claimed(case) = LeaderID(case))

\* no over-rejection: a genuine message of another acceptable member in the
\* right context is acted on (keeps the specification from being vacuous)
Genuine ==
    /\ TheRule.index /\ step.rule # "silent"
    /\ case.kind = "own" /\ case.wire \in SeatsOf(case.key)
    /\ case.wire \notin OwnIndexes(TheRule, case)
    /\ Acceptable(TheRule, case, case.wire)
    /\ case.badctx = {} /\ EmbeddedKey(case) = case.key
    /\ case.extra = "ok"
GenuineActedOn == (Done /\ Genuine) => ActedOn
\* the accusation of a member disqualified while the state initiated is heard
JustDisqualifiedHeard ==
    (Done /\ Genuine /\ TheRule.operating = "stateStart" /\ case.excl.when = "during") => outcome = "accepted"
\* a sibling seat of the receiver's own operator is another member
SiblingSeatHeard ==
    (Done /\ Genuine /\ TheRule.self = "index" /\ Owner[case.recv] = case.key) => ActedOn

TypeOK ==
    /\ step \in Steps
    /\ outcome \in {"pending", "ignored", "accepted", "fault:impersonation", "fault:mistake"}
=============================================================================
