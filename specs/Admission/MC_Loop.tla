------------------------------ MODULE MC_Loop ------------------------------
(* Exhaustive check and behaviour generation for AdmissionLoop (4 seats).   *)
EXTENDS AdmissionLoop, TLC, Json, CSV, IOUtils

Owner4 == <<"P", "Q", "R", "Q">>
Wire4  == {0, 1, 2, 3, 4, 5, 255, 256, 257, 258, 259, 260}

\* the alphabet of every loop step is written once, when TLC evaluates the assumption
WriteAlphabet ==
    \A ls \in LoopSteps : \A m \in Alphabet(ls) :
        CSVWrite("%1$s", <<ToJson([step |-> ls.id, name |-> m.name, c |-> m.c])>>, "alphabet.ndjson")
ASSUME WriteAlphabet
\* the world the sequences are stated in (always the 4-seat world, in both tiers)
ASSUME CSVWrite("%1$s", <<ToJson([n |-> N, owner |-> Owner, outsider |-> Outsider, wires |-> WireIndexes])>>,
                "loopworld.ndjson")

\* every delivered prefix is a behaviour: the harness replays it on the real
\* loop and compares what the loop kept at the end
EmitSequence ==
    Len(hist) >= 1 =>
        CSVWrite("%1$s", <<ToJson([step |-> lstep.id, kind |-> lstep.kind, excl |-> lstep.excl, leader |-> L,
                                   names |-> [i \in 1..Len(hist) |-> hist[i].name],
                                   expected |-> [stored |-> stored, ready |-> ready, done |-> done,
                                                 faults |-> faults, returned |-> returned]])>>,
                 "sequences.ndjson")
=============================================================================
