SPECIFICATION Spec
CONSTANTS
  N = 4
  Owner <- Owner4
  Outsider = "X"
  WireIndexes <- Wire4
  StepSet <- Representatives
INVARIANTS
  TypeOK ActedOnlyForHeldSeat NoOutsider NoWrapAround OwnIgnored OtherContextIgnored
  ExcludedIgnored ExcludedBeforeStateIgnored OtherTypeIgnored WrongKeyIgnored SilentIgnores
  FaultAttribution ProposalOnlyFromLeader GenuineActedOn JustDisqualifiedHeard SiblingSeatHeard
  EmitCase
