SPECIFICATION RowsSpec
CONSTANTS
  N = 5
  Owner <- Owner5
  Outsider = "X"
  WireIndexes <- Wire5
