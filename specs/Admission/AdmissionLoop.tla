--------------------------- MODULE AdmissionLoop ---------------------------
(***************************************************************************)
(* C12, second part: the receivers that keep what they admitted.           *)
(*                                                                         *)
(* Admission.tla decides one message.  The steps below consume a STREAM of *)
(* messages and accumulate the admitted ones; this module specifies the    *)
(* accumulator after every delivery, re-using Admission!Outcome for the    *)
(* verdict on each message, so that admission is shown to be independent   *)
(* of what was received before (except where the code documents a          *)
(* dependency: one done message per member, the follower returns on the    *)
(* first acceptable proposal).                                             *)
(*                                                                         *)
(*   kind "append"      state Receive methods: every admitted message is   *)
(*                      appended (gjkr states.go, BaseAsyncState history); *)
(*                      repeated messages of a member are all kept (they   *)
(*                      are de-duplicated later by the protocol code)      *)
(*   kind "set"         announcer.go Announce: readyMembersIndexesSet,     *)
(*                      returned sorted, always containing the receiver    *)
(*   kind "firstWins"   signing_done.go listen: doneSigners[senderID], only*)
(*                      the first admitted message of a member is kept     *)
(*   kind "untilAccept" coordination.go executeFollowerRoutine: faults are *)
(*                      appended; the first acceptable proposal ends the   *)
(*                      routine (later messages are not looked at)         *)
(***************************************************************************)
EXTENDS Integers, Sequences, FiniteSets

CONSTANTS N, Owner, Outsider, WireIndexes, MaxLen

A == INSTANCE Admission WITH step <- 0, case <- 0, outcome <- 0

Seats      == 1..N
SeatsOf(k) == A!SeatsOf(k)

\* the roles of the alphabet: the receiver is member 1; L is another operator
\* holding several seats (the coordination leader), M a third operator
Recv  == 1
Self  == Owner[Recv]
L     == CHOOSE k \in A!Operators : k # Self /\ Cardinality(SeatsOf(k)) >= 2
M     == CHOOSE k \in A!Operators : k # Self /\ k # L
l1    == A!MinOf(SeatsOf(L))
l2    == CHOOSE s \in SeatsOf(L) : s # l1
m1    == A!MinOf(SeatsOf(M))

LoopStep(id, rule, kind, ctxField, excl) ==
    [id |-> id, rule |-> rule, kind |-> kind, ctxField |-> ctxField, excl |-> excl]
NoExcl == A!NoExcl

LoopSteps == {
    LoopStep("pkg/beacon/gjkr/ephemeralKeyPairGenerationState", "member", "append", "session",
             [who |-> m1, kind |-> "IA", when |-> "before"]),
    LoopStep("pkg/protocol/inactivity/claimSigningState", "memberKey", "append", "session", NoExcl),
    LoopStep("pkg/protocol/announcer/Announcer.Announce", "announce", "set", "protocol", NoExcl),
    LoopStep("pkg/tbtc/signingDoneCheck.listen", "signingDone", "firstWins", "attempt",
             [who |-> m1, kind |-> "notIncluded", when |-> "before"]),
    LoopStep("pkg/tbtc/coordinationExecutor.executeFollowerRoutine", "coordinate", "untilAccept", "block", NoExcl) }

\* every loop step is a row of the steps table, with the same rule
ASSUME \A ls \in LoopSteps : \E s \in A!Steps : s.id = ls.id /\ s.rule = ls.rule
IsCoordination(ls) == ls.kind = "untilAccept"

\* the message alphabet (names are used by the harness only for reporting)
Message(ls, name, key, wire, bad, extra) ==
    [name |-> name,
     c |-> [recv |-> Recv, key |-> key, wire |-> wire, kind |-> "own",
            badctx |-> IF bad THEN {ls.ctxField} ELSE {}, excl |-> ls.excl, msgKey |-> "net",
            leader |-> IF IsCoordination(ls) THEN L ELSE "-", extra |-> extra]]

Alphabet(ls) ==
    { Message(ls, "L-first-seat",       L, l1, FALSE, "ok"),       \* genuine; the leader's proposal
      Message(ls, "L-second-seat",      L, l2, FALSE, "ok"),       \* genuine sibling seat
      Message(ls, "M-own-seat",         M, m1, FALSE, "ok"),       \* genuine (excluded member in two steps)
      Message(ls, "M-claims-L-seat",    M, l1, FALSE, "ok"),       \* spoofed index
      Message(ls, "outsider-claims-L",  Outsider, l1, FALSE, "ok"),
      Message(ls, "own-index",          Self, Recv, FALSE, "ok"),
      Message(ls, "L-other-context",    L, l1, TRUE, "ok") }
    \cup (IF IsCoordination(ls)
             THEN {Message(ls, "L-forbidden-action", L, l1, FALSE, "actionNotAllowed")}
             ELSE {Message(ls, "L-wrapped-index", L, l1 + 256, FALSE, "ok")})

---------------------------------------------------------------------------
VARIABLES lstep,      \* the loop step under test
          hist,       \* messages delivered so far
          stored,     \* kind append: numbers (positions in hist) of the admitted messages, in order
          ready,      \* kind set: admitted member indexes (receiver included)
          done,       \* kind firstWins: set of <<member, message number>>
          faults,     \* kind untilAccept: sequence of [type, culprit]
          returned    \* kind untilAccept: number of the message whose proposal was returned (0 = none)
vars == <<lstep, hist, stored, ready, done, faults, returned>>

Init ==
    /\ lstep \in LoopSteps
    /\ hist = <<>> /\ stored = <<>> /\ ready = {Recv} /\ done = {} /\ faults = <<>> /\ returned = 0

Verdict(ls, m) == A!Outcome([rule |-> ls.rule], m.c)
DoneMembers == {p[1] : p \in done}

AppendStep(n, o) ==
    /\ lstep.kind = "append"
    /\ stored' = IF o = "accepted" THEN Append(stored, n) ELSE stored
    /\ UNCHANGED <<ready, done, faults, returned>>

SetStep(id, o) ==
    /\ lstep.kind = "set"
    /\ ready' = IF o = "accepted" THEN ready \cup {id} ELSE ready
    /\ UNCHANGED <<stored, done, faults, returned>>

FirstWinsStep(id, n, o) ==
    /\ lstep.kind = "firstWins"
    /\ done' = IF o = "accepted" /\ id \notin DoneMembers THEN done \cup {<<id, n>>} ELSE done
    /\ UNCHANGED <<stored, ready, faults, returned>>

FaultOf(m, o) ==
    IF o = "fault:impersonation" THEN <<[type |-> "impersonation", culprit |-> m.c.key]>>
    ELSE IF o = "fault:mistake" THEN <<[type |-> "mistake", culprit |-> m.c.leader]>>
    ELSE <<>>

UntilAcceptStep(m, n, o) ==
    /\ lstep.kind = "untilAccept"
    /\ IF returned # 0
          THEN UNCHANGED <<faults, returned>>          \* the routine has returned
          ELSE /\ returned' = (IF o = "accepted" THEN n ELSE 0)
               /\ faults' = faults \o FaultOf(m, o)
    /\ UNCHANGED <<stored, ready, done>>

Deliver(m) ==
    LET n  == Len(hist) + 1
        o  == Verdict(lstep, m)
        id == m.c.wire IN
    /\ Len(hist) < MaxLen
    /\ hist' = Append(hist, m)
    /\ UNCHANGED lstep
    /\ \/ AppendStep(n, o)
       \/ SetStep(id, o)
       \/ FirstWinsStep(id, n, o)
       \/ UntilAcceptStep(m, n, o)

DoDeliver == \E m \in Alphabet(lstep) : Deliver(m)
Next == DoDeliver
Spec == Init /\ [][Next]_vars

---------------------------------------------------------------------------
\* message number n was sent by the key holding the index it claims
Genuine(n) == hist[n].c.wire \in Seats /\ Owner[hist[n].c.wire] = hist[n].c.key
SentBy(id) == {n \in 1..Len(hist) : hist[n].c.wire = id /\ Genuine(n)}

\* C12 over streams: whatever was delivered before, everything the step keeps
\* stems from a message sent by the key that holds the claimed seat
KeptOnlyGenuine ==
    /\ \A i \in 1..Len(stored) : Genuine(stored[i])
    /\ \A id \in ready \ {Recv} : SentBy(id) # {}
    /\ \A p \in done : p[2] \in SentBy(p[1])
    /\ returned # 0 => (Genuine(returned) /\ hist[returned].c.key = L /\ hist[returned].c.wire = l1)
    /\ \A i \in 1..Len(faults) :
           \E n \in 1..Len(hist) : Genuine(n) /\ hist[n].c.key = faults[i].culprit
\* never the receiver's own index (the signing-done listener has no such rule:
\* a member counts its own confirmation), an excluded member or another context
NeverKept ==
    LET bad(n) == \/ (A!Rule(lstep.rule).self # "none" /\ hist[n].c.wire = Recv)
                  \/ hist[n].c.badctx # {}
                  \/ (lstep.excl.who # 0 /\ hist[n].c.wire = lstep.excl.who) IN
    /\ \A i \in 1..Len(stored) : ~bad(stored[i])
    /\ \A p \in done : ~bad(p[2])
    /\ returned # 0 => ~bad(returned)
    /\ (lstep.excl.who # 0 /\ lstep.kind = "set") => lstep.excl.who \notin ready
\* one done message per member, the first admitted one
FirstWins ==
    \A p \in done : \A q \in done : p[1] = q[1] => p[2] = q[2]
\* nothing genuine, acceptable and in context is lost (history independence)
GenuineKept ==
    \A n \in 1..Len(hist) :
        (Verdict(lstep, hist[n]) = "accepted") =>
            CASE lstep.kind = "append"      -> \E i \in 1..Len(stored) : stored[i] = n
              [] lstep.kind = "set"         -> hist[n].c.wire \in ready
              [] lstep.kind = "firstWins"   -> hist[n].c.wire \in DoneMembers
              [] lstep.kind = "untilAccept" -> returned # 0 /\ returned <= n
\* the accumulators only grow
Monotone ==
    [][/\ \A i \in 1..Len(stored) : stored'[i] = stored[i]
       /\ ready \subseteq ready' /\ done \subseteq done'
       /\ \A i \in 1..Len(faults) : faults'[i] = faults[i]
       /\ (returned # 0 => returned' = returned)]_vars

TypeOK ==
    /\ lstep \in LoopSteps /\ Len(hist) <= MaxLen
    /\ ready \subseteq 0..255 /\ returned \in 0..MaxLen
=============================================================================
