SPECIFICATION Spec
CONSTANTS
  N = 4
  Owner <- Owner4
  Outsider = "X"
  WireIndexes <- Wire4
  MaxLen = 3
INVARIANTS TypeOK KeptOnlyGenuine NeverKept FirstWins GenuineKept EmitSequence
PROPERTIES Monotone
