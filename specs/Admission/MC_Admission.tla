---------------------------- MODULE MC_Admission ----------------------------
(* Worlds for the exhaustive runs and for case generation.                  *)
(*   quick:    4 seats, operator Q holds the non-adjacent seats 2 and 4     *)
(*   thorough: 5 seats, operator Q holds seats 1, 3 and 5                   *)
EXTENDS Admission, TLC, Json, CSV, IOUtils

Owner4 == <<"P", "Q", "R", "Q">>
Owner5 == <<"Q", "P", "Q", "R", "Q">>
\* 0, every seat, first index above the group, the largest member index, and
\* values that only become a seat (or 0) when truncated to 8 bits
Wire4 == {0, 1, 2, 3, 4, 5, 255, 256, 257, 258, 259, 260}
Wire5 == {0, 1, 2, 3, 4, 5, 6, 254, 255, 256, 257, 258, 259, 260, 261, 511, 513}

\* --- generation -----------------------------------------------------------
\* rows and world are written once, when TLC evaluates the assumptions
WriteRows  == \A s \in Steps : CSVWrite("%1$s", <<ToJson(s)>>, "rows.ndjson")
WriteWorld == CSVWrite("%1$s", <<ToJson([n |-> N, owner |-> Owner, outsider |-> Outsider,
                                         wires |-> WireIndexes])>>, "world.ndjson")
ASSUME WriteRows
ASSUME WriteWorld
EmitCase ==
    Done => CSVWrite("%1$s", <<ToJson([rule |-> step.rule, in |-> case, expected |-> outcome])>>,
                     "cases.ndjson")
=============================================================================
