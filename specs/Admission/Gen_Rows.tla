------------------------------ MODULE Gen_Rows ------------------------------
(* Writes the steps table and the world (rows.ndjson, world.ndjson) once.   *)
EXTENDS MC_Admission
ASSUME WriteRows
ASSUME WriteWorld
RowsInit == step = RepresentativeOf("inGroup") /\ case \in CaseSpace(step) /\ outcome = "pending"
RowsSpec == RowsInit /\ [][Next]_vars
=============================================================================
