SPECIFICATION RowsSpec
CONSTANTS
  N = 4
  Owner <- Owner4
  Outsider = "X"
  WireIndexes <- Wire4
