SPECIFICATION GSpec
CONSTANTS
  Procs = {"p1"}
  Wallets = {"w1", "w2", "wbad"}
  BadWallets = {"wbad"}
  Types = {"Heartbeat"}
  MaxOps = 4
  Atomic = TRUE
  Sequential = TRUE
INVARIANTS Emit AtMostOneExecuting EntryIffGoroutine BusyIffEntry
