SPECIFICATION Spec
CONSTANTS
  Procs = {"p1", "p2", "p3"}
  Wallets = {"w1", "w2", "wbad"}
  BadWallets = {"wbad"}
  Types = {"Heartbeat"}
  MaxOps = 4
  Atomic = TRUE
INVARIANTS TypeOK AtMostOneExecuting OnePerWallet EntryIffGoroutine BusyIffEntry BadNeverEntered NonBlocking
PROPERTIES Independent RefusalHasNoEffect
