SPECIFICATION LiveSpec
CONSTANTS
  Procs = {"p1", "p2"}
  Wallets = {"w1", "w2", "wbad"}
  BadWallets = {"wbad"}
  Types = {"Heartbeat"}
  MaxOps = 2
  Atomic = TRUE
INVARIANTS TypeOK
PROPERTIES BecomesAvailable GetsExecuted
