----------------------------- MODULE Dispatcher -----------------------------
(***************************************************************************)
(* Wallet action dispatcher: pkg/tbtc/wallet.go walletDispatcher, used by  *)
(* pkg/tbtc/node.go handle*Proposal (n.walletDispatcher.dispatch(action)). *)
(*                                                                         *)
(*   func (wd *walletDispatcher) dispatch(action walletAction) error {     *)
(*       wd.actionsMutex.Lock(); defer wd.actionsMutex.Unlock()            *)
(*       bytes, err := marshalPublicKey(action.wallet().publicKey)         *)
(*       if err != nil { return error }              -- BadWallets         *)
(*       ... action.actionType().String() ...        -- logger             *)
(*       if _, ok := wd.actions[key]; ok { return errWalletBusy }          *)
(*       wd.actions[key] = action.actionType()                             *)
(*       go func() {                                                       *)
(*           defer func() { lock; delete(wd.actions, key); unlock }()      *)
(*           err := action.execute() ; log                                 *)
(*       }()                                                               *)
(*       return nil }                                                      *)
(*                                                                         *)
(* Code structure mirrored here:                                           *)
(*   Call           a caller (coordination result handler) invokes         *)
(*                  dispatch with an action for wallet w of type t         *)
(*   AtomicDispatch the critical section of dispatch (contract grain)      *)
(*   Check / Insert the same critical section split at the map lookup      *)
(*                  (hazard grain, Atomic = FALSE: what happens without    *)
(*                  the mutex; the second action.actionType() call sits    *)
(*                  between the lookup and the insertion)                  *)
(*   Return         dispatch returns to the caller                         *)
(*   ExecBegin      the spawned goroutine enters action.execute()          *)
(*   ExecEnd        action.execute() returns (nil or an error)             *)
(*   Release        the deferred delete under the mutex                    *)
(***************************************************************************)
EXTENDS Naturals, Sequences, FiniteSets

CONSTANTS Procs,        \* concurrent callers of dispatch
          Wallets,      \* wallet public keys
          BadWallets,   \* wallets whose key cannot be marshalled (wrong curve)
          Types,        \* wallet action types
          MaxOps,       \* bound on the number of dispatch calls
          Atomic        \* TRUE: contract grain; FALSE: hazard grain

VARIABLES entry,        \* w -> "none" | action type: the map wd.actions
          pc,           \* p -> "idle" | "called" | "checked" | "done"
          arg,          \* p -> [w, t, c]: wallet, type and call id of p's current call
          ret,          \* p -> "none" | "ok" | "busy" | "error"
          gs,           \* live action goroutines: set of [c, w, t, st, out]
          ops,          \* number of dispatch calls made so far
          lastD         \* history: [w, res, had] of the last decided dispatch;
                        \* had = the map held an entry for w when the call decided

vars == <<entry, pc, arg, ret, gs, ops, lastD>>

NoArg == [w |-> "none", t |-> "none", c |-> 0]

Init ==
    /\ entry = [w \in Wallets |-> "none"]
    /\ pc = [p \in Procs |-> "idle"]
    /\ arg = [p \in Procs |-> NoArg]
    /\ ret = [p \in Procs |-> "none"]
    /\ gs = {}
    /\ ops = 0
    /\ lastD = [w |-> "none", res |-> "none", had |-> FALSE]

GsOf(w) == {g \in gs : g.w = w}
Goroutine(c, w, t) == [c |-> c, w |-> w, t |-> t, st |-> "spawned", out |-> "none"]

\* a caller invokes dispatch(action{wallet w, type t}); c identifies the call
Call(p, w, t, c) ==
    /\ pc[p] = "idle"
    /\ ops < MaxOps
    /\ ops' = ops + 1
    /\ pc' = [pc EXCEPT ![p] = "called"]
    /\ arg' = [arg EXCEPT ![p] = [w |-> w, t |-> t, c |-> c]]
    /\ ret' = [ret EXCEPT ![p] = "none"]
    /\ UNCHANGED <<entry, gs, lastD>>

Decide(p, res) ==
    /\ pc' = [pc EXCEPT ![p] = "done"]
    /\ ret' = [ret EXCEPT ![p] = res]
    /\ lastD' = [w |-> arg[p].w, res |-> res, had |-> entry[arg[p].w] # "none"]

Spawn(p) ==
    /\ entry' = [entry EXCEPT ![arg[p].w] = arg[p].t]
    /\ gs' = gs \cup {Goroutine(arg[p].c, arg[p].w, arg[p].t)}

\* contract grain: the whole critical section of dispatch
AtomicDispatch(p) ==
    /\ Atomic /\ pc[p] = "called"
    /\ IF arg[p].w \in BadWallets
          THEN Decide(p, "error") /\ UNCHANGED <<entry, gs>>
          ELSE IF entry[arg[p].w] # "none"
                  THEN Decide(p, "busy") /\ UNCHANGED <<entry, gs>>
                  ELSE Decide(p, "ok") /\ Spawn(p)
    /\ UNCHANGED <<arg, ops>>

\* hazard grain, first half: marshal the key, look the wallet up
Check(p) ==
    /\ ~Atomic /\ pc[p] = "called"
    /\ IF arg[p].w \in BadWallets
          THEN Decide(p, "error")
          ELSE IF entry[arg[p].w] # "none"
                  THEN Decide(p, "busy")
                  ELSE /\ pc' = [pc EXCEPT ![p] = "checked"]
                       /\ UNCHANGED <<ret, lastD>>
    /\ UNCHANGED <<entry, gs, arg, ops>>

\* hazard grain, second half: wd.actions[key] = type; go func(){...}(); return nil
Insert(p) ==
    /\ ~Atomic /\ pc[p] = "checked"
    /\ Decide(p, "ok") /\ Spawn(p)
    /\ UNCHANGED <<arg, ops>>

\* dispatch returned to its caller
Return(p) ==
    /\ pc[p] = "done"
    /\ pc' = [pc EXCEPT ![p] = "idle"]
    /\ arg' = [arg EXCEPT ![p] = NoArg]
    /\ ret' = [ret EXCEPT ![p] = "none"]
    /\ UNCHANGED <<entry, gs, ops, lastD>>

ExecBegin(g) ==
    /\ g \in gs /\ g.st = "spawned"
    /\ gs' = (gs \ {g}) \cup {[g EXCEPT !.st = "executing"]}
    /\ UNCHANGED <<entry, pc, arg, ret, ops, lastD>>

ExecEnd(g, out) ==
    /\ g \in gs /\ g.st = "executing"
    /\ gs' = (gs \ {g}) \cup {[g EXCEPT !.st = "ended", !.out = out]}
    /\ UNCHANGED <<entry, pc, arg, ret, ops, lastD>>

\* the deferred delete(wd.actions, key) under the mutex; the goroutine exits
Release(g) ==
    /\ g \in gs /\ g.st = "ended"
    /\ gs' = gs \ {g}
    /\ entry' = [entry EXCEPT ![g.w] = "none"]
    /\ UNCHANGED <<pc, arg, ret, ops, lastD>>

DoCall           == \E p \in Procs, w \in Wallets, t \in Types : ops < MaxOps /\ Call(p, w, t, ops + 1)
DoAtomicDispatch == \E p \in Procs : AtomicDispatch(p)
DoCheck          == \E p \in Procs : Check(p)
DoInsert         == \E p \in Procs : Insert(p)
DoReturn         == \E p \in Procs : Return(p)
DoExecBegin      == \E g \in gs : ExecBegin(g)
DoExecEnd        == \E g \in gs, out \in {"ok", "err"} : ExecEnd(g, out)
DoRelease        == \E g \in gs : Release(g)

Next == DoCall \/ DoAtomicDispatch \/ DoCheck \/ DoInsert \/ DoReturn
        \/ DoExecBegin \/ DoExecEnd \/ DoRelease

Spec == Init /\ [][Next]_vars

\* the goroutine scheduler is fair and the mutex is fair: a spawned goroutine
\* eventually runs and a finished one eventually performs its deferred delete.
\* The duration of execute() (ExecEnd) is arbitrary: no fairness.
Fairness ==
    \A w \in Wallets :
        /\ WF_vars(\E g \in GsOf(w) : ExecBegin(g))
        /\ WF_vars(\E g \in GsOf(w) : Release(g))
LiveSpec == Spec /\ Fairness

---------------------------------------------------------------------------
TypeOK ==
    /\ entry \in [Wallets -> Types \cup {"none"}]
    /\ pc \in [Procs -> {"idle", "called", "checked", "done"}]
    /\ ret \in [Procs -> {"none", "ok", "busy", "error"}]
    /\ ops \in 0..MaxOps
    /\ \A g \in gs : /\ g.w \in Wallets /\ g.t \in Types /\ g.c \in 1..MaxOps
                     /\ g.st \in {"spawned", "executing", "ended"}
                     /\ g.out \in {"none", "ok", "err"}
                     /\ (g.st = "ended") <=> (g.out # "none")

\* C25: at most one action of a wallet executes at any moment
AtMostOneExecuting ==
    \A w \in Wallets : Cardinality({g \in GsOf(w) : g.st = "executing"}) <= 1

\* stronger: at most one action goroutine per wallet exists at all
OnePerWallet == \A w \in Wallets : Cardinality(GsOf(w)) <= 1

\* the map holds an entry for exactly the wallets with a live action, with its type
EntryIffGoroutine ==
    \A w \in Wallets :
        /\ (entry[w] # "none") <=> (GsOf(w) # {})
        /\ \A g \in GsOf(w) : entry[w] = g.t

\* C25: a dispatch is refused exactly when the wallet is busy
BusyIffEntry ==
    /\ (lastD.res = "busy") => lastD.had
    /\ (lastD.res = "ok") => ~lastD.had
    /\ (lastD.res = "error") => lastD.w \in BadWallets

BadNeverEntered == \A w \in BadWallets : entry[w] = "none" /\ GsOf(w) = {}

\* C25: a free wallet accepts a dispatch whatever the other wallets are doing
NonBlocking ==
    \A p \in Procs :
        (pc[p] = "called" /\ arg[p].w \notin BadWallets /\ entry[arg[p].w] = "none")
            => ENABLED (AtomicDispatch(p) /\ ret'[p] = "ok")

\* C25 (action property): one step changes the state of at most one wallet
Local(w) == <<entry[w], GsOf(w)>>
Independent ==
    [][Cardinality({w \in Wallets : Local(w)' # Local(w)}) <= 1]_vars

\* every refused or failed dispatch leaves the dispatcher state untouched
RefusalHasNoEffect ==
    [][\A p \in Procs : (pc[p] # "done" /\ pc'[p] = "done" /\ ret'[p] # "ok")
            => (entry' = entry /\ gs' = gs)]_vars

\* C25 (liveness): a wallet becomes available again once its action ended
Ended(w) == \E g \in GsOf(w) : g.st = "ended"
BecomesAvailable == \A w \in Wallets : Ended(w) ~> (entry[w] = "none")
\* ... and a dispatched action does get executed
GetsExecuted == \A w \in Wallets :
    (\E g \in GsOf(w) : g.st = "spawned") ~> (\E g \in GsOf(w) : g.st # "spawned")
=============================================================================
