SPECIFICATION GSpec
CONSTANTS
  Procs = {"p1", "p2", "p3"}
  Wallets = {"w1", "w2"}
  BadWallets = {}
  Types = {"Heartbeat"}
  MaxOps = 3
  Atomic = FALSE
  Sequential = FALSE
INVARIANTS Emit
