-------------------------- MODULE Trace_Dispatcher --------------------------
(* Trace validation of real concurrent runs of walletDispatcher against the  *)
(* contract grain of Dispatcher.                                             *)
(* Events (harness: /verif/harness/pkg/tbtc/c25_test.go):                    *)
(*   Reset                   a new dispatcher, a new independent run         *)
(*   Call(p, w, t, c)        caller p is about to invoke dispatch            *)
(*   Ret(p, res)             dispatch returned ok | busy | error to p        *)
(*   Begin(c, w)             execute() of the action of call c was entered   *)
(*   End(c, out)             execute() of call c is about to return ok | err *)
(*   Peek(entry)             wd.actions read under the dispatcher's mutex,   *)
(*                           logged while the mutex is still held            *)
(*   Quiet(entry)            all callers returned, all actions ended and no  *)
(*                           goroutine created by dispatch is alive          *)
(* The critical section of dispatch (AtomicDispatch) and the deferred        *)
(* delete (Release) are not logged: TLC infers them as silent steps between  *)
(* Call and Ret, resp. after End.  A Ret(ok) while the wallet still has a    *)
(* live action, a Begin for a refused call, a Peek that disagrees with the   *)
(* model, or a Quiet with a leftover entry make the trace unacceptable.      *)
EXTENDS Dispatcher, TraceKit

VARIABLE l
tvars == <<vars, l>>

TInit == Init /\ l = 1 /\ HwmInit

IsEvent(e) == l <= Len(Trace) /\ Trace[l].event = e /\ l' = l + 1

TReset ==
    /\ IsEvent("Reset")
    /\ entry' = [w \in Wallets |-> "none"]
    /\ pc' = [p \in Procs |-> "idle"]
    /\ arg' = [p \in Procs |-> NoArg]
    /\ ret' = [p \in Procs |-> "none"]
    /\ gs' = {}
    /\ ops' = 0
    /\ lastD' = [w |-> "none", res |-> "none", had |-> FALSE]

TCall == IsEvent("Call") /\ Call(Trace[l].p, Trace[l].w, Trace[l].t, Trace[l].c)

TRet == /\ IsEvent("Ret")
        /\ ret[Trace[l].p] = Trace[l].res
        /\ Return(Trace[l].p)

TBegin == /\ IsEvent("Begin")
          /\ \E g \in gs : g.c = Trace[l].c /\ g.w = Trace[l].w /\ ExecBegin(g)

TEnd == /\ IsEvent("End")
        /\ \E g \in gs : g.c = Trace[l].c /\ ExecEnd(g, Trace[l].out)

SameEntry == \A w \in Wallets : entry[w] = Trace[l].entry[w]

TPeek == IsEvent("Peek") /\ SameEntry /\ UNCHANGED vars

TQuiet == /\ IsEvent("Quiet")
          /\ gs = {}
          /\ \A p \in Procs : pc[p] = "idle"
          /\ SameEntry
          /\ UNCHANGED vars

Silent == /\ l' = l
          /\ \/ \E p \in Procs : AtomicDispatch(p)
             \/ \E g \in gs : Release(g)

TNext == TReset \/ TCall \/ TRet \/ TBegin \/ TEnd \/ TPeek \/ TQuiet \/ Silent
TSpec == TInit /\ [][TNext]_tvars

Hwm == HwmConstraint(l)
Accepted == HwmAccepted
=============================================================================
