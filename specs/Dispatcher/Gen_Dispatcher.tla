--------------------------- MODULE Gen_Dispatcher ---------------------------
(* Behaviour generation for the conformance replay of walletDispatcher.      *)
(*                                                                           *)
(* Sequential = TRUE  (Atomic = TRUE, one caller): every maximal sequential         *)
(*   behaviour of the contract grain.  Steps the real code performs on its   *)
(*   own cannot be held back by a sequential driver, so they get priority:   *)
(*   a call in progress is finished first, the deferred delete (Release)     *)
(*   follows ExecEnd immediately and a spawned goroutine starts executing    *)
(*   right away.  Each step carries the expected result,    *)
(*   the expected content of wd.actions and the live action goroutines.      *)
(*   -> sequences.ndjson                                                     *)
(* Sequential = FALSE (Atomic = FALSE): every interleaving of the lookup (Check)    *)
(*   and the insertion (Insert) of concurrent dispatch calls whose arguments *)
(*   are chosen in GInit (the call itself cannot be separated from its       *)
(*   lookup in the real code).  -> schedules.ndjson                          *)
EXTENDS Dispatcher, TLC, Json, CSV, IOUtils

CONSTANT Sequential
VARIABLE hist
gvars == <<vars, hist>>

Live(s) == {[c |-> g.c, w |-> g.w, t |-> g.t, st |-> g.st] : g \in s}

Log(a, p, c, w, t, res, out) ==
    hist' = Append(hist, [a |-> a, p |-> p, c |-> c, w |-> w, t |-> t, res |-> res, out |-> out,
                          entry |-> entry', live |-> Live(gs')])

\* call ids of the concurrent calls of a hazard schedule
Num == CHOOSE f \in [Procs -> 1..Cardinality(Procs)] : \A p, q \in Procs : p # q => f[p] # f[q]

GInit ==
    /\ hist = <<>>
    /\ IF Sequential THEN Init
       ELSE /\ entry = [w \in Wallets |-> "none"]
            /\ pc = [p \in Procs |-> "called"]
            /\ \E f \in [Procs -> Wallets] :
                 arg = [p \in Procs |-> [w |-> f[p], t |-> CHOOSE t \in Types : TRUE, c |-> Num[p]]]
            /\ ret = [p \in Procs |-> "none"]
            /\ gs = {}
            /\ ops = Cardinality(Procs)
            /\ lastD = [w |-> "none", res |-> "none", had |-> FALSE]

\* ---- sequential behaviours
Busy(p) == pc[p] # "idle"
SCall == \E p \in Procs, w \in Wallets, t \in Types :
            Call(p, w, t, ops + 1) /\ Log("Call", p, ops + 1, w, t, "", "")
SDispatch == \E p \in Procs :
            AtomicDispatch(p) /\ Log("Dispatch", p, arg[p].c, arg[p].w, arg[p].t, ret'[p], "")
SReturn == \E p \in Procs : Return(p) /\ Log("Return", p, arg[p].c, arg[p].w, arg[p].t, ret[p], "")
SBegin == \E g \in gs : ExecBegin(g) /\ Log("ExecBegin", "", g.c, g.w, g.t, "", "")
SEnd == \E g \in gs, out \in {"ok", "err"} : ExecEnd(g, out) /\ Log("ExecEnd", "", g.c, g.w, g.t, "", out)
SRelease == \E g \in gs : Release(g) /\ Log("Release", "", g.c, g.w, g.t, "", g.out)

SeqNext ==
    IF \E p \in Procs : Busy(p) THEN SDispatch \/ SReturn
    ELSE IF \E g \in gs : g.st = "ended" THEN SRelease
    ELSE IF \E g \in gs : g.st = "spawned" THEN SBegin
    ELSE SCall \/ SEnd

\* ---- hazard schedules
HCheck == \E p \in Procs : Check(p) /\ Log("Check", p, arg[p].c, arg[p].w, arg[p].t, ret'[p], "")
HInsert == \E p \in Procs : Insert(p) /\ Log("Insert", p, arg[p].c, arg[p].w, arg[p].t, ret'[p], "")
HazNext == HCheck \/ HInsert

GNext == (Sequential /\ SeqNext) \/ (~Sequential /\ HazNext)
GSpec == GInit /\ [][GNext]_gvars

SeqDone == ops = MaxOps /\ gs = {} /\ \A p \in Procs : pc[p] = "idle"
HazDone == \A p \in Procs : pc[p] = "done"

\* number of accepted dispatches per wallet in the hazard model (contract: <= 1)
Oks(w) == Cardinality({p \in Procs : arg[p].w = w /\ ret[p] = "ok"})

Emit ==
    /\ (Sequential /\ SeqDone) => CSVWrite("%1$s", <<ToJson([steps |-> hist])>>, "sequences.ndjson")
    /\ (~Sequential /\ HazDone) => CSVWrite("%1$s", <<ToJson([steps |-> hist, args |-> arg, modelRet |-> ret,
                                                        modelOks |-> [w \in Wallets |-> Oks(w)]])>>, "schedules.ndjson")
=============================================================================
