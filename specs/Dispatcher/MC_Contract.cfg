SPECIFICATION Spec
CONSTANTS
  Procs = {"p1", "p2"}
  Wallets = {"w1", "w2", "wbad"}
  BadWallets = {"wbad"}
  Types = {"Heartbeat"}
  MaxOps = 3
  Atomic = TRUE
INVARIANTS TypeOK AtMostOneExecuting OnePerWallet EntryIffGoroutine BusyIffEntry BadNeverEntered NonBlocking
PROPERTIES Independent RefusalHasNoEffect
