SPECIFICATION TSpec
CONSTANTS
  Procs = {"p1", "p2", "p3", "p4"}
  Wallets = {"w1", "w2", "wbad"}
  BadWallets = {"wbad"}
  Types = {"Heartbeat", "Redemption", "DepositSweep"}
  MaxOps = 1000000
  Atomic = TRUE
CONSTRAINT Hwm
INVARIANTS AtMostOneExecuting OnePerWallet EntryIffGoroutine BusyIffEntry BadNeverEntered
POSTCONDITION Accepted
