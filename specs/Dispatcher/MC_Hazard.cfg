SPECIFICATION Spec
CONSTANTS
  Procs = {"p1", "p2"}
  Wallets = {"w1", "w2"}
  BadWallets = {}
  Types = {"Heartbeat"}
  MaxOps = 2
  Atomic = FALSE
INVARIANTS TypeOK AtMostOneExecuting
