SPECIFICATION Spec
CONSTANTS
  Procs = {"p1"}
  Wallets = {"w1"}
  BadWallets = {}
  Types = {"Heartbeat"}
  MaxOps = 1
  Atomic = TRUE
PROPERTIES BecomesAvailable
