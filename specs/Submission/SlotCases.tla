------------------------------ MODULE SlotCases ------------------------------
(***************************************************************************)
(* Static part of C47: the slot functions over the input space.  Every      *)
(* state is one case (protocol + parameters); the invariants quantify over  *)
(* all members of the group.  There is no behaviour (Next stutters).        *)
(* With Indexing = "contract" all invariants hold; with "asCoded" TLC finds *)
(* the relay entry case in which a member's slot is the timeout block.      *)
(*                                                                          *)
(* Emit writes, for every case, the slot of every member: the Go harness    *)
(* drives the real functions of every member with a recording block counter *)
(* and compares the block that was asked for.                               *)
(***************************************************************************)
EXTENDS Slots, C47Consts, TLC, Json, CSV, IOUtils

CONSTANTS Indexing,     \* "contract" | "asCoded"
          SmallSizes,   \* group sizes for the tbtc protocols and beacon DKG
          BigSize,      \* one large group size (tbtc groups have 100 members)
          Refs,         \* reference blocks
          ApprovalParams \* set of <<challenge, precedence>>

VARIABLE c

\* values for ApprovalParams (cfg files cannot write tuples): the local chain's
\* parameters, degenerate ones, and the order of magnitude used on mainnet
ApprovalParamsFull  == {<<15, 5>>, <<0, 1>>, <<10, 1>>, <<11520, 5760>>}
ApprovalParamsLocal == {<<15, 5>>}
ApprovalParamsPrec0 == {<<15, 0>>}

Rec(p, n, step, ref, e, timeout, submitter, challenge, precedence) ==
    [proto |-> p, n |-> n, step |-> step, ref |-> ref, e |-> e, timeout |-> timeout,
     submitter |-> submitter, challenge |-> challenge, precedence |-> precedence]

BeaconDkgCases ==
    { Rec("beaconDkg", cf.n, cf.step, r, 0, 0, 0, 0, 0) : cf \in BeaconConfigsDef, r \in Refs }

RelayCases ==
    UNION { { Rec("relayEntry", cf.n, cf.step, r, e, cf.timeout, 0, 0, 0) :
                e \in 0..(cf.n - 1), r \in Refs } : cf \in BeaconConfigsDef }

Sizes == SmallSizes \cup {BigSize}

TecdsaCases ==
    { Rec("tecdsaDkg", n, TecdsaStepDef, r, 0, 0, 0, 0, 0) : n \in Sizes, r \in Refs }

InactivityCases ==
    { Rec("inactivity", n, InactivityStepDef, r, 0, 0, 0, 0, 0) : n \in Sizes, r \in Refs }

Submitters(n) == IF n \in SmallSizes THEN 1..n ELSE {1, n \div 2, n}

ApprovalCases ==
    UNION { { Rec("approval", n, ApprovalStepDef, r, 0, 0, s, ap[1], ap[2]) :
                s \in Submitters(n), r \in Refs, ap \in ApprovalParams } : n \in Sizes }

Cases == BeaconDkgCases \cup RelayCases \cup TecdsaCases \cup InactivityCases \cup ApprovalCases

Init == c \in Cases
Next == UNCHANGED c
Spec == Init /\ [][Next]_c

Injective        == CaseInjective(Indexing, c)
BeforeTimeout    == CaseBeforeTimeout(Indexing, c)
NotBeforeRef     == CaseNotBeforeRef(Indexing, c)
FirstTaken       == CaseFirstTaken(Indexing, c)
QueuePermutation == CaseQueueIsPermutation(Indexing, c)

\* every configuration handed over by the code leaves room for n slots
\* (otherwise BeforeTimeout cannot hold for any slot function)
ConfigSane == c.proto = "relayEntry" => c.timeout >= c.n * c.step /\ c.step >= 1

Emit ==
    CSVWrite("%1$s", <<ToJson([case |-> c,
                               slots |-> [i \in 1..c.n |-> CaseSlot("contract", c, i)],
                               coded |-> [i \in 1..c.n |-> CaseSlot("asCoded", c, i)]])>>,
             "slotcases.ndjson")
=============================================================================
