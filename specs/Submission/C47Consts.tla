------------------------------ MODULE C47Consts ------------------------------
(* Constants of the Go code.  THIS FILE IS REPLACED BY THE ENGINE at every   *)
(* run with the values the harness read from the code under test            *)
(* (engine/props/C47.py, tests TestVerif_C47_Constants); the values below    *)
(* are those of the pinned commit and only serve hand runs of TLC.           *)
BeaconConfigsDef ==
    { [n |-> 1, step |-> 3, timeout |-> 3], [n |-> 2, step |-> 3, timeout |-> 6],
      [n |-> 3, step |-> 3, timeout |-> 9], [n |-> 4, step |-> 3, timeout |-> 12],
      [n |-> 5, step |-> 3, timeout |-> 15], [n |-> 8, step |-> 3, timeout |-> 24],
      [n |-> 64, step |-> 1, timeout |-> 64] }
TecdsaStepDef == 3
ApprovalStepDef == 15
InactivityStepDef == 2
ChallengeConfirmationDef == 20
=============================================================================
