SPECIFICATION Spec
CONSTANTS
  Protos = {"beaconDkg", "relayEntry", "tecdsaDkg", "inactivity", "approval"}
  N = 3
  Controlled = {1, 2}
  Start = 2
  EntryMods = {0, 1, 2}
  Indexing = "contract"
  Submitters = {1, 2, 3}
  Challenge = 4
  Precedence = 2
  Faults = {"none", "precheck", "invalid", "waiter", "submit", "status"}
  Gates = {TRUE, FALSE}
INVARIANTS TypeOK SlotsInjective RelayBeforeTimeout RequestIsSlot ObservedNeverSubmits GateBlocksSubmission SingleWinner MonitoringOnlyRelay RelaySlotBeforeTimeoutBlock
PROPERTIES NoSubmitAfterObserve NoSubmitBeforeSlot
