SPECIFICATION GSpec
CONSTANTS
  Sub = 7
  MaxRounds = 3
INVARIANTS Emit
