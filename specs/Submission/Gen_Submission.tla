--------------------------- MODULE Gen_Submission ---------------------------
(* Behaviour generation for Submission: a history variable records every     *)
(* action with its arguments and the complete abstract state after it; the   *)
(* history is written as one JSON document when every member has ended (or   *)
(* the history bound is reached).  The Go harnesses                          *)
(* (harness/pkg/beacon/dkg/result, pkg/beacon/entry, pkg/tbtc: c47_*_test.go)*)
(* step the real functions through each action and compare the observable    *)
(* state after EVERY step.                                                   *)
EXTENDS Submission, TLC, Json, CSV, IOUtils

CONSTANT MaxHist

VARIABLE hist
gvars == <<vars, hist>>

\* the first entry carries the initial state (block height)
GInit == /\ Init
         /\ hist = << [a |-> "Init", i |-> 0, enough |-> TRUE, f |-> "none",
                       st |-> [blk |-> blk, done |-> FALSE, winner |-> 0, pending |-> {},
                               members |-> { [m |-> i, pc |-> "idle", req |-> -1, ref |-> -1,
                                              nsub |-> 0, res |-> "none"] : i \in Controlled }]] >>

\* abstract state after the step, as the harness observes it
St == [blk |-> blk', done |-> done', winner |-> winner',
       pending |-> pending',
       members |-> { [m |-> i, pc |-> pc'[i], req |-> req'[i], ref |-> ref'[i],
                      nsub |-> nsub'[i], res |-> res'[i]] : i \in Controlled }]

Rec(a, i, e, f) == hist' = Append(hist, [a |-> a, i |-> i, enough |-> e, f |-> f, st |-> St])

GNext ==
    /\ ~AllDone
    /\ Len(hist) < MaxHist
    /\ \/ \E i \in Controlled, e \in BOOLEAN, f \in AllFaults : Begin(i, e, f) /\ Rec("Begin", i, e, f)
       \/ \E i \in Controlled, f \in AllFaults : SlotReached(i, f) /\ Rec("SlotReached", i, TRUE, f)
       \/ \E i \in Controlled : Observe(i) /\ Rec("Observe", i, TRUE, "none")
       \/ \E i \in Controlled : RelayTimeout(i) /\ Rec("RelayTimeout", i, TRUE, "none")
       \/ Compete /\ Rec("Compete", 0, TRUE, "none")
       \/ Advance /\ Rec("Advance", 0, TRUE, "none")

GSpec == GInit /\ [][GNext]_gvars

Params == [proto |-> Proto, n |-> N, controlled |-> Controlled, step |-> Step, start |-> Start,
           faults |-> Faults,
           timeout |-> Timeout, entryMod |-> EntryMod, indexing |-> Indexing,
           submitter |-> Submitter, challenge |-> Challenge, precedence |-> Precedence,
           \* slots for the fixed reference block (used by the approval harness to
           \* tell the per-member goroutines apart)
           slots |-> { [m |-> i, slot |-> Slot(i, Start)] : i \in Controlled }]

Emit ==
    (AllDone \/ Len(hist) = MaxHist) =>
        CSVWrite("%1$s", <<ToJson([params |-> Params, steps |-> hist, complete |-> AllDone])>>,
                 "behaviours.ndjson")
=============================================================================
