SPECIFICATION Spec
CONSTANTS
  Indexing = "asCoded"
  SmallSizes = {1, 2, 3}
  BigSize = 4
  Refs = {0, 7}
  ApprovalParams <- ApprovalParamsLocal
INVARIANTS BeforeTimeout
