SPECIFICATION Spec
CONSTANTS
  Proto = "relayEntry"
  N = 4
  Controlled = {1, 2, 3, 4}
  Step = 3
  Start = 2
  Timeout = 12
  EntryMod = 3
  Indexing = "contract"
  Submitter = 0
  Challenge = 0
  Precedence = 0
  MaxBlock = 15
  Gates = {TRUE, FALSE}
  Faults = {"none", "waiter", "submit", "status"}
INVARIANTS TypeOK SlotsInjective RelayBeforeTimeout RequestIsSlot ObservedNeverSubmits GateBlocksSubmission SingleWinner MonitoringOnlyRelay RelaySlotBeforeTimeoutBlock
PROPERTIES NoSubmitAfterObserve NoSubmitBeforeSlot
