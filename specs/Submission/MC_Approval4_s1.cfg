SPECIFICATION Spec
CONSTANTS
  Proto = "approval"
  N = 4
  Controlled = {1, 2, 3, 4}
  Step = 15
  Start = 2
  Timeout = 0
  EntryMod = 0
  Indexing = "contract"
  Submitter = 1
  Challenge = 4
  Precedence = 2
  MaxBlock = 55
  Gates = {TRUE, FALSE}
  Faults = {"none", "waiter", "submit"}
INVARIANTS TypeOK SlotsInjective RelayBeforeTimeout RequestIsSlot ObservedNeverSubmits GateBlocksSubmission SingleWinner MonitoringOnlyRelay RelaySlotBeforeTimeoutBlock
PROPERTIES NoSubmitAfterObserve NoSubmitBeforeSlot
