SPECIFICATION Spec
CONSTANTS
  Protos = {"relayEntry"}
  N = 4
  Controlled = {1, 2, 3}
  Start = 2
  EntryMods = {0, 1, 2, 3}
  Indexing = "contract"
  Submitters = {1, 2, 3, 4}
  Challenge = 4
  Precedence = 2
  Faults = {"none", "precheck", "invalid", "waiter", "submit", "status"}
  Gates = {TRUE, FALSE}
INVARIANTS TypeOK SlotsInjective RelayBeforeTimeout RequestIsSlot ObservedNeverSubmits GateBlocksSubmission SingleWinner MonitoringOnlyRelay RelaySlotBeforeTimeoutBlock
PROPERTIES NoSubmitAfterObserve NoSubmitBeforeSlot
