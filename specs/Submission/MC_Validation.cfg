SPECIFICATION Spec
CONSTANTS
  Sub = 7
  MaxRounds = 4
INVARIANTS ApproveOnlyValid ChallengeOnlyInvalid ConfirmationBlocks Accounting
