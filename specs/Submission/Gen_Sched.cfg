SPECIFICATION GSpec
CONSTANTS
  Protos = {"beaconDkg", "relayEntry", "tecdsaDkg", "inactivity", "approval"}
  N = 3
  Controlled = {1, 2, 3}
  Start = 2
  EntryMods = {0, 1, 2}
  Indexing = "contract"
  Submitters = {1, 2, 3}
  Challenge = 4
  Precedence = 2
  Faults = {"none"}
  Gates = {TRUE}
  MaxHist = 18
INVARIANTS Emit
