------------------------------ MODULE Submission ------------------------------
(***************************************************************************)
(* On-chain submission by group members: wait for the own slot, leave as    *)
(* soon as somebody else succeeded.  One module for the five protocols that *)
(* share this shape; CONSTANT Proto selects the transcription.              *)
(*                                                                          *)
(* Go code mirrored (one action per decision of the code):                  *)
(*                                                                          *)
(*  beaconDkg   pkg/beacon/dkg/result/submission.go  SubmitDKGResult        *)
(*      gate on len(signatures)            -> Begin, branch "rejected"      *)
(*      OnDKGResultSubmitted subscription  -> member is subscribed from     *)
(*                                            Begin until it returns        *)
(*      IsGroupRegistered (error / true)   -> Begin, "failed" / "left"      *)
(*      waitForSubmissionEligibility       -> Begin, req = slot             *)
(*      select: waiter                     -> SlotReached (Unsubscribe,     *)
(*                                            chain.SubmitDKGResult)        *)
(*      select: submitted event            -> Observe                       *)
(*  relayEntry  pkg/beacon/entry/submission.go  submitRelayEntry            *)
(*      waitForSubmissionEligibility       -> Begin                         *)
(*      select: waiter -> SubmitRelayEntry -> SlotReached; success keeps    *)
(*              the member in the loop ("monitoring"); on error             *)
(*              IsEntryInProgress decides between nil and the error         *)
(*      select: relayEntrySubmittedChannel -> Observe                       *)
(*      select: relayEntryTimeoutChannel   -> RelayTimeout                  *)
(*  tecdsaDkg   pkg/tbtc/dkg_submit.go  dkgResultSubmitter.SubmitResult     *)
(*      quorum gate, GetDKGState (error / not AwaitingResult),              *)
(*      IsDKGResultValid (error / false), CurrentBlock, waitForBlockFn      *)
(*                                         -> Begin                         *)
(*      wait returned, ctx.Err() == nil    -> SlotReached (SubmitDKGResult) *)
(*      ctx cancelled (the OnDKGResultSubmitted subscription of             *)
(*      pkg/tbtc/dkg.go generateSigningGroup cancels it) -> Observe         *)
(*  inactivity  pkg/tbtc/inactivity.go  inactivityClaimSubmitter.SubmitClaim*)
(*      honest-threshold gate, GetWallet, GetInactivityClaimNonce (error /  *)
(*      nonce advanced), CurrentBlock, waitForBlockFn -> Begin              *)
(*      wait returned, ctx.Err() == nil    -> SlotReached (SubmitInactivity-*)
(*                                            Claim)                        *)
(*      ctx cancelled (OnInactivityClaimed subscription of claimInactivity) *)
(*                                         -> Observe                       *)
(*  approval    pkg/tbtc/dkg.go  dkgExecutor.executeDkgValidation (valid    *)
(*      result): one goroutine per controlled member; OnDKGResultApproved   *)
(*      subscription cancels the member's context; waitForBlockFn; ctx.Err; *)
(*      ApproveDKGResult                   -> Begin / SlotReached / Observe *)
(*      (the invalid-result branch, the challenge loop, is ChallengeLoop    *)
(*      below)                                                              *)
(*                                                                          *)
(* The chain process: Advance (block height grows), Compete (a member of    *)
(* another operator succeeds at the current block; every subscribed member  *)
(* gets an event, delivered asynchronously = Observe), faults chosen at     *)
(* Begin / SlotReached.                                                     *)
(***************************************************************************)
EXTENDS Slots, C47Consts, Sequences

CONSTANTS Protos,       \* protocols to explore: subset of {"beaconDkg", "relayEntry", "tecdsaDkg",
                        \*                                   "inactivity", "approval"}
          N,            \* group size
          Controlled,   \* member indexes run by this operator (subset of 1..N)
          Start,        \* start block (beaconDkg, relayEntry) / result submission block (approval)
          EntryMods,    \* relayEntry: values of (entry mod N) to explore
          Indexing,     \* relayEntry: "contract" | "asCoded"
          Submitters,   \* approval: values of result.SubmitterMemberIndex to explore
          Challenge,    \* approval: challenge period (blocks)
          Precedence,   \* approval: submitter precedence period (blocks)
          Faults,       \* faults the environment may inject (subset of AllFaults)
          Gates         \* values of "the signature set reaches the threshold" to explore

AllFaults == {"none", "precheck", "invalid", "waiter", "submit", "status"}

VARIABLES par,        \* [proto, e, submitter]: what is being run (fixed in Init)
          blk,        \* current block height
          done,       \* the chain already has a result / entry / approval / newer nonce
          winner,     \* who succeeded: 0 = nobody or another operator, i = our member i
          pending,    \* members for which a "somebody succeeded" event is in flight
          pc,         \* member -> control state
          ref,        \* member -> reference block its slot was computed from
          req,        \* member -> block it asked the block counter for (-1: none)
          nsub,       \* member -> number of on-chain submission calls it made
          res,        \* member -> result of the call: "none" | "nil" | "err"
          observed    \* member -> it has seen that somebody else succeeded

vars == <<par, blk, done, winner, pending, pc, ref, req, nsub, res, observed>>

Proto     == par.proto
EntryMod  == par.e
Submitter == par.submitter

\* The beacon chain configuration (pkg/beacon/chain Config) for group size N,
\* as the code hands it out (C47Consts is written by the engine from the code).
BeaconCfg == CHOOSE cf \in BeaconConfigsDef : cf.n = N

\* delay step of the protocol, from the code
Step == CASE Proto \in {"beaconDkg", "relayEntry"} -> BeaconCfg.step
          [] Proto = "tecdsaDkg"  -> TecdsaStepDef
          [] Proto = "inactivity" -> InactivityStepDef
          [] Proto = "approval"   -> ApprovalStepDef
Timeout == BeaconCfg.timeout

Running  == {"waiting", "monitoring"}
Terminal == {"rejected", "failed", "left", "submitted", "timedout"}

HasGate      == Proto \in {"beaconDkg", "tecdsaDkg", "inactivity"}
HasPrecheck  == Proto \in {"beaconDkg", "tecdsaDkg", "inactivity"}
RefIsCurrent == Proto \in {"tecdsaDkg", "inactivity"}

\* the slot of member i for reference block r
Slot(i, r) ==
    CASE Proto = "relayEntry" -> RelaySlot(Indexing, i, EntryMod, N, r, Step)
      [] Proto = "approval"   -> ApprovalSlot(i, Submitter, r, Challenge, Precedence, Step)
      [] OTHER                -> LinearSlot(i, r, Step)

\* horizon: a little beyond the last slot
MaxBlock ==
    CASE Proto = "relayEntry" -> Start + Timeout + 1
      [] Proto = "approval"   -> ApprovalStart(Start, Challenge, Precedence) + (N - 1) * Step + 1
      [] Proto = "beaconDkg"  -> Start + (N - 1) * Step + 2
      [] OTHER                -> (N - 1) * Step + 3

Pars == UNION { { [proto |-> p, e |-> e, submitter |-> sb] :
                    e \in (IF p = "relayEntry" THEN EntryMods ELSE {0}),
                    sb \in (IF p = "approval" THEN Submitters ELSE {0}) } : p \in Protos }

Init ==
    /\ par \in Pars
    /\ blk \in {0, 1}
    /\ done = FALSE /\ winner = 0 /\ pending = {}
    /\ pc = [i \in Controlled |-> "idle"]
    /\ ref = [i \in Controlled |-> -1]
    /\ req = [i \in Controlled |-> -1]
    /\ nsub = [i \in Controlled |-> 0]
    /\ res = [i \in Controlled |-> "none"]
    /\ observed = [i \in Controlled |-> FALSE]

---------------------------------------------------------------------------
\* Member i enters the submission function.  `enough` = the signature set
\* reaches the protocol's threshold; `f` = fault injected by the environment.
Begin(i, enough, f) ==
    /\ pc[i] = "idle"
    /\ f \in Faults \ {"submit", "status"}
    /\ (f = "precheck") => HasPrecheck
    /\ (f = "invalid") => Proto = "tecdsaDkg"
    /\ enough \in Gates
    /\ (~enough) => (HasGate /\ f = "none")
    /\ LET r == IF RefIsCurrent THEN blk ELSE Start IN
       IF ~enough
          THEN \* threshold gate: nothing is asked from the chain
               /\ pc' = [pc EXCEPT ![i] = "rejected"]
               /\ res' = [res EXCEPT ![i] = "err"]
               /\ UNCHANGED <<ref, req, observed>>
       ELSE IF f = "precheck"
          THEN \* IsGroupRegistered / GetDKGState / GetWallet failed
               /\ pc' = [pc EXCEPT ![i] = "failed"]
               /\ res' = [res EXCEPT ![i] = "err"]
               /\ UNCHANGED <<ref, req, observed>>
       ELSE IF HasPrecheck /\ done
          THEN \* somebody ahead in the queue already succeeded: give up
               /\ pc' = [pc EXCEPT ![i] = "left"]
               /\ res' = [res EXCEPT ![i] = "nil"]
               /\ observed' = [observed EXCEPT ![i] = TRUE]
               /\ UNCHANGED <<ref, req>>
       ELSE IF f = "invalid"
          THEN \* tecdsaDkg: IsDKGResultValid said no
               /\ pc' = [pc EXCEPT ![i] = "failed"]
               /\ res' = [res EXCEPT ![i] = "err"]
               /\ UNCHANGED <<ref, req, observed>>
       ELSE IF f = "waiter"
          THEN \* the wait for the slot failed: the slot was asked for, error returned
               /\ pc' = [pc EXCEPT ![i] = "failed"]
               /\ res' = [res EXCEPT ![i] = IF Proto = "approval" THEN "nil" ELSE "err"]
               /\ ref' = [ref EXCEPT ![i] = r]
               /\ req' = [req EXCEPT ![i] = Slot(i, r)]
               /\ UNCHANGED observed
          ELSE /\ pc' = [pc EXCEPT ![i] = "waiting"]
               /\ ref' = [ref EXCEPT ![i] = r]
               /\ req' = [req EXCEPT ![i] = Slot(i, r)]
               /\ UNCHANGED <<res, observed>>
    /\ UNCHANGED <<par, blk, done, winner, pending, nsub>>

\* The block counter releases member i's wait: the member submits, unless it
\* finds its context cancelled.  `f` = fault of the submission call.
SlotReached(i, f) ==
    /\ pc[i] = "waiting"
    /\ blk >= req[i]
    /\ f \in (Faults \cap {"none", "submit", "status"})
    /\ (f = "status") => Proto = "relayEntry"
    /\ nsub' = [nsub EXCEPT ![i] = @ + 1]
    /\ LET accepted == ~done /\ f = "none" IN
       /\ IF accepted
             THEN /\ done' = TRUE /\ winner' = i
                  \* every other subscribed member of ours gets an event; for
                  \* the relay entry the submitter itself keeps monitoring and
                  \* is told as well
                  /\ pending' = { j \in Controlled : pc[j] \in Running /\
                                     (j # i \/ Proto = "relayEntry") }
             ELSE \* the member ends in every such case: a late event is dropped
                  /\ pending' = pending \ {i}
                  /\ UNCHANGED <<done, winner>>
       /\ CASE Proto = "relayEntry" ->
                 IF accepted
                    THEN /\ pc' = [pc EXCEPT ![i] = "monitoring"]
                         /\ UNCHANGED res
                 ELSE IF f = "status" \/ ~done
                    THEN \* IsEntryInProgress failed, or the entry is still in
                         \* progress: our transaction went wrong
                         /\ pc' = [pc EXCEPT ![i] = "failed"]
                         /\ res' = [res EXCEPT ![i] = "err"]
                    ELSE \* rejected because somebody else submitted meanwhile
                         /\ pc' = [pc EXCEPT ![i] = "left"]
                         /\ res' = [res EXCEPT ![i] = "nil"]
            [] Proto = "approval" ->
                 \* errors are logged, the goroutine ends either way
                 /\ pc' = [pc EXCEPT ![i] = IF accepted THEN "submitted" ELSE "failed"]
                 /\ res' = [res EXCEPT ![i] = "nil"]
            [] OTHER ->
                 /\ pc' = [pc EXCEPT ![i] = IF accepted THEN "submitted" ELSE "failed"]
                 /\ res' = [res EXCEPT ![i] = IF accepted THEN "nil" ELSE "err"]
    /\ UNCHANGED <<par, blk, ref, req, observed>>

\* The event "somebody succeeded" reaches member i (handler run / channel
\* read / context cancelled): the member leaves without submitting.
Observe(i) ==
    /\ i \in pending
    /\ pc[i] \in Running
    /\ pc' = [pc EXCEPT ![i] = "left"]
    /\ res' = [res EXCEPT ![i] = "nil"]
    /\ observed' = [observed EXCEPT ![i] = TRUE]
    /\ pending' = pending \ {i}
    /\ UNCHANGED <<par, blk, done, winner, ref, req, nsub>>

\* relayEntry: the timeout block's waiter fires.
RelayTimeout(i) ==
    /\ Proto = "relayEntry"
    /\ pc[i] \in Running
    /\ blk >= Start + Timeout
    /\ pc' = [pc EXCEPT ![i] = "timedout"]
    /\ res' = [res EXCEPT ![i] = "err"]
    /\ pending' = pending \ {i}
    /\ UNCHANGED <<par, blk, done, winner, ref, req, nsub, observed>>

\* Another operator's member succeeds at the current block.
Compete ==
    /\ ~done
    /\ done' = TRUE
    /\ pending' = { j \in Controlled : pc[j] \in Running }
    /\ UNCHANGED <<par, blk, winner, pc, ref, req, nsub, res, observed>>

\* Blocks are mined.  Only heights at which something can change are visited:
\* the next block and the neighbourhood of every requested slot / the timeout.
JumpTargets ==
    {blk + 1} \cup { req[i] + d : i \in { j \in Controlled : req[j] >= 0 }, d \in {-1, 0, 1} }
              \cup (IF Proto = "relayEntry" THEN {Start + Timeout - 1, Start + Timeout} ELSE {})
              \cup (IF RefIsCurrent THEN {} ELSE { Slot(i, Start) : i \in Controlled })

Advance ==
    /\ \E b \in JumpTargets : b > blk /\ b <= MaxBlock /\ blk' = b
    /\ UNCHANGED <<par, done, winner, pending, pc, ref, req, nsub, res, observed>>

\* named top-level disjuncts (coverage)
DoBegin       == \E i \in Controlled, e \in BOOLEAN, f \in AllFaults : Begin(i, e, f)
DoSlotReached == \E i \in Controlled, f \in AllFaults : SlotReached(i, f)
DoObserve     == \E i \in Controlled : Observe(i)
DoTimeout     == \E i \in Controlled : RelayTimeout(i)

Next == DoBegin \/ DoSlotReached \/ DoObserve \/ DoTimeout \/ Compete \/ Advance

Spec == Init /\ [][Next]_vars

---------------------------------------------------------------------------
TypeOK ==
    /\ par \in Pars /\ blk \in 0..MaxBlock /\ done \in BOOLEAN /\ winner \in {0} \cup Controlled
    /\ pending \subseteq Controlled
    /\ \A i \in Controlled :
          /\ pc[i] \in {"idle"} \cup Running \cup Terminal
          /\ nsub[i] \in 0..1 /\ res[i] \in {"none", "nil", "err"}

\* C47 (1) for the parameters of this configuration: no two members of the
\* group share a slot for the same reference block.
SlotsInjective ==
    \A r \in (IF RefIsCurrent THEN 0..MaxBlock ELSE {Start}) :
        \A i, j \in 1..N : i # j => Slot(i, r) # Slot(j, r)

\* C47 (2): relay entry slots are strictly before the relay entry timeout.
RelayBeforeTimeout ==
    Proto = "relayEntry" => \A i \in 1..N : Slot(i, Start) < Start + Timeout

\* C47 (3a): nobody submits before its own slot: a submission call happens
\* at a block height that is at least the slot computed from the member's
\* reference block.
NoSubmitBeforeSlot ==
    [][\A i \in Controlled : nsub'[i] > nsub[i] =>
            (ref[i] >= 0 /\ req[i] = Slot(i, ref[i]) /\ blk >= Slot(i, ref[i]))]_vars

\* what a member asked the block counter for is its slot
RequestIsSlot ==
    \A i \in Controlled : req[i] >= 0 => (ref[i] >= 0 /\ req[i] = Slot(i, ref[i]))

\* C47 (3b), state form: a member that has seen somebody else succeed before
\* it reached its slot never submitted.  (monitoring members of the relay
\* entry protocol submitted before they observed; they have nsub = 1.)
ObservedNeverSubmits ==
    \A i \in Controlled : (observed[i] /\ pc[i] = "left" /\ Proto # "relayEntry") => nsub[i] = 0

\* C47 (3b), action form: after observing, no further submission call.
NoSubmitAfterObserve ==
    [][\A i \in Controlled : observed[i] => nsub'[i] = nsub[i]]_vars

\* A member whose threshold gate or pre-check failed never touched the chain.
GateBlocksSubmission ==
    \A i \in Controlled : pc[i] = "rejected" => (nsub[i] = 0 /\ req[i] = -1)

\* At most one of our members is accepted, and only if nobody was before.
SingleWinner ==
    /\ winner # 0 => (done /\ nsub[winner] = 1)
    /\ \A i \in Controlled : pc[i] \in {"submitted", "monitoring"} => winner = i

\* The relay entry submitter that was accepted keeps listening (fire and
\* forget); it ends by the submitted event or by the timeout only.
MonitoringOnlyRelay ==
    \A i \in Controlled : pc[i] = "monitoring" => Proto = "relayEntry"

\* With the contract slots a relay entry member whose slot was reached is
\* never forced into the timeout race: its slot is enabled strictly before
\* the timeout block exists.
RelaySlotBeforeTimeoutBlock ==
    Proto = "relayEntry" =>
        \A i \in Controlled : pc[i] = "waiting" => req[i] < Start + Timeout

AllDone == \A i \in Controlled : pc[i] \in Terminal
=============================================================================
