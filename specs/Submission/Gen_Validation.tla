---------------------------- MODULE Gen_Validation ----------------------------
(* every behaviour of Validation up to MaxRounds, as a script for the harness *)
EXTENDS Validation, TLC, Json, CSV, IOUtils
VARIABLE hist
GInit == Init /\ hist = <<>>
St == [vpc |-> vpc', round |-> round', nchal |-> nchal', waits |-> waits', nstate |-> nstate', valid |-> valid']
GNext ==
    \/ \E v \in {"valid", "invalid", "error"}, s \in {"ok", "operatorErr", "noMembers", "paramsErr"} :
          /\ (v # "valid" => s = "ok") /\ Validate(v, s)
          /\ hist' = Append(hist, [a |-> "Validate", v |-> v, s |-> s, st |-> St])
    \/ \E f \in {"ok", "err"} : Challenge(f) /\ hist' = Append(hist, [a |-> "Challenge", v |-> f, s |-> "", st |-> St])
    \/ \E f \in {"waitErr", "stateErr", "challenge", "other"} :
          Confirm(f) /\ hist' = Append(hist, [a |-> "Confirm", v |-> f, s |-> "", st |-> St])
GSpec == GInit /\ [][GNext]_<<vvars, hist>>
Emit == (vpc \in {"end", "scheduled"}) =>
          CSVWrite("%1$s", <<ToJson([sub |-> Sub, conf |-> Conf, steps |-> hist])>>, "validation.ndjson")
=============================================================================
