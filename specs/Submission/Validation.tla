------------------------------ MODULE Validation ------------------------------
(***************************************************************************)
(* pkg/tbtc/dkg.go dkgExecutor.executeDkgValidation, the part around the    *)
(* approval slots of Submission.tla: what the node does with a submitted    *)
(* DKG result.                                                              *)
(*                                                                          *)
(*   Validate      IsDKGResultValid: error -> end; valid -> Schedule;       *)
(*                 invalid -> challenge loop                                *)
(*   Challenge     ChallengeDKGResult (error -> end), then wait for         *)
(*                 submissionBlock + round * dkgResultChallengeConfirmation-*)
(*                 Blocks                                                   *)
(*   Confirm       wait error -> end; GetDKGState error -> end; state not   *)
(*                 Challenge any more -> done; still Challenge (the         *)
(*                 challenge transaction was lost, e.g. reorg) -> next round*)
(*   Schedule      operatorIDFn error / no member of ours in the result /   *)
(*                 DKGParameters error -> end; otherwise one approval       *)
(*                 goroutine per controlled member (Submission, "approval") *)
(***************************************************************************)
EXTENDS Integers, Sequences, C47Consts

CONSTANTS Sub,        \* block of the result submission
          MaxRounds   \* bound on challenge rounds explored

VARIABLES vpc,        \* "start" | "challenging" | "confirming" | "scheduled" | "end"
          round,      \* challenge round (i in the code)
          nchal,      \* ChallengeDKGResult calls made
          waits,      \* confirmation blocks asked from the block counter
          nstate,     \* GetDKGState calls made
          valid       \* verdict of IsDKGResultValid: "unknown" | "valid" | "invalid" | "error"

vvars == <<vpc, round, nchal, waits, nstate, valid>>

Conf == ChallengeConfirmationDef

Init == /\ vpc = "start" /\ round = 0 /\ nchal = 0 /\ waits = <<>> /\ nstate = 0
        /\ valid = "unknown"

\* v: verdict; s: how scheduling goes ("ok" | "operatorErr" | "noMembers" | "paramsErr")
Validate(v, s) ==
    /\ vpc = "start"
    /\ valid' = v
    /\ vpc' = CASE v = "error"   -> "end"
                [] v = "invalid" -> "challenging"
                [] v = "valid"   -> IF s = "ok" THEN "scheduled" ELSE "end"
    /\ UNCHANGED <<round, nchal, waits, nstate>>

\* f: "ok" | "err" (ChallengeDKGResult fails)
Challenge(f) ==
    /\ vpc = "challenging" /\ round < MaxRounds
    /\ round' = round + 1
    /\ nchal' = nchal + 1
    /\ IF f = "err"
          THEN /\ vpc' = "end" /\ UNCHANGED waits
          ELSE /\ vpc' = "confirming"
               /\ waits' = Append(waits, Sub + (round + 1) * Conf)
    /\ UNCHANGED <<nstate, valid>>

\* f: "waitErr" | "stateErr" | "challenge" (state still Challenge) | "other"
Confirm(f) ==
    /\ vpc = "confirming"
    /\ nstate' = IF f = "waitErr" THEN nstate ELSE nstate + 1
    /\ vpc' = IF f = "challenge" THEN "challenging" ELSE "end"
    /\ UNCHANGED <<round, nchal, waits, valid>>

DoValidate  == \E v \in {"valid", "invalid", "error"}, s \in {"ok", "operatorErr", "noMembers", "paramsErr"} :
                   Validate(v, s) /\ (v # "valid" => s = "ok")
DoChallenge == \E f \in {"ok", "err"} : Challenge(f)
DoConfirm   == \E f \in {"waitErr", "stateErr", "challenge", "other"} : Confirm(f)

Next == DoValidate \/ DoChallenge \/ DoConfirm
Spec == Init /\ [][Next]_vvars

---------------------------------------------------------------------------
\* approvals are scheduled for valid results only; challenges for invalid only
ApproveOnlyValid   == vpc = "scheduled" => (valid = "valid" /\ nchal = 0)
ChallengeOnlyInvalid == nchal > 0 => valid = "invalid"

\* confirmation blocks: submission block + k * confirmation period, k = 1, 2, ...
ConfirmationBlocks ==
    \A k \in 1..Len(waits) : waits[k] = Sub + k * Conf

\* one state check per completed wait, one wait per accepted challenge call
Accounting ==
    /\ Len(waits) <= nchal /\ nchal <= Len(waits) + 1
    /\ nstate <= Len(waits)
    /\ nchal = round
=============================================================================
