SPECIFICATION Spec
CONSTANTS
  Indexing = "contract"
  SmallSizes = {1, 2, 3, 4, 5}
  BigSize = 100
  Refs = {0, 7, 1000}
  ApprovalParams <- ApprovalParamsFull
INVARIANTS Emit
