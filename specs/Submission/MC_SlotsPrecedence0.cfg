SPECIFICATION Spec
CONSTANTS
  Indexing = "contract"
  SmallSizes = {2, 3}
  BigSize = 4
  Refs = {0}
  ApprovalParams <- ApprovalParamsPrec0
INVARIANTS Injective
