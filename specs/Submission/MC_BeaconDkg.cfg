SPECIFICATION Spec
CONSTANTS
  Proto = "beaconDkg"
  N = 3
  Controlled = {1, 2, 3}
  Step = 3
  Start = 2
  Timeout = 0
  EntryMod = 0
  Indexing = "contract"
  Submitter = 0
  Challenge = 0
  Precedence = 0
  MaxBlock = 10
  Gates = {TRUE, FALSE}
  Faults = {"none", "precheck", "waiter", "submit"}
INVARIANTS TypeOK SlotsInjective RelayBeforeTimeout RequestIsSlot ObservedNeverSubmits GateBlocksSubmission SingleWinner MonitoringOnlyRelay RelaySlotBeforeTimeoutBlock
PROPERTIES NoSubmitAfterObserve NoSubmitBeforeSlot
