-------------------------------- MODULE Slots --------------------------------
(***************************************************************************)
(* Submission slot functions of keep-core, one per protocol, transcribed    *)
(* from the Go code.  A slot is the block a group member asks the block     *)
(* counter to wait for before it submits.                                   *)
(*                                                                          *)
(*   beaconDkg   pkg/beacon/dkg/result/submission.go                        *)
(*               SubmittingMember.waitForSubmissionEligibility:             *)
(*               startBlockHeight + (index - 1) * blockStep                 *)
(*   relayEntry  pkg/beacon/entry/submission.go                             *)
(*               relayEntrySubmitter.waitForSubmissionEligibility +         *)
(*               calculateSubmissionQueueIndex:                             *)
(*               start + queueIndex(member, entry mod n, n) * blockStep     *)
(*   tecdsaDkg   pkg/tbtc/dkg_submit.go dkgResultSubmitter.SubmitResult:    *)
(*               currentBlock + (memberIndex-1) * dkgResultSubmission-      *)
(*               DelayStepBlocks                                            *)
(*   approval    pkg/tbtc/dkg.go dkgExecutor.executeDkgValidation:          *)
(*               submitter: submissionBlock + challengePeriod + 1           *)
(*               others   : that + precedencePeriod + (memberIndex-1) *     *)
(*                          dkgResultApprovalDelayStepBlocks                *)
(*   inactivity  pkg/tbtc/inactivity.go inactivityClaimSubmitter.SubmitClaim*)
(*               currentBlock + (memberIndex-1) * inactivityClaimSubmission-*)
(*               DelayStepBlocks                                            *)
(*                                                                          *)
(* The step constants and the beacon configurations are not written here:   *)
(* the engine reads them from the Go code and passes them as constants.     *)
(***************************************************************************)
EXTENDS Integers, FiniteSets

\* calculateSubmissionQueueIndex(memberIndex, firstSubmitterMemberIndex, groupSize)
\* The submission queue is first, first+1, ..., n-1, 0, ..., first-1 over the
\* ZERO-BASED member positions 0..n-1 (see the function's documentation).
QueueIndex(m, f, n) == IF m >= f THEN m - f ELSE m + n - f

\* Position of the member with (one-based) index i in the relay entry
\* submission queue.
\*   "contract": the documented queue over zero-based positions, i.e. the
\*               member's position i-1 is looked up (the member with index
\*               (entry mod n) + 1 submits first, everybody has a position
\*               in 0..n-1);
\*   "asCoded" : what the pinned commit computes, the one-based index is fed
\*               into the zero-based computation (kept as the hazard variant,
\*               TLC must find the timeout-block slot in it).
RelayQueuePos(indexing, i, e, n) ==
    IF indexing = "contract" THEN QueueIndex(i - 1, e, n) ELSE QueueIndex(i, e, n)

RelaySlot(indexing, i, e, n, start, step) ==
    start + RelayQueuePos(indexing, i, e, n) * step

\* beacon DKG result, tECDSA DKG result, inactivity claim
LinearSlot(i, ref, step) == ref + (i - 1) * step

ApprovalPrecedenceStart(sub, challenge) == sub + challenge + 1
ApprovalStart(sub, challenge, precedence) ==
    ApprovalPrecedenceStart(sub, challenge) + precedence
ApprovalSlot(i, submitter, sub, challenge, precedence, step) ==
    IF i = submitter
       THEN ApprovalPrecedenceStart(sub, challenge)
       ELSE ApprovalStart(sub, challenge, precedence) + (i - 1) * step

---------------------------------------------------------------------------
\* A slot case: which protocol and which parameters.  All fields are always
\* present (unused ones are 0) so that cases form one TLC-comparable set.
\*   [proto, n, step, ref, e, timeout, submitter, challenge, precedence]
CaseSlot(indexing, c, i) ==
    CASE c.proto = "relayEntry" -> RelaySlot(indexing, i, c.e, c.n, c.ref, c.step)
      [] c.proto = "approval"   -> ApprovalSlot(i, c.submitter, c.ref, c.challenge,
                                                c.precedence, c.step)
      [] OTHER                  -> LinearSlot(i, c.ref, c.step)

\* C47 (1): no two members share a slot for the same reference block.
CaseInjective(indexing, c) ==
    \A i, j \in 1..c.n : i # j => CaseSlot(indexing, c, i) # CaseSlot(indexing, c, j)

\* C47 (2): every relay entry slot is strictly before the relay entry timeout.
CaseBeforeTimeout(indexing, c) ==
    c.proto = "relayEntry" =>
        \A i \in 1..c.n : CaseSlot(indexing, c, i) < c.ref + c.timeout

\* Nobody is asked to wait for a block before the reference block, and the
\* first position of every queue is taken (somebody may submit straight away;
\* for the approval that is the precedence start if the submitter is ours).
CaseNotBeforeRef(indexing, c) ==
    \A i \in 1..c.n : CaseSlot(indexing, c, i) >= c.ref

CaseFirstTaken(indexing, c) ==
    CASE c.proto = "approval" ->
            \E i \in 1..c.n : CaseSlot(indexing, c, i) =
                                  ApprovalPrecedenceStart(c.ref, c.challenge)
      [] OTHER -> \E i \in 1..c.n : CaseSlot(indexing, c, i) = c.ref

\* The relay entry queue is a permutation of 0..n-1.
CaseQueueIsPermutation(indexing, c) ==
    c.proto = "relayEntry" =>
        { RelayQueuePos(indexing, i, c.e, c.n) : i \in 1..c.n } = 0..(c.n - 1)
=============================================================================
