SPECIFICATION Spec
CONSTANTS
  Protos = {"relayEntry"}
  N = 3
  Controlled = {1, 2, 3}
  Start = 2
  EntryMods = {0, 1, 2}
  Indexing = "asCoded"
  Submitters = {1, 2, 3}
  Challenge = 4
  Precedence = 2
  Faults = {"none"}
  Gates = {TRUE}
INVARIANTS TypeOK RelaySlotBeforeTimeoutBlock
