SPECIFICATION Spec
CONSTANTS
  Proto = "relayEntry"
  N = 3
  Controlled = {1, 2, 3}
  Step = 3
  Start = 2
  Timeout = 9
  EntryMod = 0
  Indexing = "asCoded"
  Submitter = 0
  Challenge = 0
  Precedence = 0
  MaxBlock = 12
  Gates = {TRUE, FALSE}
  Faults = {"none"}
INVARIANTS TypeOK RelayBeforeTimeout RelaySlotBeforeTimeoutBlock
