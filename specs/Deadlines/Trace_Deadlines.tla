--------------------------- MODULE Trace_Deadlines ---------------------------
(* Validation of what the real action executes and the real signing retry   *)
(* loop were observed to do against the timeline of Deadlines.              *)
(* Events (harness /verif/harness/pkg/tbtc/c46_test.go):                    *)
(*   Action  one real <action>.execute: action type, start, expiry          *)
(*           (= start + proposal.ValidityBlocks(), as node.go computes it), *)
(*           the start block handed to the signing executor, whether the    *)
(*           signing context was alive, and the blocks armed through        *)
(*           withCancelOnBlock in order (signing deadline; for the failed   *)
(*           heartbeat also the claim deadline)                             *)
(*   Sign    one real signingExecutor.sign / signBatch (see TSign)           *)
(*   Broadcast one real broadcastTransaction (see TBroadcast)                 *)
(*   Loop    one real signingRetryLoop.start from block `start` with the    *)
(*           chain at block `current`: for every attempt that ran its       *)
(*           number k, the timeout block given to the done check, the       *)
(*           start/timeout blocks given to the attempt function, and every  *)
(*           block the loop waited for                                      *)
EXTENDS Deadlines, DeadlinesConsts, TraceKit

VARIABLE l
tvars == <<vars, l>>

TInit ==
    /\ act \in Actions /\ start = 0 /\ phase = "proposed" /\ now = 0 /\ attempt = 0
    /\ msg = 0 /\ mstart = 0 /\ lastAnn = 0 /\ bstart = 0 /\ bel = 0
    /\ act = CHOOSE a \in Actions : TRUE
    /\ l = 1 /\ HwmInit

IsEvent(e) == l <= Len(Trace) /\ Trace[l].event = e /\ l' = l + 1

TReset == IsEvent("Reset") /\ UNCHANGED vars

TAction ==
    /\ IsEvent("Action")
    /\ LET e == Trace[l]
           a == e.action
           s == e.start
       IN /\ a \in Actions
          /\ e.expiry = Expiry(a, s)
          /\ e.signed
          /\ e.signStart = SigningStart(a, s)
          /\ e.ctxLive
          /\ Len(e.armed) = (IF PostKind[a] = "claim" THEN 2 ELSE 1)
          /\ e.armed[1] = SigningDeadline(a, s)
          /\ (PostKind[a] = "claim" => e.armed[2] = Expiry(a, s) - ClaimEndMargin)
          /\ act' = a /\ start' = s /\ phase' = "signing" /\ attempt' = 1
          /\ now' = e.signStart
          /\ msg' = 1 /\ mstart' = e.signStart /\ lastAnn' = e.signStart
          /\ UNCHANGED <<bstart, bel>>

LoopAttemptStart(s, k) == s + (k - 1) * AttemptMaxBlocks

TLoop ==
    /\ IsEvent("Loop")
    /\ LET e == Trace[l]
           s == e.start
           n == Len(e.attempts)
           W == { e.waited[i] : i \in 1..Len(e.waited) }
       IN /\ n >= 1
          \* attempts run one after another
          /\ \A i \in 1..(n - 1) : e.attempts[i + 1].k = e.attempts[i].k + 1
          \* the first attempt that runs is the first whose announcement ends in the future
          /\ LoopAttemptStart(s, e.attempts[1].k) + AnnounceDelay + AnnounceActive > e.current
          /\ \A j \in 1..(e.attempts[1].k - 1) :
                LoopAttemptStart(s, j) + AnnounceDelay + AnnounceActive <= e.current
          /\ \A i \in 1..n :
                LET a == e.attempts[i]
                    as == LoopAttemptStart(s, a.k)
                IN /\ a.timeoutBlock = as + AnnounceDelay + AnnounceActive + ProtocolBlocks
                   \* the whole attempt, including its cool down, ends before the next one starts
                   /\ a.timeoutBlock + CoolDown <= LoopAttemptStart(s, a.k + 1)
                   /\ (a.fnStart # 0 =>
                          /\ a.fnStart = as + AnnounceDelay + AnnounceActive
                          /\ a.fnTimeout = a.timeoutBlock)
                   /\ {as + AnnounceDelay, as + AnnounceDelay + AnnounceActive, a.timeoutBlock} \subseteq W
          \* a loop of AttemptsLimit attempts occupies exactly LoopBlocks
          /\ LoopAttemptStart(s, AttemptsLimit + 1) = s + LoopBlocks
    /\ UNCHANGED vars

(* one real signingExecutor.sign / signBatch call with all peers offline     *)
(* (every attempt fails at its announcement): the message's start block, the *)
(* block at which the caller's signing context was cancelled through the     *)
(* real withCancelOnBlock, the block of every readiness announcement the     *)
(* node broadcast and the block at which the call returned                   *)
TSign ==
    /\ IsEvent("Sign")
    /\ LET e == Trace[l]
           ms == e.mstart
           D == e.deadline
           n == Len(e.anns)
           due == { k \in 1..AttemptsLimit : MAnnStart(ms, k) <= D }
       IN \* every attempt that can start before the deadline is announced, at its block
          /\ n = Cardinality(due)
          /\ \A i \in 1..n : e.anns[i] = MAnnStart(ms, i)
          \* nothing is announced once the signing context is cancelled
          /\ \A i \in 1..n : e.anns[i] <= D
          \* the call returns when the loop times out or at the deadline, whichever is first
          /\ e.returned = (IF MLoopEnd(ms) <= D THEN MLoopEnd(ms) ELSE D)
          /\ e.failed
    /\ UNCHANGED vars

(* one real walletTransactionExecutor.broadcastTransaction call with the     *)
(* action's broadcast timeout / check delay scaled down (milliseconds): the   *)
(* Bitcoin chain stub reports the transaction known from check number        *)
(* knownAfter on (0 = never).  iterations = broadcasts made, elapsed = wall    *)
(* clock, returned = the call came back within the generous observation       *)
(* bound.  Wall-clock facts may only err towards "held".                      *)
TBroadcast ==
    /\ IsEvent("Broadcast")
    /\ LET e == Trace[l]
           maxIter == (e.timeout \div e.delay) + 1
       IN \* the loop ENDS: the step has an upper bound
          /\ e.returned
          /\ e.iterations >= 1 /\ e.iterations <= maxIter
          /\ IF e.knownAfter = 0
                THEN \* never known: "broadcast timeout exceeded", not before the timeout
                     e.failed /\ e.elapsed >= e.timeout
                ELSE \* known at check k: success after exactly k broadcasts -- unless the
                     \* (real-time) timeout got there first
                     \/ (~e.failed /\ e.iterations = e.knownAfter)
                     \/ (e.failed /\ e.elapsed >= e.timeout)
    /\ UNCHANGED vars

TNext == TReset \/ TAction \/ TLoop \/ TSign \/ TBroadcast
TSpec == TInit /\ [][TNext]_tvars

Hwm == HwmConstraint(l)
Accepted == HwmAccepted
=============================================================================
