----------------------------- MODULE Deadlines -----------------------------
(***************************************************************************)
(* Timeline of a wallet action of pkg/tbtc (deposit sweep, redemption,     *)
(* moving funds, moved funds sweep, heartbeat).                            *)
(*                                                                         *)
(*   node.go  processCoordinationResult: start = coordination window end,  *)
(*            expiry = start + proposal.ValidityBlocks()                   *)
(*   <action>.execute: after validation, signing is requested with         *)
(*            startBlock = start (+ movingFundsCommitmentConfirmation-     *)
(*            Blocks for moving funds) under a context that                *)
(*            withCancelOnBlock cancels at expiry - safety margin          *)
(*            (heartbeat: expiry - heartbeatInactivityClaimValidityBlocks) *)
(*   signing.go signingExecutor.sign: the retry loop for ONE message may   *)
(*            run until startBlock + signingAttemptsLimit *                *)
(*            signingAttemptMaximumBlocks()                                *)
(*   signing_loop.go signingRetryLoop.start: attempt k occupies the blocks *)
(*            [s + (k-1)*M, s + k*M): announcement delay, announcement,    *)
(*            protocol (timeout block), cool down                          *)
(*   wallet.go broadcastTransaction: after signing, broadcasting is        *)
(*            retried for at most broadcastTimeout (wall clock) plus one   *)
(*            check delay                                                  *)
(*   heartbeat.go: after a failed heartbeat the inactivity claim runs      *)
(*            under a context cancelled at expiry - heartbeatTimeout-      *)
(*            SafetyMarginBlocks                                           *)
(*                                                                         *)
(* All numbers are constants EXTRACTED FROM THE BUILT CODE by the harness  *)
(* (TestVerif_C46_Constants); the engine writes them into                  *)
(* DeadlinesConsts.tla.  The machine below walks one action through its    *)
(* phases with worst-case timing; the property is stated as invariants.    *)
(***************************************************************************)
EXTENDS Integers, Sequences, FiniteSets

CONSTANTS Actions,          \* action type names
          Validity,         \* [Actions -> blocks]: proposal.ValidityBlocks()
          Margin,           \* [Actions -> blocks]: signing context ends at expiry - Margin
          StartOffset,      \* [Actions -> blocks]: signing start block - action start block
          PostKind,         \* [Actions -> {"broadcast", "claim"}]
          BroadcastSeconds, \* [Actions -> seconds]: broadcast timeout + one check delay
          ClaimEndMargin,   \* heartbeat: claim context ends at expiry - ClaimEndMargin
          AttemptsLimit,    \* signingAttemptsLimit
          AnnounceDelay, AnnounceActive, ProtocolBlocks, CoolDown,  \* signing_loop.go
          AttemptMaxBlocks, \* signingAttemptMaximumBlocks() as returned by the code
          BlockSeconds,     \* nominal host chain block time (12 s)
          Starts            \* set of action start blocks to explore

VARIABLES act, start, phase, now, attempt

vars == <<act, start, phase, now, attempt>>

Expiry(a, s)          == s + Validity[a]
SigningStart(a, s)    == s + StartOffset[a]
SigningDeadline(a, s) == Expiry(a, s) - Margin[a]
LoopBlocks            == AttemptsLimit * AttemptMaxBlocks
AttemptStart(a, s, k) == SigningStart(a, s) + (k - 1) * AttemptMaxBlocks
CeilDiv(x, y)         == (x + y - 1) \div y
PostBlocks(a)         == CeilDiv(BroadcastSeconds[a], BlockSeconds)

Init ==
    /\ act \in Actions /\ start \in Starts
    /\ phase = "proposed" /\ now = start /\ attempt = 0

(* execute reaches signTransaction / signingExecutor.sign: the signing     *)
(* context is armed and the executor is given its start block              *)
BeginSigning ==
    /\ phase = "proposed"
    /\ phase' = "signing" /\ attempt' = 1
    /\ now' = SigningStart(act, start)
    /\ UNCHANGED <<act, start>>

(* signingRetryLoop: attempt `attempt` fails (announcement failed, members  *)
(* not ready, protocol error or done check timed out); the next attempt     *)
(* starts AttemptMaxBlocks later.  If that is past the deadline the signing *)
(* context is cancelled first.                                              *)
AttemptFails ==
    /\ phase = "signing" /\ attempt < AttemptsLimit
    /\ attempt' = attempt + 1
    /\ now' = AttemptStart(act, start, attempt + 1)
    /\ phase' = IF now' > SigningDeadline(act, start) THEN "cut-short" ELSE "signing"
    /\ UNCHANGED <<act, start>>

(* the last attempt of the loop fails: sign returns an error at the loop    *)
(* timeout block                                                            *)
LoopExhausted ==
    /\ phase = "signing" /\ attempt = AttemptsLimit
    /\ now' = SigningStart(act, start) + LoopBlocks
    /\ phase' = IF now' > SigningDeadline(act, start) THEN "cut-short" ELSE "failed"
    /\ UNCHANGED <<act, start, attempt>>

(* the attempt succeeds; the latest block at which members agree on the     *)
(* signature is the attempt's timeout block                                 *)
AttemptSucceeds ==
    /\ phase = "signing"
    /\ \E endOffset \in {AnnounceDelay + AnnounceActive + 1,
                         AnnounceDelay + AnnounceActive + ProtocolBlocks} :
          now' = AttemptStart(act, start, attempt) + endOffset
    /\ phase' = IF now' > SigningDeadline(act, start) THEN "cut-short" ELSE "signed"
    /\ UNCHANGED <<act, start, attempt>>

(* signing may also complete as late as the deadline itself (several       *)
(* messages signed one after another in a batch)                           *)
SignedAtDeadline ==
    /\ phase = "signing"
    /\ now' = SigningDeadline(act, start)
    /\ now' >= now
    /\ phase' = "signed"
    /\ UNCHANGED <<act, start, attempt>>

(* post-signing step, worst case *)
PostSigning ==
    /\ phase = "signed"
    /\ phase' = "finished"
    /\ now' = IF PostKind[act] = "broadcast"
                 THEN now + PostBlocks(act)
                 ELSE IF now > Expiry(act, start) - ClaimEndMargin THEN now
                      ELSE Expiry(act, start) - ClaimEndMargin
    /\ UNCHANGED <<act, start, attempt>>

Next == BeginSigning \/ AttemptFails \/ LoopExhausted \/ AttemptSucceeds \/ SignedAtDeadline \/ PostSigning

Spec == Init /\ [][Next]_vars

---------------------------------------------------------------------------
(* Property C46.                                                           *)

TypeOK ==
    /\ act \in Actions /\ start \in Starts
    /\ phase \in {"proposed", "signing", "signed", "failed", "cut-short", "finished"}
    /\ attempt \in 0..AttemptsLimit

(* the code computes expiry - margin on unsigned integers *)
NoUnderflow == Expiry(act, start) >= Margin[act] /\ Expiry(act, start) >= ClaimEndMargin

(* the signing phase starts no earlier than the action start *)
SigningStartsAfterStart ==
    /\ SigningStart(act, start) >= start
    /\ (phase # "proposed" => now >= start)

(* ... ends at least the safety margin before the proposal expires *)
SigningEndsBeforeMargin ==
    /\ SigningDeadline(act, start) + Margin[act] <= Expiry(act, start)
    /\ Margin[act] > 0
    /\ (phase \in {"signed"} => now + Margin[act] <= Expiry(act, start))

(* ... and is long enough for one complete retry loop of a single message: *)
(* no attempt of the loop is cut short by the signing deadline             *)
LoopFits ==
    /\ SigningDeadline(act, start) - SigningStart(act, start) >= LoopBlocks
    /\ phase # "cut-short"

(* the attempt windows of the loop really are AttemptMaxBlocks long *)
AttemptWindow ==
    AttemptMaxBlocks = AnnounceDelay + AnnounceActive + ProtocolBlocks + CoolDown

(* post-signing steps end before expiry at the nominal block time *)
PostEndsBeforeExpiry ==
    /\ (phase = "finished" => now <= Expiry(act, start))
    /\ (PostKind[act] = "broadcast" => PostBlocks(act) <= Margin[act])
    /\ (PostKind[act] = "claim" => ClaimEndMargin <= Margin[act])
=============================================================================
