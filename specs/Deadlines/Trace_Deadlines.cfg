SPECIFICATION TSpec
CONSTANTS
  Actions <- C_Actions
  Validity <- C_Validity
  Margin <- C_Margin
  StartOffset <- C_StartOffset
  PostKind <- C_PostKind
  BroadcastSeconds <- C_BroadcastSeconds
  ClaimEndMargin <- C_ClaimEndMargin
  AttemptsLimit <- C_AttemptsLimit
  AnnounceDelay <- C_AnnounceDelay
  AnnounceActive <- C_AnnounceActive
  ProtocolBlocks <- C_ProtocolBlocks
  CoolDown <- C_CoolDown
  AttemptMaxBlocks <- C_AttemptMaxBlocks
  BlockSeconds = 12
  Starts = {0}
CONSTRAINT Hwm
POSTCONDITION Accepted
