SPECIFICATION TSpec
CONSTANTS
  Actions <- C_Actions
  Validity <- C_Validity
  Margin <- C_Margin
  StartOffset <- C_StartOffset
  PostKind <- C_PostKind
  BroadcastTimeout <- C_BroadcastTimeout
  CheckDelay <- C_CheckDelay
  BroadcastBounded = TRUE
  ClaimEndMargin <- C_ClaimEndMargin
  AttemptsLimit <- C_AttemptsLimit
  AnnounceDelay <- C_AnnounceDelay
  AnnounceActive <- C_AnnounceActive
  ProtocolBlocks <- C_ProtocolBlocks
  CoolDown <- C_CoolDown
  AttemptMaxBlocks <- C_AttemptMaxBlocks
  BlockSeconds = 12
  Interlude <- C_Interlude
  MaxMessages = 1000
  LoopBoundToCaller = TRUE
  Starts = {0}
CONSTRAINT Hwm
POSTCONDITION Accepted
