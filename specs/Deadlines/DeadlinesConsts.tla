-------------------------- MODULE DeadlinesConsts --------------------------
(* Default copy for runs by hand.  The engine regenerates this module from  *)
(* the constants printed by TestVerif_C46_Constants for every run.          *)
C_Actions == {"depositSweep", "redemption", "movingFunds", "movedFundsSweep", "heartbeat"}
C_Validity == [a \in C_Actions |-> CASE a = "depositSweep" -> 1200 [] a = "redemption" -> 600
                 [] a = "movingFunds" -> 650 [] a = "movedFundsSweep" -> 600 [] a = "heartbeat" -> 600]
C_Margin == [a \in C_Actions |-> 300]
C_StartOffset == [a \in C_Actions |-> IF a = "movingFunds" THEN 32 ELSE 0]
C_PostKind == [a \in C_Actions |-> IF a = "heartbeat" THEN "claim" ELSE "broadcast"]
C_BroadcastTimeout == [a \in C_Actions |-> IF a = "heartbeat" THEN 0 ELSE 900]
C_CheckDelay == [a \in C_Actions |-> IF a = "heartbeat" THEN 0 ELSE 60]
C_ClaimEndMargin == 25
C_AttemptsLimit == 5
C_AnnounceDelay == 1
C_AnnounceActive == 5
C_ProtocolBlocks == 30
C_CoolDown == 5
C_AttemptMaxBlocks == 41
C_Interlude == 2
=============================================================================
