---------------------------- MODULE MC_Deadlines ----------------------------
EXTENDS Deadlines, DeadlinesConsts
QuickStarts == 0..8 \cup {1000, 123456}
ThoroughStarts == 0..150 \cup {123456, 20000000}
BatchStarts == {0, 7, 20000000}
=============================================================================
