SPECIFICATION GSpec
CONSTANTS
  Tips = {1, 3, 6}
  Requireds = {1, 2, 3, 4, 6}
  Sizes = {1}
  MaxMined = 3
  MaxFaults = 1
  Validating = TRUE
INVARIANTS Emit
