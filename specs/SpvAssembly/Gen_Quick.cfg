SPECIFICATION GSpec
CONSTANTS
  Tips = {2, 5}
  Requireds = {1, 2, 3, 4}
  Sizes = {1}
  MaxMined = 2
  MaxFaults = 1
  Validating = TRUE
INVARIANTS Emit
