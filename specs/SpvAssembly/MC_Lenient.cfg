SPECIFICATION Spec
CONSTANTS
  Tips = {2, 5}
  Requireds = {1, 2, 3}
  Sizes = {1, 3}
  MaxMined = 2
  MaxFaults = 0
  Validating = FALSE
INVARIANTS TypeOK HeadersFromTxBlock MerkleLinksTx CoinbaseOfTxBlock
