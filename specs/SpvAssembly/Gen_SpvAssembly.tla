--------------------------- MODULE Gen_SpvAssembly ---------------------------
(* Behaviour generation: every interleaving of the assembler's queries with  *)
(* mined blocks and at most MaxFaults failing queries, for every initial     *)
(* chain / transaction block / required confirmations.  The tree size and    *)
(* the position do not influence the control flow; the harness draws them    *)
(* (seeded) for every behaviour, so Sizes is a singleton here.               *)
EXTENDS SpvAssembly, TLC, Json, CSV, IOUtils

VARIABLES hist, init
gvars == <<vars, hist, init>>

GInit == Init /\ hist = <<>> /\ init = [tip |-> tip, txBlock |-> txBlock, req |-> req]

Log(a, ask) == hist' = Append(hist, [a |-> a, fault |-> (faults' > faults), ask |-> ask,
                                     pc |-> pc', tip |-> tip', cause |-> cause'])

GNext ==
    /\ UNCHANGED init
    /\ \/ MineBlock /\ Log("MineBlock", 0)
       \/ QConfirmations /\ Log("QConfirmations", 0)
       \/ QTransaction /\ Log("QTransaction", 0)
       \/ QLatest /\ Log("QLatest", 0)
       \/ QHeader /\ Log("QHeader", h + Len(hdrs))
       \/ QMerkle /\ Log("QMerkle", h)
       \/ QCoinbaseHash /\ Log("QCoinbaseHash", h)
       \/ QCoinbaseTx /\ Log("QCoinbaseTx", 0)
       \/ QCoinbaseMerkle /\ Log("QCoinbaseMerkle", h)

GSpec == GInit /\ [][GNext]_gvars

Over == pc \in {"done", "failed"}

Emit == Over => CSVWrite("%1$s", <<ToJson([init |-> init, steps |-> hist, ok |-> (pc = "done"),
                                            hdrs |-> hdrs, block |-> merkle.block])>>, "behaviours.ndjson")
=============================================================================
