SPECIFICATION Spec
CONSTANTS
  Tips = {2, 5}
  Requireds = {1, 2, 3, 4}
  Sizes = {1, 2, 3, 5, 8}
  MaxMined = 2
  MaxFaults = 1
  Validating = TRUE
INVARIANTS TypeOK HeadersFromTxBlock MerkleLinksTx CoinbaseOfTxBlock OnlyConfirmed HeadersExist FailureHasCause NoRaceNoFailure StartNotBefore
