SPECIFICATION Spec
CONSTANTS
  Tips = {1, 3, 6}
  Requireds = {1, 2, 3, 4, 6}
  Sizes = {1, 2, 3, 4, 5, 8, 9}
  MaxMined = 3
  MaxFaults = 2
  Validating = TRUE
INVARIANTS TypeOK HeadersFromTxBlock MerkleLinksTx CoinbaseOfTxBlock OnlyConfirmed HeadersExist FailureHasCause NoRaceNoFailure StartNotBefore
