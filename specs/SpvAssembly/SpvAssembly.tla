----------------------------- MODULE SpvAssembly -----------------------------
(***************************************************************************)
(* SPV proof assembly: pkg/bitcoin/spv_proof.go AssembleSpvProof,          *)
(* getHeadersChain, createMerkleProof.                                     *)
(*                                                                         *)
(* The Bitcoin chain is a sequence of blocks 1..tip (heights are block     *)
(* identities: no reorganisation).  A Merkle proof is abstract: the pair   *)
(* (block, position) it links a transaction to; the harness realizes it    *)
(* with real Merkle trees and maps a real proof back to the pair with an   *)
(* independent verifier.                                                   *)
(*                                                                         *)
(* One action per query of the assembler, interleaved with MineBlock:      *)
(*   GetTransactionConfirmations(tx)           -> QConfirmations           *)
(*   GetTransaction(tx)                        -> QTransaction             *)
(*   GetLatestBlockHeight                      -> QLatest                  *)
(*   getHeadersChain: GetBlockHeader(h + k)    -> QHeader (one per header) *)
(*   GetTransactionMerkleProof(tx, h)          -> QMerkle                  *)
(*   GetCoinbaseTxHash(h)                      -> QCoinbaseHash            *)
(*   GetTransaction(coinbase)                  -> QCoinbaseTx              *)
(*   GetTransactionMerkleProof(coinbase, h)    -> QCoinbaseMerkle          *)
(* The chain answers like an Electrum server: an error for a height above  *)
(* the tip, an error for a Merkle proof of a transaction that is not in    *)
(* the block at the given height (ElectrumX: "tx not in block at height",  *)
(* electrs: "invalid confirmation height provided").  CONSTANT Validating  *)
(* = FALSE removes the second behaviour (hazard variant: a lenient server  *)
(* answers with the branch of whatever sits at the position).              *)
(***************************************************************************)
EXTENDS Integers, Sequences, FiniteSets

CONSTANTS Tips,        \* initial chain heights
          Requireds,   \* required confirmations
          Sizes,       \* numbers of transactions in the transaction's block
          MaxMined,    \* blocks mined while the proof is assembled
          MaxFaults,   \* failing queries
          Validating   \* the server checks that the transaction is in the block it is asked about

VARIABLES
    tip,       \* chain height
    txBlock,   \* block of the transaction (0: still in the mempool)
    size, pos, \* number of transactions in that block, position of the transaction
    req,       \* requiredConfirmations
    pc,        \* next query of AssembleSpvProof
    conf,      \* answer of GetTransactionConfirmations
    h,         \* txBlockHeight computed by the assembler
    hdrs,      \* heights of the headers fetched so far
    merkle,    \* (block, position) of the transaction's Merkle proof
    cb,        \* block whose coinbase was fetched
    cbMerkle,  \* (block, position) of the coinbase Merkle proof
    tipAtConf, \* chain height when the confirmations were read
    cause,     \* why the assembly failed
    mined, faults

vars == <<tip, txBlock, size, pos, req, pc, conf, h, hdrs, merkle, cb, cbMerkle, tipAtConf, cause, mined, faults>>
inputs == <<txBlock, size, pos, req>>

None == [block |-> 0, pos |-> 0]

Init ==
    /\ tip \in Tips
    /\ txBlock \in 0..tip
    /\ req \in Requireds
    /\ size \in Sizes /\ pos \in {0, 1, size - 1} /\ pos >= 0 /\ pos < size
    /\ pc = "conf" /\ conf = 0 /\ h = 0 /\ hdrs = <<>> /\ merkle = None /\ cb = 0 /\ cbMerkle = None
    /\ tipAtConf = 0 /\ cause = "none" /\ mined = 0 /\ faults = 0

Fails == /\ faults < MaxFaults /\ faults' = faults + 1
NoFault == UNCHANGED faults

Fail(why) == /\ pc' = "failed" /\ cause' = why

\* blocks arrive at any moment
MineBlock ==
    /\ mined < MaxMined /\ mined' = mined + 1 /\ tip' = tip + 1
    /\ pc \notin {"done", "failed"}
    /\ UNCHANGED <<inputs, pc, conf, h, hdrs, merkle, cb, cbMerkle, tipAtConf, cause, faults>>

\* confirmations, err := btcChain.GetTransactionConfirmations(transactionHash)
\* if confirmations < requiredConfirmations -> error
QConfirmations ==
    /\ pc = "conf"
    /\ \/ Fails /\ Fail("fault") /\ UNCHANGED <<conf, tipAtConf>>
       \/ /\ NoFault
          /\ LET c == IF txBlock = 0 THEN 0 ELSE tip - txBlock + 1 IN
             /\ conf' = c /\ tipAtConf' = tip
             /\ IF c < req THEN Fail("confirmations") ELSE pc' = "tx" /\ UNCHANGED cause
    /\ UNCHANGED <<tip, inputs, h, hdrs, merkle, cb, cbMerkle, mined>>

\* transaction, err := btcChain.GetTransaction(transactionHash)
QTransaction ==
    /\ pc = "tx"
    /\ \/ Fails /\ Fail("fault")
       \/ NoFault /\ pc' = "latest" /\ UNCHANGED cause
    /\ UNCHANGED <<tip, inputs, conf, h, hdrs, merkle, cb, cbMerkle, tipAtConf, mined>>

\* latestBlockHeight, err := btcChain.GetLatestBlockHeight()
\* txBlockHeight := latestBlockHeight - confirmations + 1
QLatest ==
    /\ pc = "latest"
    /\ \/ Fails /\ Fail("fault") /\ UNCHANGED h
       \/ NoFault /\ h' = tip - conf + 1 /\ pc' = "header" /\ UNCHANGED cause
    /\ UNCHANGED <<tip, inputs, conf, hdrs, merkle, cb, cbMerkle, tipAtConf, mined>>

\* getHeadersChain: blockHeader, err := btcChain.GetBlockHeader(i) for i = h .. h + req - 1
QHeader ==
    /\ pc = "header"
    /\ LET i == h + Len(hdrs) IN
       \/ Fails /\ Fail("fault") /\ UNCHANGED hdrs
       \/ NoFault /\ i > tip /\ Fail("no-such-block") /\ UNCHANGED hdrs
       \/ /\ NoFault /\ i <= tip
          /\ hdrs' = Append(hdrs, i)
          /\ pc' = IF Len(hdrs) + 1 = req THEN "merkle" ELSE "header"
          /\ UNCHANGED cause
    /\ UNCHANGED <<tip, inputs, conf, h, merkle, cb, cbMerkle, tipAtConf, mined>>

\* merkleBranch, err := btcChain.GetTransactionMerkleProof(transactionHash, txBlockHeight)
QMerkle ==
    /\ pc = "merkle"
    /\ \/ Fails /\ Fail("fault") /\ UNCHANGED merkle
       \/ NoFault /\ h > tip /\ Fail("no-such-block") /\ UNCHANGED merkle
       \/ NoFault /\ h <= tip /\ h # txBlock /\ Validating /\ Fail("tx-not-in-block") /\ UNCHANGED merkle
       \/ /\ NoFault /\ h <= tip /\ (h = txBlock \/ ~Validating)
          \* a lenient server returns the branch of position `pos` of the block it was asked about
          /\ merkle' = [block |-> h, pos |-> pos]
          /\ pc' = "cbhash" /\ UNCHANGED cause
    /\ UNCHANGED <<tip, inputs, conf, h, hdrs, cb, cbMerkle, tipAtConf, mined>>

\* coinbaseTxHash, err := btcChain.GetCoinbaseTxHash(txBlockHeight)
QCoinbaseHash ==
    /\ pc = "cbhash"
    /\ \/ Fails /\ Fail("fault") /\ UNCHANGED cb
       \/ NoFault /\ h > tip /\ Fail("no-such-block") /\ UNCHANGED cb
       \/ NoFault /\ h <= tip /\ cb' = h /\ pc' = "cbtx" /\ UNCHANGED cause
    /\ UNCHANGED <<tip, inputs, conf, h, hdrs, merkle, cbMerkle, tipAtConf, mined>>

\* coinbaseTx, err := btcChain.GetTransaction(coinbaseTxHash); coinbasePreimage := sha256(serialized)
QCoinbaseTx ==
    /\ pc = "cbtx"
    /\ \/ Fails /\ Fail("fault")
       \/ NoFault /\ pc' = "cbmerkle" /\ UNCHANGED cause
    /\ UNCHANGED <<tip, inputs, conf, h, hdrs, merkle, cb, cbMerkle, tipAtConf, mined>>

\* coinbaseMerkleBranch, err := btcChain.GetTransactionMerkleProof(coinbaseTxHash, txBlockHeight)
QCoinbaseMerkle ==
    /\ pc = "cbmerkle"
    /\ \/ Fails /\ Fail("fault") /\ UNCHANGED cbMerkle
       \/ NoFault /\ cbMerkle' = [block |-> cb, pos |-> 0] /\ pc' = "done" /\ UNCHANGED cause
    /\ UNCHANGED <<tip, inputs, conf, h, hdrs, merkle, cb, tipAtConf, mined>>

Next == MineBlock \/ QConfirmations \/ QTransaction \/ QLatest \/ QHeader \/ QMerkle
        \/ QCoinbaseHash \/ QCoinbaseTx \/ QCoinbaseMerkle

Spec == Init /\ [][Next]_vars

---------------------------------------------------------------------------
Returned == pc = "done"

TypeOK ==
    /\ pc \in {"conf", "tx", "latest", "header", "merkle", "cbhash", "cbtx", "cbmerkle", "done", "failed"}
    /\ Len(hdrs) <= req

\* C31: the headers are `required` consecutive headers starting at the transaction's block
HeadersFromTxBlock ==
    Returned => /\ Len(hdrs) = req
                /\ \A i \in 1..req : hdrs[i] = txBlock + i - 1

\* C31: the Merkle proof links the transaction to the first header at the stated position
MerkleLinksTx ==
    Returned => merkle = [block |-> txBlock, pos |-> pos] /\ merkle.block = hdrs[1]

\* C31: the coinbase preimage and proof belong to that block
CoinbaseOfTxBlock ==
    Returned => cb = txBlock /\ cbMerkle = [block |-> txBlock, pos |-> 0]

\* a returned proof is for a mined transaction with enough confirmations
OnlyConfirmed == Returned => (txBlock > 0 /\ tip - txBlock + 1 >= req)

\* every header handed out exists
HeadersExist == \A i \in 1..Len(hdrs) : hdrs[i] <= tip

\* failures have a cause; without failing queries the only spurious one is a block that
\* arrived between the confirmations query and the height query (the start block is
\* derived from two non-atomic reads) - which the validating server turns into an error
FailureHasCause ==
    (pc = "failed" /\ cause \notin {"fault", "confirmations"}) =>
        (cause = "tx-not-in-block" /\ h # txBlock /\ h > 0)

\* if no block arrives between the two reads and no query fails, assembly succeeds
NoRaceNoFailure ==
    (pc = "failed" /\ cause = "tx-not-in-block") => h - txBlock > 0

\* the computed start block is never before the transaction's block
StartNotBefore == (pc \in {"header", "merkle", "cbhash", "cbtx", "cbmerkle", "done"}) => h >= txBlock
=============================================================================
