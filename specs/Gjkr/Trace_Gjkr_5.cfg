SPECIFICATION TSpec
CONSTANTS
  N = 5
  T = 2
  CorruptSets <- UpToT
  Classes <- All1asc
  FixSets <- OnlyFixed
  Plans <- NoPlan
CONSTRAINT Hwm
INVARIANTS TNoHonestPunished TNoAbort TAgreement TShareConsistency TViewsAgree HonestInQual
POSTCONDITION Accepted
