SPECIFICATION Spec
CONSTANTS
  N = 5
  T = 2
  CorruptSets <- Corrupt5
  Classes <- C02AsIs
  FixSets <- OnlyAsIs
  Plans <- NoPlan
INVARIANTS TypeOK ShareConsistency
