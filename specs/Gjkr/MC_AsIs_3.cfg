SPECIFICATION Spec
CONSTANTS
  N = 3
  T = 1
  K = 2
  CorruptSets <- Corrupt3
  Kinds <- AllKinds
  Fixes <- NoFixes
  FullOrder = FALSE
INVARIANTS TypeOK Agreement
