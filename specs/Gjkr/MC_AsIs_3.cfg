SPECIFICATION Spec
CONSTANTS
  N = 3
  T = 1
  CorruptSets <- Corrupt3
  Classes <- All1asc
  FixSets <- OnlyAsIs
  Plans <- NoPlan
INVARIANTS TypeOK Agreement NoHonestPunished NoAbort
