-------------------------------- MODULE Gjkr --------------------------------
(***************************************************************************)
(* GJKR distributed key generation of the random beacon, as implemented by *)
(* pkg/beacon/gjkr (protocol.go, states.go, message_filter.go,             *)
(* evidence_log.go) and pkg/protocol/group (group.go, message_filter.go).  *)
(*                                                                         *)
(* The specification is implementation shaped: every honest member keeps   *)
(* its own view (IA/DQ sets, evidence log, qualified shares, stored        *)
(* points, expected reconstructions, ...) and there is one action per      *)
(* protocol state per member, transcribing the Initiate function of        *)
(* states.go (MarkInactiveMembers followed by the phase function of        *)
(* protocol.go) branch by branch, plus one Receive action per message      *)
(* carrying state which applies shouldAcceptMessage with the view the      *)
(* member has at receive time (i.e. after the Initiate of that state, as   *)
(* state.SyncMachine does).                                                *)
(*                                                                         *)
(* Cryptography is symbolic.  A corrupt member controls, per message:      *)
(*   phase 1   eph keys: ok | missing (no key for some member) | selfkey   *)
(*             (also carries a key for the sender itself) | silent         *)
(*   phase 3   per receiver share: ok | bad (decrypts, s off the polynomial:*)
(*             fails the commitments and the points) | badt (s fine, t     *)
(*             wrong: fails the commitments, fits the points) | undec      *)
(*             (does not decrypt) | absent;                                *)
(*             commitments: ok | wrong (count); either message missing     *)
(*   phase 4/8 accusations: any set of accused ids in 0..N+1 (incl. self,  *)
(*             honest, inactive, non existent), revealed key right/wrong   *)
(*   phase 7   points: wrong count | valid exactly for the receivers in a  *)
(*             set S (polynomial f + r*PROD_{i in S}(x-i), |S| <= T) |     *)
(*             silent                                                      *)
(*   phase 10  revealed keys: any set of ids, each key right/wrong         *)
(*   any phase a second (conflicting) message, a message claiming another  *)
(*             member's index, a message of another session                *)
(* bounded by a deviation budget K.  Delivery: consistent broadcast; the   *)
(* cross-sender order is chosen per receiver where the code is sensitive   *)
(* to it (phase 3 and phase 10 messages).                                  *)
(*                                                                         *)
(* fixes (chosen from FixSets) is the set of repairs the modelled code      *)
(* contains; {} is the code as pinned, in which TLC finds the violations    *)
(* that were reproduced on the real code (see /verif/proposed_fixes and the *)
(* `fix:` commits of /repo):                                               *)
(*   F1  points of a member whose misbehaviour is confirmed in state 9 are *)
(*       forgotten, so every member reconstructs its key        (83585a2)  *)
(*   F7  state-8 accusations are resolved against the broadcast points,    *)
(*       also those that were invalid for the resolving member  (83585a2)  *)
(*   F2  an accusation against oneself disqualifies the accuser instead of *)
(*       hitting the fatal "could not find public key" error    (cc6e57e)  *)
(*   F3  state 11: "key of an operating member" is evaluated against a     *)
(*       fixed operating set; a key for a non-QUAL / non existent / own    *)
(*       index disqualifies the revealer instead of the fatal error; a     *)
(*       reconstructed key is not summed for a member whose valid points   *)
(*       are held                              (7e0e1be, 435bff2, 4581092) *)
(*   F4  a shares message is judged against the members operating when the *)
(*       verification starts                                    (30b131a)  *)
(*   F5  accusation states admit the senders operating when the state      *)
(*       began                                                  (d957384)  *)
(*   F6  only the first reveal message of a sender is used      (2f518ac)  *)
(***************************************************************************)
EXTENDS Integers, Sequences, FiniteSets, TLC, SequencesExt, FiniteSetsExt

CONSTANTS
    N,            \* group size
    T,            \* dishonest threshold (polynomial degree)
    CorruptSets,  \* set of admissible corrupt sets (each of size <= T)
    Classes,      \* adversary classes: records [name, kinds (enabled deviation kinds, see
                  \* the Adversary section), k (deviation budget), ord (delivery orders),
                  \* script (<<stage, corrupt member>> -> messages it sends there, for
                  \* directed counterexamples; the empty function for a free adversary)]
    FixSets,      \* sets of repairs present in the modelled code ({} = the pinned code)
    Plans         \* admissible per-message-state caps on the deviations spent (sequences of 6)

Members == 1..N
Ids     == 0..(N + 1)

\* cls.ord, the cross-sender delivery orders explored in the order sensitive
\* states: "full" all, "corrupt" honest senders first then any order of the
\* corrupt, "rev1" ascending except that the lowest honest member gets the
\* corrupt senders in descending order, "asc" ascending only.
VARIABLES
    cls,       \* adversary class of this run (constant during a run)
    fixes,     \* repairs present in the code of this run (constant during a run)
    corrupt,   \* the corrupt members of this run
    pos,       \* <<stage index, member that acts next>>
    mem,       \* mem[h]: view of honest member h
    out,       \* out[m]: messages broadcast by m in the current message state
    budget,    \* deviations the adversary may still spend
    plan,      \* cap on the deviations spent in each of the 6 message states
    dord       \* cross-sender delivery order used by the last Receive (<<>> otherwise)

vars == <<cls, fixes, corrupt, pos, mem, out, budget, plan, dord>>
Kinds == cls.kinds
Fixes == fixes
OrderMode == cls.ord
K == cls.k

Honest == Members \ corrupt

-----------------------------------------------------------------------------
(* Stages: I<n> = Initiate of protocol state n by an honest member,        *)
(* A<n> = the corrupt members choose their messages of state n,            *)
(* R<n> = an honest member receives the messages of state n.               *)
StageSeq == << "I1", "A1", "R1", "I2", "I3", "A3", "R3", "I4", "A4", "R4",
               "I5", "I6", "I7", "A7", "R7", "I8", "A8", "R8", "I9", "I10",
               "A10", "R10", "I11", "I12", "END" >>
NS == Len(StageSeq)
StageName == StageSeq[pos[1]]
IsAdvStage(s) == StageSeq[s] \in {"A1", "A3", "A4", "A7", "A8", "A10"}

ActorsAt(s, mm, cs) ==
    IF s = NS THEN {}
    ELSE IF IsAdvStage(s) THEN cs
    ELSE {h \in Members \ cs : mm[h].st = "run"}

RECURSIVE NextPos(_, _, _, _)
NextPos(s, a, mm, cs) ==
    LET rest == {x \in ActorsAt(s, mm, cs) : x > a} IN
    IF rest # {} THEN <<s, Min(rest)>>
    ELSE IF s = NS THEN <<NS, 0>>
    ELSE NextPos(s + 1, 0, mm, cs)

Done == pos[1] = NS

-----------------------------------------------------------------------------
(* group.Group: IsOperating / MarkMemberAsDisqualified / ...Inactive       *)
Op(v) == Members \ (v.ia \cup v.dq)
MarkDQ(v, x) == IF x \in Op(v) THEN [v EXCEPT !.dq = @ \cup {x}] ELSE v
\* group.InactiveMemberFilter.FlushInactiveMembers
FlushInactive(v, self, active) ==
    [v EXCEPT !.ia = @ \cup (Op(v) \ (active \cup {self}))]

ByKind(seq, k) == SelectSeq(seq, LAMBDA x : x.k = k)
Claims(seq) == {seq[i].claim : i \in DOMAIN seq}
\* protocol.go deduplicateBySender: the first message of every sender
Dedup(seq) ==
    SelectSeq([i \in DOMAIN seq |-> [x |-> seq[i], first |-> \A j \in 1..(i - 1) : seq[j].claim # seq[i].claim]],
              LAMBDA y : y.first)
DedupMsgs(seq) == LET d == Dedup(seq) IN [i \in DOMAIN d |-> d[i].x]
FirstOf(seq, s) == LET d == SelectSeq(seq, LAMBDA x : x.claim = s) IN d[1]

Msg(from, claim, k, p) == [from |-> from, claim |-> claim, k |-> k, p |-> p, sess |-> TRUE]

EmptyMem ==
    [st |-> "run", ia |-> {}, dq |-> {},
     eph |-> {}, selfk |-> {},       \* evidence log: phase 1 messages / symmetric keys
     shm |-> <<>>,                   \* evidence log: phase 3 shares messages (sender -> payload)
     com |-> {},                     \* receivedPeerCommitments
     qual |-> {},                    \* receivedQualifiedSharesS
     pts |-> <<>>,                   \* points kept for accusation resolution (sender -> okFor)
     vpts |-> {},                    \* receivedValidPeerPublicKeySharePoints
     exp |-> {},                     \* expectedMembersForReconstruction
     rec |-> <<>>,                   \* revealedMisbehavedMembersShares (member -> providers)
     snap |-> {},                    \* senders admitted in an accusation state (fix F5)
     rcv |-> <<>>,                   \* phaseMessages of the current state
     shq |-> {},                     \* senders whose share is in groupPrivateKeyShare
     key |-> <<>>,                   \* terms summed into the group public key (bag)
     nilshare |-> FALSE]             \* ComputeGroupPublicKeyShares would use a nil share

-----------------------------------------------------------------------------
(* message_filter.go shouldAcceptMessage (+ the session check of states.go)*)
(* evaluated with the receiver's current view.                             *)
Accept(h, m, x) ==
    /\ x.sess
    /\ x.claim = x.from                 \* membershipValidator.IsValidMembership
    /\ x.claim # h                      \* !isMessageFromSelf
    /\ IF "F5" \in Fixes /\ x.k \in {"acc4", "acc8"}
       THEN x.claim \in m.snap          \* repaired: view at the start of the state
       ELSE x.claim \in Op(m)           \* group.IsOperating(senderID)

Perms(S) == {p \in [1..Cardinality(S) -> S] : \A i, j \in DOMAIN p : i # j => p[i] # p[j]}
RECURSIVE Concat(_, _)
Concat(ord, o) == IF ord = <<>> THEN <<>> ELSE o[Head(ord)] \o Concat(Tail(ord), o)
Ascending(S) == SetToSortSeq(S, LAMBDA a, b : a < b)

Orders(h) ==
    CASE OrderMode = "full" -> Perms(Members \ {h})
      [] OrderMode = "corrupt" -> {Ascending(Honest \ {h}) \o p : p \in Perms(corrupt)}
      [] OrderMode = "rev1" -> IF h = Min(Honest)
                               THEN {Ascending(Honest \ {h}) \o Reverse(Ascending(corrupt))}
                               ELSE {Ascending(Members \ {h})}
      [] OTHER -> {Ascending(Members \ {h})}

-----------------------------------------------------------------------------
(* Evidence lookups (protocol.go findPublicKey)                            *)
\* public key generated by x for y is in the evidence log of m
HasEphKey(m, x, y) == x \in m.eph /\ ((y \in Members /\ y # x) \/ (y = x /\ x \in m.selfk))
\* share of `from` for `to` in the logged shares message
ShareOf(m, from, to) == IF to = from THEN "absent" ELSE m.shm[from][to]

-----------------------------------------------------------------------------
(* State 1  ephemeralKeyPairGenerationState.Initiate                       *)
(*          GenerateEphemeralKeyPair                                       *)
I1(h, m) == [mem |-> m, out |-> << Msg(h, h, "eph", "ok") >>]

(* State 2  symmetricKeyGenerationState.Initiate                           *)
(*          MarkInactiveMembers; GenerateSymmetricKeys                     *)
I2(h, m) ==
    LET v0 == FlushInactive(m, h, Claims(m.rcv))
        d == DedupMsgs(m.rcv)
        bad == {d[i].claim : i \in {j \in DOMAIN d : d[j].p = "missing"}}    \* isValidEphemeralPublicKeyMessage
        good == Claims(d) \ bad
        self == {d[i].claim : i \in {j \in DOMAIN d : d[j].p = "selfkey"}}
        v1 == [v0 EXCEPT !.dq = @ \cup (bad \cap Op(v0))]
    IN [mem |-> [v1 EXCEPT !.eph = good, !.selfk = self, !.rcv = <<>>], out |-> <<>>]

(* State 3  commitmentState.Initiate  CalculateMembersSharesAndCommitments *)
(* shares only for members a symmetric key exists with                     *)
I3(h, m) ==
    [mem |-> m,
     out |-> << Msg(h, h, "shares", [j \in Members |-> IF j # h /\ j \in m.eph THEN "ok" ELSE "absent"]),
                Msg(h, h, "commits", <<"ok">>) >>]

(* State 4  commitmentsVerificationState.Initiate                          *)
(*          MarkInactiveMembers(shares, commitments);                      *)
(*          VerifyReceivedSharesAndCommitmentsMessages                     *)
I4(h, m) ==
    LET shs == ByKind(m.rcv, "shares")
        cms == ByKind(m.rcv, "commits")
        v0 == FlushInactive(m, h, Claims(shs) \cap Claims(cms))
        dsh == DedupMsgs(shs)
        shm == [s \in Claims(dsh) |-> FirstOf(dsh, s).p]       \* evidenceLog.PutPeerSharesMessage
        a0 == [v |-> [v0 EXCEPT !.shm = shm, !.snap = Op(v0)], acc |-> {}, abort |-> FALSE]
        step(a, c) ==
            IF a.abort THEN a
            ELSE IF c.p = <<"wrong">>                           \* isValidMemberCommitmentsMessage
            THEN [a EXCEPT !.v = MarkDQ(@, c.claim)]
            ELSE LET a1 == [a EXCEPT !.v.com = @ \cup {c.claim}] IN
                 IF c.claim \notin DOMAIN shm THEN a1            \* "cannot find shares message"
                 ELSE LET p == shm[c.claim]
                          \* isValidPeerSharesMessage: shares for all members operating *now*
                          need == (IF "F4" \in Fixes THEN Op(v0) ELSE Op(a1.v)) \ {c.claim}
                      IN IF \E j \in need : p[j] = "absent"
                         THEN [a1 EXCEPT !.v = MarkDQ(@, c.claim)]
                         ELSE IF c.claim \notin m.eph            \* "no symmetric key for sender": fatal
                         THEN [a1 EXCEPT !.abort = TRUE]
                         ELSE IF p[h] \in {"undec", "bad", "badt"}  \* cannot decrypt / invalid against commitments
                         THEN [a1 EXCEPT !.v = MarkDQ(@, c.claim), !.acc = @ \cup {c.claim}]
                         ELSE [a1 EXCEPT !.v.qual = @ \cup {c.claim}]
        r == FoldLeft(step, a0, DedupMsgs(cms))
    IN IF r.abort
       THEN [mem |-> [r.v EXCEPT !.st = "aborted", !.rcv = <<>>], out |-> <<>>]
       ELSE [mem |-> [r.v EXCEPT !.rcv = <<>>],
             out |-> << Msg(h, h, "acc4", {[id |-> a, ok |-> TRUE] : a \in r.acc}) >>]

(* State 5  sharesJustificationState.Initiate                              *)
(*          MarkInactiveMembers; ResolveSecretSharesAccusationsMessages    *)
\* outcome of one accusation entry: members to disqualify (their shares are
\* discarded as well) or the fatal error
Resolve5(h, m, accuser, e) ==
    LET accused == e.id
        R(dq) == [dq |-> dq, fatal |-> FALSE]
    IN
    IF accused = h \/ accused \notin Members \/ ("F2" \in Fixes /\ accused = accuser) THEN R({accuser})
    ELSE IF ~HasEphKey(m, accuser, accused) THEN [dq |-> {}, fatal |-> TRUE]
    ELSE IF ~e.ok THEN R({accuser})                               \* IsKeyMatching
    ELSE IF ~HasEphKey(m, accused, accuser) THEN R({accuser})
    ELSE IF accused \notin DOMAIN m.shm THEN R({accuser})
    ELSE LET s == ShareOf(m, accused, accuser) IN
         IF s \in {"absent", "undec"} THEN R({accused})           \* decryptShares failed
         ELSE IF accused \in m.com /\ s = "ok" THEN R({accuser})  \* areSharesValidAgainstCommitments
         ELSE R({accused})

I5(h, m) ==
    LET v0 == FlushInactive(m, h, Claims(m.rcv))
        d == DedupMsgs(m.rcv)
        per == UNION { {Resolve5(h, m, d[i].claim, e) : e \in d[i].p} : i \in DOMAIN d }
        todq == UNION {r.dq : r \in per}
        fatal == \E r \in per : r.fatal
        \* MarkMemberAsDisqualified + discardReceivedShares
        v1 == [v0 EXCEPT !.dq = @ \cup (todq \cap Op(v0)), !.qual = @ \ todq, !.rcv = <<>>]
    IN IF fatal THEN [mem |-> [v1 EXCEPT !.st = "aborted"], out |-> <<>>]
       ELSE [mem |-> v1, out |-> <<>>]

(* State 6  qualificationState.Initiate  CombineMemberShares               *)
I6(h, m) == [mem |-> [m EXCEPT !.shq = m.qual], out |-> <<>>]

(* State 7  pointsShareState.Initiate  CalculatePublicKeySharePoints       *)
I7(h, m) == [mem |-> m, out |-> << Msg(h, h, "pts", [cnt |-> "ok", okFor |-> Members]) >>]

(* State 8  pointsValidationState.Initiate                                 *)
(*          MarkInactiveMembers; VerifyPublicKeySharePoints                *)
\* the points of `from` verify against the share `from` gave `to`
PointsFit(m, from, okFor, to) == ShareOf(m, from, to) = "ok" /\ to \in okFor

I8(h, m) ==
    LET v0 == FlushInactive(m, h, Claims(m.rcv))
        d == DedupMsgs(m.rcv)
        wrong == {d[i].claim : i \in {j \in DOMAIN d : d[j].p.cnt = "wrong"}}  \* isValidMemberPublicKeySharePointsMessage
        wf == Claims(d) \ wrong
        okf == [s \in wf |-> FirstOf(d, s).p.okFor]
        \* isShareValidAgainstPublicKeySharePoints(self, receivedQualifiedSharesS[sender], points)
        invalid == {s \in wf : ~(s \in m.qual /\ h \in okf[s])}
        valid == wf \ invalid
        v1 == [v0 EXCEPT !.dq = @ \cup ((wrong \cup invalid) \cap Op(v0)),
                         !.vpts = valid,
                         !.pts = IF "F7" \in Fixes THEN okf ELSE [s \in valid |-> okf[s]],
                         !.snap = Op(v0), !.rcv = <<>>]
    IN [mem |-> v1, out |-> << Msg(h, h, "acc8", {[id |-> a, ok |-> TRUE] : a \in invalid}) >>]

(* State 9  pointsJustificationState.Initiate                              *)
(*          MarkInactiveMembers; ResolvePublicKeySharePointsAccusationsMessages *)
\* result: [dq |-> set, forget |-> set (accused confirmed to have misbehaved)]
Resolve9(h, m, accuser, e) ==
    LET accused == e.id
        R(dq, fg) == [dq |-> dq, forget |-> fg, fatal |-> FALSE]
    IN
    IF accused = h \/ accused \notin Members \/ ("F2" \in Fixes /\ accused = accuser) THEN R({accuser}, {})
    ELSE IF ~HasEphKey(m, accuser, accused) THEN [dq |-> {}, forget |-> {}, fatal |-> TRUE]
    ELSE IF ~e.ok THEN R({accuser}, {})
    ELSE IF ~HasEphKey(m, accused, accuser) THEN R({accuser}, {})
    ELSE IF accused \notin DOMAIN m.shm THEN R({accuser}, {})
    ELSE LET s == ShareOf(m, accused, accuser) IN
         IF s \in {"absent", "undec"} THEN R({accuser, accused}, {accused})
         \* only the s share is decrypted and compared with the points
         ELSE IF accused \in DOMAIN m.pts /\ s \in {"ok", "badt"} /\ accuser \in m.pts[accused]
         THEN R({accuser}, {})                                  \* false accusation
         ELSE R({accused}, {accused})                           \* confirmed misbehaviour

I9(h, m) ==
    LET v0 == FlushInactive(m, h, Claims(m.rcv))
        d == DedupMsgs(m.rcv)
        per == UNION { {Resolve9(h, m, d[i].claim, e) : e \in d[i].p} : i \in DOMAIN d }
        todq == UNION {r.dq : r \in per}
        forget == IF "F1" \in Fixes THEN UNION {r.forget : r \in per} ELSE {}
        fatal == \E r \in per : r.fatal
        v1 == [v0 EXCEPT !.dq = @ \cup (todq \cap Op(v0)), !.vpts = @ \ forget, !.rcv = <<>>]
    IN IF fatal THEN [mem |-> [v1 EXCEPT !.st = "aborted"], out |-> <<>>]
       ELSE [mem |-> v1, out |-> <<>>]

(* State 10 keyRevealState.Initiate  RevealMisbehavedMembersKeys           *)
(*          membersForReconstruction: DQ/IA members with qualified shares  *)
(*          and without stored valid points                                *)
I10(h, m) ==
    LET e == {x \in m.dq \cup m.ia : x \in m.qual /\ x \notin m.vpts} IN
    [mem |-> [m EXCEPT !.exp = e],
     out |-> << Msg(h, h, "rev", {[id |-> a, ok |-> TRUE] : a \in e}) >>]

(* State 11 reconstructionState.Initiate                                   *)
(*          MarkInactiveMembers; ReconstructMisbehavedIndividualKeys       *)
RevIds(x) == {e.id : e \in x.p}
I11(h, m) ==
    LET v0 == FlushInactive(m, h, Claims(m.rcv))
        d == DedupMsgs(m.rcv)
        \* loop 1: isValidMisbehavedEphemeralKeysMessage on the deduplicated messages.
        \* Pinned code: "reveals the key of an operating member" is evaluated with
        \* the view as it evolves in this loop; repaired (F3): with the view before it.
        val(v, x) ==
            LET ok == /\ m.exp \subseteq RevIds(x)
                      /\ \A i \in RevIds(x) : i \notin Op(IF "F3" \in Fixes THEN v0 ELSE v)
            IN IF ok THEN v ELSE MarkDQ(v, x.claim)
        v1 == FoldLeft(val, v0, d)
        \* loop 2: recoverMisbehavedShares on *all* received messages (pinned code)
        \* or on the deduplicated ones (F6)
        a0 == [v |-> v1, rec |-> <<>>, fatal |-> FALSE]
        entry(a, X, e) ==
            LET mis == e.id
                add == [a EXCEPT !.rec = IF mis \in DOMAIN a.rec THEN [@ EXCEPT ![mis] = @ \cup {X}]
                                         ELSE [z \in DOMAIN a.rec \cup {mis} |-> IF z = mis THEN {X} ELSE a.rec[z]]]
                dqX == [a EXCEPT !.v = MarkDQ(@, X)]
            IN
            IF a.fatal THEN a
            ELSE IF mis = h THEN dqX
            \* key of an operating member: skipped (pinned: current view; F3: view
            \* at the start of the recovery)
            ELSE IF mis \in Op(IF "F3" \in Fixes THEN v1 ELSE a.v) THEN a
            \* F3: a key for a member outside QUAL, a non existent index or the
            \* revealing member itself disqualifies the revealing member
            ELSE IF "F3" \in Fixes /\ (mis \notin m.qual \/ mis = X) THEN dqX
            ELSE IF ~HasEphKey(m, X, mis) THEN [a EXCEPT !.fatal = TRUE]
            ELSE IF ~e.ok THEN dqX
            ELSE IF ~HasEphKey(m, mis, X) THEN dqX
            ELSE IF mis \notin DOMAIN m.shm THEN dqX
            ELSE LET s == ShareOf(m, mis, X) IN
                 IF s \in {"absent", "undec"} THEN dqX
                 ELSE IF mis \in m.com /\ s = "ok" THEN add
                 ELSE dqX
        msgstep(a, x) ==
            FoldLeft(LAMBDA b, i : entry(b, x.claim, CHOOSE e \in x.p : e.id = i), a,
                     Ascending(RevIds(x)))
        r == FoldLeft(msgstep, a0, IF "F6" \in Fixes THEN d ELSE m.rcv)
        \* revealMisbehavedMembersShares: add own share for expected members already present
        rec2 == [z \in DOMAIN r.rec |->
                    IF z \in m.exp /\ z \in m.qual THEN r.rec[z] \cup {h} ELSE r.rec[z]]
    IN IF r.fatal THEN [mem |-> [r.v EXCEPT !.st = "aborted", !.rcv = <<>>], out |-> <<>>]
       ELSE [mem |-> [r.v EXCEPT !.rec = rec2, !.rcv = <<>>], out |-> <<>>]

(* State 12 combinationState.Initiate                                      *)
(*          ComputeGroupPublicKeyShares; CombineGroupPublicKey             *)
PtsTerm(s, okFor) == IF okFor = Members THEN <<"true", s>> ELSE <<"fake", s, okFor>>
RecTerm(x, prov) == IF Cardinality(prov) >= T + 1 THEN <<"true", x>> ELSE <<"part", x, prov>>
I12(h, m) ==
    LET A == {<<"true", h>>} \cup {PtsTerm(s, m.pts[s]) : s \in m.vpts}
        \* F3: a reconstructed key is not added for a member whose valid points are held
        B == {RecTerm(x, m.rec[x]) : x \in {y \in DOMAIN m.rec : "F3" \in Fixes => y \notin m.vpts}}
        bag == [x \in A \cup B |-> (IF x \in A THEN 1 ELSE 0) + (IF x \in B THEN 1 ELSE 0)]
        nil == \E o \in Op(m) \ {h} : \E q \in m.qual :
                  q \notin m.vpts /\ q \in DOMAIN m.rec /\ o \notin m.rec[q]
    IN [mem |-> [m EXCEPT !.key = bag, !.nilshare = nil, !.st = "done"], out |-> <<>>]

-----------------------------------------------------------------------------
(* Adversary                                                               *)
Cost(x) == x[2]
Has(k) == k \in Kinds

\* every way to turn a set of (payload, cost) choices into the sequence a
\* corrupt member sends in a state: one message, none, or two (conflicting)
SeqChoices(c, kind, choices, silentKind, b) ==
    LET mk(p) == Msg(c, c, kind, p)
        one == { << <<mk(x[1])>>, x[2] >> : x \in {y \in choices : y[2] <= b} }
        none == IF Has(silentKind) /\ b >= 1 THEN { << <<>>, 1 >> } ELSE {}
        two == IF Has("dup")
               THEN { << <<mk(x[1]), mk(y[1])>>, x[2] + y[2] + 1 >> :
                        x \in {z \in choices : z[2] + 1 <= b}, y \in {z \in choices : z[2] <= 1} }
               ELSE {}
    IN one \cup none \cup {z \in two : z[2] <= b}

\* optional junk in front: a message claiming another index / another session
WithJunk(c, kind, dflt, S, b) ==
    S \cup (IF Has("spoof")
            THEN { << << [Msg(c, v, kind, dflt) EXCEPT !.sess = TRUE] >> \o z[1], z[2] + 1 >> :
                      v \in Members \ {c}, z \in {y \in S : y[2] + 1 <= b} }
            ELSE {})
      \cup (IF Has("session")
            THEN { << << [Msg(c, c, kind, dflt) EXCEPT !.sess = FALSE] >> \o z[1], z[2] + 1 >> :
                      z \in {y \in S : y[2] + 1 <= b} }
            ELSE {})

EphChoices ==
    {<<"ok", 0>>} \cup (IF Has("eph.missing") THEN {<<"missing", 1>>} ELSE {})
                  \cup (IF Has("eph.selfkey") THEN {<<"selfkey", 1>>} ELSE {})

ShareVals == {"ok"} \cup (IF Has("sh.bad") THEN {"bad"} ELSE {})
                    \cup (IF Has("sh.badt") THEN {"badt"} ELSE {})
                    \cup (IF Has("sh.undec") THEN {"undec"} ELSE {})
                    \cup (IF Has("sh.absent") THEN {"absent"} ELSE {})
ShareChoices(c, b) ==
    LET fs == {f \in [Members -> ShareVals \cup {"absent"}] :
                  /\ f[c] = "absent"
                  /\ \A j \in Members \ {c} : f[j] \in ShareVals}
        cost(f) == Cardinality({j \in Members \ {c} : f[j] # "ok"})
    IN {<<f, cost(f)>> : f \in {g \in fs : cost(g) <= b}}
\* (the payload is a 1-tuple so that it is comparable with a shares payload)
CommitChoices == {<< <<"ok">>, 0>>} \cup (IF Has("cm.wrong") THEN {<< <<"wrong">>, 1>>} ELSE {})

\* accusation / reveal payloads: sets of [id, ok] with distinct ids
EntrySets(ids, b) ==
    LET subs == {S \in SUBSET ids : Cardinality(S) <= b} IN
    UNION { { {[id |-> i, ok |-> g[i]] : i \in S} : g \in [S -> BOOLEAN] } : S \in subs }
AccIds(c) ==
    (IF Has("acc.member") THEN Members \ {c} ELSE {})
      \cup (IF Has("acc.self") THEN {c} ELSE {})
      \cup (IF Has("acc.badid") THEN {0, N + 1} ELSE {})
AccChoices(c, b) ==
    {<<S, Cardinality(S)>> : S \in {E \in EntrySets(AccIds(c), b) :
                                       Has("acc.wrongkey") \/ \A e \in E : e.ok}}

PtsChoices(c) ==
    {<<[cnt |-> "ok", okFor |-> Members], 0>>}
      \cup (IF Has("pts.wrong") THEN {<<[cnt |-> "wrong", okFor |-> Members], 1>>} ELSE {})
      \cup (IF Has("pts.partial")
            THEN {<<[cnt |-> "ok", okFor |-> S], 1>> : S \in {X \in SUBSET Members : Cardinality(X) <= T}}
            ELSE {})

\* what an honest member reveals (view of the lowest running honest member)
RevBase ==
    LET run == {h \in Honest : mem[h].st = "run"} IN
    IF run = {} THEN {} ELSE mem[Min(run)].exp
RevChoices(c, b) ==
    LET ids == (IF Has("rev.member") THEN Members \ {c} ELSE RevBase)
                 \cup (IF Has("rev.self") THEN {c} ELSE {})
                 \cup (IF Has("rev.badid") THEN {0, N + 1} ELSE {})
        base == RevBase \cap ids
        \* toggle at most b ids (add / drop), then reveal a wrong key for some of them
        togg == {D \in SUBSET ids : Cardinality(D) <= b}
        sets == {(base \ D) \cup (D \ base) : D \in togg}
        cost0(S) == Cardinality((S \ base) \cup (base \ S))
        withKeys(S) == {<<{[id |-> i, ok |-> i \notin W] : i \in S}, cost0(S) + Cardinality(W)>> :
                          W \in {X \in SUBSET S : (Has("rev.wrongkey") \/ X = {}) /\ cost0(S) + Cardinality(X) <= b}}
    IN UNION {withKeys(S) : S \in sets}

\* a corrupt member no running honest member listens to any more sends nothing
Dead(c) ==
    \A h \in Honest :
        \/ mem[h].st # "run"
        \/ IF "F5" \in Fixes /\ StageName \in {"A4", "A8"} THEN c \notin mem[h].snap ELSE c \notin Op(mem[h])

AdvChoices(c, b) ==
    CASE StageName = "A1" ->
            WithJunk(c, "eph", "ok", SeqChoices(c, "eph", EphChoices, "eph.silent", b), b)
      [] StageName = "A3" ->
            LET sh == SeqChoices(c, "shares", ShareChoices(c, b), "sh.none", b)
                cm == SeqChoices(c, "commits", CommitChoices, "cm.none", b)
            IN WithJunk(c, "commits", <<"ok">>,
                        {z \in { << x[1] \o y[1], x[2] + y[2] >> : x \in sh, y \in cm } : z[2] <= b}, b)
      [] StageName = "A4" ->
            WithJunk(c, "acc4", {}, SeqChoices(c, "acc4", AccChoices(c, b), "acc.silent", b), b)
      [] StageName = "A7" ->
            WithJunk(c, "pts", [cnt |-> "ok", okFor |-> Members],
                     SeqChoices(c, "pts", PtsChoices(c), "pts.silent", b), b)
      [] StageName = "A8" ->
            WithJunk(c, "acc8", {}, SeqChoices(c, "acc8", AccChoices(c, b), "acc.silent", b), b)
      [] StageName = "A10" ->
            WithJunk(c, "rev", {}, SeqChoices(c, "rev", RevChoices(c, b), "rev.silent", b), b)

AdvStageNo == CASE StageName = "A1" -> 1 [] StageName = "A3" -> 2 [] StageName = "A4" -> 3
                 [] StageName = "A7" -> 4 [] StageName = "A8" -> 5 [] StageName = "A10" -> 6
Cap == IF budget < plan[AdvStageNo] THEN budget ELSE plan[AdvStageNo]

-----------------------------------------------------------------------------
Init ==
    /\ cls \in Classes
    /\ fixes \in FixSets
    /\ corrupt \in CorruptSets
    /\ mem = [h \in Members |-> EmptyMem]
    /\ out = [m \in Members |-> <<>>]
    /\ budget = K
    /\ plan \in Plans
    /\ dord = <<>>
    /\ pos = NextPos(1, 0, mem, corrupt)

\* honest member h runs Initiate of the current state; r is the result of the
\* state's function: the member's new view and the messages it broadcasts
Apply(h, r) ==
    LET mm == [mem EXCEPT ![h] = r.mem]
    IN /\ mem' = mm
       /\ out' = [out EXCEPT ![h] = r.out]
       /\ pos' = NextPos(pos[1], h, mm, corrupt)
       /\ dord' = <<>>
       /\ UNCHANGED <<cls, fixes, corrupt, budget, plan>>

At(name) == StageName = name /\ pos[2] \in Honest

P1_Initiate  == At("I1")  /\ Apply(pos[2], I1(pos[2], mem[pos[2]]))
P2_Initiate  == At("I2")  /\ Apply(pos[2], I2(pos[2], mem[pos[2]]))
P3_Initiate  == At("I3")  /\ Apply(pos[2], I3(pos[2], mem[pos[2]]))
P4_Initiate  == At("I4")  /\ Apply(pos[2], I4(pos[2], mem[pos[2]]))
P5_Initiate  == At("I5")  /\ Apply(pos[2], I5(pos[2], mem[pos[2]]))
P6_Initiate  == At("I6")  /\ Apply(pos[2], I6(pos[2], mem[pos[2]]))
P7_Initiate  == At("I7")  /\ Apply(pos[2], I7(pos[2], mem[pos[2]]))
P8_Initiate  == At("I8")  /\ Apply(pos[2], I8(pos[2], mem[pos[2]]))
P9_Initiate  == At("I9")  /\ Apply(pos[2], I9(pos[2], mem[pos[2]]))
P10_Initiate == At("I10") /\ Apply(pos[2], I10(pos[2], mem[pos[2]]))
P11_Initiate == At("I11") /\ Apply(pos[2], I11(pos[2], mem[pos[2]]))
P12_Initiate == At("I12") /\ Apply(pos[2], I12(pos[2], mem[pos[2]]))

\* an honest member receives the messages of the current state (out[m] always
\* holds messages of the current message state: every Initiate and every
\* adversary step overwrites it)
OrderSensitive == StageName \in {"R3", "R10"}

\* member h receives the messages of the current state, senders in the order o
ReceiveWith(h, o) ==
    LET inbox == Concat(o, out)
        acc == SelectSeq(inbox, LAMBDA x : Accept(h, mem[h], x))
        mm == [mem EXCEPT ![h].rcv = acc]
    IN /\ mem' = mm
       /\ pos' = NextPos(pos[1], h, mm, corrupt)
       /\ dord' = (IF OrderSensitive THEN o ELSE <<>>)
       /\ UNCHANGED <<cls, fixes, corrupt, out, budget, plan>>

IsRecvStage == StageName \in {"R1", "R3", "R4", "R7", "R8", "R10"}

Receive ==
    /\ IsRecvStage
    /\ pos[2] \in Honest
    /\ \E o \in (IF OrderSensitive THEN Orders(pos[2]) ELSE {Ascending(Members \ {pos[2]})}) :
          ReceiveWith(pos[2], o)

Adversary ==
    /\ IsAdvStage(pos[1])
    /\ pos[2] \in corrupt
    /\ LET c == pos[2] IN
       /\ \E ch \in (IF Dead(c) THEN { << <<>>, 0 >> }
                    ELSE IF <<StageName, c>> \in DOMAIN cls.script THEN { << cls.script[<<StageName, c>>], 0 >> }
                    ELSE AdvChoices(c, Cap)) :
             /\ out' = [out EXCEPT ![c] = ch[1]]
             /\ budget' = budget - ch[2]
       /\ pos' = NextPos(pos[1], c, mem, corrupt)
       /\ dord' = <<>>
       /\ UNCHANGED <<cls, fixes, corrupt, mem, plan>>

Next ==
    \/ P1_Initiate \/ P2_Initiate \/ P3_Initiate \/ P4_Initiate \/ P5_Initiate \/ P6_Initiate
    \/ P7_Initiate \/ P8_Initiate \/ P9_Initiate \/ P10_Initiate \/ P11_Initiate \/ P12_Initiate
    \/ Receive
    \/ Adversary

Spec == Init /\ [][Next]_vars

-----------------------------------------------------------------------------
(* Properties                                                              *)
Finished == {h \in Honest : mem[h].st = "done"}

TypeOK ==
    /\ corrupt \in CorruptSets
    /\ budget \in 0..K
    /\ \A h \in Honest : mem[h].st \in {"run", "aborted", "done"} /\ h \notin mem[h].ia \cup mem[h].dq

\* C01 (1): members that finish agree on the misbehaved (inactive or
\* disqualified) members and on the group public key.  The IA/DQ *classification*
\* of a misbehaved member may legitimately differ (an accuser disqualifies in
\* state 4 a member the others mark inactive in state 5 before they resolve the
\* accusation); dkg/result/conversion.go merges both lists into `misbehaved`.
Misbehaved(h) == mem[h].ia \cup mem[h].dq
Agreement ==
    Done => \A a, b \in Finished :
               /\ Misbehaved(a) = Misbehaved(b)
               /\ mem[a].key = mem[b].key

\* C01 (2): no honest member is ever marked IA or DQ by an honest member
NoHonestPunished ==
    \A h \in Honest : (mem[h].ia \cup mem[h].dq) \cap Honest = {}

\* the "fatal to the protocol ... should never happen" errors of protocol.go
NoAbort == \A h \in Honest : mem[h].st # "aborted"

\* the views agree whenever a resolution state is complete (localizes a
\* divergence): after states 2, 5, 9 and 11.  (Between the Initiate of states
\* 4/8 and the resolution in 5/9 the accusers are ahead of the others.)
AgreeStages == {"I3", "A3", "R3", "I4", "I6", "I7", "A7", "R7", "I8", "I10", "A10", "R10", "I11", "I12", "END"}
AtBoundary == Done \/ (StageName \in AgreeStages /\ pos[2] = Min(ActorsAt(pos[1], mem, corrupt)))
ViewsAgree ==
    AtBoundary => \A a, b \in {h \in Honest : mem[h].st # "aborted"} :
                     Misbehaved(a) = Misbehaved(b)

\* C02: the combined shares are shares of the secret of the group public key,
\* and the public key share computed for an honest member is its share times G2
KeyIs(Q) == [x \in {<<"true", j>> : j \in Q} |-> 1]
ShareSet(h) == mem[h].shq \cup {h}
PubShareOK(a, o) ==    \* a computes the public key share of o
    /\ ShareSet(a) = ShareSet(o)
    /\ \A q \in mem[a].shq :
          \/ q \in mem[a].vpts /\ mem[a].pts[q] = Members
          \/ q \notin mem[a].vpts /\ q \in DOMAIN mem[a].rec /\ o \in mem[a].rec[q]
ShareConsistency ==
    Done => /\ \A a, b \in Finished : ShareSet(a) = ShareSet(b)
            /\ \A a \in Finished : mem[a].key = KeyIs(ShareSet(a))
            /\ \A a, o \in Finished : a # o => PubShareOK(a, o)
            /\ \A a \in Finished : ~mem[a].nilshare

\* every honest member's contribution is part of the key of every honest member
HonestInQual ==
    Done => \A a \in Finished : Honest \subseteq ShareSet(a)
=============================================================================
