SPECIFICATION GSpec
CONSTANTS
  N = 3
  T = 1
  K = 1
  CorruptSets <- Corrupt3
  Kinds <- AllKinds
  Fixes <- NoFixes
  FullOrder = FALSE
  Plans <- NoPlan
INVARIANTS Emit
