SPECIFICATION TSpec
CONSTANTS
  N = 3
  T = 1
  CorruptSets <- UpToT
  Classes <- All1asc
  FixSets <- OnlyFixed
  Plans <- NoPlan
CONSTRAINT Hwm
INVARIANTS TNoHonestPunished TNoAbort TAgreement TShareConsistency TViewsAgree HonestInQual
POSTCONDITION Accepted
