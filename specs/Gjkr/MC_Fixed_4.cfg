SPECIFICATION Spec
CONSTANTS
  N = 4
  T = 1
  CorruptSets <- Corrupt4
  Classes <- All2full
  FixSets <- OnlyFixed
  Plans <- NoPlan
INVARIANTS TypeOK Agreement NoHonestPunished NoAbort ViewsAgree ShareConsistency HonestInQual
