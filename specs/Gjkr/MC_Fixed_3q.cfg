SPECIFICATION Spec
CONSTANTS
  N = 3
  T = 1
  CorruptSets <- Corrupt3
  Classes <- All2full
  FixSets <- OnlyFixed
  Plans <- NoPlan
INVARIANTS TypeOK Agreement NoHonestPunished NoAbort ViewsAgree ShareConsistency HonestInQual
