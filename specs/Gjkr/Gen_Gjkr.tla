------------------------------ MODULE Gen_Gjkr ------------------------------
(* Behaviour generation for the GJKR specification.  A history variable    *)
(* records every step (who acted, what the adversary sent, the delivery    *)
(* order, the projected view of the acting member after the step); a       *)
(* complete run is written as one JSON document.                           *)
EXTENDS MC_Gjkr, Json, CSV, IOUtils

VARIABLE hist
gvars == <<vars, hist>>

MsgJ(x) ==
    [from |-> x.from, claim |-> x.claim, k |-> x.k, sess |-> x.sess,
     p |-> IF x.k = "pts" THEN [cnt |-> x.p.cnt, okFor |-> x.p.okFor, all |-> x.p.okFor = Members]
           ELSE x.p]

\* projection of a member view that the harness can observe on the real object
View(m) ==
    [st |-> m.st, ia |-> m.ia, dq |-> m.dq, eph |-> m.eph, shm |-> DOMAIN m.shm,
     com |-> m.com, qual |-> m.qual, vpts |-> m.vpts, exp |-> m.exp,
     rec |-> {[m |-> x, prov |-> m.rec[x]] : x \in DOMAIN m.rec},
     rcv |-> [i \in DOMAIN m.rcv |-> [claim |-> m.rcv[i].claim, k |-> m.rcv[i].k]],
     shq |-> m.shq,
     key |-> {[term |-> x, cnt |-> m.key[x]] : x \in DOMAIN m.key}]

StepRec ==
    LET who == pos[2]
        nm == StageName
    IN IF IsAdvStage(pos[1])
       THEN [a |-> nm, m |-> who, dead |-> Dead(who), base |-> (IF nm = "A10" THEN RevBase ELSE {}), msgs |-> [i \in DOMAIN out'[who] |-> MsgJ(out'[who][i])]]
       ELSE [a |-> nm, m |-> who, view |-> View(mem'[who]), ord |-> dord',
             msgs |-> [i \in DOMAIN out'[who] |-> MsgJ(out'[who][i])]]

GInit == Init /\ hist = <<>>
GNext == Next /\ hist' = Append(hist, StepRec)
GSpec == GInit /\ [][GNext]_gvars

Verdicts ==
    [agreement |-> Agreement, noHonestPunished |-> NoHonestPunished, noAbort |-> NoAbort,
     shareConsistency |-> ShareConsistency, honestInQual |-> HonestInQual]

Emit ==
    Done => CSVWrite("%1$s", <<ToJson([n |-> N, t |-> T, corrupt |-> corrupt, k |-> K - budget, class |-> cls.name,
                                        fixed |-> fixes # {},
                                        steps |-> hist, spec |-> Verdicts])>>,
                     "behaviours.ndjson")
=============================================================================
