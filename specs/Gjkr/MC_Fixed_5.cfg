SPECIFICATION Spec
CONSTANTS
  N = 5
  T = 2
  CorruptSets <- Corrupt5
  Classes <- All2corrupt
  FixSets <- OnlyFixed
  Plans <- NoPlan
INVARIANTS TypeOK Agreement NoHonestPunished NoAbort ViewsAgree ShareConsistency HonestInQual
