------------------------------- MODULE MC_Gjkr -------------------------------
EXTENDS Gjkr

AllKinds == {"eph.silent", "eph.missing", "eph.selfkey",
             "sh.bad", "sh.undec", "sh.absent", "sh.none", "cm.none", "cm.wrong",
             "acc.member", "acc.self", "acc.badid", "acc.wrongkey", "acc.silent",
             "pts.wrong", "pts.partial", "pts.silent",
             "rev.member", "rev.self", "rev.badid", "rev.wrongkey", "rev.silent",
             "dup", "spoof", "session"}
AllFixes == {"F1", "F2", "F3", "F4", "F5", "F6", "F7"}
NoFixes == {}
OnlyFixed == {AllFixes}
OnlyAsIs == {NoFixes}
Both == {NoFixes, AllFixes}
Without(f) == {AllFixes \ {f}}

Class(name, kinds, k, ord) == [name |-> name, kinds |-> kinds, k |-> k, ord |-> ord]
\* exhaustive checking
All(k, ord) == {Class("all", AllKinds, k, ord)}
\* directed classes: every behaviour of a small class of deviations, one class
\* per defect found in the pinned code (and every single deviation for n = 3)
Single3 == Class("single", AllKinds, 1, "asc")
D6 == Class("dupreveal", {"dup", "rev.member"}, 2, "asc")
D3b == Class("reveal-unexpected", {"acc.silent", "rev.member"}, 2, "rev1")
D4 == Class("shares-absent", {"sh.bad", "sh.absent"}, 2, "rev1")
D5 == Class("accuser-dropped", {"sh.bad", "acc.member"}, 3, "rev1")
D7 == Class("partial-points", {"pts.partial", "acc.member"}, 2, "rev1")
Directed3 == {Single3, D6}
Directed5 == {D3b, D4, D5, D7}
C02AsIs == {D3b}

\* corrupt sets
Corrupt3 == {{3}}
Corrupt3any == {{}, {1}, {2}, {3}}
Corrupt4 == {{4}, {2}}
Corrupt5 == {{4, 5}}
Corrupt5b == {{4, 5}, {1, 3}, {5}}
NoPlan == {<<9, 9, 9, 9, 9, 9>>}
AllPlans == {p \in [1..6 -> 0..2] : p[1] + p[2] + p[3] + p[4] + p[5] + p[6] <= 5}
All2full == All(2, "full")
All3full == All(3, "full")
All2corrupt == All(2, "corrupt")
All1asc == All(1, "asc")
All4full == All(4, "full")
UpToT == {S \in SUBSET Members : Cardinality(S) <= T}
=============================================================================
