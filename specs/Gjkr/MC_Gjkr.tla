------------------------------- MODULE MC_Gjkr -------------------------------
EXTENDS Gjkr

AllKinds == {"eph.silent", "eph.missing", "eph.selfkey",
             "sh.bad", "sh.badt", "sh.undec", "sh.absent", "sh.none", "cm.none", "cm.wrong",
             "acc.member", "acc.self", "acc.badid", "acc.wrongkey", "acc.silent",
             "pts.wrong", "pts.partial", "pts.silent",
             "rev.member", "rev.self", "rev.badid", "rev.wrongkey", "rev.silent",
             "dup", "spoof", "session"}
AllFixes == {"F1", "F2", "F3", "F4", "F5", "F6", "F7"}
NoFixes == {}
OnlyFixed == {AllFixes}
OnlyAsIs == {NoFixes}
Both == {NoFixes, AllFixes}
Without(f) == {AllFixes \ {f}}

Class(name, kinds, k, ord) == [name |-> name, kinds |-> kinds, k |-> k, ord |-> ord, script |-> <<>>]
\* exhaustive checking
All(k, ord) == {Class("all", AllKinds, k, ord)}
\* directed classes: every behaviour of a small class of deviations, one class
\* per defect found in the pinned code (and every single deviation for n = 3)
Single3 == Class("single", AllKinds, 1, "asc")
D6 == Class("dupreveal", {"dup", "rev.member"}, 2, "asc")
D3b == Class("reveal-unexpected", {"acc.silent", "rev.member"}, 2, "rev1")
D4 == Class("shares-absent", {"sh.bad", "sh.absent"}, 2, "rev1")
D5 == Class("accuser-dropped", {"sh.bad", "acc.member"}, 3, "rev1")
D7 == Class("partial-points", {"pts.partial", "acc.member"}, 2, "rev1")
Directed3 == {Single3, D6}
Branch3 == {Single3}
Directed5 == {D3b, D4, D5, D7}
C02AsIs == {D3b}

\* directed counterexamples: the adversaries TLC found against the pinned design
\* (Classes without repairs), reduced to their essential deviations.  Everything
\* not scripted is the default (honest looking) message.
Scripted(name, ord, script) == [name |-> name, kinds |-> {}, k |-> 0, ord |-> ord, script |-> script]
M(c, k, p) == [from |-> c, claim |-> c, k |-> k, p |-> p, sess |-> TRUE]
Sh(c, dev) == M(c, "shares", [j \in Members |-> IF j = c THEN "absent" ELSE IF j \in DOMAIN dev THEN dev[j] ELSE "ok"])
Cm(c) == M(c, "commits", <<"ok">>)
Pts(c, S) == M(c, "pts", [cnt |-> "ok", okFor |-> S])
E(i) == [id |-> i, ok |-> TRUE]
At1(st, c, msgs) == <<st, c>> :> msgs
\* n = 3, corrupt = {3}
S3 == {
  Scripted("s-partial-points-1", "asc", At1("A7", 3, <<Pts(3, {1})>>)),
  Scripted("s-partial-points-2", "asc", At1("A7", 3, <<Pts(3, {2})>>)),
  Scripted("s-self-accusation-4", "asc", At1("A4", 3, <<M(3, "acc4", {E(3)})>>)),
  Scripted("s-self-accusation-8", "asc", At1("A8", 3, <<M(3, "acc8", {E(3)})>>)),
  Scripted("s-reveal-nonexistent", "asc", At1("A10", 3, <<M(3, "rev", {E(4)})>>)),
  Scripted("s-reveal-zero", "asc", At1("A10", 3, <<M(3, "rev", {E(0)})>>)),
  Scripted("s-reveal-self", "asc", At1("A10", 3, <<M(3, "rev", {E(3)})>>)),
  Scripted("s-second-reveal", "asc", At1("A10", 3, <<M(3, "rev", {}), M(3, "rev", {E(1)})>>)) }
\* n = 5, corrupt = {4, 5}
S5 == {
  \* 5 is silent in state 8 (inactive in 9, valid points held); 4 reveals the key for 5
  Scripted("s-unexpected-reveal-inactive", "asc", At1("A8", 5, <<>>) @@ At1("A10", 4, <<M(4, "rev", {E(5)})>>)),
  \* 5 is disqualified in state 5 (bad share to 1); 4 reveals the key for 5
  Scripted("s-unexpected-reveal-nonqual", "asc", At1("A3", 5, <<Sh(5, 1 :> "bad"), Cm(5)>>) @@ At1("A10", 4, <<M(4, "rev", {E(5)})>>)),
  \* 4 reveals the key of honest 2, 5 reveals the key of 4: order dependent
  Scripted("s-reveal-order", "rev1", At1("A10", 4, <<M(4, "rev", {E(2)})>>) @@ At1("A10", 5, <<M(5, "rev", {E(4)})>>)),
  \* 4 and 5 omit the share for each other: who is disqualified depends on the order
  Scripted("s-shares-absent-order", "rev1", At1("A3", 4, <<Sh(4, 5 :> "absent"), Cm(4)>>) @@ At1("A3", 5, <<Sh(5, 4 :> "absent"), Cm(5)>>)),
  \* 4 cheats 1 only, 5 omits the share for 4: 1 judges 5 differently
  Scripted("s-shares-absent-view", "asc", At1("A3", 4, <<Sh(4, 1 :> "bad"), Cm(4)>>) @@ At1("A3", 5, <<Sh(5, 4 :> "absent"), Cm(5)>>)),
  \* 4 cheats 1 (1 disqualifies 4 in state 4), 5 cheats 4, 4 rightly accuses 5: 1 drops the accusation
  Scripted("s-accuser-dropped-4", "asc", At1("A3", 4, <<Sh(4, 1 :> "bad"), Cm(4)>>) @@ At1("A3", 5, <<Sh(5, 4 :> "bad"), Cm(5)>>)
                                          @@ At1("A4", 4, <<M(4, "acc4", {E(5)})>>)),
  \* the same in state 8: points of 4 invalid for 1 only, 5 gave 4 a bad share, 4 accuses 5 in state 8
  Scripted("s-accuser-dropped-8", "asc", At1("A3", 5, <<Sh(5, 4 :> "bad"), Cm(5)>>) @@ At1("A7", 4, <<Pts(4, {2, 3})>>)
                                          @@ At1("A8", 4, <<M(4, "acc8", {E(5)})>>)),
  \* points of 5 valid for 1 and 4 only; 4 accuses 5 (falsely: its share fits)
  Scripted("s-partial-points-false-accuser", "asc", At1("A7", 5, <<Pts(5, {1, 4})>>) @@ At1("A8", 4, <<M(4, "acc8", {E(5)})>>)),
  Scripted("s-partial-points-5", "asc", At1("A7", 5, <<Pts(5, {1, 2})>>)) }


\* corrupt sets
Corrupt3 == {{3}}
Corrupt3any == {{}, {1}, {2}, {3}}
Corrupt4 == {{4}, {2}}
Corrupt5 == {{4, 5}}
Corrupt5b == {{4, 5}, {1, 3}, {5}}
NoPlan == {<<9, 9, 9, 9, 9, 9>>}
AllPlans == {p \in [1..6 -> 0..2] : p[1] + p[2] + p[3] + p[4] + p[5] + p[6] <= 5}
All2full == All(2, "full")
All3full == All(3, "full")
All2corrupt == All(2, "corrupt")
All1asc == All(1, "asc")
All4full == All(4, "full")
UpToT == {S \in SUBSET Members : Cardinality(S) <= T}

\* Branch coverage scripts (n = 5, corrupt = {4, 5}): one scenario per decision
\* branch of the accusation resolution (states 5 and 9) and of the reveal
\* validation / share recovery (state 11).  4 is the accuser / revealer, 5 the
\* accused / revealed member.
EW(i) == [id |-> i, ok |-> FALSE]
Acc4(S) == At1("A4", 4, <<M(4, "acc4", S)>>)
Acc8(S) == At1("A8", 4, <<M(4, "acc8", S)>>)
Rev4(S) == At1("A10", 4, <<M(4, "rev", S)>>)
Sh5(dev) == At1("A3", 5, <<Sh(5, dev), Cm(5)>>)
B5 == {
  \* ---- state 5
  Scripted("b5-accused-silent-in-1", "asc", At1("A1", 5, <<>>) @@ Acc4({E(5)})),
  Scripted("b5-accused-eph-missing", "asc", At1("A1", 5, <<M(5, "eph", "missing")>>) @@ Acc4({E(5)})),
  Scripted("b5-accused-no-shares", "asc", At1("A3", 5, <<Cm(5)>>) @@ Acc4({E(5)})),
  Scripted("b5-accused-no-commits", "asc", At1("A3", 5, <<Sh(5, <<>>)>>) @@ Acc4({E(5)})),
  Scripted("b5-accused-wrong-commits", "asc", At1("A3", 5, <<Sh(5, <<>>), M(5, "commits", <<"wrong">>)>>) @@ Acc4({E(5)})),
  Scripted("b5-share-undec", "asc", Sh5(4 :> "undec") @@ Acc4({E(5)})),
  Scripted("b5-share-bad", "asc", Sh5(4 :> "bad") @@ Acc4({E(5)})),
  Scripted("b5-share-absent", "asc", Sh5(4 :> "absent") @@ Acc4({E(5)})),
  Scripted("b5-false-accusation", "asc", Acc4({E(5)})),
  Scripted("b5-wrong-key", "asc", Sh5(4 :> "bad") @@ Acc4({EW(5)})),
  Scripted("b5-accuses-honest", "asc", Acc4({E(1)})),
  Scripted("b5-accuses-zero", "asc", Acc4({E(0)})),
  Scripted("b5-accuses-nonexistent", "asc", Acc4({E(6)})),
  Scripted("b5-accuses-many", "asc", Sh5(4 :> "bad") @@ Acc4({E(5), E(2), EW(3)})),
  Scripted("b5-silent-in-4", "asc", At1("A4", 4, <<>>)),
  Scripted("b5-second-accusation", "asc", At1("A4", 4, <<M(4, "acc4", {}), M(4, "acc4", {E(1)})>>)),
  \* ---- state 9
  Scripted("b9-false-accusation", "asc", Acc8({E(5)})),
  Scripted("b9-share-bad-unreported", "asc", Sh5(4 :> "bad") @@ Acc8({E(5)})),
  Scripted("b9-share-undec-unreported", "asc", Sh5(4 :> "undec") @@ Acc8({E(5)})),
  Scripted("b9-share-badt-unreported", "asc", Sh5(4 :> "badt") @@ Acc8({E(5)})),
  Scripted("b5-share-badt", "asc", Sh5(4 :> "badt") @@ Acc4({E(5)})),
  Scripted("b5-share-badt-to-honest", "asc", Sh5(1 :> "badt")),
  Scripted("b11-share-badt-unreported", "asc", Sh5(4 :> "badt") @@ At1("A4", 5, <<>>) @@ Rev4({E(5)})),
  Scripted("b9-accused-silent-in-7", "asc", At1("A7", 5, <<>>) @@ Acc8({E(5)})),
  Scripted("b9-accused-wrong-points", "asc", At1("A7", 5, <<M(5, "pts", [cnt |-> "wrong", okFor |-> Members])>>) @@ Acc8({E(5)})),
  Scripted("b9-points-invalid-for-accuser", "asc", At1("A7", 5, <<Pts(5, {})>>) @@ Acc8({E(5)})),
  Scripted("b9-wrong-key", "asc", At1("A7", 5, <<Pts(5, {})>>) @@ Acc8({EW(5)})),
  Scripted("b9-accuses-honest", "asc", Acc8({E(2)})),
  Scripted("b9-accuses-nonexistent", "asc", Acc8({E(6), E(0)})),
  Scripted("b9-accused-inactive-since-5", "asc", At1("A4", 5, <<>>) @@ Acc8({E(5)})),
  Scripted("b9-silent-in-8", "asc", At1("A8", 4, <<>>)),
  \* ---- states 10 / 11 (5 is silent in state 4: inactive QUAL member, to be reconstructed)
  Scripted("b11-honest-reveal", "asc", At1("A4", 5, <<>>) @@ Rev4({E(5)})),
  Scripted("b11-missing-reveal", "asc", At1("A4", 5, <<>>) @@ Rev4({})),
  Scripted("b11-wrong-key", "asc", At1("A4", 5, <<>>) @@ Rev4({EW(5)})),
  Scripted("b11-silent-in-10", "asc", At1("A4", 5, <<>>) @@ At1("A10", 4, <<>>)),
  Scripted("b11-share-bad-unreported", "asc", Sh5(4 :> "bad") @@ At1("A4", 5, <<>>) @@ Rev4({E(5)})),
  Scripted("b11-share-undec-unreported", "asc", Sh5(4 :> "undec") @@ At1("A4", 5, <<>>) @@ Rev4({E(5)})),
  Scripted("b11-reveals-honest", "asc", At1("A4", 5, <<>>) @@ Rev4({E(5), E(1)})),
  Scripted("b11-reveals-nonqual", "asc", At1("A1", 5, <<>>) @@ Rev4({E(5)})),
  Scripted("b11-reveals-disqualified-in-5", "asc", Sh5(1 :> "bad") @@ Rev4({E(5)})),
  Scripted("b11-disqualified-in-9-reconstructed", "asc", At1("A7", 5, <<Pts(5, {1})>>) @@ Rev4({E(5)})),
  Scripted("b11-silent-in-7-reconstructed", "asc", At1("A7", 5, <<>>) @@ Rev4({E(5)})),
  Scripted("b11-both-silent-in-7", "asc", At1("A7", 5, <<>>) @@ At1("A7", 4, <<>>)),
  Scripted("b11-second-reveal", "rev1", At1("A4", 5, <<>>) @@ At1("A10", 4, <<M(4, "rev", {E(5)}), M(4, "rev", {})>>)) }
=============================================================================
