------------------------------- MODULE MC_Gjkr -------------------------------
EXTENDS Gjkr

AllKinds == {"eph.silent", "eph.missing", "eph.selfkey",
             "sh.bad", "sh.undec", "sh.absent", "sh.none", "cm.none", "cm.wrong",
             "acc.member", "acc.self", "acc.badid", "acc.wrongkey", "acc.silent",
             "pts.wrong", "pts.partial", "pts.silent",
             "rev.member", "rev.self", "rev.badid", "rev.wrongkey", "rev.silent",
             "dup", "spoof", "session"}
AllFixes == {"F1", "F2", "F3", "F4", "F5", "F6", "F7"}
NoFixes == {}
NoF1 == AllFixes \ {"F1"}
NoF2 == AllFixes \ {"F2"}
NoF3 == AllFixes \ {"F3"}
NoF4 == AllFixes \ {"F4"}
NoF5 == AllFixes \ {"F5"}
NoF6 == AllFixes \ {"F6"}
NoF7 == AllFixes \ {"F7"}

\* directed deviation classes (one per defect found in the pinned code)
KD1 == {"pts.partial"}
KD2 == {"acc.self"}
KD3a == {"rev.badid", "rev.self"}
KD3b == {"acc.silent", "rev.member"}
KD4 == {"sh.bad", "sh.absent"}
KD5 == {"sh.bad", "acc.member"}
KD6 == {"dup", "rev.member"}
KD7 == {"pts.partial", "acc.member"}

\* corrupt sets
Corrupt3 == {{3}}
Corrupt3any == {{}, {1}, {2}, {3}}
Corrupt4 == {{4}, {2}}
Corrupt5 == {{4, 5}}
Corrupt5b == {{4, 5}, {1, 3}, {5}}
NoPlan == {<<K, K, K, K, K, K>>}
AllPlans == {p \in [1..6 -> 0..K] : p[1] + p[2] + p[3] + p[4] + p[5] + p[6] <= K + 2}
UpToT == {S \in SUBSET Members : Cardinality(S) <= T}
=============================================================================
