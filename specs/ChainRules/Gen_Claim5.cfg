SPECIFICATION GSpec
CONSTANTS
  GroupLists <- Groups5
  GroupThreshold = 3
  ClientHonest = 3
  Envs <- AllEnvs
  AdvKinds <- AllAdv
  MaxAdversarial = 1
  StrictVerify = TRUE
INVARIANTS Emit TypeOK ClaimAccepted HashMatches RightOperatorsPunished GateImpliesThreshold HonestAccepted
