----------------------------- MODULE ChainRules -----------------------------
(***************************************************************************)
(* C40 -- a tECDSA key generation result the client is about to submit     *)
(* satisfies the rules of the WalletRegistry contracts.                    *)
(*                                                                         *)
(* The module has two halves.                                              *)
(*                                                                         *)
(* CONTRACT HALF: a transcription BY HAND of the Solidity rules (no EVM /  *)
(* solc exists in the sandbox; the transcription is part of the trusted    *)
(* base; the engine checks that every quoted line is still present in the  *)
(* .sol files of the tree under test):                                     *)
(*   solidity/ecdsa/contracts/EcdsaDkgValidator.sol  validate,             *)
(*       validateFields, validateGroupMembers, validateSignatures,         *)
(*       validateMembersHash                                               *)
(*   solidity/ecdsa/contracts/libraries/EcdsaDkg.sol  submitResult (the    *)
(*       submitter rule)                                                   *)
(*   solidity/ecdsa/contracts/libraries/Wallets.sol   addWallet            *)
(*   @openzeppelin ECDSA.recover / toEthSignedMessageHash (4.7 / 4.8)      *)
(*                                                                         *)
(* CLIENT HALF: the path of a result through the Go client, one action per *)
(* decision:                                                               *)
(*   SignResult    pkg/tbtc/dkg_submit.go dkgResultSigner.SignResult ->    *)
(*                 pkg/chain/ethereum/tbtc.go                               *)
(*                 CalculateDKGResultSignatureHash + signer.Sign            *)
(*   Collect       pkg/tecdsa/dkg/protocol.go verifyDKGResultSignatures -> *)
(*                 dkg_submit.go dkgResultSigner.VerifySignature            *)
(*   GateReject /  dkg_submit.go dkgResultSubmitter.SubmitResult:           *)
(*   GatePass        len(signatures) < GroupQuorum                          *)
(*   NotAwaiting   SubmitResult: GetDKGState() != AwaitingResult            *)
(*   Assemble /    tbtc.go AssembleDKGResult (convertPubKeyToChainFormat,   *)
(*   AssembleFails   convertSignaturesToChainFormat, computeOperatorsIDsHash)*)
(*   Precheck      SubmitResult: IsDKGResultValid = validate() on chain     *)
(*   Superseded    SubmitResult: context done while waiting for the block   *)
(*   Submit        SubmitDKGResult -> EcdsaDkg.submitResult                 *)
(*   Approve       WalletRegistry.approveDkgResult -> Wallets.addWallet     *)
(*   RegisterSigner pkg/tbtc/dkg.go finalSigningGroup + tbtc.go             *)
(*                 calculateWalletID (the client's view of the new wallet)  *)
(*                                                                         *)
(* Hashes are abstract terms: keccak256(abi.encode(a, b, ..)) is the record*)
(* [fn |-> "keccak256(abi.encode)", args |-> <<typed values>>], so two     *)
(* hashes are equal iff they are built from the same typed values (keccak  *)
(* and the ABI encoding are injective for the model).  The conformance     *)
(* harness maps such a term to bytes with an encoder written independently *)
(* from the Solidity ABI specification.                                    *)
(*                                                                         *)
(* Signatures are abstract too: who signed, over which digest, whether S   *)
(* is in the lower half, whether V is the right recovery id, and the       *)
(* length in bytes.  StrictVerify selects the acceptance predicate of      *)
(* VerifySignature: TRUE = accept exactly what the contract's              *)
(* ECDSA.recover maps to the signer (the contract the property needs),     *)
(* FALSE = the hazard grain (R||S checked, V and a missing V ignored).     *)
(***************************************************************************)
EXTENDS Integers, Sequences, FiniteSets

CONSTANTS
    GroupSize,        \* EcdsaDkgValidator.groupSize  = client GroupParameters.GroupSize
    ActiveThreshold,  \* EcdsaDkgValidator.activeThreshold
    GroupThreshold,   \* EcdsaDkgValidator.groupThreshold
    ClientQuorum,     \* client GroupParameters.GroupQuorum (the gate of SubmitResult)
    MemberLists,      \* outputs of the group selection: seat -> operator ID (IDs > 0, may repeat)
    Envs,             \* records [key, chainID, startBlock] of abstract value names
    AdvKinds,         \* adversarial signature messages a supporter may broadcast
    MaxAdversarial,   \* at most this many adversarial messages per run
    StrictVerify      \* acceptance predicate of VerifySignature (see above)

ASSUME /\ GroupSize \in Nat /\ ActiveThreshold \in 1..GroupSize /\ GroupThreshold \in 1..GroupSize
       /\ ClientQuorum \in 1..GroupSize
       /\ \A m \in MemberLists : DOMAIN m = 1..GroupSize /\ \A i \in DOMAIN m : m[i] \in Nat \ {0}
       /\ AdvKinds \subseteq {"mislabelled", "otherOperator", "highS", "len66", "empty", "vFlip", "vRaw", "len64"}
       /\ MaxAdversarial \in Nat /\ StrictVerify \in BOOLEAN

VARIABLES
    members,     \* the selected group (same on chain and in the client's GroupSelectionResult)
    misbehaved,  \* seats marked inactive or disqualified by the DKG (dkg.Result.MisbehavedMembersIndexes)
    env,         \* [key, chainID, startBlock]
    submitter,   \* the seat whose member runs the submission
    offers,      \* signature messages of the other operating seats: seat -> kind
    pc,          \* where the submitting member is
    own,         \* its own signature
    accepted,    \* the `signatures` map handed to SubmitResult: seat -> signature
    outcome,     \* why the member stopped
    result,      \* the assembled DKGChainResult
    verdict,     \* validate() of the contract on it
    registry,    \* the wallet as registered by Wallets.addWallet
    client       \* the client's view of the new wallet (ID, signing group IDs)

vars == <<members, misbehaved, env, submitter, offers, pc, own, accepted, outcome, result, verdict, registry, client>>
inputs == <<members, misbehaved, env, submitter, offers>>

Seats == 1..GroupSize
Operating == Seats \ misbehaved
None == [none |-> TRUE]

Min(S) == CHOOSE x \in S : \A y \in S : x <= y
RECURSIVE Sorted(_)
Sorted(S) == IF S = {} THEN <<>> ELSE <<Min(S)>> \o Sorted(S \ {Min(S)})
IsAscending(s) == \A i \in 2..Len(s) : s[i - 1] < s[i]

---------------------------------------------------------------------------
(* Abstract ABI values and hashes *)
U256(x)    == [t |-> "uint256",   v |-> x]
BytesV(x)  == [t |-> "bytes",     v |-> x]
U8Arr(s)   == [t |-> "uint8[]",   v |-> s]
U32Arr(s)  == [t |-> "uint32[]",  v |-> s]
KeccakAbi(args) == [fn |-> "keccak256(abi.encode)", args |-> args]
KeccakRaw(b)    == [fn |-> "keccak256", args |-> <<b>>]
\* ECDSA.toEthSignedMessageHash:
\*   keccak256(abi.encodePacked("\x19Ethereum Signed Message:\n32", hash))
EthSigned(h)    == [fn |-> "toEthSignedMessageHash", args |-> <<h>>]

\* a secp256k1 public key as the 64 bytes X (32, left padded) || Y (32, left padded)
KeyBytes(k) == [key |-> k, len |-> 64]

---------------------------------------------------------------------------
(* CONTRACT HALF *)

PublicKeyByteSize == 64     \* uint256 public constant publicKeyByteSize = 64;
SignatureByteSize == 65     \* uint256 public constant signatureByteSize = 65;

SignaturesLength(r) ==      \* result.signatures.length
    LET RECURSIVE Sum(_)
        Sum(i) == IF i = 0 THEN 0 ELSE r.signatures[i].len + Sum(i - 1)
    IN Sum(Len(r.signatures))

\* ECDSA.recover(hash, signature) (OpenZeppelin tryRecover + _throwError):
\*   signature.length == 65 else InvalidSignatureLength
\*   uint256(s) > 0x7FFF...20A0 -> InvalidSignatureS
\*   v != 27 && v != 28 -> InvalidSignatureV (4.7) / ecrecover returns 0 -> InvalidSignature (4.8)
\*   signer = ecrecover(hash, v, r, s)
\* -1 = revert, 0 = some address that is nobody's in the group, otherwise the operator.
Recover(d, sig) ==
    IF sig.len # 65 \/ sig.s = "high" \/ sig.v = "raw" THEN -1
    ELSE IF sig.v = "flipped" \/ sig.digest # d THEN 0
    ELSE sig.signer

(* function validateFields(EcdsaDkg.Result calldata result) *)
ValidateFields(r) ==
    LET mis == r.misbehavedMembersIndices
        sidx == r.signingMembersIndices
        slen == SignaturesLength(r)
        \* uint256 signaturesCount = result.signatures.length / signatureByteSize;
        count == slen \div SignatureByteSize
    IN
    \* if (result.groupPubKey.length != publicKeyByteSize)
    IF r.groupPubKey.len # PublicKeyByteSize THEN <<FALSE, "Malformed group public key">>
    \* if (groupSize - misbehavedMembersIndices.length < activeThreshold)
    ELSE IF Len(mis) > GroupSize THEN <<FALSE, "revert">>
    ELSE IF GroupSize - Len(mis) < ActiveThreshold THEN <<FALSE, "Too many members misbehaving during DKG">>
    \* if (misbehavedMembersIndices.length > 1) {
    \*   if (misbehavedMembersIndices[0] < 1 || misbehavedMembersIndices[misbehavedMembersIndices.length - 1] > groupSize)
    ELSE IF Len(mis) > 1 /\ (mis[1] < 1 \/ mis[Len(mis)] > GroupSize) THEN <<FALSE, "Corrupted misbehaved members indices">>
    \*   for (uint256 i = 1; i < misbehavedMembersIndices.length; i++)
    \*     if (misbehavedMembersIndices[i - 1] >= misbehavedMembersIndices[i])
    ELSE IF Len(mis) > 1 /\ ~IsAscending(mis) THEN <<FALSE, "Corrupted misbehaved members indices">>
    \* if (result.signatures.length == 0)
    ELSE IF slen = 0 THEN <<FALSE, "No signatures provided">>
    \* if (result.signatures.length % signatureByteSize != 0)
    ELSE IF slen % SignatureByteSize # 0 THEN <<FALSE, "Malformed signatures array">>
    \* if (signaturesCount != signingMembersIndices.length)
    ELSE IF count # Len(sidx) THEN <<FALSE, "Unexpected signatures count">>
    \* if (signaturesCount < groupThreshold)
    ELSE IF count < GroupThreshold THEN <<FALSE, "Too few signatures">>
    \* if (signaturesCount > groupSize)
    ELSE IF count > GroupSize THEN <<FALSE, "Too many signatures">>
    \* if (signingMembersIndices[0] < 1 || signingMembersIndices[signingMembersIndices.length - 1] > groupSize)
    ELSE IF sidx[1] < 1 \/ sidx[Len(sidx)] > GroupSize THEN <<FALSE, "Corrupted signing member indices">>
    \* for (uint256 i = 1; i < signingMembersIndices.length; i++)
    \*   if (signingMembersIndices[i - 1] >= signingMembersIndices[i])
    ELSE IF ~IsAscending(sidx) THEN <<FALSE, "Corrupted signing member indices">>
    ELSE <<TRUE, "">>

(* function validateSignatures(EcdsaDkg.Result calldata result, uint256 startBlock)
     bytes32 hash = keccak256(abi.encode(block.chainid, result.groupPubKey,
                       result.misbehavedMembersIndices, startBlock)).toEthSignedMessageHash(); *)
ContractDigest(r, chainid, startBlock) ==
    EthSigned(KeccakAbi(<<U256(chainid), BytesV(r.groupPubKey), U8Arr(r.misbehavedMembersIndices), U256(startBlock)>>))

\* "ok" / "mismatch" / "revert".  Only evaluated after validateFields succeeded,
\* so the signatures array is a whole number of 65-byte slices; a slice is
\* the i-th signature exactly when every signature has 65 bytes.
ValidateSignatures(r, chainid, startBlock) ==
    LET hash == ContractDigest(r, chainid, startBlock)
        sidx == r.signingMembersIndices
        count == SignaturesLength(r) \div SignatureByteSize
        aligned == \A i \in 1..Len(r.signatures) : r.signatures[i].len = 65
        \* signingMemberIds[i] = result.members[signingMembersIndices[i] - 1];
        \* address[] memory signingMemberAddresses = sortitionPool.getIDOperators(signingMemberIds);
        \* (an operator ID stands for its address: the pool maps them one to one)
        outOfRange == \E i \in 1..Len(sidx) : sidx[i] - 1 < 0 \/ sidx[i] - 1 >= Len(r.members)
        \* address recoveredAddress = hash.recover(current);
        rec(i) == IF aligned THEN Recover(hash, r.signatures[i]) ELSE 0
    IN IF outOfRange THEN "revert"
       ELSE IF \E i \in 1..count : rec(i) = -1 THEN "revert"
       \* if (signingMemberAddresses[i] != recoveredAddress) return false;
       ELSE IF \A i \in 1..count : rec(i) = r.members[sidx[i]] THEN "ok" ELSE "mismatch"

(* function validateGroupMembers(EcdsaDkg.Result calldata result, uint256 seed)
     uint32[] memory actualGroupMembers = sortitionPool.selectGroup(groupSize, bytes32(seed)); *)
ValidateGroupMembers(r, actualGroupMembers) ==
    /\ Len(r.members) = Len(actualGroupMembers)
    /\ \A i \in 1..Len(r.members) : r.members[i] = actualGroupMembers[i]

(* function validateMembersHash(EcdsaDkg.Result calldata result): the loop,
   statement by statement; i, k, j are the 0-based Solidity counters.
     for (uint256 i = 0; i < result.members.length; i++) {
         if (i != result.misbehavedMembersIndices[k] - 1) {
             groupMembers[j] = result.members[i];
             j++;
         } else if (k < result.misbehavedMembersIndices.length - 1) {
             k++;
         }
     }                                                                       *)
RECURSIVE MembersLoop(_, _, _, _, _)
MembersLoop(r, i, k, j, groupMembers) ==
    LET mis == r.misbehavedMembersIndices IN
    IF i = Len(r.members) THEN [revert |-> FALSE, gm |-> groupMembers]
    ELSE IF mis[k + 1] - 1 < 0 THEN [revert |-> TRUE, gm |-> <<>>]                  \* checked arithmetic
    ELSE IF i # mis[k + 1] - 1
         THEN IF j >= Len(groupMembers) THEN [revert |-> TRUE, gm |-> <<>>]         \* array index out of bounds
              ELSE MembersLoop(r, i + 1, k, j + 1, [groupMembers EXCEPT ![j + 1] = r.members[i + 1]])
         ELSE IF k < Len(mis) - 1 THEN MembersLoop(r, i + 1, k + 1, j, groupMembers)
              ELSE MembersLoop(r, i + 1, k, j, groupMembers)

ContractGroupMembers(r) ==
    \* if (result.misbehavedMembersIndices.length > 0) {
    \*   uint32[] memory groupMembers = new uint32[](result.members.length - result.misbehavedMembersIndices.length);
    IF Len(r.misbehavedMembersIndices) > 0
    THEN IF Len(r.members) - Len(r.misbehavedMembersIndices) < 0 THEN [revert |-> TRUE, gm |-> <<>>]
         ELSE MembersLoop(r, 0, 0, 0, [x \in 1..(Len(r.members) - Len(r.misbehavedMembersIndices)) |-> 0])
    ELSE [revert |-> FALSE, gm |-> r.members]

ValidateMembersHash(r) ==
    LET c == ContractGroupMembers(r) IN
    IF c.revert THEN "revert"
    \* return keccak256(abi.encode(groupMembers)) == result.membersHash;
    \* return keccak256(abi.encode(result.members)) == result.membersHash;
    ELSE IF KeccakAbi(<<U32Arr(c.gm)>>) = r.membersHash THEN "ok" ELSE "mismatch"

(* function validate(EcdsaDkg.Result calldata result, uint256 seed, uint256 startBlock) *)
Validate(r, chainid, actualGroupMembers, startBlock) ==
    LET f == ValidateFields(r) IN
    IF ~f[1] THEN f
    ELSE LET s == ValidateSignatures(r, chainid, startBlock) IN
    IF s = "revert" THEN <<FALSE, "revert">>
    ELSE IF s # "ok" THEN <<FALSE, "Invalid signatures">>
    ELSE IF ~ValidateGroupMembers(r, actualGroupMembers) THEN <<FALSE, "Invalid group members">>
    ELSE LET h == ValidateMembersHash(r) IN
    IF h = "revert" THEN <<FALSE, "revert">>
    ELSE IF h # "ok" THEN <<FALSE, "Invalid members hash">>
    ELSE <<TRUE, "">>

(* EcdsaDkg.submitResult:
     require(sortitionPool.getIDOperator(result.members[result.submitterMemberIndex - 1]) == msg.sender,
             "Unexpected submitter index");                                 *)
SubmitterRule(r, sender) ==
    /\ r.submitterMemberIndex - 1 >= 0 /\ r.submitterMemberIndex - 1 < Len(r.members)
    /\ r.members[r.submitterMemberIndex] = sender

(* Wallets.addWallet(membersIdsHash, publicKey):
     walletID = keccak256(publicKey);
     self.registry[walletID].membersIdsHash = membersIdsHash;              *)
AddWallet(membersIdsHash, publicKey) ==
    [walletID |-> KeccakRaw(BytesV(publicKey)), membersIdsHash |-> membersIdsHash, publicKey |-> publicKey]

---------------------------------------------------------------------------
(* CLIENT HALF *)

\* tbtc.go CalculateDKGResultSignatureHash: elliptic.Marshal(key)[1:], the
\* misbehaved indexes sorted, tc.chainID, big.NewInt(int64(startBlock)).
ClientResultHash(e, mis) ==
    KeccakAbi(<<U256(e.chainID), BytesV(KeyBytes(e.key)), U8Arr(Sorted(mis)), U256(e.startBlock)>>)

\* every honest member signs the hash of its own result; members whose result
\* differs sign another hash and their messages are dropped by the
\* preferred-hash comparison of verifyDKGResultSignatures (an assumption of
\* this module: every offer claims the submitter's preferred hash)
PreferredHash == ClientResultHash(env, misbehaved)
OtherHash == ClientResultHash([env EXCEPT !.startBlock = "anotherBlock"], misbehaved)

\* what the seat broadcasts.  signer 0 = a key that belongs to nobody in the group.
Signature(seat, kind) ==
    [ seat   |-> seat,
      kind   |-> kind,
      signer |-> IF kind = "otherOperator" THEN 0 ELSE members[seat],
      \* ethutil.EthereumSigner.Sign: crypto.Sign(keccak256("\x19Ethereum Signed Message:\n32" || hash)), V += 27
      digest |-> EthSigned(IF kind = "mislabelled" THEN OtherHash ELSE PreferredHash),
      s      |-> IF kind = "highS" THEN "high" ELSE "low",   \* (r, n - s, other V): the malleable twin
      v      |-> CASE kind = "vFlip" -> "flipped" [] kind = "vRaw" -> "raw" [] OTHER -> "ok",
      len    |-> CASE kind = "len64" -> 64 [] kind = "len66" -> 66 [] kind = "empty" -> 0 [] OTHER -> 65 ]

\* dkg_submit.go VerifySignature = Signing().VerifyWithPublicKey(hash, signature, publicKey) with
\* the public key of the operator holding the seat (bound to the sender by the network layer)
ClientVerify(sig, hash, operator) ==
    /\ sig.len \in (IF StrictVerify THEN {65} ELSE {64, 65})
    /\ sig.s = "low"                   \* go-ethereum crypto.VerifySignature rejects malleable signatures
    /\ sig.signer = operator
    /\ sig.digest = EthSigned(hash)
    /\ StrictVerify => sig.v = "ok"

Others == Operating \ {submitter}

\* the inputs other than env (the quantifier of the property)
InitInputs ==
    /\ members \in MemberLists
    /\ misbehaved \in SUBSET Seats
    /\ submitter \in Seats \ misbehaved
    \* only operating seats are heard (pkg/tecdsa/dkg states.go Receive: shouldAcceptMessage)
    /\ \E adv \in {A \in SUBSET ((Seats \ misbehaved) \ {submitter}) : Cardinality(A) <= MaxAdversarial} :
         \E h \in [((Seats \ misbehaved) \ {submitter}) \ adv -> {"none", "honest"}], a \in [adv -> AdvKinds] :
            offers = [s \in (Seats \ misbehaved) \ {submitter} |-> IF s \in adv THEN a[s] ELSE h[s]]

InitRest ==
    /\ pc = "sign" /\ own = None /\ accepted = <<>> /\ outcome = ""
    /\ result = None /\ verdict = None /\ registry = None /\ client = None

Init == InitInputs /\ env \in Envs /\ InitRest

SignResult ==
    /\ pc = "sign"
    /\ own' = Signature(submitter, "honest")
    /\ pc' = "collect"
    /\ UNCHANGED <<inputs, accepted, outcome, result, verdict, registry, client>>

Collect ==
    /\ pc = "collect"
    /\ LET ok == {s \in DOMAIN offers : /\ offers[s] # "none"
                                        /\ ClientVerify(Signature(s, offers[s]), PreferredHash, members[s])}
       IN accepted' = [s \in ok \cup {submitter} |-> IF s = submitter THEN own ELSE Signature(s, offers[s])]
    /\ pc' = "gate"
    /\ UNCHANGED <<inputs, own, outcome, result, verdict, registry, client>>

\* if len(signatures) < drs.groupParameters.GroupQuorum { return error }
GateReject ==
    /\ pc = "gate" /\ Cardinality(DOMAIN accepted) < ClientQuorum
    /\ pc' = "failed" /\ outcome' = "too few signatures"
    /\ UNCHANGED <<inputs, own, accepted, result, verdict, registry, client>>

GatePass ==
    /\ pc = "gate" /\ Cardinality(DOMAIN accepted) >= ClientQuorum
    /\ pc' = "state"
    /\ UNCHANGED <<inputs, own, accepted, outcome, result, verdict, registry, client>>

\* if dkgState != AwaitingResult { return nil }
NotAwaiting ==
    /\ pc = "state"
    /\ pc' = "aborted" /\ outcome' = "not awaiting the result"
    /\ UNCHANGED <<inputs, own, accepted, result, verdict, registry, client>>

\* convertSignaturesToChainFormat: if len(signature) != signatureSize { return error }
AssembleFails ==
    /\ pc = "state" /\ \E s \in DOMAIN accepted : accepted[s].len # 65
    /\ pc' = "failed" /\ outcome' = "cannot assemble"
    /\ UNCHANGED <<inputs, own, accepted, result, verdict, registry, client>>

Assembled ==
    LET sidx == Sorted(DOMAIN accepted)         \* convertSignaturesToChainFormat sorts the map keys
        oidx == Sorted(Operating)               \* sort.Slice(operatingMembersIndexes)
    IN [ submitterMemberIndex     |-> submitter,
         groupPubKey              |-> KeyBytes(env.key),                       \* convertPubKeyToChainFormat
         misbehavedMembersIndices |-> Sorted(misbehaved),                      \* sort.Slice(misbehavedMembersIndexes)
         signatures               |-> [i \in 1..Len(sidx) |-> accepted[sidx[i]]],
         signingMembersIndices    |-> sidx,
         members                  |-> members,                                 \* groupSelectionResult.OperatorsIDs
         \* computeOperatorsIDsHash(OperatorsIDs[operatingMemberIndex-1] for the sorted operating indexes)
         membersHash              |-> KeccakAbi(<<U32Arr([i \in 1..Len(oidx) |-> members[oidx[i]]])>>) ]

Assemble ==
    /\ pc = "state" /\ \A s \in DOMAIN accepted : accepted[s].len = 65
    /\ result' = Assembled
    /\ pc' = "precheck"
    /\ UNCHANGED <<inputs, own, accepted, outcome, verdict, registry, client>>

\* isValid, err := drs.chain.IsDKGResultValid(dkgResult); if !isValid { return error }
Precheck ==
    /\ pc = "precheck"
    /\ verdict' = Validate(result, env.chainID, members, env.startBlock)
    /\ IF verdict'[1] THEN pc' = "submit" /\ UNCHANGED outcome
                      ELSE pc' = "failed" /\ outcome' = "invalid DKG result"
    /\ UNCHANGED <<inputs, own, accepted, result, registry, client>>

\* SubmitDKGResult by the node of the submitting seat: msg.sender is its operator
Submit ==
    /\ pc = "submit"
    /\ IF SubmitterRule(result, members[submitter])
          THEN pc' = "challenge" /\ UNCHANGED outcome
          ELSE pc' = "failed" /\ outcome' = "Unexpected submitter index"
    /\ UNCHANGED <<inputs, own, accepted, result, verdict, registry, client>>

\* the member waits for its submission block (current block + (memberIndex-1) * step); if the context is done
\* by then (somebody else's result was seen) it returns without submitting:  if ctx.Err() != nil { return nil }
Superseded ==
    /\ pc = "submit"
    /\ pc' = "aborted" /\ outcome' = "superseded while waiting"
    /\ UNCHANGED <<inputs, own, accepted, result, verdict, registry, client>>

\* approveDkgResult: wallets.addWallet(result.membersHash, result.groupPubKey)
Approve ==
    /\ pc = "challenge"
    /\ registry' = AddWallet(result.membersHash, result.groupPubKey)
    /\ pc' = "registered"
    /\ UNCHANGED <<inputs, own, accepted, outcome, result, verdict, client>>

\* dkg.go finalSigningGroup (operators of the operating seats, in seat order) and
\* tbtc.go calculateWalletID = keccak256(convertPubKeyToChainFormat(key)); the member IDs of
\* that group are what inactivity.go later passes as groupMembers.
RegisterSigner ==
    /\ pc = "registered"
    /\ LET oidx == Sorted(Operating) IN
       client' = [ walletID     |-> KeccakRaw(BytesV(KeyBytes(env.key))),
                   groupMembers |-> [i \in 1..Len(oidx) |-> members[oidx[i]]],
                   newIndex     |-> [s \in Operating |-> CHOOSE i \in 1..Len(oidx) : oidx[i] = s] ]
    /\ pc' = "done"
    /\ UNCHANGED <<inputs, own, accepted, outcome, result, verdict, registry>>

Next == SignResult \/ Collect \/ GateReject \/ GatePass \/ NotAwaiting \/ AssembleFails \/ Assemble
           \/ Precheck \/ Submit \/ Superseded \/ Approve \/ RegisterSigner
Spec == Init /\ [][Next]_vars

Terminal == pc \in {"failed", "aborted", "done"}

---------------------------------------------------------------------------
(* Invariants *)

TypeOK ==
    /\ members \in MemberLists /\ misbehaved \subseteq Seats /\ submitter \in Operating
    /\ DOMAIN offers = Others
    /\ pc \in {"sign", "collect", "gate", "state", "precheck", "submit", "challenge", "registered",
               "done", "failed", "aborted"}
    /\ DOMAIN accepted \subseteq Operating

GatePassed == pc \in {"state", "precheck", "submit", "challenge", "registered", "done", "aborted"}
             \/ (pc = "failed" /\ outcome # "too few signatures")
HasResult == pc \in {"precheck", "submit", "challenge", "registered", "done"}
             \/ (pc = "failed" /\ outcome \in {"invalid DKG result", "Unexpected submitter index"})
             \/ (pc = "aborted" /\ outcome = "superseded while waiting")
HasVerdict == HasResult /\ pc # "precheck"

\* C40: the assembled result satisfies the static checks
StaticRulesHold == HasResult => ValidateFields(result) = <<TRUE, "">>

\* C40: the members hash is the contract's: the hash of the member IDs minus the misbehaved, in order
MembersHashMatches ==
    HasResult => /\ ValidateMembersHash(result) = "ok"
                 /\ result.membersHash = KeccakAbi(<<U32Arr([i \in 1..Len(Sorted(Operating)) |-> members[Sorted(Operating)[i]]])>>)

\* C40: every signature recovers to its signer under the contract's message hash
SignaturesRecover ==
    HasResult => /\ ValidateSignatures(result, env.chainID, env.startBlock) = "ok"
                 /\ \A i \in 1..Len(result.signatures) :
                        Recover(ContractDigest(result, env.chainID, env.startBlock), result.signatures[i])
                            = members[result.signingMembersIndices[i]]

GroupMembersMatch == HasResult => ValidateGroupMembers(result, members)

\* C40 as one statement: whatever passed the client's gate is valid for the contract,
\* i.e. after the gate nothing but a chain state change stops the submission
ValidWheneverSubmitted ==
    /\ (HasVerdict => verdict = <<TRUE, "">>)
    /\ (pc = "failed" => outcome = "too few signatures")

\* the signature gate implies the contract's two thresholds
GateImpliesThresholds ==
    GatePassed => /\ Cardinality(DOMAIN accepted) >= GroupThreshold
                  /\ GroupSize - Cardinality(misbehaved) >= ActiveThreshold

NoSubmissionBelowQuorum ==
    pc \in {"challenge", "registered", "done"} => Cardinality(DOMAIN accepted) >= ClientQuorum

OwnSignatureIncluded == pc \notin {"sign", "collect"} => submitter \in DOMAIN accepted

\* the wallet the client registers is the wallet the contract registered
WalletMatches ==
    pc = "done" => /\ client.walletID = registry.walletID
                   \* WalletRegistry.notifyOperatorInactivity:
                   \*   require(wallets.getWalletMembersIdsHash(id.walletID) == keccak256(abi.encode(groupMembers)))
                   /\ KeccakAbi(<<U32Arr(client.groupMembers)>>) = registry.membersIdsHash
                   /\ \A s \in Operating : client.groupMembers[client.newIndex[s]] = members[s]

\* honest supporters are never dropped (liveness of the honest path)
HonestAccepted ==
    pc \notin {"sign", "collect"} => \A s \in DOMAIN offers : offers[s] = "honest" => s \in DOMAIN accepted
=============================================================================
