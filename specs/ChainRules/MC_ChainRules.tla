--------------------------- MODULE MC_ChainRules ---------------------------
(* Constant definitions for the exhaustive and generation configurations.  *)
EXTENDS ChainRules

\* group selections: all distinct, reversed, operators holding several seats
\* (repeated IDs, adjacent and apart), one operator holding every seat
Lists ==
    { [i \in 1..GroupSize |-> 10 + i],
      [i \in 1..GroupSize |-> 100 - i],
      [i \in 1..GroupSize |-> IF i % 2 = 1 THEN 7 ELSE 3 + i],
      [i \in 1..GroupSize |-> IF i <= 2 THEN 5 ELSE IF i = GroupSize THEN 5 ELSE 40 + i],
      [i \in 1..GroupSize |-> 9] }
ListsSmall ==
    { [i \in 1..GroupSize |-> 10 + i],
      [i \in 1..GroupSize |-> IF i % 2 = 1 THEN 7 ELSE 3 + i],
      [i \in 1..GroupSize |-> IF i <= 2 THEN 5 ELSE IF i = GroupSize THEN 5 ELSE 40 + i] }

ListsTwo ==
    { [i \in 1..GroupSize |-> 10 + i],
      [i \in 1..GroupSize |-> IF i <= 2 THEN 5 ELSE IF i = GroupSize THEN 5 ELSE 40 + i] }
OneList == { [i \in 1..GroupSize |-> 10 + i] }

\* abstract values: the harness instantiates every name with concrete values of that class
KeyNames   == {"kFull", "kShortX", "kShortY", "kShortXY"}
ChainNames == {"cMainnet", "cSepolia", "cDev", "cWide"}
BlockNames == {"bZero", "bSmall", "bLarge"}
AllEnvs == {[key |-> k, chainID |-> c, startBlock |-> b] : k \in KeyNames, c \in ChainNames, b \in BlockNames}
\* a covering subset: every name occurs
SomeEnvs == { [key |-> "kFull",    chainID |-> "cMainnet", startBlock |-> "bSmall"],
              [key |-> "kShortX",  chainID |-> "cSepolia", startBlock |-> "bLarge"],
              [key |-> "kShortY",  chainID |-> "cDev",     startBlock |-> "bZero"],
              [key |-> "kShortXY", chainID |-> "cWide",    startBlock |-> "bLarge"] }
OneEnv == { [key |-> "kFull", chainID |-> "cMainnet", startBlock |-> "bSmall"] }

AllAdv    == {"mislabelled", "otherOperator", "highS", "len66", "empty", "vFlip", "vRaw", "len64"}
HazardAdv == {"vFlip", "vRaw", "len64"}
NoAdv     == {}
=============================================================================
