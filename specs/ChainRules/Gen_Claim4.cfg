SPECIFICATION GSpec
CONSTANTS
  GroupLists <- Groups4
  GroupThreshold = 2
  ClientHonest = 2
  Envs <- AllEnvs
  AdvKinds <- AllAdv
  MaxAdversarial = 1
  StrictVerify = TRUE
INVARIANTS Emit TypeOK ClaimAccepted HashMatches RightOperatorsPunished GateImpliesThreshold HonestAccepted
