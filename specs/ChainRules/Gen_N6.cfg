SPECIFICATION GSpec
CONSTANTS
  GroupSize = 6
  ActiveThreshold = 5
  GroupThreshold = 4
  ClientQuorum = 5
  MemberLists <- ListsTwo
  Envs <- AllEnvs
  AdvKinds <- AllAdv
  MaxAdversarial = 1
  StrictVerify = TRUE
INVARIANTS Emit TypeOK StaticRulesHold MembersHashMatches SignaturesRecover GroupMembersMatch ValidWheneverSubmitted GateImpliesThresholds NoSubmissionBelowQuorum OwnSignatureIncluded WalletMatches HonestAccepted
