SPECIFICATION Spec
CONSTANTS
  GroupLists <- Groups5
  GroupThreshold = 3
  ClientHonest = 3
  Envs <- OneEnv
  AdvKinds <- AllAdv
  MaxAdversarial = 1
  StrictVerify = TRUE
INVARIANTS TypeOK ClaimAccepted HashMatches RightOperatorsPunished GateImpliesThreshold HonestAccepted
