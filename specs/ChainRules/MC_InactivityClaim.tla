------------------------- MODULE MC_InactivityClaim -------------------------
EXTENDS InactivityClaim

\* wallets whose signing group lost members during the DKG are shorter than the DKG group
Groups(n) ==
    { [i \in 1..n |-> 10 + i],
      [i \in 1..n |-> IF i % 2 = 1 THEN 7 ELSE 3 + i],
      [i \in 1..(n - 1) |-> IF i <= 2 THEN 5 ELSE 40 + i] }
OneGroup4 == { [i \in 1..4 |-> IF i = 3 THEN 11 ELSE 10 + i] }
Groups5 == Groups(5)
Groups4 == Groups(4)
Groups6 == Groups(6)

KeyNames   == {"kFull", "kShortX", "kShortY", "kShortXY"}
ChainNames == {"cMainnet", "cSepolia", "cDev", "cWide"}
NonceNames == {"nZero", "nSmall", "nLarge"}
SomeEnvs == { [key |-> "kFull",    chainID |-> "cMainnet", nonce |-> "nSmall"],
              [key |-> "kShortX",  chainID |-> "cSepolia", nonce |-> "nLarge"],
              [key |-> "kShortY",  chainID |-> "cDev",     nonce |-> "nZero"],
              [key |-> "kShortXY", chainID |-> "cWide",    nonce |-> "nLarge"] }
OneEnv == { [key |-> "kFull", chainID |-> "cMainnet", nonce |-> "nSmall"] }
AllEnvs == {[key |-> k, chainID |-> c, nonce |-> b] : k \in KeyNames, c \in ChainNames, b \in NonceNames}

AllAdv    == {"mislabelled", "otherOperator", "highS", "len66", "empty", "vFlip", "vRaw", "len64"}
HazardAdv == {"vFlip", "vRaw", "len64"}
NoAdv     == {}
=============================================================================
