SPECIFICATION GSpec
CONSTANTS
  GroupSize = 4
  ActiveThreshold = 3
  GroupThreshold = 2
  ClientQuorum = 3
  MemberLists <- Lists
  Envs <- AllEnvs
  AdvKinds <- AllAdv
  MaxAdversarial = 2
  StrictVerify = TRUE
INVARIANTS Emit TypeOK StaticRulesHold MembersHashMatches SignaturesRecover GroupMembersMatch ValidWheneverSubmitted GateImpliesThresholds NoSubmissionBelowQuorum OwnSignatureIncluded WalletMatches HonestAccepted
