SPECIFICATION GSpec
CONSTANTS
  GroupLists <- Groups5
  GroupThreshold = 3
  ClientHonest = 3
  Envs <- AllEnvs
  AdvKinds <- HazardAdv
  MaxAdversarial = 1
  StrictVerify = FALSE
INVARIANTS Emit TypeOK
