SPECIFICATION GSpec
CONSTANTS
  GroupSize = 5
  ActiveThreshold = 4
  GroupThreshold = 3
  ClientQuorum = 4
  MemberLists <- ListsSmall
  Envs <- AllEnvs
  AdvKinds <- AllAdv
  MaxAdversarial = 1
  StrictVerify = TRUE
INVARIANTS Emit TypeOK StaticRulesHold MembersHashMatches SignaturesRecover GroupMembersMatch ValidWheneverSubmitted GateImpliesThresholds NoSubmissionBelowQuorum OwnSignatureIncluded WalletMatches HonestAccepted
