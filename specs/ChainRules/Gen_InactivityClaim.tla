------------------------ MODULE Gen_InactivityClaim ------------------------
EXTENDS MC_InactivityClaim, TLC, Json, CSV, IOUtils

EnvSeq == << [key |-> "kFull",    chainID |-> "cMainnet", nonce |-> "nSmall"],
             [key |-> "kShortX",  chainID |-> "cSepolia", nonce |-> "nLarge"],
             [key |-> "kShortY",  chainID |-> "cDev",     nonce |-> "nZero"],
             [key |-> "kShortXY", chainID |-> "cWide",    nonce |-> "nLarge"],
             [key |-> "kFull",    chainID |-> "cWide",    nonce |-> "nZero"],
             [key |-> "kShortX",  chainID |-> "cDev",     nonce |-> "nSmall"],
             [key |-> "kShortY",  chainID |-> "cMainnet", nonce |-> "nLarge"] >>
GInit ==
    /\ InitInputs
    /\ env = EnvSeq[((group[1] + submitter + 2 * Cardinality(reported)
                      + 3 * Cardinality({s \in DOMAIN offers : offers[s] # "none"})) % Len(EnvSeq)) + 1]
    /\ InitRest
GSpec == GInit /\ [][Next]_vars

Pairs(f) == [i \in 1..Len(Sorted(DOMAIN f)) |-> <<Sorted(DOMAIN f)[i], f[Sorted(DOMAIN f)[i]]>>]
In == [ threshold |-> GroupThreshold, honest |-> ClientHonest, group |-> group, reported |-> Sorted(reported),
        heartbeat |-> heartbeat, env |-> env, submitter |-> submitter, offers |-> Pairs(offers) ]
Emit == Terminal =>
    CSVWrite("%1$s", <<ToJson(
        IF pc = "aborted" THEN [in |-> In, pc |-> pc, outcome |-> outcome, accepted |-> Sorted(DOMAIN accepted)]
        ELSE
        [ in |-> In, pc |-> pc, outcome |-> outcome,
          claimHash |-> ClaimHash,
          inactive |-> claim.inactiveMembersIndexes,
          accepted |-> Sorted(DOMAIN accepted),
          wallet |-> Wallet,
          chainClaim |-> IF pc \in {"done"} \/ (pc = "failed" /\ outcome \notin {"too few signatures", "cannot assemble"})
                         THEN [ walletID |-> chainClaim.walletID,
                                inactiveMembersIndices |-> chainClaim.inactiveMembersIndices,
                                heartbeatFailed |-> chainClaim.heartbeatFailed,
                                signingMembersIndices |-> chainClaim.signingMembersIndices ]
                         ELSE [none |-> TRUE],
          inactiveMembers |-> IF pc = "done" THEN notified.inactiveMembers ELSE <<>> ])>>,
        "claims.ndjson")
=============================================================================
