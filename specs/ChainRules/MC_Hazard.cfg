SPECIFICATION Spec
CONSTANTS
  GroupSize = 4
  ActiveThreshold = 3
  GroupThreshold = 2
  ClientQuorum = 3
  MemberLists <- OneList
  Envs <- OneEnv
  AdvKinds <- HazardAdv
  MaxAdversarial = 1
  StrictVerify = FALSE
INVARIANTS ValidWheneverSubmitted
