SPECIFICATION Spec
CONSTANTS
  GroupSize = 5
  ActiveThreshold = 4
  GroupThreshold = 3
  ClientQuorum = 4
  MemberLists <- ListsSmall
  Envs <- OneEnv
  AdvKinds <- HazardAdv
  MaxAdversarial = 1
  StrictVerify = FALSE
INVARIANTS ValidWheneverSubmitted
