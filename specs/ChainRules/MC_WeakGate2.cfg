SPECIFICATION Spec
CONSTANTS
  GroupSize = 5
  ActiveThreshold = 4
  GroupThreshold = 3
  ClientQuorum = 3
  MemberLists <- ListsSmall
  Envs <- OneEnv
  AdvKinds <- NoAdv
  MaxAdversarial = 0
  StrictVerify = TRUE
INVARIANTS ValidWheneverSubmitted
