SPECIFICATION Spec
CONSTANTS
  GroupLists <- Groups5
  GroupThreshold = 3
  ClientHonest = 3
  Envs <- OneEnv
  AdvKinds <- HazardAdv
  MaxAdversarial = 1
  StrictVerify = FALSE
INVARIANTS ClaimAccepted
