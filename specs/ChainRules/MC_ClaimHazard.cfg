SPECIFICATION Spec
CONSTANTS
  GroupLists <- OneGroup4
  GroupThreshold = 2
  ClientHonest = 2
  Envs <- OneEnv
  AdvKinds <- HazardAdv
  MaxAdversarial = 1
  StrictVerify = FALSE
INVARIANTS ClaimAccepted
