SPECIFICATION GSpec
CONSTANTS
  GroupLists <- Groups6
  GroupThreshold = 4
  ClientHonest = 4
  Envs <- AllEnvs
  AdvKinds <- AllAdv
  MaxAdversarial = 1
  StrictVerify = TRUE
INVARIANTS Emit TypeOK ClaimAccepted HashMatches RightOperatorsPunished GateImpliesThreshold HonestAccepted
