--------------------------- MODULE Gen_ChainRules ---------------------------
(* Case generation: every input combination of the model, run to the end of *)
(* the submission path; one JSON document per terminal state with the       *)
(* inputs and everything the specification says the client and the          *)
(* contract compute on the way.  The value classes of env (key, chain ID,   *)
(* start block) are spread over the cases instead of multiplied with them.  *)
EXTENDS MC_ChainRules, TLC, Json, CSV, IOUtils

EnvSeq == << [key |-> "kFull",    chainID |-> "cMainnet", startBlock |-> "bSmall"],
             [key |-> "kShortX",  chainID |-> "cSepolia", startBlock |-> "bLarge"],
             [key |-> "kShortY",  chainID |-> "cDev",     startBlock |-> "bZero"],
             [key |-> "kShortXY", chainID |-> "cWide",    startBlock |-> "bLarge"],
             [key |-> "kFull",    chainID |-> "cWide",    startBlock |-> "bZero"],
             [key |-> "kShortX",  chainID |-> "cDev",     startBlock |-> "bSmall"],
             [key |-> "kShortY",  chainID |-> "cMainnet", startBlock |-> "bLarge"] >>

GInit ==
    /\ InitInputs
    /\ env = EnvSeq[((members[1] + submitter + 2 * Cardinality(misbehaved)
                      + 3 * Cardinality({s \in DOMAIN offers : offers[s] # "none"})) % Len(EnvSeq)) + 1]
    /\ InitRest
GSpec == GInit /\ [][Next]_vars

Pairs(f) == [i \in 1..Len(Sorted(DOMAIN f)) |-> <<Sorted(DOMAIN f)[i], f[Sorted(DOMAIN f)[i]]>>]

In == [ n |-> GroupSize, active |-> ActiveThreshold, threshold |-> GroupThreshold, quorum |-> ClientQuorum,
        members |-> members, misbehaved |-> Sorted(misbehaved), env |-> env, submitter |-> submitter,
        offers |-> Pairs(offers) ]

\* what the contract says about a result: the fields, the hashes it recomputes and validate()
View(r) ==
    LET v == Validate(r, env.chainID, members, env.startBlock) IN
    [ submitterMemberIndex |-> r.submitterMemberIndex,
      groupPubKey |-> r.groupPubKey,
      misbehavedMembersIndices |-> r.misbehavedMembersIndices,
      signingMembersIndices |-> r.signingMembersIndices,
      members |-> r.members,
      membersHash |-> r.membersHash,
      contractDigest |-> ContractDigest(r, env.chainID, env.startBlock),
      contractGroupMembers |-> ContractGroupMembers(r).gm,
      valid |-> v[1], msg |-> v[2],
      submitterRule |-> SubmitterRule(r, members[submitter]) ]

Emit == Terminal =>
    CSVWrite("%1$s", <<ToJson(
        IF pc = "aborted" THEN [in |-> In, pc |-> pc, outcome |-> outcome, accepted |-> Sorted(DOMAIN accepted)]
        ELSE
        [ in |-> In, pc |-> pc, outcome |-> outcome,
          preferredHash |-> PreferredHash,
          accepted |-> Sorted(DOMAIN accepted),
          gate |-> GatePassed,
          result |-> IF HasResult THEN View(result) ELSE [none |-> TRUE],
          \* had the member skipped its gate: the result it would assemble and the contract's answer
          ungated |-> IF pc = "failed" /\ outcome = "too few signatures" /\ \A s \in DOMAIN accepted : accepted[s].len = 65
                      THEN View(Assembled) ELSE [none |-> TRUE],
          client |-> IF pc = "done"
                     THEN [ walletID |-> client.walletID, registryWalletID |-> registry.walletID,
                            groupMembers |-> client.groupMembers, newIndex |-> Pairs(client.newIndex) ]
                     ELSE [none |-> TRUE] ])>>,
        "cases.ndjson")
=============================================================================
