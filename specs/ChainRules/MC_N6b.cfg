SPECIFICATION Spec
CONSTANTS
  GroupSize = 6
  ActiveThreshold = 4
  GroupThreshold = 3
  ClientQuorum = 5
  MemberLists <- ListsSmall
  Envs <- OneEnv
  AdvKinds <- AllAdv
  MaxAdversarial = 2
  StrictVerify = TRUE
INVARIANTS TypeOK StaticRulesHold MembersHashMatches SignaturesRecover GroupMembersMatch ValidWheneverSubmitted GateImpliesThresholds NoSubmissionBelowQuorum OwnSignatureIncluded WalletMatches HonestAccepted
