SPECIFICATION Spec
CONSTANTS
  GroupSize = 4
  ActiveThreshold = 3
  GroupThreshold = 2
  ClientQuorum = 3
  MemberLists <- Lists
  Envs <- SomeEnvs
  AdvKinds <- AllAdv
  MaxAdversarial = 2
  StrictVerify = TRUE
INVARIANTS TypeOK StaticRulesHold MembersHashMatches SignaturesRecover GroupMembersMatch ValidWheneverSubmitted GateImpliesThresholds NoSubmissionBelowQuorum OwnSignatureIncluded WalletMatches HonestAccepted
