SPECIFICATION Spec
CONSTANTS
  GroupLists <- Groups4
  GroupThreshold = 2
  ClientHonest = 2
  Envs <- SomeEnvs
  AdvKinds <- AllAdv
  MaxAdversarial = 2
  StrictVerify = TRUE
INVARIANTS TypeOK ClaimAccepted HashMatches RightOperatorsPunished GateImpliesThreshold HonestAccepted
