SPECIFICATION Spec
CONSTANTS
  GroupSize = 4
  ActiveThreshold = 3
  GroupThreshold = 2
  ClientQuorum = 2
  MemberLists <- OneList
  Envs <- OneEnv
  AdvKinds <- NoAdv
  MaxAdversarial = 0
  StrictVerify = TRUE
INVARIANTS GateImpliesThresholds
