SPECIFICATION Spec
CONSTANTS
  GroupSize = 5
  ActiveThreshold = 3
  GroupThreshold = 2
  ClientQuorum = 4
  MemberLists <- ListsSmall
  Envs <- OneEnv
  AdvKinds <- AllAdv
  MaxAdversarial = 1
  StrictVerify = TRUE
INVARIANTS TypeOK StaticRulesHold MembersHashMatches SignaturesRecover GroupMembersMatch ValidWheneverSubmitted GateImpliesThresholds NoSubmissionBelowQuorum OwnSignatureIncluded WalletMatches HonestAccepted
