SPECIFICATION Spec
CONSTANTS
  GroupLists <- OneGroup4
  GroupThreshold = 3
  ClientHonest = 2
  Envs <- OneEnv
  AdvKinds <- NoAdv
  MaxAdversarial = 0
  StrictVerify = TRUE
INVARIANTS ClaimAccepted
