SPECIFICATION Spec
CONSTANTS
  GroupLists <- Groups6
  GroupThreshold = 4
  ClientHonest = 4
  Envs <- OneEnv
  AdvKinds <- AllAdv
  MaxAdversarial = 1
  StrictVerify = TRUE
INVARIANTS TypeOK ClaimAccepted HashMatches RightOperatorsPunished GateImpliesThreshold HonestAccepted
