--------------------------- MODULE InactivityClaim ---------------------------
(***************************************************************************)
(* C40, second half -- operator inactivity claims are hashed, signed and   *)
(* assembled exactly as the WalletRegistry verifies them.                  *)
(*                                                                         *)
(* CONTRACT (transcribed by hand, lines quoted; trusted transcription):    *)
(*   solidity/ecdsa/contracts/WalletRegistry.sol  notifyOperatorInactivity *)
(*   solidity/ecdsa/contracts/libraries/EcdsaInactivity.sol  verifyClaim,  *)
(*       validateMembersIndices                                            *)
(* CLIENT (one action per decision):                                       *)
(*   NewClaim     pkg/protocol/inactivity NewClaimPreimage (unique, sorted)*)
(*   SignClaim    pkg/tbtc/inactivity.go inactivityClaimSigner.SignClaim -> *)
(*                pkg/chain/ethereum/tbtc.go CalculateInactivityClaimHash   *)
(*   Collect      inactivityClaimSigner.VerifySignature                     *)
(*   GateReject / inactivityClaimSubmitter.SubmitClaim:                     *)
(*   GatePass       len(signatures) < HonestThreshold                       *)
(*   NonceMoved   SubmitClaim: currentNonce > claim.Nonce -> give up        *)
(*   Assemble /   tbtc.go AssembleInactivityClaim                           *)
(*   AssembleFails  (convertSignaturesToChainFormat)                        *)
(*   Superseded   SubmitClaim: context done while waiting for the block     *)
(*   Notify       SubmitInactivityClaim -> notifyOperatorInactivity         *)
(* Hashes and signatures are abstract as in ChainRules.                    *)
(***************************************************************************)
EXTENDS Integers, Sequences, FiniteSets

CONSTANTS
    GroupLists,      \* signing groups of registered wallets: seat -> operator ID (length may be < the DKG group size)
    GroupThreshold,  \* EcdsaInactivity.groupThreshold
    ClientHonest,    \* client GroupParameters.HonestThreshold (the gate of SubmitClaim)
    Envs,            \* records [key, chainID, nonce]
    AdvKinds, MaxAdversarial, StrictVerify

VARIABLES
    group,        \* the wallet's signing group as registered (its hash is in the registry)
    reported,     \* seats reported inactive by the signing / heartbeat activity report (non-empty)
    heartbeat,    \* heartbeatFailed
    env, submitter, offers,
    pc, claim, own, accepted, outcome, chainClaim, notified

vars == <<group, reported, heartbeat, env, submitter, offers, pc, claim, own, accepted, outcome, chainClaim, notified>>
inputs == <<group, reported, heartbeat, env, submitter, offers>>

Seats == 1..Len(group)
None == [none |-> TRUE]
Min(S) == CHOOSE x \in S : \A y \in S : x <= y
RECURSIVE Sorted(_)
Sorted(S) == IF S = {} THEN <<>> ELSE <<Min(S)>> \o Sorted(S \ {Min(S)})

U256(x)     == [t |-> "uint256",   v |-> x]
BytesV(x)   == [t |-> "bytes",     v |-> x]
U256Arr(s)  == [t |-> "uint256[]", v |-> s]
U32Arr(s)   == [t |-> "uint32[]",  v |-> s]
BoolV(b)    == [t |-> "bool",      v |-> b]
KeccakAbi(args) == [fn |-> "keccak256(abi.encode)", args |-> args]
KeccakRaw(b)    == [fn |-> "keccak256", args |-> <<b>>]
EthSigned(h)    == [fn |-> "toEthSignedMessageHash", args |-> <<h>>]
KeyBytes(k) == [key |-> k, len |-> 64]

---------------------------------------------------------------------------
(* CONTRACT *)
SignatureByteSize == 65   \* uint256 public constant signatureByteSize = 65;

Recover(d, sig) ==        \* ECDSAUpgradeable.recover, see ChainRules
    IF sig.len # 65 \/ sig.s = "high" \/ sig.v = "raw" THEN -1
    ELSE IF sig.v = "flipped" \/ sig.digest # d THEN 0
    ELSE sig.signer

(* function validateMembersIndices(uint256[] calldata indices, uint256 groupSize)
     require(indices.length > 0 && indices.length <= groupSize, "Corrupted members indices");
     require(indices[0] > 0 && indices[indices.length - 1] <= groupSize, "Corrupted members indices");
     for (uint256 i = 0; i < indices.length - 1; i++)
         require(indices[i] < indices[i + 1], "Corrupted members indices");           *)
ValidMembersIndices(indices, groupSize) ==
    /\ Len(indices) > 0 /\ Len(indices) <= groupSize
    /\ indices[1] > 0 /\ indices[Len(indices)] <= groupSize
    /\ \A i \in 1..(Len(indices) - 1) : indices[i] < indices[i + 1]

SignaturesLength(c) ==
    LET RECURSIVE Sum(_)
        Sum(i) == IF i = 0 THEN 0 ELSE c.signatures[i].len + Sum(i - 1)
    IN Sum(Len(c.signatures))

(* function verifyClaim(sortitionPool, claim, walletPubKey, nonce, groupMembers)
   returns the revert message, or "" and the inactive member IDs              *)
VerifyClaim(c, walletPubKey, chainid, nonce, groupMembers, sender) ==
    LET slen == SignaturesLength(c)
        count == slen \div SignatureByteSize
        aligned == \A i \in 1..Len(c.signatures) : c.signatures[i].len = 65
        \* bytes32 signedMessageHash = keccak256(abi.encode(block.chainid, nonce, walletPubKey,
        \*      claim.inactiveMembersIndices, claim.heartbeatFailed)).toEthSignedMessageHash();
        hash == EthSigned(KeccakAbi(<<U256(chainid), U256(nonce), BytesV(walletPubKey),
                                      U256Arr(c.inactiveMembersIndices), BoolV(c.heartbeatFailed)>>))
        rec(i) == IF aligned THEN Recover(hash, c.signatures[i]) ELSE 0
        fail(m) == [revert |-> m, inactiveMembers |-> <<>>]
    IN
    \* validateMembersIndices(claim.inactiveMembersIndices, groupMembers.length);
    IF ~ValidMembersIndices(c.inactiveMembersIndices, Len(groupMembers)) THEN fail("Corrupted members indices")
    \* require(claim.signatures.length != 0, "No signatures provided");
    ELSE IF slen = 0 THEN fail("No signatures provided")
    \* require(claim.signatures.length % signatureByteSize == 0, "Malformed signatures array");
    ELSE IF slen % SignatureByteSize # 0 THEN fail("Malformed signatures array")
    \* require(signaturesCount == claim.signingMembersIndices.length, "Unexpected signatures count");
    ELSE IF count # Len(c.signingMembersIndices) THEN fail("Unexpected signatures count")
    \* require(signaturesCount >= groupThreshold, "Too few signatures");
    ELSE IF count < GroupThreshold THEN fail("Too few signatures")
    \* require(signaturesCount <= groupMembers.length, "Too many signatures");
    ELSE IF count > Len(groupMembers) THEN fail("Too many signatures")
    \* validateMembersIndices(claim.signingMembersIndices, groupMembers.length);
    ELSE IF ~ValidMembersIndices(c.signingMembersIndices, Len(groupMembers)) THEN fail("Corrupted members indices")
    \* address recoveredAddress = signedMessageHash.recover(checkedSignature);
    ELSE IF \E i \in 1..count : rec(i) = -1 THEN fail("ECDSA: invalid signature")
    \* require(groupMembersAddresses[memberIndex - 1] == recoveredAddress, "Invalid signature");
    ELSE IF \E i \in 1..count : rec(i) # groupMembers[c.signingMembersIndices[i]] THEN fail("Invalid signature")
    \* if (!senderSignatureExists && msg.sender == recoveredAddress) senderSignatureExists = true;
    \* require(senderSignatureExists, "Sender must be claim signer");
    ELSE IF ~\E i \in 1..count : rec(i) = sender THEN fail("Sender must be claim signer")
    \* inactiveMembers[i] = groupMembers[memberIndex - 1];
    ELSE [revert |-> "", inactiveMembers |-> [i \in 1..Len(c.inactiveMembersIndices) |-> groupMembers[c.inactiveMembersIndices[i]]]]

(* WalletRegistry.notifyOperatorInactivity(claim, nonce, groupMembers) for the wallet
   registered with (membersIdsHash, publicKey) and the current inactivityClaimNonce     *)
NotifyOperatorInactivity(c, nonce, groupMembers, wallet, currentNonce, chainid, sender) ==
    \* require(nonce == inactivityClaimNonce[walletID], "Invalid nonce");
    IF nonce # currentNonce THEN [revert |-> "Invalid nonce", inactiveMembers |-> <<>>]
    \* require(memberIdsHash == keccak256(abi.encode(groupMembers)), "Invalid group members");
    ELSE IF wallet.membersIdsHash # KeccakAbi(<<U32Arr(groupMembers)>>) THEN [revert |-> "Invalid group members", inactiveMembers |-> <<>>]
    \* Inactivity.verifyClaim(sortitionPool, claim, bytes.concat(pubKeyX, pubKeyY), nonce, groupMembers);
    ELSE VerifyClaim(c, wallet.publicKey, chainid, nonce, groupMembers, sender)

---------------------------------------------------------------------------
(* CLIENT *)

\* the registry entry of the wallet (Wallets.addWallet at DKG approval, see ChainRules.WalletMatches)
Wallet == [ walletID |-> KeccakRaw(BytesV(KeyBytes(env.key))),
            membersIdsHash |-> KeccakAbi(<<U32Arr(group)>>),
            publicKey |-> KeyBytes(env.key) ]

\* tbtc.go CalculateInactivityClaimHash: elliptic.Marshal(key)[1:], indexes as uint256, tc.chainID
ClientClaimHash(e, cl) ==
    KeccakAbi(<<U256(e.chainID), U256(cl.nonce), BytesV(KeyBytes(e.key)),
                U256Arr(cl.inactiveMembersIndexes), BoolV(cl.heartbeatFailed)>>)

ClaimHash == ClientClaimHash(env, claim)
OtherHash == ClientClaimHash(env, [claim EXCEPT !.nonce = "anotherNonce"])

Signature(seat, kind) ==
    [ seat   |-> seat, kind |-> kind,
      signer |-> IF kind = "otherOperator" THEN 0 ELSE group[seat],
      digest |-> EthSigned(IF kind = "mislabelled" THEN OtherHash ELSE ClaimHash),
      s      |-> IF kind = "highS" THEN "high" ELSE "low",
      v      |-> CASE kind = "vFlip" -> "flipped" [] kind = "vRaw" -> "raw" [] OTHER -> "ok",
      len    |-> CASE kind = "len64" -> 64 [] kind = "len66" -> 66 [] kind = "empty" -> 0 [] OTHER -> 65 ]

ClientVerify(sig, hash, operator) ==
    /\ sig.len \in (IF StrictVerify THEN {65} ELSE {64, 65})
    /\ sig.s = "low" /\ sig.signer = operator /\ sig.digest = EthSigned(hash)
    /\ StrictVerify => sig.v = "ok"

InitInputs ==
    /\ group \in GroupLists
    /\ reported \in (SUBSET (1..Len(group))) \ {{}}
    /\ heartbeat \in BOOLEAN
    \* the members running the protocol are the ones that are active: a reported seat does not sign
    /\ submitter \in (1..Len(group)) \ reported
    /\ \E adv \in {A \in SUBSET (((1..Len(group)) \ reported) \ {submitter}) : Cardinality(A) <= MaxAdversarial} :
         \E h \in [(((1..Len(group)) \ reported) \ {submitter}) \ adv -> {"none", "honest"}], a \in [adv -> AdvKinds] :
            offers = [s \in ((1..Len(group)) \ reported) \ {submitter} |-> IF s \in adv THEN a[s] ELSE h[s]]
InitRest ==
    /\ pc = "new" /\ claim = None /\ own = None /\ accepted = <<>> /\ outcome = "" /\ chainClaim = None /\ notified = None
Init == InitInputs /\ env \in Envs /\ InitRest

NewClaim ==
    /\ pc = "new"
    /\ claim' = [nonce |-> env.nonce, walletPublicKey |-> env.key,
                 inactiveMembersIndexes |-> Sorted(reported), heartbeatFailed |-> heartbeat]
    /\ pc' = "sign"
    /\ UNCHANGED <<inputs, own, accepted, outcome, chainClaim, notified>>

SignClaim ==
    /\ pc = "sign"
    /\ own' = Signature(submitter, "honest")
    /\ pc' = "collect"
    /\ UNCHANGED <<inputs, claim, accepted, outcome, chainClaim, notified>>

Collect ==
    /\ pc = "collect"
    /\ LET ok == {s \in DOMAIN offers : offers[s] # "none" /\ ClientVerify(Signature(s, offers[s]), ClaimHash, group[s])}
       IN accepted' = [s \in ok \cup {submitter} |-> IF s = submitter THEN own ELSE Signature(s, offers[s])]
    /\ pc' = "gate"
    /\ UNCHANGED <<inputs, claim, own, outcome, chainClaim, notified>>

\* if len(signatures) < ics.groupParameters.HonestThreshold { return error }
GateReject ==
    /\ pc = "gate" /\ Cardinality(DOMAIN accepted) < ClientHonest
    /\ pc' = "failed" /\ outcome' = "too few signatures"
    /\ UNCHANGED <<inputs, claim, own, accepted, chainClaim, notified>>
GatePass ==
    /\ pc = "gate" /\ Cardinality(DOMAIN accepted) >= ClientHonest
    /\ pc' = "nonce"
    /\ UNCHANGED <<inputs, claim, own, accepted, outcome, chainClaim, notified>>

\* if currentNonce.Cmp(inactivityNonce) > 0 { return nil }
NonceMoved ==
    /\ pc = "nonce"
    /\ pc' = "aborted" /\ outcome' = "claim already submitted"
    /\ UNCHANGED <<inputs, claim, own, accepted, chainClaim, notified>>

AssembleFails ==
    /\ pc = "nonce" /\ \E s \in DOMAIN accepted : accepted[s].len # 65
    /\ pc' = "failed" /\ outcome' = "cannot assemble"
    /\ UNCHANGED <<inputs, claim, own, accepted, chainClaim, notified>>

Assemble ==
    /\ pc = "nonce" /\ \A s \in DOMAIN accepted : accepted[s].len = 65
    /\ LET sidx == Sorted(DOMAIN accepted) IN
       chainClaim' = [ walletID |-> Wallet.walletID,                       \* GetWallet(..).EcdsaWalletID
                       inactiveMembersIndices |-> claim.inactiveMembersIndexes,
                       heartbeatFailed |-> claim.heartbeatFailed,
                       signatures |-> [i \in 1..Len(sidx) |-> accepted[sidx[i]]],
                       signingMembersIndices |-> sidx ]
    /\ pc' = "notify"
    /\ UNCHANGED <<inputs, claim, own, accepted, outcome, notified>>

\* SubmitInactivityClaim(chainClaim, claim.Nonce, groupMembers) sent by the submitting seat's operator;
\* groupMembers = getWalletOperatorsIDs() = the IDs of the wallet's signing group operators
Notify ==
    /\ pc = "notify"
    /\ notified' = NotifyOperatorInactivity(chainClaim, claim.nonce, group, Wallet, env.nonce, env.chainID, group[submitter])
    /\ IF notified'.revert = "" THEN pc' = "done" /\ UNCHANGED outcome
                                ELSE pc' = "failed" /\ outcome' = notified'.revert
    /\ UNCHANGED <<inputs, claim, own, accepted, chainClaim>>

\* the context is done while the member waits for its submission block: if ctx.Err() != nil { return nil }
Superseded ==
    /\ pc = "notify"
    /\ pc' = "aborted" /\ outcome' = "superseded while waiting"
    /\ UNCHANGED <<inputs, claim, own, accepted, chainClaim, notified>>

Next == NewClaim \/ SignClaim \/ Collect \/ GateReject \/ GatePass \/ NonceMoved \/ AssembleFails \/ Assemble
           \/ Superseded \/ Notify
Spec == Init /\ [][Next]_vars
Terminal == pc \in {"failed", "aborted", "done"}

---------------------------------------------------------------------------
TypeOK ==
    /\ group \in GroupLists /\ reported \subseteq Seats /\ reported # {} /\ submitter \in Seats \ reported
    /\ pc \in {"new", "sign", "collect", "gate", "nonce", "notify", "done", "failed", "aborted"}
    /\ DOMAIN accepted \subseteq Seats \ reported

\* C40: a claim that passed the client's gate is accepted by the contract
ClaimAccepted == pc = "failed" => outcome = "too few signatures"

\* C40: the hash the members sign is the hash the contract recomputes from the submitted claim
HashMatches ==
    pc \in {"notify", "done"} =>
        EthSigned(ClaimHash) = EthSigned(KeccakAbi(<<U256(env.chainID), U256(env.nonce), BytesV(Wallet.publicKey),
                                                      U256Arr(chainClaim.inactiveMembersIndices), BoolV(chainClaim.heartbeatFailed)>>))

\* the operators punished are exactly the operators of the reported seats
RightOperatorsPunished ==
    pc = "done" => notified.inactiveMembers = [i \in 1..Len(Sorted(reported)) |-> group[Sorted(reported)[i]]]

GateImpliesThreshold ==
    pc \in {"nonce", "notify", "done", "aborted"} => Cardinality(DOMAIN accepted) >= GroupThreshold

HonestAccepted ==
    pc \notin {"new", "sign", "collect"} => \A s \in DOMAIN offers : offers[s] = "honest" => s \in DOMAIN accepted
=============================================================================
