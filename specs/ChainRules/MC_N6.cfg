SPECIFICATION Spec
CONSTANTS
  GroupSize = 6
  ActiveThreshold = 5
  GroupThreshold = 4
  ClientQuorum = 5
  MemberLists <- ListsSmall
  Envs <- OneEnv
  AdvKinds <- AllAdv
  MaxAdversarial = 1
  StrictVerify = TRUE
INVARIANTS TypeOK StaticRulesHold MembersHashMatches SignaturesRecover GroupMembersMatch ValidWheneverSubmitted GateImpliesThresholds NoSubmissionBelowQuorum OwnSignatureIncluded WalletMatches HonestAccepted
