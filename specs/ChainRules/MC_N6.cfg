SPECIFICATION Spec
CONSTANTS
  GroupSize = 6
  ActiveThreshold = 5
  GroupThreshold = 4
  ClientQuorum = 5
  MemberLists <- Lists
  Envs <- SomeEnvs
  AdvKinds <- AllAdv
  MaxAdversarial = 2
  StrictVerify = TRUE
INVARIANTS TypeOK StaticRulesHold MembersHashMatches SignaturesRecover GroupMembersMatch ValidWheneverSubmitted GateImpliesThresholds NoSubmissionBelowQuorum OwnSignatureIncluded WalletMatches HonestAccepted
