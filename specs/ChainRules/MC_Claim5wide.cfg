SPECIFICATION Spec
CONSTANTS
  GroupLists <- Groups5
  GroupThreshold = 2
  ClientHonest = 3
  Envs <- OneEnv
  AdvKinds <- AllAdv
  MaxAdversarial = 2
  StrictVerify = TRUE
INVARIANTS TypeOK ClaimAccepted HashMatches RightOperatorsPunished GateImpliesThreshold HonestAccepted
