SPECIFICATION FairSpec
CONSTANTS
  M = {1}
  MaxN = 3
  Delays = {0, 1}
  Actives = {0, 1}
  Starts = {2}
  InitBlocks = {1}
  MaxMsgs = 1
  Slack = 0
  Faults = {}
  BadMsgs = {FALSE}
  Prompt = FALSE
PROPERTIES EventuallyDone
