SPECIFICATION Spec
CONSTANTS
  M = {1, 2}
  MaxN = 2
  Delays = {0, 1}
  Actives = {0, 1}
  Starts = {2}
  InitBlocks = {1}
  MaxMsgs = 0
  Slack = 0
  Faults = {"initiate"}
  BadMsgs = {FALSE}
  Prompt = FALSE
INVARIANTS TypeOK BlockExactInit BlockExactEnd FinishExact NeverEarly InOrder RegisteredIff FailureOutcome FifoNoLoss NotToEarlierState Lockstep LockstepPrompt PromptExact DelayProtects InWindowDelivered
PROPERTIES HandOffDiscipline Monotone
