SPECIFICATION Spec
CONSTANTS
  M = {1}
  MaxN = 2
  Delays = {0, 1}
  Actives = {0, 1, 2}
  Starts = {2}
  InitBlocks = {1}
  MaxMsgs = 2
  Slack = 0
  Faults = {"start", "delay", "initiate", "waiter", "next"}
  BadMsgs = {FALSE, TRUE}
  Prompt = FALSE
INVARIANTS TypeOK BlockExactInit BlockExactEnd FinishExact NeverEarly InOrder RegisteredIff FailureOutcome FifoNoLoss NotToEarlierState Lockstep LockstepPrompt PromptExact DelayProtects InWindowDelivered
PROPERTIES HandOffDiscipline Monotone
