SPECIFICATION TSpec
CONSTANTS
  M = {1, 2}
  MaxN = 6
  Delays = {0, 1, 2, 3}
  Actives = {0, 1, 2, 3, 4}
  Starts = {0}
  InitBlocks = {0}
  MaxMsgs = 1000000
  Slack = 1000000
  Faults = {"start", "delay", "initiate", "waiter", "next"}
  BadMsgs = {FALSE, TRUE}
  Prompt = FALSE
CONSTRAINT Hwm
INVARIANTS BlockExactInit BlockExactEnd FinishExact NeverEarly InOrder RegisteredIff FailureOutcome FifoNoLoss NotToEarlierState Lockstep
POSTCONDITION Accepted
