SPECIFICATION GSpec
CONSTANTS
  M = {1}
  MaxN = 4
  Delays = {0, 1, 2}
  Actives = {0, 1, 2, 3}
  Starts = {2, 5}
  InitBlocks = {1, 3, 6}
  MaxMsgs = 6
  Slack = 2
  Faults = {"start", "delay", "initiate", "waiter", "next"}
  BadMsgs = {FALSE, TRUE}
  ArrivalsPerState = 2
  Prompt = FALSE
INVARIANTS Emit
