SPECIFICATION Spec
CONSTANTS
  M = {1}
  MaxN = 3
  Delays = {0, 1}
  Actives = {0, 2}
  Starts = {2}
  InitBlocks = {1, 3}
  MaxMsgs = 0
  Slack = 0
  Faults = {}
  BadMsgs = {FALSE}
  Prompt = FALSE
INVARIANTS TypeOK BlockExactInit BlockExactEnd FinishExact NeverEarly InOrder RegisteredIff FailureOutcome FifoNoLoss NotToEarlierState Lockstep LockstepPrompt PromptExact DelayProtects InWindowDelivered
PROPERTIES HandOffDiscipline Monotone
