SPECIFICATION Spec
CONSTANTS
  M = {1, 2}
  MaxN = 2
  Delays = {0, 1}
  Actives = {0, 1, 2}
  Starts = {2}
  InitBlocks = {1, 3}
  MaxMsgs = 0
  Slack = 1
  Faults = {"initiate", "next"}
  BadMsgs = {FALSE}
  Prompt = FALSE
INVARIANTS TypeOK BlockExactInit BlockExactEnd FinishExact NeverEarly InOrder RegisteredIff FailureOutcome FifoNoLoss NotToEarlierState Lockstep LockstepPrompt PromptExact DelayProtects InWindowDelivered
PROPERTIES HandOffDiscipline Monotone
