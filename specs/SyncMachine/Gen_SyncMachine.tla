--------------------------- MODULE Gen_SyncMachine ---------------------------
(* Behaviour generation for conformance replay: the SyncMachine model with a *)
(* history variable.  Every step records the action, the acting machine and *)
(* the abstract state the real machine must be in afterwards.  A behaviour  *)
(* is written when every machine has returned (done / failed).  Used both   *)
(* exhaustively (tiny constants) and with -simulate (larger constants).     *)
EXTENDS SyncMachine, TLC, Json, CSV, IOUtils

VARIABLE hist
gvars == <<vars, hist>>

\* what the harness compares for machine i after every step
Proj(i) == [pc |-> pc[i], cur |-> cur[i], lastEnd |-> lastEnd[i], waitReq |-> waitReq[i],
            endReq |-> endReq[i], registered |-> registered[i],
            initReq |-> initReq[i], initAct |-> initAct[i],
            qlen |-> Len(queue[i]),
            seen |-> [k \in 1..MaxN |-> [j \in 1..Len(seen[i][k]) |-> seen[i][k][j].id]],
            rcvErr |-> rcvErr[i], outcome |-> outcome[i]]

Log(a, i, b) == hist' = Append(hist, [a |-> a, i |-> i, bad |-> b, block |-> block', s |-> Proj(i)'])

AllReturned == \A i \in M : pc[i] \in {"done", "failed"}

GInit == Init /\ hist = <<>>

GNext ==
    /\ ~AllReturned
    /\ \/ Mine /\ hist' = Append(hist, [a |-> "Mine", i |-> 0, bad |-> FALSE, block |-> block', s |-> [pc |-> "-"]])
       \/ \E i \in M :
            \/ Exec(i) /\ Log("Exec", i, FALSE)
            \/ StartReached(i) /\ Log("StartReached", i, FALSE)
            \/ DelayReached(i) /\ Log("DelayReached", i, FALSE)
            \/ InitiateEnd(i) /\ Log("InitiateEnd", i, FALSE)
            \/ HandOff(i) /\ Log("HandOff", i, FALSE)
            \/ EndBegin(i) /\ Log("EndBegin", i, FALSE)
            \/ EndNext(i) /\ Log("EndNext", i, FALSE)
            \/ FailStart(i) /\ Log("FailStart", i, FALSE)
            \/ FailDelay(i) /\ Log("FailDelay", i, FALSE)
            \/ FailInitiate(i) /\ Log("FailInitiate", i, FALSE)
            \/ FailWaiter(i) /\ Log("FailWaiter", i, FALSE)
            \/ FailNext(i) /\ Log("FailNext", i, FALSE)
            \/ \E b \in BadMsgs : Arrive(i, b) /\ Log("Arrive", i, b)

GSpec == GInit /\ [][GNext]_gvars

CarryOver == \E i \in M, k \in 1..N : \E j \in 1..Len(seen[i][k]) : seen[i][k][j].at # k

Emit ==
    AllReturned =>
        CSVWrite("%1$s", <<ToJson([cfg |-> cfg, start |-> start, block0 |-> block0,
                                    machines |-> Cardinality(M), steps |-> hist,
                                    carry |-> CarryOver])>>, "behaviours.ndjson")
=============================================================================
