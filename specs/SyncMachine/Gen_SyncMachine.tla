--------------------------- MODULE Gen_SyncMachine ---------------------------
(* Behaviour generation for conformance replay: the SyncMachine model with a *)
(* history variable.  Every step records the action, the acting machine and *)
(* the abstract state the real machine must be in afterwards.  A behaviour  *)
(* is written when every machine has returned (done / failed).  Used both   *)
(* exhaustively (tiny constants) and with -simulate (larger constants).     *)
EXTENDS SyncMachine, TLC, Json, CSV, IOUtils

CONSTANT ArrivalsPerState
VARIABLE hist

\* what the harness compares for machine i after every step
Proj(i) == [pc |-> pc[i], cur |-> cur[i], lastEnd |-> lastEnd[i], waitReq |-> waitReq[i],
            endReq |-> endReq[i], registered |-> registered[i],
            initReq |-> initReq[i], initAct |-> initAct[i],
            qlen |-> Len(queue[i]),
            seen |-> [k \in 1..MaxN |-> [j \in 1..Len(seen[i][k]) |-> seen[i][k][j].id]],
            rcvErr |-> rcvErr[i], outcome |-> outcome[i]]

Log(a, i, b) == hist' = Append(hist, [a |-> a, i |-> i, bad |-> b, block |-> block', s |-> Proj(i)'])

AllReturned == \A i \in M : pc[i] \in {"done", "failed"}

(* The protocol, the start block, the initial height and the fault plan are  *)
(* chosen by setup steps rather than in Init, so that -simulate does not     *)
(* have to enumerate every combination as an initial state.  A fault plan    *)
(* [kind, k] lets the fault `kind` happen only while state k is current,     *)
(* which keeps random behaviours from dying in their first steps.            *)
VARIABLES phase, plan
gvars == <<vars, hist, phase, plan>>

Plans == [kind : Faults \cup {"none"}, k : 1..MaxN]

GInit ==
    /\ cfg = <<>> /\ start = 0 /\ block = 0 /\ block0 = 0
    /\ pc = [i \in M |-> "idle"]
    /\ cur = [i \in M |-> 1]
    /\ lastEnd = [i \in M |-> 0]
    /\ waitReq = [i \in M |-> 0]
    /\ initReq = [i \in M |-> [k \in 1..MaxN |-> NA]]
    /\ initAct = [i \in M |-> [k \in 1..MaxN |-> NA]]
    /\ endReq = [i \in M |-> 0]
    /\ registered = [i \in M |-> FALSE]
    /\ queue = [i \in M |-> <<>>]
    /\ accepted = [i \in M |-> <<>>]
    /\ seen = [i \in M |-> [k \in 1..MaxN |-> <<>>]]
    /\ nArr = [i \in M |-> 0]
    /\ recvFrom = [i \in M |-> [j \in M |-> {}]]
    /\ rcvErr = [i \in M |-> 0]
    /\ outcome = [i \in M |-> Running]
    /\ hist = <<>>
    /\ phase \in 1..MaxN          \* number of states still to add
    /\ plan = [i \in M |-> [kind |-> "none", k |-> 1]]

machineVars == <<pc, cur, lastEnd, waitReq, initReq, initAct, endReq, registered, queue,
                 accepted, seen, nArr, recvFrom, rcvErr, outcome>>

AddState ==
    /\ phase > 0
    /\ \E d \in Delays, a \in Actives : cfg' = Append(cfg, [d |-> d, a |-> a])
    /\ phase' = phase - 1
    /\ IF phase = 1
          THEN /\ start' \in Starts
               /\ block' \in InitBlocks
               /\ block0' = block'
          ELSE UNCHANGED <<start, block, block0>>
    /\ UNCHANGED plan
    /\ UNCHANGED <<machineVars, hist>>

MayFail(i, kind) == plan[i].kind = kind /\ plan[i].k = cur[i]

GNext ==
    \/ AddState
    \/ /\ phase = 0
       /\ ~AllReturned
       /\ UNCHANGED phase
       /\ \/ Mine /\ UNCHANGED plan /\ hist' = Append(hist, [a |-> "Mine", i |-> 0, bad |-> FALSE, block |-> block', s |-> [pc |-> "-"]])
          \/ \E i \in M :     \* the member's fault plan is drawn when it starts
               Exec(i) /\ Log("Exec", i, FALSE) /\ \E p \in Plans : plan' = [plan EXCEPT ![i] = p]
          \/ \E i \in M :
               /\ UNCHANGED plan
               /\ \/ StartReached(i) /\ Log("StartReached", i, FALSE)
                  \/ DelayReached(i) /\ Log("DelayReached", i, FALSE)
                  \/ InitiateEnd(i) /\ Log("InitiateEnd", i, FALSE)
                  \/ HandOff(i) /\ Log("HandOff", i, FALSE)
                  \/ EndBegin(i) /\ Log("EndBegin", i, FALSE)
                  \/ EndNext(i) /\ Log("EndNext", i, FALSE)
                  \/ MayFail(i, "start") /\ FailStart(i) /\ Log("FailStart", i, FALSE)
                  \/ MayFail(i, "delay") /\ FailDelay(i) /\ Log("FailDelay", i, FALSE)
                  \/ MayFail(i, "initiate") /\ FailInitiate(i) /\ Log("FailInitiate", i, FALSE)
                  \/ MayFail(i, "waiter") /\ FailWaiter(i) /\ Log("FailWaiter", i, FALSE)
                  \/ MayFail(i, "next") /\ FailNext(i) /\ Log("FailNext", i, FALSE)
                  \/ /\ nArr[i] < ArrivalsPerState * cur[i]     \* sampling bias only: spread arrivals over the states
                     /\ \/ \E b \in BadMsgs : Arrive(i, b) /\ Log("Arrive", i, b)
                        \/ \E j \in M : ArriveFrom(i, j) /\ Log("Arrive", i, FALSE)

GSpec == GInit /\ [][GNext]_gvars

CarryOver == \E i \in M, k \in 1..N : \E j \in 1..Len(seen[i][k]) : seen[i][k][j].at # k

Emit ==
    (phase = 0 /\ AllReturned) =>
        CSVWrite("%1$s", <<ToJson([cfg |-> cfg, start |-> start, block0 |-> block0,
                                    machines |-> Cardinality(M), steps |-> hist,
                                    carry |-> CarryOver])>>, "behaviours.ndjson")
=============================================================================
