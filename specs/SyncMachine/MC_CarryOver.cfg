SPECIFICATION Spec
CONSTANTS
  M = {1}
  MaxN = 2
  Delays = {0, 1}
  Actives = {0, 1}
  Starts = {2}
  InitBlocks = {2}
  MaxMsgs = 1
  Slack = 0
  Faults = {}
  BadMsgs = {FALSE}
  Prompt = FALSE
INVARIANTS NoCarryOver
