----------------------------- MODULE SyncMachine -----------------------------
(***************************************************************************)
(* The block-synchronized protocol state machine of                        *)
(* pkg/protocol/state/sync_machine.go (SyncMachine.Execute and             *)
(* stateTransition), for a set M of members that run the same protocol     *)
(* (the same sequence of states, each with DelayBlocks and ActiveBlocks)   *)
(* from the same start block on one chain.                                 *)
(*                                                                         *)
(* One action per step of the Go code:                                     *)
(*                                                                         *)
(*   Exec(i)          Execute is entered: recvChan is made, the handler is *)
(*                    registered with the first receive context            *)
(*                    (channel.Recv), WaitForBlockHeight(start) is called. *)
(*   StartReached(i)  that wait returned; lastStateEndBlockHeight = start; *)
(*                    stateTransition computes                             *)
(*                      initiateDelay = lastEnd + DelayBlocks()            *)
(*                    and calls WaitForBlockHeight(initiateDelay).         *)
(*   DelayReached(i)  the delay wait returned, currentState.Initiate(ctx)  *)
(*                    is called (the loop is blocked in it).               *)
(*   InitiateEnd(i)   Initiate returned nil; BlockHeightWaiter(            *)
(*                      initiateDelay + ActiveBlocks()) is requested;      *)
(*                    stateTransition returns, the loop selects.           *)
(*   HandOff(i)       select case msg := <-recvChan: currentState.Receive; *)
(*                    an error from Receive is only logged.                *)
(*   EndBegin(i)      select case end := <-blockWaiter: cancelCtx(), then  *)
(*                    currentState.Next() is called.  The waiter emits the *)
(*                    REQUESTED height (local_v1 and the Ethereum counter  *)
(*                    of keep-common both do), so the machine continues    *)
(*                    from the nominal end block even if the chain is      *)
(*                    already further.                                     *)
(*   EndNext(i)       Next returned: nil -> Execute returns (currentState, *)
(*                    end, nil); otherwise the next state becomes current, *)
(*                    a new context is made, the handler is registered     *)
(*                    again and stateTransition starts (delay wait).       *)
(*   Fail*(i)         the error paths: WaitForBlockHeight(start) fails,    *)
(*                    the delay wait fails, Initiate fails,                *)
(*                    BlockHeightWaiter fails, Next fails.  Each cancels   *)
(*                    the receive context and returns (nil, 0, err).       *)
(*   Arrive(i,b)      the broadcast channel invokes the handler (push to   *)
(*                    recvChan) if a live registration exists; otherwise   *)
(*                    the message never reaches the machine.               *)
(*   Mine             the chain grows by one block.                        *)
(*                                                                         *)
(* The recvChan buffer (128) is not modelled as a bound: MaxMsgs is far    *)
(* below it.                                                               *)
(***************************************************************************)
EXTENDS Integers, Sequences, FiniteSets

CONSTANTS
    M,          \* member / machine ids
    MaxN,       \* a protocol has 1..MaxN states
    Delays,     \* values DelayBlocks() may take (0 = silent state)
    Actives,    \* values ActiveBlocks() may take (0 = silent state)
    Starts,     \* start block heights given to Execute
    InitBlocks, \* chain heights at which the model may start (before / after the start block)
    MaxMsgs,    \* deliveries attempted per machine
    Slack,      \* blocks that may be mined beyond the nominal end
    Faults,     \* subset of {"start","delay","initiate","waiter","next"}
    BadMsgs,    \* set of BOOLEAN: may Receive return an error for a message
    Prompt      \* TRUE: no block is mined while a machine has a step to take

VARIABLES
    cfg,        \* the protocol: sequence of [d |-> DelayBlocks, a |-> ActiveBlocks]
    start,      \* startBlockHeight
    block,      \* chain height
    block0,     \* chain height when the model started (history)
    pc,         \* i -> "idle","waitStart","delaying","initiating","active","ending","done","failed"
    cur,        \* i -> index of currentState
    lastEnd,    \* i -> lastStateEndBlockHeight
    waitReq,    \* i -> height the pending WaitForBlockHeight asked for
    initReq,    \* i -> [k -> initiateDelay computed for state k, -1 = not yet]
    initAct,    \* i -> [k -> chain height when Initiate(k) was called, -1 = not yet]
    endReq,     \* i -> height asked from BlockHeightWaiter for the current state
    registered, \* i -> a live handler registration exists
    queue,      \* i -> content of recvChan
    accepted,   \* i -> every message ever pushed to recvChan, in order (history)
    seen,       \* i -> [k -> messages passed to Receive of state k, in order]
    nArr,       \* i -> deliveries attempted so far
    recvFrom,   \* i -> [j -> which of member j's state messages (tags) were delivered to i]
    rcvErr,     \* i -> number of Receive calls that returned an error
    outcome     \* i -> what Execute returned

vars == <<cfg, start, block, block0, pc, cur, lastEnd, waitReq, initReq, initAct, endReq,
          registered, queue, accepted, seen, nArr, recvFrom, rcvErr, outcome>>

NA == -1
N == Len(cfg)
D(k) == cfg[k].d
A(k) == cfg[k].a

RECURSIVE SumTo(_)
\* total nominal length of states 1..k
SumTo(k) == IF k = 0 THEN 0 ELSE SumTo(k - 1) + D(k) + A(k)
Total == SumTo(N)
NominalInit(k) == start + SumTo(k - 1) + D(k)
NominalEnd(k) == start + SumTo(k)

Running == [final |-> 0, end |-> 0, err |-> "running"]
Failed(e) == [final |-> 0, end |-> 0, err |-> e]

Configs == UNION { [1..n -> [d : Delays, a : Actives]] : n \in 1..MaxN }

Init ==
    /\ cfg \in Configs
    /\ start \in Starts
    /\ block \in InitBlocks
    /\ block0 = block
    /\ pc = [i \in M |-> "idle"]
    /\ cur = [i \in M |-> 1]
    /\ lastEnd = [i \in M |-> 0]
    /\ waitReq = [i \in M |-> 0]
    /\ initReq = [i \in M |-> [k \in 1..MaxN |-> NA]]
    /\ initAct = [i \in M |-> [k \in 1..MaxN |-> NA]]
    /\ endReq = [i \in M |-> 0]
    /\ registered = [i \in M |-> FALSE]
    /\ queue = [i \in M |-> <<>>]
    /\ accepted = [i \in M |-> <<>>]
    /\ seen = [i \in M |-> [k \in 1..MaxN |-> <<>>]]
    /\ nArr = [i \in M |-> 0]
    /\ recvFrom = [i \in M |-> [j \in M |-> {}]]
    /\ rcvErr = [i \in M |-> 0]
    /\ outcome = [i \in M |-> Running]

---------------------------------------------------------------------------
\* Execute: recvChan, handler, channel.Recv(ctx, handler), WaitForBlockHeight(start)
Exec(i) ==
    /\ pc[i] = "idle"
    /\ pc' = [pc EXCEPT ![i] = "waitStart"]
    /\ registered' = [registered EXCEPT ![i] = TRUE]
    /\ waitReq' = [waitReq EXCEPT ![i] = start]
    /\ UNCHANGED <<cfg, start, block0, block, cur, lastEnd, initReq, initAct, endReq, queue,
                   accepted, seen, nArr, recvFrom, rcvErr, outcome>>

\* stateTransition(ctx, state k, lastEnd): initiateDelay := lastEnd + DelayBlocks()
EnterState(i, k, le) ==
    /\ waitReq' = [waitReq EXCEPT ![i] = le + D(k)]
    /\ initReq' = [initReq EXCEPT ![i][k] = le + D(k)]
    /\ pc' = [pc EXCEPT ![i] = "delaying"]

StartReached(i) ==
    /\ pc[i] = "waitStart"
    /\ block >= waitReq[i]
    /\ lastEnd' = [lastEnd EXCEPT ![i] = start]
    /\ EnterState(i, 1, start)
    /\ UNCHANGED <<cfg, start, block0, block, cur, initAct, endReq, registered, queue, accepted,
                   seen, nArr, recvFrom, rcvErr, outcome>>

\* every error return: cancelCtx() was called, Execute returns (nil, 0, err)
Fail(i, e) ==
    /\ pc' = [pc EXCEPT ![i] = "failed"]
    /\ registered' = [registered EXCEPT ![i] = FALSE]
    /\ outcome' = [outcome EXCEPT ![i] = Failed(e)]
    /\ UNCHANGED <<cfg, start, block0, block, cur, lastEnd, waitReq, initReq, initAct, endReq,
                   queue, accepted, seen, nArr, recvFrom, rcvErr>>

FailStart(i)    == "start" \in Faults /\ pc[i] = "waitStart" /\ Fail(i, "start")
FailDelay(i)    == "delay" \in Faults /\ pc[i] = "delaying" /\ Fail(i, "delay")
FailInitiate(i) == "initiate" \in Faults /\ pc[i] = "initiating" /\ Fail(i, "initiate")
FailWaiter(i)   == "waiter" \in Faults /\ pc[i] = "initiating" /\ Fail(i, "waiter")
FailNext(i)     == "next" \in Faults /\ pc[i] = "ending" /\ Fail(i, "next")

\* the delay wait returned; Initiate(ctx) is running
DelayReached(i) ==
    /\ pc[i] = "delaying"
    /\ block >= waitReq[i]
    /\ pc' = [pc EXCEPT ![i] = "initiating"]
    /\ initAct' = [initAct EXCEPT ![i][cur[i]] = block]
    /\ UNCHANGED <<cfg, start, block0, block, cur, lastEnd, waitReq, initReq, endReq, registered,
                   queue, accepted, seen, nArr, recvFrom, rcvErr, outcome>>

\* Initiate returned nil; BlockHeightWaiter(initiateDelay + ActiveBlocks())
InitiateEnd(i) ==
    /\ pc[i] = "initiating"
    /\ endReq' = [endReq EXCEPT ![i] = initReq[i][cur[i]] + A(cur[i])]
    /\ pc' = [pc EXCEPT ![i] = "active"]
    /\ UNCHANGED <<cfg, start, block0, block, cur, lastEnd, waitReq, initReq, initAct, registered,
                   queue, accepted, seen, nArr, recvFrom, rcvErr, outcome>>

\* case msg := <-recvChan
HandOff(i) ==
    /\ pc[i] = "active"
    /\ queue[i] # <<>>
    /\ seen' = [seen EXCEPT ![i][cur[i]] = Append(@, Head(queue[i]))]
    /\ queue' = [queue EXCEPT ![i] = Tail(@)]
    /\ rcvErr' = [rcvErr EXCEPT ![i] = IF Head(queue[i]).bad THEN @ + 1 ELSE @]
    /\ UNCHANGED <<cfg, start, block0, block, pc, cur, lastEnd, waitReq, initReq, initAct, endReq,
                   registered, accepted, nArr, recvFrom, outcome>>

\* case lastStateEndBlockHeight := <-blockWaiter: cancelCtx(); Next() is running
EndBegin(i) ==
    /\ pc[i] = "active"
    /\ block >= endReq[i]
    /\ lastEnd' = [lastEnd EXCEPT ![i] = endReq[i]]     \* the waiter emits the requested height
    /\ registered' = [registered EXCEPT ![i] = FALSE]
    /\ pc' = [pc EXCEPT ![i] = "ending"]
    /\ UNCHANGED <<cfg, start, block0, block, cur, waitReq, initReq, initAct, endReq, queue,
                   accepted, seen, nArr, recvFrom, rcvErr, outcome>>

\* Next returned (nextState, nil)
EndNext(i) ==
    /\ pc[i] = "ending"
    /\ IF cur[i] = N
          THEN /\ pc' = [pc EXCEPT ![i] = "done"]
               /\ outcome' = [outcome EXCEPT ![i] = [final |-> cur[i], end |-> lastEnd[i], err |-> "nil"]]
               /\ UNCHANGED <<cur, registered, waitReq, initReq>>
          ELSE /\ cur' = [cur EXCEPT ![i] = @ + 1]
               /\ registered' = [registered EXCEPT ![i] = TRUE]
               /\ EnterState(i, cur[i] + 1, lastEnd[i])
               /\ UNCHANGED outcome
    /\ UNCHANGED <<cfg, start, block0, block, lastEnd, initAct, endReq, queue, accepted, seen,
                   nArr, recvFrom, rcvErr>>

\* A message: id = arrival number at this member, bad = Receive will return an
\* error, at = state current at arrival, ab = chain height at arrival,
\* tag = 0 for an arbitrary message, k for the message another member sent
\* from Initiate of its state k.
Deliver(i, b, tag) ==
    /\ nArr[i] < MaxMsgs
    /\ nArr' = [nArr EXCEPT ![i] = @ + 1]
    /\ LET m == [id |-> nArr[i] + 1, bad |-> b, at |-> cur[i], ab |-> block, tag |-> tag] IN
       IF registered[i]
          THEN /\ queue' = [queue EXCEPT ![i] = Append(@, m)]
               /\ accepted' = [accepted EXCEPT ![i] = Append(@, m)]
          ELSE UNCHANGED <<queue, accepted>>
    /\ UNCHANGED <<cfg, start, block0, block, pc, cur, lastEnd, waitReq, initReq, initAct, endReq,
                   registered, seen, rcvErr, outcome>>

\* the channel delivers some message to this member
Arrive(i, b) == Deliver(i, b, 0) /\ UNCHANGED recvFrom

\* how many states of member j have completed Initiate (and sent their message)
SentCount(j) ==
    CASE pc[j] \in {"idle", "waitStart"} -> 0
      [] pc[j] \in {"active", "ending", "done"} -> cur[j]
      [] OTHER -> cur[j] - 1

\* the channel delivers to member i one of the messages member j has sent from
\* Initiate so far (any order, each at most once; never delivering is possible too)
ArriveFrom(i, j) ==
    /\ i # j
    /\ \E t \in (1..SentCount(j)) \ recvFrom[i][j] :
          /\ recvFrom' = [recvFrom EXCEPT ![i][j] = @ \cup {t}]
          /\ Deliver(i, FALSE, t)

\* does the machine have a step of its own to take at the current height?
StepEnabled(i) ==
    \/ pc[i] = "idle"
    \/ pc[i] \in {"waitStart", "delaying"} /\ block >= waitReq[i]
    \/ pc[i] \in {"initiating", "ending"}
    \/ pc[i] = "active" /\ (queue[i] # <<>> \/ block >= endReq[i])

MaxBlock == start + Total + Slack

Mine ==
    /\ block < MaxBlock
    /\ Prompt => \A i \in M : ~StepEnabled(i)
    /\ block' = block + 1
    /\ UNCHANGED <<cfg, start, block0, pc, cur, lastEnd, waitReq, initReq, initAct, endReq,
                   registered, queue, accepted, seen, nArr, recvFrom, rcvErr, outcome>>

\* one named top-level disjunct per action (TLC coverage)
DoExec         == \E i \in M : Exec(i)
DoStartReached == \E i \in M : StartReached(i)
DoDelayReached == \E i \in M : DelayReached(i)
DoInitiateEnd  == \E i \in M : InitiateEnd(i)
DoHandOff      == \E i \in M : HandOff(i)
DoEndBegin     == \E i \in M : EndBegin(i)
DoEndNext      == \E i \in M : EndNext(i)
DoArrive       == \E i \in M, b \in BadMsgs : Arrive(i, b)
DoArriveFrom   == \E i, j \in M : ArriveFrom(i, j)
DoFailStart    == \E i \in M : FailStart(i)
DoFailDelay    == \E i \in M : FailDelay(i)
DoFailInitiate == \E i \in M : FailInitiate(i)
DoFailWaiter   == \E i \in M : FailWaiter(i)
DoFailNext     == \E i \in M : FailNext(i)

MachineNext(i) ==
    \/ Exec(i) \/ StartReached(i) \/ DelayReached(i) \/ InitiateEnd(i)
    \/ HandOff(i) \/ EndBegin(i) \/ EndNext(i)

Next ==
    \/ Mine \/ DoExec \/ DoStartReached \/ DoDelayReached \/ DoInitiateEnd \/ DoHandOff
    \/ DoEndBegin \/ DoEndNext \/ DoArrive \/ DoArriveFrom
    \/ DoFailStart \/ DoFailDelay \/ DoFailInitiate \/ DoFailWaiter \/ DoFailNext

Spec == Init /\ [][Next]_vars

\* liveness: blocks keep coming and every machine keeps running
FairSpec == Spec /\ WF_vars(Mine) /\ \A i \in M : WF_vars(MachineNext(i))

---------------------------------------------------------------------------
(* Properties *)

PCs == {"idle", "waitStart", "delaying", "initiating", "active", "ending", "done", "failed"}

TypeOK ==
    /\ cfg \in Configs
    /\ block \in Nat
    /\ \A i \in M :
        /\ pc[i] \in PCs
        /\ cur[i] \in 1..N
        /\ registered[i] \in BOOLEAN
        /\ nArr[i] \in 0..MaxMsgs
        /\ outcome[i].final \in 0..N

\* C14: every state is initiated at exactly start + (lengths of the states
\* before it) + its own delay, as far as the requests to the block counter go.
BlockExactInit ==
    \A i \in M, k \in 1..N :
        initReq[i][k] # NA => initReq[i][k] = NominalInit(k)

\* the end-of-state waiter is requested for the nominal end of the state, and
\* the machine continues from that nominal block
BlockExactEnd ==
    \A i \in M :
        /\ pc[i] = "active" => endReq[i] = NominalEnd(cur[i])
        /\ pc[i] = "ending" => lastEnd[i] = NominalEnd(cur[i])
        /\ pc[i] \in {"delaying", "initiating", "active"} =>
              lastEnd[i] = (IF cur[i] = 1 THEN start ELSE NominalEnd(cur[i] - 1))

\* C14: Execute finishes at exactly start + total protocol duration, in the last state
FinishExact ==
    \A i \in M :
        pc[i] = "done" => outcome[i] = [final |-> N, end |-> start + Total, err |-> "nil"]

\* the chain is never behind the nominal schedule at the machine's steps
NeverEarly ==
    \A i \in M :
        /\ \A k \in 1..N : initAct[i][k] # NA => initAct[i][k] >= NominalInit(k)
        /\ pc[i] \in {"ending", "done"} => block >= NominalEnd(cur[i])
        /\ \A k \in 1..N : (k < cur[i] /\ pc[i] # "idle") => block >= NominalEnd(k)

\* states are initiated in order, each at most once, and a state is initiated
\* before anything is handed to it
Initiated(i, k) ==
    \/ k < cur[i]
    \/ k = cur[i] /\ pc[i] \in {"initiating", "active", "ending", "done"}
    \/ k = cur[i] /\ pc[i] = "failed" /\ outcome[i].err \in {"initiate", "waiter", "next"}

Entered(i, k) ==
    \/ k < cur[i]
    \/ k = cur[i] /\ pc[i] \in {"delaying", "initiating", "active", "ending", "done"}
    \/ k = cur[i] /\ pc[i] = "failed" /\ outcome[i].err # "start"

InOrder ==
    \A i \in M, k \in 1..N :
        /\ (initAct[i][k] # NA) <=> Initiated(i, k)
        /\ (initReq[i][k] # NA) <=> Entered(i, k)
        /\ seen[i][k] # <<>> => Initiated(i, k)

\* a live registration exists exactly while Execute is between Recv and the
\* end of the current state: no handler leaks on any return path
RegisteredIff ==
    \A i \in M : registered[i] <=> pc[i] \in {"waitStart", "delaying", "initiating", "active"}

\* every error path returns (nil, 0, err)
FailureOutcome ==
    \A i \in M :
        /\ pc[i] = "failed" => (outcome[i].final = 0 /\ outcome[i].end = 0 /\ outcome[i].err \in Faults)
        /\ pc[i] \notin {"failed", "done"} => outcome[i] = Running

RECURSIVE Flat(_, _)
Flat(s, k) == IF k = 0 THEN <<>> ELSE Flat(s, k - 1) \o s[k]

\* nothing pushed to recvChan is lost, duplicated or reordered while the
\* machine runs: what the states received, in state order, followed by what
\* is still buffered, is exactly what was accepted
FifoNoLoss ==
    \A i \in M : Flat(seen[i], N) \o queue[i] = accepted[i]

\* a message is never handed to a state that was current before the message arrived
NotToEarlierState ==
    \A i \in M, k \in 1..N : \A j \in 1..Len(seen[i][k]) : seen[i][k][j].at <= k

\* C14 (action property): Receive is only ever called on the state that is
\* current, while the loop selects (after Initiate returned, before the end
\* of the state), and what a state received never changes afterwards
HandOffDiscipline ==
    [][\A i \in M, k \in 1..N :
          seen'[i][k] # seen[i][k] =>
              /\ k = cur[i] /\ cur'[i] = k
              /\ pc[i] = "active" /\ pc'[i] = "active"
              /\ Len(seen'[i][k]) = Len(seen[i][k]) + 1
              /\ SubSeq(seen'[i][k], 1, Len(seen[i][k])) = seen[i][k]]_vars

\* states advance one at a time and never go back; requests never change once made
Monotone ==
    [][\A i \in M :
          /\ cur'[i] \in {cur[i], cur[i] + 1}
          /\ \A k \in 1..N : initReq[i][k] # NA => initReq'[i][k] = initReq[i][k]
          /\ \A k \in 1..N : initAct[i][k] # NA => initAct'[i][k] = initAct[i][k]
          /\ block' >= block]_vars

\* C14, last sentence: members started at the same block move through the
\* phases at the same (nominal) blocks whatever the interleaving
Lockstep ==
    \A i, j \in M :
        /\ \A k \in 1..N : (initReq[i][k] # NA /\ initReq[j][k] # NA) => initReq[i][k] = initReq[j][k]
        /\ (pc[i] = "done" /\ pc[j] = "done") => outcome[i] = outcome[j]
        /\ (pc[i] = "active" /\ pc[j] = "active" /\ cur[i] = cur[j]) => endReq[i] = endReq[j]

Alive(i) == pc[i] # "failed"

\* with a prompt scheduler (every member finishes its pending steps before
\* the next block): at every block boundary all live members are in the same
\* state at the same point, and Initiate ran at exactly the nominal block
\* unless the member was started late
LockstepPrompt ==
    (Prompt /\ \A i \in M : ~StepEnabled(i)) =>
        \A i, j \in M : (Alive(i) /\ Alive(j)) => (cur[i] = cur[j] /\ pc[i] = pc[j])

Max(a, b) == IF a >= b THEN a ELSE b
PromptExact ==
    Prompt => \A i \in M, k \in 1..N :
        initAct[i][k] # NA => initAct[i][k] = Max(NominalInit(k), block0)

\* Why states have a delay: with a prompt scheduler and members started on
\* time, the message a member sends from Initiate of state k is never handed
\* to an EARLIER state of another member, unless state k has no delay.
DelayProtects ==
    (Prompt /\ block0 <= start) =>
        \A i \in M, k \in 1..N : \A x \in 1..Len(seen[i][k]) :
            LET m == seen[i][k][x] IN m.tag > k => D(m.tag) = 0

\* the hazard the delay removes is real: without the restriction to delayed
\* states this does not hold (MC_TooEarly.cfg expects the counterexample)
NeverTooEarly ==
    \A i \in M, k \in 1..N : \A x \in 1..Len(seen[i][k]) : seen[i][k][x].tag <= k

\* ... and a message that arrives strictly before the nominal end block of the
\* state that is current (and that state has an active period) is handed to
\* that very state: it does not cross the boundary.
InWindowDelivered ==
    Prompt =>
        \A i \in M, k \in 1..N : \A x \in 1..Len(seen[i][k]) :
            LET m == seen[i][k][x] IN (m.ab < NominalEnd(m.at) /\ A(m.at) >= 1) => k = m.at

\* liveness: without faults, if blocks keep coming every member finishes
AllDone == \A i \in M : pc[i] = "done"
EventuallyDone == <>[]AllDone

---------------------------------------------------------------------------
\* The residual behaviour the code allows (documented, not a violation): a
\* message pushed to recvChan while state k was current can be handed to a
\* later state when the end-of-state waiter wins the select.  NoCarryOver is
\* checked with an expected counterexample (MC_CarryOver.cfg).
NoCarryOver ==
    \A i \in M, k \in 1..N : \A j \in 1..Len(seen[i][k]) : seen[i][k][j].at = k
=============================================================================
