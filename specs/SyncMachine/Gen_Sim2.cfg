SPECIFICATION GSpec
CONSTANTS
  M = {1, 2}
  MaxN = 3
  Delays = {0, 1}
  Actives = {0, 1, 2}
  Starts = {2}
  InitBlocks = {1, 3}
  MaxMsgs = 3
  Slack = 1
  Faults = {"start", "delay", "initiate", "waiter", "next"}
  BadMsgs = {FALSE, TRUE}
  ArrivalsPerState = 1
  Prompt = FALSE
INVARIANTS Emit
