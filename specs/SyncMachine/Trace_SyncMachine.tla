-------------------------- MODULE Trace_SyncMachine --------------------------
(* Trace validation of real, free-running executions of SyncMachine.Execute *)
(* (several members on one fake chain, a miner goroutine, delivery          *)
(* goroutines, optional injected faults) against SyncMachine.               *)
(*                                                                          *)
(* Events are written by the harness fakes                                  *)
(* (/verif/harness/pkg/protocol/state/c14_test.go) under one mutex at the   *)
(* linearization point of each step:                                        *)
(*   Reset{cfg,start,block}    a new independent run                        *)
(*   Mine{}                    the fake chain grew by one block             *)
(*   Recv{i,n}                 channel.Recv called for the n-th time        *)
(*   Wait{i,n}                 WaitForBlockHeight(n) called      (check)    *)
(*   WaitRet{i,n}              it returned nil                              *)
(*   Fault{i,kind}             a fake returned an injected error            *)
(*   Initiate{i,k,h}           Initiate of state k entered at height h      *)
(*   Waiter{i,n}               BlockHeightWaiter(n) returned a waiter       *)
(*   Receive{i,k,id}           Receive(msg id) entered on state k           *)
(*   Next{i,k,ctxDone}         Next of state k entered; ctxDone: the        *)
(*                             context given to Initiate(k) is cancelled    *)
(*   Arrive{i,id,bad}          the handler was invoked (pushed to recvChan) *)
(*   Drop{i,id}                no live registration: not delivered          *)
(*   Return{i,final,end,err}   Execute returned                             *)
(* Every action of the model is bound to an event; nothing is silent.       *)
EXTENDS SyncMachine, TraceKit

VARIABLES l,    \* cursor into the trace
          pf    \* i -> fault a fake has returned to the machine, Execute has not returned yet ("none" otherwise)
tvars == <<vars, l, pf>>
NoPf == [i \in M |-> "none"]

Ev == Trace[l]
IsEvent(e) == l <= Len(Trace) /\ Ev.event = e /\ l' = l + 1

Fresh(c, s, b) ==
    /\ cfg' = c /\ start' = s /\ block' = b /\ block0' = b
    /\ pc' = [i \in M |-> "idle"]
    /\ cur' = [i \in M |-> 1]
    /\ lastEnd' = [i \in M |-> 0]
    /\ waitReq' = [i \in M |-> 0]
    /\ initReq' = [i \in M |-> [k \in 1..MaxN |-> NA]]
    /\ initAct' = [i \in M |-> [k \in 1..MaxN |-> NA]]
    /\ endReq' = [i \in M |-> 0]
    /\ registered' = [i \in M |-> FALSE]
    /\ queue' = [i \in M |-> <<>>]
    /\ accepted' = [i \in M |-> <<>>]
    /\ seen' = [i \in M |-> [k \in 1..MaxN |-> <<>>]]
    /\ nArr' = [i \in M |-> 0]
    /\ recvFrom' = [i \in M |-> [j \in M |-> {}]]
    /\ rcvErr' = [i \in M |-> 0]
    /\ outcome' = [i \in M |-> Running]

TInit ==
    /\ cfg = << [d |-> 0, a |-> 0] >> /\ start = 0 /\ block = 0 /\ block0 = 0
    /\ pc = [i \in M |-> "idle"]
    /\ cur = [i \in M |-> 1]
    /\ lastEnd = [i \in M |-> 0]
    /\ waitReq = [i \in M |-> 0]
    /\ initReq = [i \in M |-> [k \in 1..MaxN |-> NA]]
    /\ initAct = [i \in M |-> [k \in 1..MaxN |-> NA]]
    /\ endReq = [i \in M |-> 0]
    /\ registered = [i \in M |-> FALSE]
    /\ queue = [i \in M |-> <<>>]
    /\ accepted = [i \in M |-> <<>>]
    /\ seen = [i \in M |-> [k \in 1..MaxN |-> <<>>]]
    /\ nArr = [i \in M |-> 0]
    /\ recvFrom = [i \in M |-> [j \in M |-> {}]]
    /\ rcvErr = [i \in M |-> 0]
    /\ outcome = [i \in M |-> Running]
    /\ l = 1
    /\ pf = NoPf
    /\ HwmInit

TReset == IsEvent("Reset") /\ Fresh(Ev.cfg, Ev.start, Ev.block) /\ pf' = NoPf

TMine == IsEvent("Mine") /\ Mine /\ UNCHANGED pf

\* the machine's own steps: none while it is unwinding from an injected error
Own(i) == pf[i] = "none" /\ UNCHANGED pf

TRecv ==
    /\ IsEvent("Recv")
    /\ Own(Ev.i)
    /\ IF Ev.n = 1 THEN Exec(Ev.i)
       ELSE EndNext(Ev.i) /\ cur'[Ev.i] = Ev.n /\ pc'[Ev.i] = "delaying"

\* check only: the height the machine asks the block counter to wait for
TWait ==
    /\ IsEvent("Wait")
    /\ Own(Ev.i)
    /\ pc[Ev.i] \in {"waitStart", "delaying"}
    /\ Ev.n = waitReq[Ev.i]
    /\ UNCHANGED vars

TWaitRet ==
    /\ IsEvent("WaitRet")
    /\ Own(Ev.i)
    /\ Ev.n = waitReq[Ev.i]
    /\ block >= Ev.n
    /\ IF pc[Ev.i] = "waitStart" THEN StartReached(Ev.i)
       ELSE pc[Ev.i] = "delaying" /\ UNCHANGED vars

\* A fake returned an injected error.  The machine cancels its receive context
\* and returns a little later; until the Return event the registration may
\* still be live, so the model's Fail step is taken at Return.
FaultGuard(i, kind) ==
    /\ kind \in Faults
    /\ \/ kind = "start" /\ pc[i] = "waitStart"
       \/ kind = "delay" /\ pc[i] = "delaying"
       \/ kind \in {"initiate", "waiter"} /\ pc[i] = "initiating"
       \/ kind = "next" /\ pc[i] = "ending"

TFault ==
    /\ IsEvent("Fault")
    /\ pf[Ev.i] = "none"
    /\ FaultGuard(Ev.i, Ev.kind)
    /\ Ev.kind = "waiter" => Ev.n = initReq[Ev.i][cur[Ev.i]] + A(cur[Ev.i])
    /\ pf' = [pf EXCEPT ![Ev.i] = Ev.kind]
    /\ UNCHANGED vars

TInitiate ==
    /\ IsEvent("Initiate")
    /\ Own(Ev.i)
    /\ cur[Ev.i] = Ev.k
    /\ block = Ev.h
    /\ DelayReached(Ev.i)

TWaiter ==
    /\ IsEvent("Waiter")
    /\ Own(Ev.i)
    /\ InitiateEnd(Ev.i)
    /\ endReq'[Ev.i] = Ev.n

TReceive ==
    /\ IsEvent("Receive")
    /\ Own(Ev.i)
    /\ cur[Ev.i] = Ev.k
    /\ queue[Ev.i] # <<>> /\ Head(queue[Ev.i]).id = Ev.id
    /\ HandOff(Ev.i)

TNext ==
    /\ IsEvent("Next")
    /\ Own(Ev.i)
    /\ cur[Ev.i] = Ev.k
    /\ Ev.ctxDone
    /\ EndBegin(Ev.i)

TArrive ==
    /\ IsEvent("Arrive")
    /\ UNCHANGED pf
    /\ registered[Ev.i]
    /\ Ev.id = nArr[Ev.i] + 1
    /\ Arrive(Ev.i, Ev.bad)

\* not delivered: either no registration exists, or the loop has taken the
\* end-of-state waiter and cancelled the context but Next has not been
\* entered (logged) yet
TDrop ==
    /\ IsEvent("Drop")
    /\ UNCHANGED pf
    /\ Ev.id = nArr[Ev.i] + 1
    /\ \/ ~registered[Ev.i] /\ Arrive(Ev.i, FALSE)
       \/ /\ \/ pc[Ev.i] = "active" /\ block >= endReq[Ev.i]
             \/ pf[Ev.i] # "none"
          /\ nArr' = [nArr EXCEPT ![Ev.i] = @ + 1]
          /\ UNCHANGED <<cfg, start, block, block0, pc, cur, lastEnd, waitReq, initReq, initAct,
                         endReq, registered, queue, accepted, seen, recvFrom, rcvErr, outcome>>

TReturn ==
    /\ IsEvent("Return")
    /\ IF Ev.err = "nil"
          THEN /\ Own(Ev.i)
               /\ EndNext(Ev.i)
               /\ outcome'[Ev.i] = [final |-> Ev.final, end |-> Ev.end, err |-> "nil"]
          ELSE /\ pf[Ev.i] = Ev.err
               /\ FaultGuard(Ev.i, Ev.err)
               /\ Fail(Ev.i, Ev.err)
               /\ Ev.final = 0 /\ Ev.end = 0
               /\ pf' = [pf EXCEPT ![Ev.i] = "none"]

TNextStep == TReset \/ TMine \/ TRecv \/ TWait \/ TWaitRet \/ TFault \/ TInitiate \/ TWaiter
             \/ TReceive \/ TNext \/ TArrive \/ TDrop \/ TReturn
TSpec == TInit /\ [][TNextStep]_tvars

Hwm == HwmConstraint(l)
Accepted == HwmAccepted
=============================================================================
