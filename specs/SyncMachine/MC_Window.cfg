SPECIFICATION Spec
CONSTANTS
  M = {1, 2}
  MaxN = 2
  Delays = {0, 1}
  Actives = {1}
  Starts = {2}
  InitBlocks = {1}
  MaxMsgs = 1
  Slack = 0
  Faults = {}
  BadMsgs = {FALSE}
  Prompt = TRUE
INVARIANTS TypeOK BlockExactInit BlockExactEnd FinishExact NeverEarly InOrder RegisteredIff FailureOutcome FifoNoLoss NotToEarlierState Lockstep LockstepPrompt PromptExact DelayProtects InWindowDelivered
PROPERTIES HandOffDiscipline Monotone
