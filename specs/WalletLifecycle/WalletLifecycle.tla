--------------------------- MODULE WalletLifecycle ---------------------------
(***************************************************************************)
(* COMPOSITION: the life cycle of a tBTC wallet action, from the           *)
(* coordination window to the release of the wallet, on every member of    *)
(* the wallet at once (DESIGN.md section 7).                               *)
(*                                                                         *)
(* The actions are named after and follow the Go call chain:               *)
(*                                                                         *)
(*  pkg/tbtc/node.go  runCoordinationLayer                                 *)
(*    watchCoordinationWindows(ctx, blockCounter.WatchBlocks, onWindowFn)  *)
(*    onWindowFn: for every wallet of the node                             *)
(*        go executeCoordinationProcedure(n, window, wallet)               *)
(*            -> result sent to coordinationResultChan      WatchWindow    *)
(*    result processor: go processCoordinationResult(n, result)            *)
(*  pkg/tbtc/coordination.go  coordinationExecutor.coordinate              *)
(*    lock.TryAcquire fails -> errCoordinationExecutorBusy  CoordinateBusy *)
(*    getSeed fails                                    CoordinateSeedFails *)
(*    getLeader / getActionsChecklist                       Coordinate     *)
(*    leader:   executeLeaderRoutine (generate, Send)       LeaderRoutine  *)
(*                                                     LeaderRoutineFails  *)
(*    follower: executeFollowerRoutine           FollowerRoutineMessage    *)
(*                                               FollowerRoutineTimeout    *)
(*  pkg/tbtc/node.go  processCoordinationResult -> handle*Proposal ->      *)
(*  pkg/tbtc/wallet.go walletDispatcher.dispatch  ProcessCoordinationResult*)
(*    goroutine: action.execute()                           ExecBegin      *)
(*  pkg/tbtc/{heartbeat,redemption,deposit_sweep,...}.go  execute          *)
(*    validation against the chain            ValidateFails / ValidateOk   *)
(*    (heartbeat: operator is unstaking)                    Unstaking      *)
(*    withCancelOnBlock(expiry - margin); signingExecutor.sign/signBatch   *)
(*  pkg/tbtc/signing.go  sign: withCancelOnBlock(ctx, start + limit*max)   *)
(*  pkg/tbtc/signing_loop.go  signingRetryLoop.start                       *)
(*    attemptCounter++, ctx check, window in the past  LoopBeginAttempt    *)
(*    waitForBlockFn(announcementStartBlock), Announce LoopStartAnnounce   *)
(*    ready members, performMembersSelection           LoopCollectReady    *)
(*    signingAttemptFn, signalDone               AttemptOk / AttemptFails  *)
(*                              (attempt context ended)    AttemptTimeout  *)
(*    waitUntilAllDone                  DoneCheckOk / DoneCheckTimeout     *)
(*    post-signing step (broadcast / inactivity claim)      PostSigning    *)
(*  wallet.go dispatch: deferred delete(wd.actions, key)    Release        *)
(*  the chain produces blocks                               Tick           *)
(*                                                                         *)
(* The per-property modules are COMPOSED, not repeated:                    *)
(*   WindowWatcher (C23)   Index / Triggers decide which block starts a    *)
(*                         window on a node (INSTANCE WW)                  *)
(*   Coordination  (C22)   Checklist(index, heartbeat draw) (INSTANCE CO); *)
(*                         leader and heartbeat draw are hidden choices    *)
(*                         per <<wallet, window>> bound by the first       *)
(*                         member that evaluates them -- C22 is what makes *)
(*                         every member agree on them                      *)
(*   Follower      (C24)   the filter chain of executeFollowerRoutine is   *)
(*                         restated on concrete messages (sender key,      *)
(*                         claimed seat, window, proposal) instead of the  *)
(*                         message classes of module Follower              *)
(*   Dispatcher    (C25)   contract grain (AtomicDispatch, Release),       *)
(*                         restated per node; lastD as in Dispatcher       *)
(*   AttemptWindows(C11)   closed-form attempt windows, restated with the  *)
(*                         block constants of Deadlines                    *)
(*   AttemptSelection(C10) the included members are a hidden choice per    *)
(*                         <<session, attempt, ready set>> every member    *)
(*                         reproduces                                      *)
(*   SigningDone   (C35)   a member returns a signature only when every    *)
(*                         included member confirmed for THIS attempt      *)
(*   Deadlines     (C46)   Expiry / SigningStart / SigningDeadline /       *)
(*                         MAnnStart / MLoopEnd / PostBlocks (INSTANCE DL) *)
(*                                                                         *)
(* Time: `now` is the chain's block height.  Contexts cancelled on a block *)
(* (withCancelOnBlock) are done exactly when now >= that block.  Member    *)
(* steps are never urgent: with Lateness = TRUE the chain may produce      *)
(* blocks whatever the members are doing; with Lateness = FALSE blocks are *)
(* produced only when no member can take a prompt step (this is how the    *)
(* harness drives the real code: it advances its scripted clock only when  *)
(* every goroutine is blocked).  Environment slowness is explicit: message *)
(* loss (Loss), nodes that miss a window (Offline), chain calls of         *)
(* execute() that take arbitrarily long (Slow).                            *)
(*                                                                         *)
(* One seat per operator: member m of wallet w holds seat m.  One message  *)
(* per signing (batches of messages: module Deadlines).                    *)
(*                                                                         *)
(* Adversary / fault grains (constants): LeaderFaults on FaultyWallets      *)
(* ("silent": the leader's routine fails, "disallowed": its generator does  *)
(* not respect the checklist, "equivocate": a second, different proposal,   *)
(* "impersonate": another member raises a proposal), SeedFailures, and the  *)
(* hazard grains described before the liveness section.                     *)
(***************************************************************************)
EXTENDS Integers, Sequences, FiniteSets, TLC

CONSTANTS
    Members,          \* nodes = operators (integers)
    Wallets,
    MembersOf,        \* [Wallets -> SUBSET Members]
    Threshold,        \* [Wallets -> Nat]: members included in a signing attempt (honest threshold)
    Windows,          \* consecutive coordination window indexes
    LeaderCandidates(_, _),     \* <<wallet, window>> -> possible outcomes of getLeader
    HeartbeatCandidates(_, _),  \* <<wallet, window>> -> possible heartbeat draws (subset of BOOLEAN)
    Proposable,       \* action types a proposal generator may return besides Noop
    LeaderFaults,     \* subset of {"silent", "disallowed", "equivocate", "impersonate"}
    FaultyWallets,    \* wallets whose windows may have a faulty leader / impersonators
    Loss,             \* wallets whose coordination / announcement / done messages may be lost
    Offline,          \* a node may miss a window (its block channel skipped the block)
    SeedFailures,     \* GetBlockHashByNumber(coordination block - 32) may fail
    Slow,             \* wallets whose execute() may stay arbitrarily long in a chain call
    Hazard,           \* "none"; negative configurations: "queue" | "startFromNow" (see the end)
    Lateness,         \* see above
    SignableActions,  \* action types whose execute() is followed up to signing (others end at validation)
    \* ---- block constants, extracted from the built code (XWLConsts.tla)
    F, ActiveBlocks, DurationBlocks,
    Actions, Validity, Margin, StartOffset, PostKind, BroadcastSeconds, ClaimEndMargin,
    AttemptsLimit, AnnounceDelay, AnnounceActive, ProtocolBlocks, CoolDown, AttemptMaxBlocks,
    BlockSeconds

VARIABLES
    now,        \* current block
    lastWin,    \* m -> coordination block of the watcher's lastWindow (0 = nil)          [C23 last]
    spawned,    \* goroutines started by onWindowFn, not yet inside coordinate(): [m, w, k]
    co,         \* m -> w -> the coordination executor of m for w (long-lived, one lock)
    leader, hb, \* hidden choices per w -> k (0 / "?" = not evaluated yet)               [C22]
    net,        \* coordination messages broadcast so far (kept: retransmissions)
    ret,        \* results returned by coordinate(), waiting to be processed
    disp,       \* m -> w -> the wallet dispatcher entry of node m for wallet w + its action goroutine
    cres, dres, \* m -> w -> k -> what became of the window on that member (history)
    ann,        \* signing readiness announcements broadcast so far
    sel,        \* hidden choice: <<session, attempt, ready set>> -> included members     [C10]
    dones,      \* signing done messages broadcast so far
    executed,   \* history: [m, w, k, p] for every execute() entered
    signedH,    \* history: [m, w, k, p, n, end, at] for every signature returned by a loop
    lastD       \* history: m -> w -> the last dispatch decision [k, res, had]              [C25 lastD]

vars == <<now, lastWin, spawned, co, leader, hb, net, ret, disp, cres, dres, ann, sel, dones,
          executed, signedH, lastD>>

---------------------------------------------------------------------------
(* Composed modules (definitions only; their variables are not used).      *)

WW == INSTANCE WindowWatcher WITH
        Blocks <- {}, MaxLen <- 0, MayCancel <- FALSE,
        last <- 0, started <- <<>>, ran <- <<>>, seen <- <<>>, cancelled <- FALSE, returned <- FALSE

CO == INSTANCE Coordination WITH
        Ops <- {}, MaxList <- 0, Hashes <- {}, Seeds <- {}, CallSeeds <- {}, Blocks <- {},
        MaxCalls <- 0, Execs <- {}, Stateless <- TRUE, FreshArrays <- TRUE,
        seedOf <- <<>>, pick <- <<>>, draw <- <<>>, permOf <- <<>>, execs <- <<>>, cache <- <<>>,
        hist <- {}, heap <- <<>>, held <- <<>>

DL == INSTANCE Deadlines WITH
        Starts <- {}, Interlude <- 0, MaxMessages <- 1, LoopBoundToCaller <- TRUE,
        act <- "heartbeat", start <- 0, phase <- "proposed", now <- 0, attempt <- 0,
        msg <- 0, mstart <- 0, lastAnn <- 0

---------------------------------------------------------------------------
(* Blocks.                                                                 *)

FirstWindow == CHOOSE k \in Windows : \A j \in Windows : k <= j
LastWindow  == CHOOSE k \in Windows : \A j \in Windows : k >= j

CB(k)         == k * F                      \* coordination block of window k
ActiveEnd(k)  == CB(k) + ActiveBlocks       \* coordinationWindow.activePhaseEndBlock()
StartBlock(k) == CB(k) + DurationBlocks     \* coordinationWindow.endBlock(): the action's start block

\* Deadlines keys its tables by the lower-camel names
DK(a) == CASE a = "Heartbeat" -> "heartbeat" [] a = "Redemption" -> "redemption"
           [] a = "DepositSweep" -> "depositSweep" [] a = "MovingFunds" -> "movingFunds"
           [] a = "MovedFundsSweep" -> "movedFundsSweep"

\* node.go processCoordinationResult
ExpiryOf(a, s)    == DL!Expiry(DK(a), s)               \* startBlock + proposal.ValidityBlocks()
\* <action>.execute / signTransaction
DeadlineOf(a, s, e) == e - Margin[DK(a)]               \* the signing context ends here
SignStartOf(a, s) == DL!SigningStart(DK(a), s)
\* signing.go sign / signing_loop.go start (C11 closed form, C46 names)
AnnStartOf(ss, n) == DL!MAnnStart(ss, n)
AnnEndOf(ss, n)   == AnnStartOf(ss, n) + AnnounceActive
TimeoutOf(ss, n)  == AnnEndOf(ss, n) + ProtocolBlocks
LoopEndOf(ss)     == DL!MLoopEnd(ss)
Min2(a, b) == IF a <= b THEN a ELSE b
Max2(a, b) == IF a >= b THEN a ELSE b
MinOf(S) == CHOOSE x \in S : \A y \in S : x <= y
MaxOf(S) == CHOOSE x \in S : \A y \in S : x >= y

---------------------------------------------------------------------------
(* Proposals, messages, records.                                           *)

NoProp == [a |-> "none", v |-> 0]
Prop(a, v) == [a |-> a, v |-> v]     \* v distinguishes two proposals of an equivocating leader

\* getActionsChecklist(window.index(), seed)                                        [C22]
ChecklistOf(w, k) == CO!Checklist(CO!Index(CB(k)), hb[w][k] = "T")
SeqRange(s) == {s[i] : i \in DOMAIN s}
\* the follower's actionsAllowed = append(actionsChecklist, ActionNoop)
AllowedOf(w, k) == SeqRange(ChecklistOf(w, k)) \cup {"Noop"}

FreeCo == [k |-> 0, st |-> "free", seen |-> {}, faults |-> <<>>]

NoAct == [k |-> 0, p |-> NoProp, start |-> 0, expiry |-> 0, st |-> "none",
          att |-> 0, stage |-> "none", R |-> {}, I |-> {}, lastAnn |-> 0, res |-> "none", armed |-> 0]

Session(w, a) == [w |-> w, k |-> a.k, p |-> a.p]   \* announcer / done check session = the message signed

Subsets(S, n) == {T \in SUBSET S : Cardinality(T) = n}

Init ==
    /\ now = CB(FirstWindow) - 1
    /\ lastWin = [m \in Members |-> 0]
    /\ spawned = {}
    /\ co = [m \in Members |-> [w \in Wallets |-> FreeCo]]
    /\ leader = [w \in Wallets |-> [k \in Windows |-> 0]]
    /\ hb = [w \in Wallets |-> [k \in Windows |-> "?"]]
    /\ net = {} /\ ret = {}
    /\ disp = [m \in Members |-> [w \in Wallets |-> NoAct]]
    /\ cres = [m \in Members |-> [w \in Wallets |-> [k \in Windows |-> "none"]]]
    /\ dres = [m \in Members |-> [w \in Wallets |-> [k \in Windows |-> "none"]]]
    /\ ann = {} /\ sel = <<>> /\ dones = {}
    /\ executed = {} /\ signedH = {}
    /\ lastD = [m \in Members |-> [w \in Wallets |-> [k |-> 0, res |-> "none", had |-> FALSE]]]

WalletsOfNode(m) == {w \in Wallets : m \in MembersOf[w]}
SetCres(m, w, k, v) == cres' = [cres EXCEPT ![m][w][k] = v]
SetDres(m, w, k, v) == dres' = [dres EXCEPT ![m][w][k] = v]

---------------------------------------------------------------------------
(* node.go runCoordinationLayer: the window watcher of node m sees the     *)
(* coordination block of window k (C23: index > 0, after the last window)  *)
(* and onWindowFn starts one coordination goroutine per wallet of the node.*)
(* A node whose block channel skipped the block never sees the window.     *)
WatchWindow(m, k) ==
    /\ now >= CB(k)
    /\ WW!Triggers(CB(k), lastWin[m])
    /\ Offline \/ \A j \in Windows : j < k => lastWin[m] >= CB(j)
    /\ lastWin' = [lastWin EXCEPT ![m] = CB(k)]
    /\ spawned' = spawned \cup {[m |-> m, w |-> w, k |-> k] : w \in WalletsOfNode(m)}
    /\ UNCHANGED <<now, co, leader, hb, net, ret, disp, cres, dres, ann, sel, dones, executed, signedH, lastD>>

(* coordination.go coordinate: the executor of <<m, w>> is still inside    *)
(* coordinate() for an earlier window                                      *)
CoordinateBusy(m, w, k) ==
    /\ [m |-> m, w |-> w, k |-> k] \in spawned
    /\ co[m][w].st # "free"
    /\ spawned' = spawned \ {[m |-> m, w |-> w, k |-> k]}
    /\ SetCres(m, w, k, "busy")
    /\ UNCHANGED <<now, lastWin, co, leader, hb, net, ret, disp, dres, ann, sel, dones, executed, signedH, lastD>>

(* getSeed: the safe block hash cannot be fetched                          *)
CoordinateSeedFails(m, w, k) ==
    /\ SeedFailures
    /\ [m |-> m, w |-> w, k |-> k] \in spawned
    /\ co[m][w].st = "free"
    /\ spawned' = spawned \ {[m |-> m, w |-> w, k |-> k]}
    /\ SetCres(m, w, k, "seederr")
    /\ UNCHANGED <<now, lastWin, co, leader, hb, net, ret, disp, dres, ann, sel, dones, executed, signedH, lastD>>

(* coordinate: lock acquired, seed, leader and checklist evaluated (C22:   *)
(* the first member binds the hidden choices, every other member gets the  *)
(* same values); the member becomes leader or follower of the window       *)
Coordinate(m, w, k, L, h) ==
    /\ [m |-> m, w |-> w, k |-> k] \in spawned
    /\ co[m][w].st = "free"
    /\ L \in MembersOf[w] /\ h \in {"T", "F"}
    /\ IF leader[w][k] = 0 THEN L \in LeaderCandidates(w, k) ELSE L = leader[w][k]
    /\ IF hb[w][k] = "?" THEN (h = "T") \in HeartbeatCandidates(w, k) ELSE h = hb[w][k]
    /\ leader' = [leader EXCEPT ![w][k] = L]
    /\ hb' = [hb EXCEPT ![w][k] = h]
    /\ spawned' = spawned \ {[m |-> m, w |-> w, k |-> k]}
    /\ co' = [co EXCEPT ![m][w] = [k |-> k, st |-> IF m = L THEN "lead" ELSE "follow", seen |-> {}, faults |-> <<>>]]
    /\ UNCHANGED <<now, lastWin, net, ret, disp, cres, dres, ann, sel, dones, executed, signedH, lastD>>

Msg(k, from, seat, p) == [k |-> k, from |-> from, seat |-> seat, p |-> p]
Result(m, w, k, p, ldr, faults) == [m |-> m, w |-> w, k |-> k, p |-> p, leader |-> ldr, faults |-> faults]

\* what an honest generator may return for the checklist; a generator that
\* does not respect the checklist ("disallowed") may return anything else
GeneratorOutputs(w, k) ==
    {a \in Proposable \cup {"Noop"} :
        \/ a \in AllowedOf(w, k)
        \/ ("disallowed" \in LeaderFaults /\ w \in FaultyWallets)}

(* executeLeaderRoutine: the generator returns a proposal, the message is  *)
(* broadcast from the leader's lowest seat (retransmitted until the active *)
(* phase ends) and coordinate() returns the proposal as the result -- the  *)
(* leader does not check its own proposal against the checklist            *)
LeaderRoutine(m, w, a) ==
    /\ co[m][w].st = "lead"
    /\ a \in GeneratorOutputs(w, co[m][w].k)
    /\ LET k == co[m][w].k
           p == Prop(a, 1) IN
         /\ net' = net \cup {[w |-> w, msg |-> Msg(k, m, m, p)]}
         /\ ret' = ret \cup {Result(m, w, k, p, m, <<>>)}
         /\ SetCres(m, w, k, "result")
    /\ co' = [co EXCEPT ![m][w] = FreeCo]
    /\ UNCHANGED <<now, lastWin, spawned, leader, hb, disp, dres, ann, sel, dones, executed, signedH, lastD>>

(* executeLeaderRoutine fails (the generator failed twice, Send failed):   *)
(* nothing is broadcast, coordinate() returns an error, no result          *)
LeaderRoutineFails(m, w) ==
    /\ "silent" \in LeaderFaults /\ w \in FaultyWallets
    /\ co[m][w].st = "lead"
    /\ SetCres(m, w, co[m][w].k, "leaderr")
    /\ co' = [co EXCEPT ![m][w] = FreeCo]
    /\ UNCHANGED <<now, lastWin, spawned, leader, hb, net, ret, disp, dres, ann, sel, dones, executed, signedH, lastD>>

(* adversarial leader: a second, different proposal for the same window    *)
LeaderEquivocates(m, w, k, a) ==
    /\ "equivocate" \in LeaderFaults /\ w \in FaultyWallets
    /\ leader[w][k] = m
    /\ a \in Proposable \cup {"Noop"}
    /\ \E x \in net : x.w = w /\ x.msg.k = k /\ x.msg.from = m /\ x.msg.p.v = 1 /\ x.msg.p.a # a
    /\ ~\E x \in net : x.w = w /\ x.msg.k = k /\ x.msg.from = m /\ x.msg.p.v = 2
    /\ net' = net \cup {[w |-> w, msg |-> Msg(k, m, m, Prop(a, 2))]}
    /\ UNCHANGED <<now, lastWin, spawned, co, leader, hb, ret, disp, cres, dres, ann, sel, dones, executed, signedH, lastD>>

(* adversarial member x that is not the leader raises its own proposal,    *)
(* from its own seat or claiming the leader's seat                         *)
Impersonate(x, w, k, seat, a) ==
    /\ "impersonate" \in LeaderFaults /\ w \in FaultyWallets
    /\ x \in MembersOf[w] /\ leader[w][k] # 0 /\ x # leader[w][k]
    /\ seat \in {x, leader[w][k]}
    /\ a \in Proposable
    /\ ~\E y \in net : y.w = w /\ y.msg.k = k /\ y.msg.from = x
    /\ net' = net \cup {[w |-> w, msg |-> Msg(k, x, seat, Prop(a, 3))]}
    /\ UNCHANGED <<now, lastWin, spawned, co, leader, hb, ret, disp, cres, dres, ann, sel, dones, executed, signedH, lastD>>

(* executeFollowerRoutine, one message taken from the channel (C24 filter  *)
(* chain on concrete messages).  The network authenticates msg.from.       *)
FollowerRoutineMessage(m, w, x) ==
    /\ co[m][w].st = "follow"
    /\ x \in net /\ x.w = w /\ x \notin co[m][w].seen
    /\ LET k   == co[m][w].k
           msg == x.msg
           L   == leader[w][k]
           note(c) == [co EXCEPT ![m][w].seen = @ \cup {x}, ![m][w].faults = Append(@, c)]
           skip    == [co EXCEPT ![m][w].seen = @ \cup {x}] IN
         IF msg.seat = m                                   \* slices.Contains(ce.membersIndexes, senderID)
            THEN co' = skip /\ UNCHANGED <<ret, cres>>
         ELSE IF ~(msg.seat \in MembersOf[w] /\ msg.seat = msg.from)   \* IsValidMembership
            THEN co' = skip /\ UNCHANGED <<ret, cres>>
         ELSE IF msg.k # k                                 \* wrong coordination block
            THEN co' = skip /\ UNCHANGED <<ret, cres>>
         ELSE IF msg.seat # L                              \* leaderID != senderID
            THEN co' = note([culprit |-> msg.from, type |-> "Impersonation"]) /\ UNCHANGED <<ret, cres>>
         ELSE IF msg.p.a \notin AllowedOf(w, k)
            THEN co' = note([culprit |-> L, type |-> "Mistake"]) /\ UNCHANGED <<ret, cres>>
         ELSE /\ ret' = ret \cup {Result(m, w, k, msg.p, L, co[m][w].faults)}
              /\ SetCres(m, w, k, "result")
              /\ co' = [co EXCEPT ![m][w] = FreeCo]
    /\ UNCHANGED <<now, lastWin, spawned, leader, hb, net, disp, dres, ann, sel, dones, executed, signedH, lastD>>

(* executeFollowerRoutine: the active phase ended (ctx.Done): leader       *)
(* idleness fault, error, no result                                        *)
FollowerRoutineTimeout(m, w) ==
    /\ co[m][w].st = "follow"
    /\ now >= ActiveEnd(co[m][w].k)
    /\ SetCres(m, w, co[m][w].k, "idle")
    /\ co' = [co EXCEPT ![m][w] = FreeCo]
    /\ UNCHANGED <<now, lastWin, spawned, leader, hb, net, ret, disp, dres, ann, sel, dones, executed, signedH, lastD>>

---------------------------------------------------------------------------
(* node.go processCoordinationResult (one goroutine per result, so results *)
(* of different windows may be processed in any order) -> handle*Proposal  *)
(* -> wallet.go dispatch.  The step is the critical section of dispatch    *)
(* (C25 AtomicDispatch): a busy wallet drops the action, it is not queued. *)
StartAt(k) == IF Hazard = "startFromNow" THEN now + DurationBlocks ELSE StartBlock(k)
NewAct(r) ==
    [NoAct EXCEPT !.k = r.k, !.p = r.p, !.st = "spawned",
                  !.start = StartAt(r.k),                          \* result.window.endBlock()
                  !.expiry = ExpiryOf(r.p.a, StartAt(r.k))]        \* + proposal.ValidityBlocks()

ProcessCoordinationResult(r) ==
    /\ r \in ret
    /\ ret' = IF Hazard = "queue" /\ r.p.a # "Noop" /\ disp[r.m][r.w].st # "none" THEN ret ELSE ret \ {r}
    /\ IF r.p.a = "Noop"
          THEN /\ SetDres(r.m, r.w, r.k, "noop")
               /\ UNCHANGED <<disp, lastD>>
          ELSE IF disp[r.m][r.w].st # "none"
          THEN /\ SetDres(r.m, r.w, r.k, "busy")                   \* errWalletBusy
               /\ lastD' = [lastD EXCEPT ![r.m][r.w] = [k |-> r.k, res |-> "busy", had |-> TRUE]]
               /\ UNCHANGED disp
          ELSE /\ SetDres(r.m, r.w, r.k, "ok")
               /\ lastD' = [lastD EXCEPT ![r.m][r.w] = [k |-> r.k, res |-> "ok", had |-> FALSE]]
               /\ disp' = [disp EXCEPT ![r.m][r.w] = NewAct(r)]
    /\ UNCHANGED <<now, lastWin, spawned, co, leader, hb, net, cres, ann, sel, dones, executed, signedH>>

(* the goroutine started by dispatch enters action.execute()               *)
ExecBegin(m, w) ==
    /\ disp[m][w].st = "spawned"
    /\ disp' = [disp EXCEPT ![m][w].st = "validating"]
    /\ executed' = executed \cup {[m |-> m, w |-> w, k |-> disp[m][w].k, p |-> disp[m][w].p]}
    /\ UNCHANGED <<now, lastWin, spawned, co, leader, hb, net, ret, cres, dres, ann, sel, dones, signedH, lastD>>

Ended(a, res) == [a EXCEPT !.st = "ended", !.stage = "none", !.res = res]

(* execute(): the proposal is not (or no longer) valid on the chain, or a  *)
(* chain / Bitcoin call failed: execute returns an error before signing    *)
ValidateFails(m, w) ==
    /\ disp[m][w].st = "validating"
    /\ disp' = [disp EXCEPT ![m][w] = Ended(@, "invalid")]
    /\ UNCHANGED <<now, lastWin, spawned, co, leader, hb, net, ret, cres, dres, ann, sel, dones, executed, signedH, lastD>>

(* heartbeat.go execute: the operator is unstaking: quits without signing  *)
Unstaking(m, w) ==
    /\ disp[m][w].st = "validating" /\ disp[m][w].p.a = "Heartbeat"
    /\ disp' = [disp EXCEPT ![m][w] = Ended(@, "unstaking")]
    /\ UNCHANGED <<now, lastWin, spawned, co, leader, hb, net, ret, cres, dres, ann, sel, dones, executed, signedH, lastD>>

(* execute(): validation passed; the signing context is armed with         *)
(* withCancelOnBlock(expiry - margin) and signingExecutor.sign is called    *)
(* with the action's start block; sign arms its own loop timeout.           *)
ValidateOk(m, w) ==
    /\ disp[m][w].st = "validating"
    /\ disp[m][w].p.a \in SignableActions
    /\ LET a == disp[m][w] IN
       disp' = [disp EXCEPT ![m][w] =
                  [a EXCEPT !.st = "signing", !.stage = "top", !.att = 0,
                            !.armed = DeadlineOf(a.p.a, a.start, a.expiry)]]
    /\ UNCHANGED <<now, lastWin, spawned, co, leader, hb, net, ret, cres, dres, ann, sel, dones, executed, signedH, lastD>>

---------------------------------------------------------------------------
(* signing.go sign + signing_loop.go start, one loop per member.           *)

SS(a)        == SignStartOf(a.p.a, a.start)
\* the loop context: the caller's signing context (done at the armed
\* deadline) narrowed by sign's own withCancelOnBlock(start + limit * max)
LoopLimit(a) == Min2(a.armed, LoopEndOf(SS(a)))
LoopCtxDone(a) == now >= LoopLimit(a)
GiveUp(a) == Ended(a, IF a.armed < LoopEndOf(SS(a)) THEN "expired" ELSE "exhausted")

(* top of the loop body: attemptCounter++, ctx check, the start block       *)
(* advances, getCurrentBlockFn, "announcement phase is in the past" check   *)
LoopBeginAttempt(m, w) ==
    /\ disp[m][w].st = "signing" /\ disp[m][w].stage = "top"
    /\ LET a == disp[m][w]
           n == a.att + 1 IN
       disp' = [disp EXCEPT ![m][w] =
                  IF LoopCtxDone(a) THEN GiveUp(a)
                  ELSE IF AnnEndOf(SS(a), n) <= now THEN [a EXCEPT !.att = n]       \* skipped
                  ELSE [a EXCEPT !.att = n, !.stage = "waitStart", !.R = {}, !.I = {}]]
    /\ UNCHANGED <<now, lastWin, spawned, co, leader, hb, net, ret, cres, dres, ann, sel, dones, executed, signedH, lastD>>

(* waitForBlockFn(ctx, announcementStartBlock) returned (the block came or  *)
(* the loop context ended); the announcer broadcasts the member's readiness *)
LoopStartAnnounce(m, w) ==
    /\ disp[m][w].st = "signing" /\ disp[m][w].stage = "waitStart"
    /\ LET a == disp[m][w] IN
         /\ now >= AnnStartOf(SS(a), a.att) \/ LoopCtxDone(a)
         \* (Announce broadcasts even under a context that is already done: that
         \* message goes out on the block the loop context ended, possibly before
         \* the attempt's announcement start block; nobody is left to count it)
         /\ ann' = ann \cup {[s |-> Session(w, a), n |-> a.att, m |-> m, dead |-> LoopCtxDone(a)]}
         /\ IF LoopCtxDone(a)
               THEN disp' = [disp EXCEPT ![m][w] = GiveUp(a)]
               ELSE disp' = [disp EXCEPT ![m][w] = [a EXCEPT !.stage = "announcing",
                                                             !.lastAnn = AnnStartOf(SS(a), a.att)]]
    /\ UNCHANGED <<now, lastWin, spawned, co, leader, hb, net, ret, cres, dres, sel, dones, executed, signedH, lastD>>

Announcers(w, a) == {x.m : x \in {y \in ann : y.s = Session(w, a) /\ y.n = a.att}}
SelKey(w, a, R) == <<Session(w, a), a.att, R>>

(* the announcement window ended: ready members R (the member itself and    *)
(* the announcements that reached it); fewer than the honest threshold ->   *)
(* next attempt; otherwise performMembersSelection (C10: the outcome I for  *)
(* <<session, attempt, R>> is the same on every member) and doneCheck.listen*)
LoopCollectReady(m, w, R, I) ==
    /\ disp[m][w].st = "signing" /\ disp[m][w].stage = "announcing"
    /\ LET a == disp[m][w] IN
         /\ now >= AnnEndOf(SS(a), a.att) \/ LoopCtxDone(a)
         /\ m \in R /\ R \subseteq Announcers(w, a)
         /\ w \in Loss \/ R = Announcers(w, a)
         /\ IF LoopCtxDone(a)
               THEN /\ I = {} /\ disp' = [disp EXCEPT ![m][w] = GiveUp(a)] /\ UNCHANGED sel
            ELSE IF Cardinality(R) < Threshold[w]
               THEN /\ I = {} /\ disp' = [disp EXCEPT ![m][w] = [a EXCEPT !.stage = "top", !.R = R]] /\ UNCHANGED sel
            ELSE /\ I \in Subsets(R, Threshold[w])
                 /\ IF SelKey(w, a, R) \in DOMAIN sel THEN sel[SelKey(w, a, R)] = I /\ UNCHANGED sel
                    ELSE sel' = [x \in DOMAIN sel \cup {SelKey(w, a, R)} |-> IF x = SelKey(w, a, R) THEN I ELSE sel[x]]
                 /\ disp' = [disp EXCEPT ![m][w] = [a EXCEPT !.R = R, !.I = I,
                                                             !.stage = IF m \in I THEN "run" ELSE "doneWait"]]
    /\ UNCHANGED <<now, lastWin, spawned, co, leader, hb, net, ret, cres, dres, ann, dones, executed, signedH, lastD>>

\* the threshold signing protocol of attempt n completes on member m only if
\* every included member runs the same attempt with the same included set
Participating(w, a, i) ==
    LET b == disp[i][w] IN
    /\ b.st \in {"signing", "post"} /\ Session(w, b) = Session(w, a)
    /\ \/ b.att = a.att /\ b.I = a.I /\ b.stage \in {"run", "doneWait"}
       \/ \E d \in dones : d.s = Session(w, a) /\ d.n = a.att /\ d.m = i

(* signingAttemptFn returned a signature before the attempt's timeout block *)
(* and signalDone broadcast the member's done message                       *)
AttemptOk(m, w) ==
    /\ disp[m][w].st = "signing" /\ disp[m][w].stage = "run"
    /\ LET a == disp[m][w] IN
         /\ now < TimeoutOf(SS(a), a.att) /\ ~LoopCtxDone(a)
         /\ \A i \in a.I : Participating(w, a, i)
         /\ dones' = dones \cup {[s |-> Session(w, a), n |-> a.att, m |-> m, end |-> Max2(now, AnnEndOf(SS(a), a.att))]}
         /\ disp' = [disp EXCEPT ![m][w].stage = "doneWait"]
    /\ UNCHANGED <<now, lastWin, spawned, co, leader, hb, net, ret, cres, dres, ann, sel, executed, signedH, lastD>>

(* the attempt function or signalDone failed: `continue`                    *)
AttemptFails(m, w) ==
    /\ disp[m][w].st = "signing" /\ disp[m][w].stage = "run"
    /\ disp' = [disp EXCEPT ![m][w].stage = "top"]
    /\ UNCHANGED <<now, lastWin, spawned, co, leader, hb, net, ret, cres, dres, ann, sel, dones, executed, signedH, lastD>>

(* the attempt's context ended (attemptCtx is cancelled on the timeout      *)
(* block or with the loop) before the protocol completed: signing.Execute   *)
(* returns an error: `continue`                                             *)
AttemptTimeout(m, w) ==
    /\ disp[m][w].st = "signing" /\ disp[m][w].stage = "run"
    /\ now >= TimeoutOf(SS(disp[m][w]), disp[m][w].att) \/ LoopCtxDone(disp[m][w])
    /\ disp' = [disp EXCEPT ![m][w].stage = "top"]
    /\ UNCHANGED <<now, lastWin, spawned, co, leader, hb, net, ret, cres, dres, ann, sel, dones, executed, signedH, lastD>>

DonesOf(w, a) == {d \in dones : d.s = Session(w, a) /\ d.n = a.att /\ d.m \in a.I}

(* waitUntilAllDone: every included member confirmed for this attempt (C35) *)
(* before the attempt's timeout block: the loop returns the signature, sign *)
(* returns, the post-signing step of the action begins                      *)
DoneCheckOk(m, w) ==
    /\ disp[m][w].st = "signing" /\ disp[m][w].stage = "doneWait"
    /\ LET a == disp[m][w] IN
         /\ now < TimeoutOf(SS(a), a.att) /\ ~LoopCtxDone(a)
         /\ {d.m : d \in DonesOf(w, a)} = a.I
         /\ signedH' = signedH \cup {[m |-> m, w |-> w, k |-> a.k, p |-> a.p, n |-> a.att,
                                      end |-> MaxOf({d.end : d \in DonesOf(w, a)}), at |-> now]}
         /\ disp' = [disp EXCEPT ![m][w] = [a EXCEPT !.st = "post", !.stage = "none", !.res = "signed"]]
    /\ UNCHANGED <<now, lastWin, spawned, co, leader, hb, net, ret, cres, dres, ann, sel, dones, executed, lastD>>

(* waitUntilAllDone: the attempt's timeout block came first (done messages  *)
(* lost, a member failed): `continue`                                       *)
DoneCheckTimeout(m, w) ==
    /\ disp[m][w].st = "signing" /\ disp[m][w].stage = "doneWait"
    /\ now >= TimeoutOf(SS(disp[m][w]), disp[m][w].att) \/ LoopCtxDone(disp[m][w])
    /\ disp' = [disp EXCEPT ![m][w].stage = "top"]
    /\ UNCHANGED <<now, lastWin, spawned, co, leader, hb, net, ret, cres, dres, ann, sel, dones, executed, signedH, lastD>>

(* the post-signing step (transaction broadcast, bounded by wall clock;     *)
(* heartbeat: inactivity claim, bounded by expiry - safety margin) ended    *)
(* and execute() returns                                                    *)
PostSigning(m, w) ==
    /\ disp[m][w].st = "post"
    /\ disp' = [disp EXCEPT ![m][w] = Ended(@, "done")]
    /\ UNCHANGED <<now, lastWin, spawned, co, leader, hb, net, ret, cres, dres, ann, sel, dones, executed, signedH, lastD>>

(* wallet.go dispatch: the deferred delete(wd.actions, key) (C25 Release)   *)
Release(m, w) ==
    /\ disp[m][w].st = "ended"
    /\ disp' = [disp EXCEPT ![m][w] = NoAct]
    /\ UNCHANGED <<now, lastWin, spawned, co, leader, hb, net, ret, cres, dres, ann, sel, dones, executed, signedH, lastD>>

---------------------------------------------------------------------------
(* The chain.  Blocks somebody waits for:                                  *)
ActTimers(a) ==
    IF a.st # "signing" THEN {}
    ELSE {LoopLimit(a)} \cup
         (CASE a.stage = "waitStart"  -> {AnnStartOf(SS(a), a.att)}
            [] a.stage = "announcing" -> {AnnEndOf(SS(a), a.att)}
            [] a.stage \in {"run", "doneWait"} -> {TimeoutOf(SS(a), a.att)}
            [] OTHER -> {})
Timers ==
    {CB(k) : k \in Windows}
    \cup UNION {{ActiveEnd(co[m][w].k) : w \in {v \in Wallets : co[m][v].st = "follow"}} : m \in Members}
    \cup UNION {ActTimers(disp[m][w]) : m \in Members, w \in Wallets}
Future == {b \in Timers : b > now}

TickTo(b) ==
    /\ b > now
    /\ now' = b
    /\ UNCHANGED <<lastWin, spawned, co, leader, hb, net, ret, disp, cres, dres, ann, sel, dones, executed, signedH, lastD>>

---------------------------------------------------------------------------
DoWatchWindow         == \E m \in Members, k \in Windows : WatchWindow(m, k)
DoCoordinateBusy      == \E x \in spawned : CoordinateBusy(x.m, x.w, x.k)
DoCoordinateSeedFails == \E x \in spawned : CoordinateSeedFails(x.m, x.w, x.k)
DoCoordinate          == \E x \in spawned, L \in Members, h \in {"T", "F"} : Coordinate(x.m, x.w, x.k, L, h)
DoLeaderRoutine       == \E m \in Members, w \in Wallets, a \in Proposable \cup {"Noop"} : LeaderRoutine(m, w, a)
DoLeaderRoutineFails  == \E m \in Members, w \in Wallets : LeaderRoutineFails(m, w)
DoLeaderEquivocates   == \E m \in Members, w \in Wallets, k \in Windows, a \in Proposable \cup {"Noop"} : LeaderEquivocates(m, w, k, a)
DoImpersonate         == \E x \in Members, w \in Wallets, k \in Windows, s \in Members, a \in Proposable : Impersonate(x, w, k, s, a)
DoFollowerRoutineMessage == \E m \in Members, w \in Wallets, x \in net : FollowerRoutineMessage(m, w, x)
DoFollowerRoutineTimeout == \E m \in Members, w \in Wallets : FollowerRoutineTimeout(m, w)
DoProcessCoordinationResult == \E r \in ret : ProcessCoordinationResult(r)
DoExecBegin           == \E m \in Members, w \in Wallets : ExecBegin(m, w)
DoValidateFails       == \E m \in Members, w \in Wallets : ValidateFails(m, w)
DoUnstaking           == \E m \in Members, w \in Wallets : Unstaking(m, w)
DoValidateOk          == \E m \in Members, w \in Wallets : ValidateOk(m, w)
DoLoopBeginAttempt    == \E m \in Members, w \in Wallets : LoopBeginAttempt(m, w)
DoLoopStartAnnounce   == \E m \in Members, w \in Wallets : LoopStartAnnounce(m, w)
DoLoopCollectReady    == \E m \in Members, w \in Wallets, R \in SUBSET Members, I \in SUBSET Members : LoopCollectReady(m, w, R, I)
DoAttemptOk           == \E m \in Members, w \in Wallets : AttemptOk(m, w)
DoAttemptFails        == \E m \in Members, w \in Wallets : AttemptFails(m, w)
DoAttemptTimeout      == \E m \in Members, w \in Wallets : AttemptTimeout(m, w)
DoDoneCheckOk         == \E m \in Members, w \in Wallets : DoneCheckOk(m, w)
DoDoneCheckTimeout    == \E m \in Members, w \in Wallets : DoneCheckTimeout(m, w)
DoPostSigning         == \E m \in Members, w \in Wallets : PostSigning(m, w)
DoRelease             == \E m \in Members, w \in Wallets : Release(m, w)

\* steps a member takes without waiting for the environment
Prompt ==
    \/ (~Offline /\ DoWatchWindow)
    \/ DoCoordinateBusy \/ DoCoordinate \/ DoLeaderRoutine
    \/ (\E m \in Members, w \in Wallets \ Loss, x \in net : FollowerRoutineMessage(m, w, x))
    \/ DoFollowerRoutineTimeout \/ DoProcessCoordinationResult \/ DoExecBegin
    \/ (\E m \in Members, w \in Wallets \ Slow : ValidateFails(m, w) \/ ValidateOk(m, w))
    \/ DoLoopBeginAttempt \/ DoLoopStartAnnounce \/ DoLoopCollectReady
    \/ DoAttemptOk \/ DoAttemptTimeout \/ DoDoneCheckOk \/ DoDoneCheckTimeout \/ DoPostSigning \/ DoRelease
\* (AttemptFails is an environment failure, never forced)

\* ~ENABLED Prompt written out (TLC evaluates it much faster; QuietExact is
\* checked as an invariant in the configurations)
Quiet ==
    /\ spawned = {} /\ ret = {}
    /\ Offline \/ \A m \in Members, k \in Windows : CB(k) <= now => CB(k) <= lastWin[m]
    /\ \A m \in Members, w \in Wallets :
        LET c == co[m][w]
            a == disp[m][w] IN
        /\ c.st # "lead"
        /\ c.st = "follow" =>
              /\ now < ActiveEnd(c.k)
              /\ w \in Loss \/ \A x \in net : x.w = w => x \in c.seen
        /\ a.st \notin {"spawned", "post", "ended"}
        /\ a.st = "validating" => w \in Slow
        /\ a.st = "signing" =>
              /\ a.stage # "top"
              /\ ~LoopCtxDone(a)
              /\ a.stage = "waitStart" => now < AnnStartOf(SS(a), a.att)
              /\ a.stage = "announcing" => now < AnnEndOf(SS(a), a.att)
              /\ a.stage \in {"run", "doneWait"} => now < TimeoutOf(SS(a), a.att)
              /\ a.stage = "run" => ~\A i \in a.I : Participating(w, a, i)
              /\ a.stage = "doneWait" => {d.m : d \in DonesOf(w, a)} # a.I
QuietExact == Quiet <=> ~ENABLED Prompt

Tick ==
    /\ Future # {}
    /\ Lateness \/ Quiet
    /\ TickTo(MinOf(Future))

Next == \/ DoWatchWindow \/ DoCoordinateBusy \/ DoCoordinateSeedFails \/ DoCoordinate
        \/ DoLeaderRoutine \/ DoLeaderRoutineFails \/ DoLeaderEquivocates \/ DoImpersonate
        \/ DoFollowerRoutineMessage \/ DoFollowerRoutineTimeout
        \/ DoProcessCoordinationResult \/ DoExecBegin \/ DoValidateFails \/ DoUnstaking \/ DoValidateOk
        \/ DoLoopBeginAttempt \/ DoLoopStartAnnounce \/ DoLoopCollectReady
        \/ DoAttemptOk \/ DoAttemptFails \/ DoAttemptTimeout \/ DoDoneCheckOk \/ DoDoneCheckTimeout
        \/ DoPostSigning \/ DoRelease \/ Tick

Spec == Init /\ [][Next]_vars

\* goroutines are scheduled, the chain keeps producing blocks
Fairness ==
    /\ WF_vars(Tick) /\ WF_vars(DoWatchWindow) /\ WF_vars(DoCoordinateBusy) /\ WF_vars(DoCoordinate)
    /\ WF_vars(DoLeaderRoutine) /\ WF_vars(DoFollowerRoutineMessage) /\ WF_vars(DoFollowerRoutineTimeout)
    /\ WF_vars(DoProcessCoordinationResult) /\ WF_vars(DoExecBegin)
    /\ WF_vars(DoValidateFails \/ DoValidateOk)
    /\ WF_vars(DoLoopBeginAttempt) /\ WF_vars(DoLoopStartAnnounce) /\ WF_vars(DoLoopCollectReady)
    /\ WF_vars(DoAttemptOk) /\ WF_vars(DoAttemptTimeout) /\ WF_vars(DoDoneCheckOk) /\ WF_vars(DoDoneCheckTimeout)
    /\ WF_vars(DoPostSigning) /\ WF_vars(DoRelease)
LiveSpec == Spec /\ Fairness

---------------------------------------------------------------------------
(* Invariants.                                                             *)

CoStates == {"free", "lead", "follow"}
ActStates == {"none", "spawned", "validating", "signing", "post", "ended"}
Stages == {"none", "top", "waitStart", "announcing", "run", "doneWait"}
TypeOK ==
    /\ now \in Nat
    /\ \A m \in Members, w \in Wallets :
        /\ co[m][w].st \in CoStates
        /\ (co[m][w].st = "free") <=> (co[m][w].k = 0)
        /\ disp[m][w].st \in ActStates /\ disp[m][w].stage \in Stages
        /\ (disp[m][w].st = "none") <=> (disp[m][w].k = 0)
        /\ (disp[m][w].stage # "none") => disp[m][w].st = "signing"
        /\ \A k \in Windows :
            /\ cres[m][w][k] \in {"none", "busy", "seederr", "leaderr", "idle", "result"}
            /\ dres[m][w][k] \in {"none", "noop", "ok", "busy"}
    /\ \A x \in spawned : x.m \in MembersOf[x.w]

(* only members of a wallet ever coordinate, dispatch or execute for it     *)
OnlyMembers ==
    /\ \A m \in Members, w \in Wallets :
        m \notin MembersOf[w] => (co[m][w] = FreeCo /\ disp[m][w] = NoAct)
    /\ \A r \in ret : r.m \in MembersOf[r.w]

(* C22 composed: every result of <<w, k>> names the same leader             *)
ResultsAgreeOnLeader ==
    \A r \in ret : r.leader = leader[r.w][r.k]

(* C23 composed: a member coordinates a window at most once, and never a    *)
(* window older than one it already saw                                     *)
WindowOnce ==
    \A x \in spawned : CB(x.k) <= lastWin[x.m] /\ cres[x.m][x.w][x.k] = "none"

(* --- at most one action per wallet across windows ---------------------- *)
(* a window's result for a busy wallet is dropped, not queued: the action   *)
(* of <<m, w>> is the one whose dispatch was accepted, an execute() was     *)
(* entered only for accepted dispatches, and a dropped / no-op / failed     *)
(* window never executes                                                    *)
ExecutedOnlyIfDispatched ==
    /\ \A e \in executed : dres[e.m][e.w][e.k] = "ok"
    /\ \A m \in Members, w \in Wallets : disp[m][w].st # "none" => dres[m][w][disp[m][w].k] = "ok"
DispatchNeedsResult ==
    \A m \in Members, w \in Wallets, k \in Windows : dres[m][w][k] # "none" => cres[m][w][k] = "result"
(* ... exactly when the wallet is busy (C25 BusyIffEntry on every node)     *)
BusyIffOccupied ==
    \A m \in Members, w \in Wallets :
        /\ (lastD[m][w].res = "busy") => lastD[m][w].had
        /\ (lastD[m][w].res = "ok") => ~lastD[m][w].had
(* action property: an action appears only through an accepted dispatch of  *)
(* a result that was still undecided, whatever ended before                 *)
NoQueue ==
    [][\A m \in Members, w \in Wallets :
          (disp[m][w].k # disp'[m][w].k /\ disp'[m][w].st # "none") =>
              /\ disp[m][w].st = "none"
              /\ dres[m][w][disp'[m][w].k] = "none" /\ dres'[m][w][disp'[m][w].k] = "ok"
              /\ \E r \in ret : r \notin ret' /\ r.m = m /\ r.w = w /\ r.k = disp'[m][w].k /\ r.p = disp'[m][w].p]_vars
(* a dropped result stays dropped                                            *)
DroppedStaysDropped ==
    [][\A m \in Members, w \in Wallets, k \in Windows :
          dres[m][w][k] \in {"busy", "noop"} => dres'[m][w][k] = dres[m][w][k]]_vars
(* one step changes the dispatcher state of at most one <<node, wallet>>    *)
WalletsIndependent ==
    [][Cardinality({<<m, w>> \in Members \X Wallets : disp[m][w] # disp'[m][w]}) <= 1]_vars

(* --- every member executes the SAME proposal --------------------------- *)
SameProposal ==
    \A e1, e2 \in executed : (e1.w = e2.w /\ e1.k = e2.k) => e1.p = e2.p
(* whatever the faults: what is executed was broadcast by the window's      *)
(* leader from its own seat, never by an impersonator                       *)
ExecutedWasProposedByLeader ==
    \A e \in executed :
        \E x \in net : /\ x.w = e.w /\ x.msg.k = e.k /\ x.msg.p = e.p
                       /\ x.msg.from = leader[e.w][e.k] /\ x.msg.seat = leader[e.w][e.k]
(* a follower only executes actions the window allows (C22 + C24)           *)
FollowersExecuteOnlyAllowed ==
    \A e \in executed : e.m # leader[e.w][e.k] => e.p.a \in AllowedOf(e.w, e.k) \ {"Noop"}
(* a signature exists only if an honest threshold executed that very        *)
(* proposal (holds under equivocation too)                                  *)
SignatureNeedsQuorumOnSameProposal ==
    \A s \in signedH :
        Cardinality({e.m : e \in {x \in executed : x.w = s.w /\ x.k = s.k /\ x.p = s.p}}) >= Threshold[s.w]

(* --- timing ------------------------------------------------------------ *)
(* every member derives start and expiry from the coordination block, so    *)
(* the attempt windows of the members of a wallet coincide (C11 composed)   *)
WindowsCoincide ==
    \A m \in Members, w \in Wallets :
        LET a == disp[m][w] IN
        a.st # "none" =>
            /\ a.start = StartBlock(a.k) /\ a.expiry = ExpiryOf(a.p.a, a.start)
            /\ \A m2 \in Members : disp[m2][w].k = a.k =>
                   (disp[m2][w].start = a.start /\ (disp[m2][w].p = a.p => disp[m2][w].expiry = a.expiry))
AnnouncementsCoincide ==
    \A x, y \in ann : (x.s = y.s /\ x.n = y.n) =>
        AnnStartOf(SignStartOf(x.s.p.a, StartBlock(x.s.k)), x.n) = AnnStartOf(SignStartOf(y.s.p.a, StartBlock(y.s.k)), y.n)
(* an action's signing never outlives proposal expiry minus margin (C46     *)
(* composed): no readiness announcement after the signing deadline, the     *)
(* loop has returned by then, a signature is agreed before it               *)
SigningWithinDeadline ==
    /\ \A m \in Members, w \in Wallets :
        LET a == disp[m][w] IN
        /\ a.st = "signing" => (a.armed = a.expiry - Margin[DK(a.p.a)] /\ a.lastAnn <= a.armed)
        /\ a.st \in {"signing", "post"} => a.armed + Margin[DK(a.p.a)] <= a.expiry
    /\ \A s \in signedH :
        LET st == StartBlock(s.k)
            e  == ExpiryOf(s.p.a, st) IN
        /\ s.at < DeadlineOf(s.p.a, st, e)
        /\ s.end <= TimeoutOf(SignStartOf(s.p.a, st), s.n)
        /\ s.end + Margin[DK(s.p.a)] <= e
(* nothing of the action happens before its coordination window             *)
NothingBeforeItsWindow ==
    /\ \A m \in Members, w \in Wallets : disp[m][w].st # "none" => now >= CB(disp[m][w].k)
    /\ \A x \in ann : ~x.dead => now >= AnnStartOf(SignStartOf(x.s.p.a, StartBlock(x.s.k)), x.n)
(* constant level (C46): the post-signing step fits between the signing     *)
(* deadline and the expiry                                                  *)
PostStepBounded ==
    \A a \in SignableActions :
        /\ PostKind[DK(a)] = "broadcast" => DL!PostBlocks(DK(a)) <= Margin[DK(a)]
        /\ PostKind[DK(a)] = "claim" => ClaimEndMargin <= Margin[DK(a)]
(* the next window starts after the previous one's active phase: an executor *)
(* is busy at a window only if a member is late                             *)
WindowsDisjoint == ActiveBlocks < F /\ DurationBlocks < F

(* C24 composed: a follower's result never carries an idleness fault, and   *)
(* with an honest leader no faults at all                                   *)
FaultsSound ==
    \A r \in ret :
        /\ \A i \in DOMAIN r.faults : r.faults[i].type \in {"Impersonation", "Mistake"}
        /\ \A i \in DOMAIN r.faults : r.faults[i].type = "Mistake" => r.faults[i].culprit = r.leader
        /\ \A i \in DOMAIN r.faults : r.faults[i].type = "Impersonation" => r.faults[i].culprit # r.leader
        /\ LeaderFaults = {} => r.faults = <<>>

---------------------------------------------------------------------------
(* Hazard grains (negative configurations TLC must refute):                *)
(*   LeaderFaults containing "equivocate"  SameProposal fails (while       *)
(*                   SignatureNeedsQuorumOnSameProposal still holds)       *)
(*   Hazard = "queue"         the result of a busy wallet stays queued and *)
(*                   is dispatched once the wallet is free: NoQueue and    *)
(*                   DroppedStaysDropped fail                              *)
(*   Hazard = "startFromNow"  the start block is taken from the block at   *)
(*                   which the member happens to process the result:       *)
(*                   WindowsCoincide fails                                 *)
(* Liveness (LiveSpec).                                                    *)

(* a wallet released after the action's end can take the next window        *)
Released == \A m \in Members, w \in Wallets : (disp[m][w].st = "ended") ~> (disp[m][w].st = "none")
(* every dispatched action ends: the signing loop is bounded by its limit   *)
EveryActionEnds == \A m \in Members, w \in Wallets : (disp[m][w].st # "none") ~> (disp[m][w].st = "none")
(* a valid proposal of the leader leads to dispatch on every member that    *)
(* is not busy (a busy one drops it): needs timely delivery (no Loss, no    *)
(* Offline, Lateness = FALSE)                                               *)
ValidProposed(w, k) ==
    \E x \in net : x.w = w /\ x.msg.k = k /\ x.msg.from = leader[w][k] /\ x.msg.seat = leader[w][k]
                   /\ x.msg.p.a \in AllowedOf(w, k) \ {"Noop"}
ProposalLeadsToDispatch ==
    \A w \in Wallets, k \in Windows :
        ValidProposed(w, k) ~> (\A m \in MembersOf[w] : dres[m][w][k] \in {"ok", "busy"})
=============================================================================
