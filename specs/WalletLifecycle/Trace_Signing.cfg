SPECIFICATION TSpec
CONSTANTS
  Members = {1, 2, 3}
  Wallets = {"w1", "w2"}
  MembersOf <- TMembersOf
  Threshold <- TThreshold2
  Windows <- TWindows
  LeaderCandidates <- TLeaderAny
  HeartbeatCandidates <- THbAny
  Proposable = {"Heartbeat", "Redemption", "DepositSweep"}
  SignableActions = {"Heartbeat"}
  LeaderFaults = {"silent", "disallowed"}
  FaultyWallets = {"w1", "w2"}
  Hazard = "none"
  Loss = {"w1", "w2"}
  Offline = TRUE
  SeedFailures = FALSE
  Slow = {"w1", "w2"}
  Lateness = TRUE
  AttemptsLimit <- C_AttemptsLimit
  F <- C_F
  ActiveBlocks <- C_ActiveBlocks
  DurationBlocks <- C_DurationBlocks
  Actions <- C_Actions
  Validity <- C_Validity
  Margin <- C_Margin
  StartOffset <- C_StartOffset
  PostKind <- C_PostKind
  BroadcastSeconds <- C_BroadcastSeconds
  ClaimEndMargin <- C_ClaimEndMargin
  AnnounceDelay <- C_AnnounceDelay
  AnnounceActive <- C_AnnounceActive
  ProtocolBlocks <- C_ProtocolBlocks
  CoolDown <- C_CoolDown
  AttemptMaxBlocks <- C_AttemptMaxBlocks
  BlockSeconds = 12
CONSTRAINT Hwm
INVARIANTS TypeOK OnlyMembers ResultsAgreeOnLeader WindowOnce ExecutedOnlyIfDispatched DispatchNeedsResult BusyIffOccupied SameProposal ExecutedWasProposedByLeader FollowersExecuteOnlyAllowed SignatureNeedsQuorumOnSameProposal WindowsCoincide AnnouncementsCoincide SigningWithinDeadline NothingBeforeItsWindow FaultsSound
PROPERTIES TNoQueue TDroppedStaysDropped TWalletsIndependent
POSTCONDITION Accepted
