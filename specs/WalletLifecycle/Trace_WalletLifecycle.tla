---------------------- MODULE Trace_WalletLifecycle ----------------------
(* Trace validation of real end-to-end runs (three real nodes, two wallets, *)
(* several coordination windows) against the composition WalletLifecycle.   *)
(* Harness: /verif/harness/pkg/tbtc/x_lifecycle_test.go.  The driver acts   *)
(* only when every goroutine of the system is blocked, so the clock, the    *)
(* network and the parked chain calls are the only sources of               *)
(* nondeterminism besides goroutine scheduling inside a burst of activity.  *)
(*                                                                          *)
(* Events (seq = position in the file = order at the linearization points): *)
(*  Reset                       a new world                                 *)
(*  Seed(w,k,leader,hb,checklist) what the REAL getSeed / getLeader /       *)
(*                              getActionsChecklist give for the window     *)
(*  Block(b)                    the driver moved the clock to block b       *)
(*  WindowStart(m,k)            the coordination block of window k is sent  *)
(*                              to the block watcher of node m              *)
(*  CoordStart(m,w,k)           executeCoordinationProcedure entered        *)
(*  Generate(m,w,k,checklist)   the leader's generator is called            *)
(*  Propose(m,w,k,seat,a,v)     the leader's Send on the coordination       *)
(*                              channel                                     *)
(*  Recv(m,w,from,seat,k,a,v)   the driver hands a coordination message to  *)
(*                              the handler of follower m                   *)
(*  CoordEnd(m,w,k,ok,...)      executeCoordinationProcedure returned       *)
(*  ProcBegin / ProcEnd(m,w,k,res) processCoordinationResult entered /      *)
(*                              returned; res = ok | busy | noop            *)
(*  Dispatch(m,w,k)             hook tbtc.dispatch.beforeInsert: inside the *)
(*                              critical section of dispatch, wallet free   *)
(*  ExecBegin(m,w,k,a,v)        execute() of the REAL action reached its    *)
(*                              chain validation call                       *)
(*  ExecValid(m,w,k,ok)         ... which is about to return ok / an error  *)
(*  Wait(m,b,async)             the node asked its block counter for block  *)
(*                              b; async = from the goroutine               *)
(*                              withCancelOnBlock starts (a context armed   *)
(*                              to end on b), otherwise the signing loop    *)
(*                              waiting for an announcement start block     *)
(*  AnnSend(m,w,seat,n)         the announcer's Send of attempt n           *)
(*  AnnRecv(m,w,from,n)         an announcement handed to member m          *)
(*  AttemptRun(m,w,n,...,ok)    (instrumented action) the attempt function  *)
(*  SignEnd(m,w,ok,end,timeout) (instrumented action) the loop returned     *)
(*  PostEnd(m,w)                (instrumented action) execute() returns     *)
(*  Quiet(entry)                nothing runs; entry = wd.actions of every   *)
(*                              node read under the dispatcher's mutex      *)
(* Silent steps inferred by TLC: the loop's bookkeeping at the top of its   *)
(* body (give up, skip an attempt whose window passed), the end of an       *)
(* announcement window, the done check's timeout and the deferred delete.   *)
EXTENDS WalletLifecycle, TraceKit, XWLConsts

VARIABLES l, heard    \* heard[m][w]: announcements of the current attempt handed to m
tvars == <<vars, l, heard>>

NoHeard == [m \in Members |-> [w \in Wallets |-> {}]]
TInit == Init /\ l = 1 /\ heard = NoHeard /\ HwmInit

E == Trace[l]
IsEvent(e) == l <= Len(Trace) /\ Trace[l].event = e /\ l' = l + 1
Stay == UNCHANGED vars

TReset ==
    /\ IsEvent("Reset")
    /\ now' = CB(FirstWindow) - 1
    /\ lastWin' = [m \in Members |-> 0]
    /\ spawned' = {}
    /\ co' = [m \in Members |-> [w \in Wallets |-> FreeCo]]
    /\ leader' = [w \in Wallets |-> [k \in Windows |-> 0]]
    /\ hb' = [w \in Wallets |-> [k \in Windows |-> "?"]]
    /\ net' = {} /\ ret' = {}
    /\ disp' = [m \in Members |-> [w \in Wallets |-> NoAct]]
    /\ cres' = [m \in Members |-> [w \in Wallets |-> [k \in Windows |-> "none"]]]
    /\ dres' = [m \in Members |-> [w \in Wallets |-> [k \in Windows |-> "none"]]]
    /\ ann' = {} /\ sel' = <<>> /\ dones' = {}
    /\ executed' = {} /\ signedH' = {}
    /\ lastD' = [m \in Members |-> [w \in Wallets |-> [k |-> 0, res |-> "none", had |-> FALSE]]]
    /\ heard' = NoHeard

HbStr(b) == IF b THEN "T" ELSE "F"

\* the real functions' outcome binds the hidden choices; the checklist they
\* give is the specification's (C22)
TSeed ==
    /\ IsEvent("Seed")
    /\ E.w \in Wallets /\ E.k \in Windows /\ E.leader \in MembersOf[E.w]
    /\ leader[E.w][E.k] \in {0, E.leader} /\ hb[E.w][E.k] \in {"?", HbStr(E.hb)}
    /\ leader' = [leader EXCEPT ![E.w][E.k] = E.leader]
    /\ hb' = [hb EXCEPT ![E.w][E.k] = HbStr(E.hb)]
    /\ E.checklist = CO!Checklist(CO!Index(CB(E.k)), E.hb)
    /\ UNCHANGED <<now, lastWin, spawned, co, net, ret, disp, cres, dres, ann, sel, dones, executed, signedH, lastD, heard>>

TBlock == IsEvent("Block") /\ TickTo(E.b) /\ UNCHANGED heard

TWindowStart == IsEvent("WindowStart") /\ WatchWindow(E.m, E.k) /\ UNCHANGED heard

TCoordStart ==
    /\ IsEvent("CoordStart")
    /\ \/ Coordinate(E.m, E.w, E.k, leader[E.w][E.k], hb[E.w][E.k])
       \/ CoordinateBusy(E.m, E.w, E.k)
    /\ UNCHANGED heard

TGenerate ==
    /\ IsEvent("Generate")
    /\ co[E.m][E.w].st = "lead" /\ co[E.m][E.w].k = E.k
    /\ E.checklist = ChecklistOf(E.w, E.k)
    /\ Stay /\ UNCHANGED heard

TPropose ==
    /\ IsEvent("Propose")
    /\ co[E.m][E.w].k = E.k /\ E.seat = E.m /\ E.v = 1
    /\ LeaderRoutine(E.m, E.w, E.a)
    /\ UNCHANGED heard

TRecv ==
    /\ IsEvent("Recv")
    /\ LET x == [w |-> E.w, msg |-> Msg(E.k, E.from, E.seat, Prop(E.a, E.v))] IN
         IF co[E.m][E.w].st = "follow" /\ x \notin co[E.m][E.w].seen
            THEN FollowerRoutineMessage(E.m, E.w, x)
            ELSE Stay       \* nobody is listening any more / a repeated delivery
    /\ UNCHANGED heard

FaultSeq(fs) == [i \in 1..Len(fs) |-> [culprit |-> fs[i].culprit, type |-> fs[i].type]]

TCoordEnd ==
    /\ IsEvent("CoordEnd")
    /\ IF E.ok
          THEN /\ Result(E.m, E.w, E.k, Prop(E.a, E.v), E.leader, FaultSeq(E.faults)) \in ret
               /\ Stay
          ELSE \/ /\ co[E.m][E.w].st = "follow" /\ co[E.m][E.w].k = E.k
                  /\ FollowerRoutineTimeout(E.m, E.w)
               \/ /\ cres[E.m][E.w][E.k] \in {"busy", "seederr", "leaderr"}
                  /\ Stay
    /\ UNCHANGED heard

ResultsOf(m, w, k) == {r \in ret : r.m = m /\ r.w = w /\ r.k = k}

TProcBegin == IsEvent("ProcBegin") /\ ResultsOf(E.m, E.w, E.k) # {} /\ Stay /\ UNCHANGED heard

\* the hook inside dispatch's critical section: the wallet was free
TDispatch ==
    /\ IsEvent("Dispatch")
    /\ \E r \in ResultsOf(E.m, E.w, E.k) : ProcessCoordinationResult(r)
    /\ dres'[E.m][E.w][E.k] = "ok"
    /\ UNCHANGED heard

TProcEnd ==
    /\ IsEvent("ProcEnd")
    /\ IF E.res = "ok"
          THEN dres[E.m][E.w][E.k] = "ok" /\ Stay
          ELSE /\ \E r \in ResultsOf(E.m, E.w, E.k) : ProcessCoordinationResult(r)
               /\ dres'[E.m][E.w][E.k] = E.res
    /\ UNCHANGED heard

TExecBegin ==
    /\ IsEvent("ExecBegin")
    /\ disp[E.m][E.w].k = E.k /\ disp[E.m][E.w].p = Prop(E.a, E.v)
    /\ ExecBegin(E.m, E.w)
    /\ UNCHANGED heard

TExecValid ==
    /\ IsEvent("ExecValid")
    /\ disp[E.m][E.w].k = E.k
    /\ IF E.ok THEN ValidateOk(E.m, E.w) ELSE ValidateFails(E.m, E.w)
    /\ UNCHANGED heard

\* blocks a context of node m may be armed to end on
AsyncExpected(m) ==
    {ActiveEnd(k) : k \in Windows} \cup
    UNION {LET a == disp[m][w] IN
           IF a.st \in {"signing", "post", "ended"} /\ a.armed # 0
              THEN {a.armed, LoopEndOf(SS(a))} \cup {AnnEndOf(SS(a), j) : j \in 1..a.att} \cup {TimeoutOf(SS(a), j) : j \in 1..a.att}
              ELSE {} : w \in Wallets}

TWaitAsync ==
    /\ IsEvent("Wait") /\ E.async
    /\ E.b \in AsyncExpected(E.m)
    /\ Stay /\ UNCHANGED heard

\* the loop asks for the announcement start block of the attempt it begins
TWaitSync ==
    /\ IsEvent("Wait") /\ ~E.async
    /\ \E w \in Wallets :
         /\ LoopBeginAttempt(E.m, w)
         /\ disp'[E.m][w].stage = "waitStart"
         /\ AnnStartOf(SS(disp'[E.m][w]), disp'[E.m][w].att) = E.b
         /\ heard' = [heard EXCEPT ![E.m][w] = {}]

TAnnSend ==
    /\ IsEvent("AnnSend")
    /\ E.seat = E.m /\ disp[E.m][E.w].att = E.n
    /\ LoopStartAnnounce(E.m, E.w)
    /\ UNCHANGED heard

TAnnRecv ==
    /\ IsEvent("AnnRecv")
    /\ E.seat = E.from
    /\ IF disp[E.m][E.w].stage = "announcing" /\ disp[E.m][E.w].att = E.n
          THEN heard' = [heard EXCEPT ![E.m][E.w] = @ \cup {E.from}]
          ELSE UNCHANGED heard     \* an announcement of another attempt: the announcer ignores it
    /\ Stay

\* (instrumented action) the attempt function ran
TAttemptRun ==
    /\ IsEvent("AttemptRun")
    /\ LET a == disp[E.m][E.w] IN
         /\ a.att = E.n /\ a.stage = "run"
         /\ E.start = AnnEndOf(SS(a), a.att) /\ E.timeout = TimeoutOf(SS(a), a.att)
         /\ {E.excluded[i] : i \in DOMAIN E.excluded} = MembersOf[E.w] \ a.I
         /\ IF E.ok THEN AttemptOk(E.m, E.w) /\ E["end"] = now
            ELSE IF E.why = "timeout" THEN AttemptTimeout(E.m, E.w)
            ELSE AttemptFails(E.m, E.w)
    /\ UNCHANGED heard

TSignEnd ==
    /\ IsEvent("SignEnd")
    /\ IF E.ok
          THEN /\ DoneCheckOk(E.m, E.w)
               /\ E.timeout = TimeoutOf(SS(disp[E.m][E.w]), disp[E.m][E.w].att)
               /\ \E s \in signedH' \ signedH : s["end"] = E["end"]
               /\ {E.active[i] : i \in DOMAIN E.active} = disp[E.m][E.w].R
          ELSE disp[E.m][E.w].st = "ended" /\ Stay
    /\ UNCHANGED heard

TPostEnd == IsEvent("PostEnd") /\ PostSigning(E.m, E.w) /\ UNCHANGED heard

EntryName(a) == IF a.st = "none" THEN "none" ELSE a.p.a
MKey(m) == ToString(m)
TQuiet ==
    /\ IsEvent("Quiet")
    /\ spawned = {} /\ ret = {}
    /\ \A m \in Members, w \in Wallets :
        /\ co[m][w].st # "lead"
        /\ disp[m][w].st \notin {"spawned", "ended", "post"} /\ disp[m][w].stage # "top"
        /\ E.entry[MKey(m)][w] = EntryName(disp[m][w])
    /\ Stay /\ UNCHANGED heard

\* silent steps (see the header)
Silent ==
    /\ l' = l /\ UNCHANGED heard
    /\ \E m \in Members, w \in Wallets :
        \/ LoopBeginAttempt(m, w) /\ disp'[m][w].stage # "waitStart"
        \/ \E I \in SUBSET MembersOf[w] : LoopCollectReady(m, w, {m} \cup heard[m][w], I)
        \/ DoneCheckTimeout(m, w)
        \/ Release(m, w)

TNext == \/ TReset \/ TSeed \/ TBlock \/ TWindowStart \/ TCoordStart \/ TGenerate \/ TPropose \/ TRecv
         \/ TCoordEnd \/ TProcBegin \/ TDispatch \/ TProcEnd \/ TExecBegin \/ TExecValid
         \/ TWaitAsync \/ TWaitSync \/ TAnnSend \/ TAnnRecv \/ TAttemptRun \/ TSignEnd \/ TPostEnd
         \/ TQuiet \/ Silent
TSpec == TInit /\ [][TNext]_tvars

\* constants of the harness's world
TMembersOf == [w \in {"w1", "w2"} |-> IF w = "w1" THEN {1, 2, 3} ELSE {1, 2}]
TThreshold == [w \in {"w1", "w2"} |-> 3]      \* GroupParameters.HonestThreshold of the nodes
TThreshold2 == [w \in {"w1", "w2"} |-> 2]     \* TestVerif_XWL_Signing
TWindows == 1..24
TLeaderAny(w, k) == MembersOf[w]
THbAny(w, k) == BOOLEAN

\* the action properties of the composition, on every step but Reset
NotReset == ~(l <= Len(Trace) /\ Trace[l].event = "Reset" /\ l' = l + 1)
TNoQueue ==
    [][NotReset => \A m \in Members, w \in Wallets :
          (disp[m][w].k # disp'[m][w].k /\ disp'[m][w].st # "none") =>
              /\ disp[m][w].st = "none"
              /\ dres[m][w][disp'[m][w].k] = "none" /\ dres'[m][w][disp'[m][w].k] = "ok"]_tvars
TDroppedStaysDropped ==
    [][NotReset => \A m \in Members, w \in Wallets, k \in Windows :
          dres[m][w][k] \in {"busy", "noop"} => dres'[m][w][k] = dres[m][w][k]]_tvars
TWalletsIndependent ==
    [][NotReset => Cardinality({x \in Members \X Wallets : disp[x[1]][x[2]] # disp'[x[1]][x[2]]}) <= 1]_tvars

Hwm == HwmConstraint(l)
Accepted == HwmAccepted
=============================================================================
