SPECIFICATION Spec
CONSTANTS
  Members <- Members2
  Wallets = {"w1"}
  MembersOf <- MembersOfOne2
  Threshold <- ThresholdOne2
  Windows = {1, 2}
  LeaderCandidates <- Leader2
  HeartbeatCandidates <- HbFirst
  Proposable = {"Heartbeat"}
  SignableActions = {"Heartbeat"}
  LeaderFaults = {"silent", "disallowed"}
  FaultyWallets = {"w1"}
  Hazard = "none"
  Loss = {}
  Offline = FALSE
  SeedFailures = FALSE
  Slow = {}
  Lateness = TRUE
  AttemptsLimit = 2
  F <- C_F
  ActiveBlocks <- C_ActiveBlocks
  DurationBlocks <- C_DurationBlocks
  Actions <- C_Actions
  Validity <- C_Validity
  Margin <- C_Margin
  StartOffset <- C_StartOffset
  PostKind <- C_PostKind
  BroadcastSeconds <- C_BroadcastSeconds
  ClaimEndMargin <- C_ClaimEndMargin
  AnnounceDelay <- C_AnnounceDelay
  AnnounceActive <- C_AnnounceActive
  ProtocolBlocks <- C_ProtocolBlocks
  CoolDown <- C_CoolDown
  AttemptMaxBlocks <- C_AttemptMaxBlocks
  BlockSeconds = 12
INVARIANTS TypeOK OnlyMembers ResultsAgreeOnLeader WindowOnce ExecutedOnlyIfDispatched DispatchNeedsResult BusyIffOccupied SameProposal ExecutedWasProposedByLeader FollowersExecuteOnlyAllowed SignatureNeedsQuorumOnSameProposal WindowsCoincide AnnouncementsCoincide SigningWithinDeadline NothingBeforeItsWindow PostStepBounded WindowsDisjoint FaultsSound
PROPERTIES NoQueue DroppedStaysDropped WalletsIndependent
