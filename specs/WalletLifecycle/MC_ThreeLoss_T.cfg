SPECIFICATION Spec
CONSTANTS
  Members <- Members3
  Wallets = {"w1"}
  MembersOf <- MembersOfOne3
  Threshold <- ThresholdOne3
  Windows = {1}
  LeaderCandidates <- Leader3
  HeartbeatCandidates <- HbW1
  Proposable = {"Heartbeat"}
  SignableActions = {"Heartbeat"}
  LeaderFaults = {"disallowed"}
  FaultyWallets = {"w1"}
  Hazard = "none"
  Loss = {"w1"}
  Offline = FALSE
  SeedFailures = FALSE
  Slow = {}
  Lateness = FALSE
  AttemptsLimit = 2
  F <- C_F
  ActiveBlocks <- C_ActiveBlocks
  DurationBlocks <- C_DurationBlocks
  Actions <- C_Actions
  Validity <- C_Validity
  Margin <- C_Margin
  StartOffset <- C_StartOffset
  PostKind <- C_PostKind
  BroadcastSeconds <- C_BroadcastSeconds
  ClaimEndMargin <- C_ClaimEndMargin
  AnnounceDelay <- C_AnnounceDelay
  AnnounceActive <- C_AnnounceActive
  ProtocolBlocks <- C_ProtocolBlocks
  CoolDown <- C_CoolDown
  AttemptMaxBlocks <- C_AttemptMaxBlocks
  BlockSeconds = 12
INVARIANTS TypeOK OnlyMembers ResultsAgreeOnLeader WindowOnce ExecutedOnlyIfDispatched DispatchNeedsResult BusyIffOccupied SameProposal ExecutedWasProposedByLeader FollowersExecuteOnlyAllowed SignatureNeedsQuorumOnSameProposal WindowsCoincide AnnouncementsCoincide SigningWithinDeadline NothingBeforeItsWindow PostStepBounded WindowsDisjoint FaultsSound
PROPERTIES NoQueue DroppedStaysDropped WalletsIndependent
