------------------------- MODULE MC_WalletLifecycle -------------------------
(* Constants of the model-checking configurations of WalletLifecycle.       *)
EXTENDS WalletLifecycle, XWLConsts

\* --- two members, second wallet held by member 2 alone
Members2 == {1, 2}
MembersOf2 == [w \in {"w1", "w2"} |-> IF w = "w1" THEN {1, 2} ELSE {2}]
Threshold2 == [w \in {"w1", "w2"} |-> IF w = "w1" THEN 2 ELSE 1]
\* leader of w1 alternates, w2 is led by its only member
Leader2(w, k) == IF w = "w1" THEN {IF k % 2 = 1 THEN 1 ELSE 2} ELSE {2}

\* --- three members, second wallet held by members 2 and 3
Members3 == {1, 2, 3}
MembersOf3 == [w \in {"w1", "w2"} |-> IF w = "w1" THEN {1, 2, 3} ELSE {2, 3}]
Threshold3 == [w \in {"w1", "w2"} |-> 2]
Leader3(w, k) == IF w = "w1" THEN {(k % 3) + 1} ELSE {2 + (k % 2)}
MembersOf3b == [w \in {"w1", "w2"} |-> IF w = "w1" THEN {1, 2, 3} ELSE {3}]
Threshold3b == [w \in {"w1", "w2"} |-> IF w = "w1" THEN 2 ELSE 1]
Leader3b(w, k) == IF w = "w1" THEN {(k % 3) + 1} ELSE {3}
LeaderAny(w, k) == MembersOf[w]

\* heartbeat is drawn for w1 in the first window only / in every window / never
HbFirst(w, k) == {w = "w1" /\ k = FirstWindow}
HbW1(w, k) == {w = "w1"}
HbAny(w, k) == BOOLEAN

One == {"w1"}
MembersOfOne3 == [w \in {"w1"} |-> {1, 2, 3}]
ThresholdOne3 == [w \in {"w1"} |-> 2]
MembersOfOne2 == [w \in {"w1"} |-> {1, 2}]
ThresholdOne2 == [w \in {"w1"} |-> 2]
=============================================================================
