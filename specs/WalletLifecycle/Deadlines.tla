----------------------------- MODULE Deadlines -----------------------------
(***************************************************************************)
(* Timeline of a wallet action of pkg/tbtc (deposit sweep, redemption,     *)
(* moving funds, moved funds sweep, heartbeat).                            *)
(*                                                                         *)
(*   node.go  processCoordinationResult: start = coordination window end,  *)
(*            expiry = start + proposal.ValidityBlocks()                   *)
(*   <action>.execute: after validation, signing is requested with         *)
(*            startBlock = start (+ movingFundsCommitmentConfirmation-     *)
(*            Blocks for moving funds) under a context that                *)
(*            withCancelOnBlock cancels at expiry - safety margin          *)
(*            (heartbeat: expiry - heartbeatInactivityClaimValidityBlocks) *)
(*   signing.go signingExecutor.sign: the retry loop for ONE message may   *)
(*            run until startBlock + signingAttemptsLimit *                *)
(*            signingAttemptMaximumBlocks()                                *)
(*   signing_loop.go signingRetryLoop.start: attempt k occupies the blocks *)
(*            [s + (k-1)*M, s + k*M): announcement delay, announcement,    *)
(*            protocol (timeout block), cool down                          *)
(*   wallet.go broadcastTransaction: after signing, broadcasting is        *)
(*            retried for at most broadcastTimeout (wall clock) plus one   *)
(*            check delay                                                  *)
(*   heartbeat.go: after a failed heartbeat the inactivity claim runs      *)
(*            under a context cancelled at expiry - heartbeatTimeout-      *)
(*            SafetyMarginBlocks                                           *)
(*                                                                         *)
(* All numbers are constants EXTRACTED FROM THE BUILT CODE by the harness  *)
(* (TestVerif_C46_Constants); the engine writes them into                  *)
(* DeadlinesConsts.tla.  The machine below walks one action through its    *)
(* phases with worst-case timing; the property is stated as invariants.    *)
(***************************************************************************)
EXTENDS Integers, Sequences, FiniteSets

CONSTANTS Actions,          \* action type names
          Validity,         \* [Actions -> blocks]: proposal.ValidityBlocks()
          Margin,           \* [Actions -> blocks]: signing context ends at expiry - Margin
          StartOffset,      \* [Actions -> blocks]: signing start block - action start block
          PostKind,         \* [Actions -> {"broadcast", "claim"}]
          BroadcastSeconds, \* [Actions -> seconds]: broadcast timeout + one check delay
          ClaimEndMargin,   \* heartbeat: claim context ends at expiry - ClaimEndMargin
          AttemptsLimit,    \* signingAttemptsLimit
          AnnounceDelay, AnnounceActive, ProtocolBlocks, CoolDown,  \* signing_loop.go
          AttemptMaxBlocks, \* signingAttemptMaximumBlocks() as returned by the code
          BlockSeconds,     \* nominal host chain block time (12 s)
          Starts,           \* set of action start blocks to explore
          Interlude,        \* signingBatchInterludeBlocks: message k+1 starts Interlude after message k ended
          MaxMessages,      \* messages of a signing batch explored
          LoopBoundToCaller \* TRUE: the retry loop's context derives from the caller's signing
                            \* context (signing.go: withCancelOnBlock(ctx, loopTimeoutBlock));
                            \* FALSE: hazard variant, the loop is bounded by its own timeout only

VARIABLES act, start, phase, now, attempt,
          msg,      \* index of the message of the batch being signed
          mstart,   \* start block handed to signingExecutor.sign for that message
          lastAnn   \* block of the latest readiness announcement (attempt start)

vars == <<act, start, phase, now, attempt, msg, mstart, lastAnn>>

Expiry(a, s)          == s + Validity[a]
SigningStart(a, s)    == s + StartOffset[a]
SigningDeadline(a, s) == Expiry(a, s) - Margin[a]
LoopBlocks            == AttemptsLimit * AttemptMaxBlocks
AttemptStart(a, s, k) == SigningStart(a, s) + (k - 1) * AttemptMaxBlocks
CeilDiv(x, y)         == (x + y - 1) \div y
PostBlocks(a)         == CeilDiv(BroadcastSeconds[a], BlockSeconds)

Init ==
    /\ act \in Actions /\ start \in Starts
    /\ phase = "proposed" /\ now = start /\ attempt = 0
    /\ msg = 0 /\ mstart = 0 /\ lastAnn = 0

Deadline == SigningDeadline(act, start)

(* signing_loop.go: attempt k of a message whose loop starts at ms is       *)
(* announced at ms + (k-1) * AttemptMaxBlocks + AnnounceDelay               *)
MAnnStart(ms, k) == ms + (k - 1) * AttemptMaxBlocks + AnnounceDelay
(* signing.go: loopTimeoutBlock *)
MLoopEnd(ms) == ms + LoopBlocks
(* the block at which the loop context of the message ends: its own timeout *)
(* or, if the loop is bound to the caller's context, the signing deadline   *)
LoopLimit(ms) == IF LoopBoundToCaller /\ Deadline < MLoopEnd(ms) THEN Deadline ELSE MLoopEnd(ms)
GiveUpPhase(ms) == IF LoopBoundToCaller /\ Deadline < MLoopEnd(ms) THEN "expired" ELSE "failed"

(* the loop of message ms proceeds to attempt k: it waits for the           *)
(* announcement start block; if its context ends first, sign returns        *)
Proceed(ms, k) ==
    IF MAnnStart(ms, k) <= LoopLimit(ms)
       THEN /\ attempt' = k /\ now' = MAnnStart(ms, k) /\ lastAnn' = MAnnStart(ms, k)
            /\ phase' = "signing"
       ELSE /\ now' = LoopLimit(ms) /\ phase' = GiveUpPhase(ms)
            /\ UNCHANGED <<attempt, lastAnn>>

(* execute reaches signTransaction / signingExecutor.sign: the signing     *)
(* context is armed and the executor is given its start block              *)
BeginSigning ==
    /\ phase = "proposed"
    /\ msg' = 1 /\ mstart' = SigningStart(act, start)
    /\ Proceed(SigningStart(act, start), 1)
    /\ UNCHANGED <<act, start>>

(* signingRetryLoop: attempt `attempt` fails (announcement failed, members  *)
(* not ready, protocol error or done check timed out); the next attempt     *)
(* starts AttemptMaxBlocks later unless the loop's context ends first       *)
AttemptFails ==
    /\ phase = "signing" /\ attempt < AttemptsLimit
    /\ Proceed(mstart, attempt + 1)
    /\ UNCHANGED <<act, start, msg, mstart>>

(* the last attempt of the loop fails: the loop waits for an attempt that   *)
(* never starts; sign returns an error when the loop context ends           *)
LoopExhausted ==
    /\ phase = "signing" /\ attempt = AttemptsLimit
    /\ Proceed(mstart, attempt + 1)
    /\ UNCHANGED <<act, start, msg, mstart>>

(* the attempt succeeds -- unless the loop's context ends first; the latest *)
(* block at which members agree on the signature is the attempt's timeout   *)
(* block                                                                    *)
AttemptSucceeds ==
    /\ phase = "signing"
    /\ \E endOffset \in {AnnounceActive + 1, AnnounceActive + ProtocolBlocks} :
          LET e == lastAnn + endOffset IN
          IF e <= LoopLimit(mstart)
             THEN now' = e /\ phase' = "msg-signed"
             ELSE now' = LoopLimit(mstart) /\ phase' = GiveUpPhase(mstart)
    /\ UNCHANGED <<act, start, attempt, msg, mstart, lastAnn>>

(* signBatch: the next message is signed starting Interlude blocks after    *)
(* the previous one ended                                                   *)
NextMessage ==
    /\ phase = "msg-signed" /\ msg < MaxMessages
    /\ msg' = msg + 1 /\ mstart' = now + Interlude
    /\ Proceed(now + Interlude, 1)
    /\ UNCHANGED <<act, start>>

(* the batch is complete *)
BatchSigned ==
    /\ phase = "msg-signed"
    /\ phase' = "signed"
    /\ UNCHANGED <<act, start, now, attempt, msg, mstart, lastAnn>>

(* a long batch may complete as late as the deadline itself *)
SignedAtDeadline ==
    /\ phase = "msg-signed"
    /\ now' = Deadline /\ now' >= now
    /\ phase' = "signed"
    /\ UNCHANGED <<act, start, attempt, msg, mstart, lastAnn>>

(* post-signing step, worst case *)
PostSigning ==
    /\ phase = "signed"
    /\ phase' = "finished"
    /\ now' = IF PostKind[act] = "broadcast"
                 THEN now + PostBlocks(act)
                 ELSE IF now > Expiry(act, start) - ClaimEndMargin THEN now
                      ELSE Expiry(act, start) - ClaimEndMargin
    /\ UNCHANGED <<act, start, attempt, msg, mstart, lastAnn>>

Next == BeginSigning \/ AttemptFails \/ LoopExhausted \/ AttemptSucceeds \/ NextMessage \/ BatchSigned
        \/ SignedAtDeadline \/ PostSigning

Spec == Init /\ [][Next]_vars

---------------------------------------------------------------------------
(* Property C46.                                                           *)

TypeOK ==
    /\ act \in Actions /\ start \in Starts
    /\ phase \in {"proposed", "signing", "msg-signed", "signed", "failed", "expired", "finished"}
    /\ attempt \in 0..AttemptsLimit
    /\ msg \in 0..MaxMessages

(* the code computes expiry - margin on unsigned integers *)
NoUnderflow == Expiry(act, start) >= Margin[act] /\ Expiry(act, start) >= ClaimEndMargin

(* the signing phase starts no earlier than the action start *)
SigningStartsAfterStart ==
    /\ SigningStart(act, start) >= start
    /\ (phase # "proposed" => now >= start)

(* ... ends at least the safety margin before the proposal expires *)
SigningEndsBeforeMargin ==
    /\ SigningDeadline(act, start) + Margin[act] <= Expiry(act, start)
    /\ Margin[act] > 0
    /\ (phase \in {"signed", "msg-signed"} => now + Margin[act] <= Expiry(act, start))

(* ... and is long enough for one complete retry loop of a single message: *)
(* no attempt of the loop is cut short by the signing deadline             *)
LoopFits ==
    /\ SigningDeadline(act, start) - SigningStart(act, start) >= LoopBlocks
    /\ (msg = 1 => phase # "expired")

(* once the signing deadline context is cancelled no attempt is started or  *)
(* announced any more -- for every message of a batch, including a later    *)
(* message that starts less than one loop before the deadline               *)
NoAnnouncementAfterDeadline == lastAnn <= SigningDeadline(act, start)

(* ... and sign / signBatch has returned: at the deadline at the latest     *)
SignReturnsByDeadline ==
    /\ (phase \in {"expired", "failed", "msg-signed", "signed"} => now <= SigningDeadline(act, start))
    /\ (phase = "expired" => now = SigningDeadline(act, start))

(* the attempt windows of the loop really are AttemptMaxBlocks long *)
AttemptWindow ==
    AttemptMaxBlocks = AnnounceDelay + AnnounceActive + ProtocolBlocks + CoolDown

(* post-signing steps end before expiry at the nominal block time *)
PostEndsBeforeExpiry ==
    /\ (phase = "finished" => now <= Expiry(act, start))
    /\ (PostKind[act] = "broadcast" => PostBlocks(act) <= Margin[act])
    /\ (PostKind[act] = "claim" => ClaimEndMargin <= Margin[act])
=============================================================================
