SPECIFICATION Spec
CONSTANTS
  Contracts = {"RandomBeacon", "TokenStaking", "WalletRegistry", "Bridge"}
INVARIANTS Emit
