SPECIFICATION Spec
CONSTANTS
  Contracts = {"RandomBeacon", "TokenStaking", "WalletRegistry", "Bridge", "MaintainerProxy", "LightRelay", "WalletProposalValidator"}
INVARIANTS ExplicitKept DefaultsOnlyForUnset NetworksConsistent DeveloperHasNoDefaults
