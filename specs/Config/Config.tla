------------------------------- MODULE Config -------------------------------
(***************************************************************************)
(* Configuration resolution of /repo/config (Config.ReadConfig):           *)
(*   resolveNetworks            --testnet / --developer / (default) mainnet *)
(*   viper file + flags         explicit values (file or flag)             *)
(*   resolveContractsAddresses  unset contract address := build default    *)
(*   resolvePeers               unset peers := embedded list of the client *)
(*                              network (none for developer / unknown)     *)
(*   resolveElectrum            unset URL := one of the embedded URLs of   *)
(*                              the Bitcoin network (none for regtest)     *)
(* The input space is finite, so the module enumerates it in Init and      *)
(* `Resolve` is the function the code must compute.  Next is a single      *)
(* `Read` step so that the resolved configuration is a state the           *)
(* invariants talk about.                                                  *)
(***************************************************************************)
EXTENDS Naturals, FiniteSets, Sequences

CONSTANTS Contracts       \* names of the configurable contract addresses

Sources == {"unset", "file", "flag"}
\* an explicit contract address may be syntactically wrong (e.g. a digit missing): it is still
\* the user's explicit value and must be kept verbatim (the chain layer rejects it later);
\* explicit peers may be a single entry
ContractSources == Sources \cup {"fileMalformed"}
PeerSources     == Sources \cup {"fileSingle"}
Explicit(src)   == src # "unset"

VARIABLES
    testnetFlag, developerFlag,   \* the network selection flags
    peersSrc, electrumSrc,        \* where the value was set explicitly, if at all
    contractSrc,                  \* Contracts -> Sources
    netInFile,                    \* the config file also defines the `network` key of its ethereum and
                                  \* bitcoin sections: "none", or "other" = a network different from the
                                  \* one selected by the flags (the selection must win)
    resolved,                     \* the configuration after ReadConfig
    done                          \* ReadConfig returned

vars == <<testnetFlag, developerFlag, peersSrc, electrumSrc, contractSrc, netInFile, resolved, done>>

\* resolveNetworks: testnet wins over developer, neither means mainnet
ClientNetwork(t, d) == IF t THEN "testnet" ELSE IF d THEN "developer" ELSE "mainnet"
EthereumOf(n) == CASE n = "mainnet" -> "mainnet" [] n = "testnet" -> "sepolia" [] n = "developer" -> "developer"
BitcoinOf(n)  == CASE n = "mainnet" -> "mainnet" [] n = "testnet" -> "testnet" [] n = "developer" -> "regtest"

Resolve(t, d, ps, es, cs) ==
    LET n == ClientNetwork(t, d) IN
    [ network  |-> n,
      ethereum |-> EthereumOf(n),
      bitcoin  |-> BitcoinOf(n),
      peers    |-> IF ps # "unset" THEN "explicit"
                   ELSE IF n = "developer" THEN "none" ELSE "default:" \o n,
      electrum |-> IF es # "unset" THEN "explicit"
                   ELSE IF BitcoinOf(n) = "regtest" THEN "none" ELSE "default:" \o BitcoinOf(n),
      contracts |-> [c \in Contracts |-> IF cs[c] = "fileMalformed" THEN "explicit-malformed"
                                         ELSE IF cs[c] # "unset" THEN "explicit" ELSE "default"] ]

Init ==
    /\ testnetFlag \in BOOLEAN /\ developerFlag \in BOOLEAN
    /\ peersSrc \in PeerSources /\ electrumSrc \in Sources
    /\ contractSrc \in [Contracts -> ContractSources]
    /\ netInFile \in {"none", "other"}
    /\ resolved = [network |-> "pending"] /\ done = FALSE

Read ==
    /\ ~done /\ done' = TRUE
    /\ resolved' = Resolve(testnetFlag, developerFlag, peersSrc, electrumSrc, contractSrc)
    /\ UNCHANGED <<testnetFlag, developerFlag, peersSrc, electrumSrc, contractSrc, netInFile>>

Next == Read
Spec == Init /\ [][Next]_vars

---------------------------------------------------------------------------
Done == done

\* C44: explicit values are never overridden
ExplicitKept ==
    Done => /\ (peersSrc # "unset" => resolved.peers = "explicit")
            /\ (electrumSrc # "unset" => resolved.electrum = "explicit")
            /\ \A c \in Contracts : contractSrc[c] # "unset" => resolved.contracts[c] \in {"explicit", "explicit-malformed"}

\* C44: defaults only fill unset values, and they are those of the selected network
DefaultsOnlyForUnset ==
    Done => /\ (resolved.peers # "explicit" => peersSrc = "unset")
            /\ (resolved.peers \notin {"explicit", "none"} => resolved.peers = "default:" \o resolved.network)
            /\ (resolved.electrum \notin {"explicit", "none"} => resolved.electrum = "default:" \o resolved.bitcoin)
            /\ \A c \in Contracts : resolved.contracts[c] = "default" => contractSrc[c] = "unset"

\* C44: both chains belong to the selected network
NetworksConsistent ==
    Done => <<resolved.network, resolved.ethereum, resolved.bitcoin>> \in
              {<<"mainnet", "mainnet", "mainnet">>, <<"testnet", "sepolia", "testnet">>,
               <<"developer", "developer", "regtest">>}

\* the developer network never receives public-network defaults
DeveloperHasNoDefaults ==
    (Done /\ resolved.network = "developer") =>
        /\ resolved.peers \in {"explicit", "none"}
        /\ resolved.electrum \in {"explicit", "none"}
=============================================================================
