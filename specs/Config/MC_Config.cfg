SPECIFICATION Spec
CONSTANTS
  Contracts = {"RandomBeacon", "TokenStaking", "WalletRegistry", "Bridge", "MaintainerProxy"}
INVARIANTS ExplicitKept DefaultsOnlyForUnset NetworksConsistent DeveloperHasNoDefaults
