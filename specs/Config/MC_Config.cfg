SPECIFICATION Spec
CONSTANTS
  Contracts = {"RandomBeacon", "TokenStaking", "WalletRegistry", "Bridge", "MaintainerProxy", "LightRelay", "LightRelayMaintainerProxy", "WalletProposalValidator"}
INVARIANTS ExplicitKept DefaultsOnlyForUnset NetworksConsistent DeveloperHasNoDefaults
