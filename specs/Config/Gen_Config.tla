----------------------------- MODULE Gen_Config -----------------------------
EXTENDS Config, TLC, Json, CSV, IOUtils
Emit == Done => CSVWrite("%1$s", <<ToJson([testnet |-> testnetFlag, developer |-> developerFlag,
                                            peers |-> peersSrc, electrum |-> electrumSrc,
                                            contracts |-> contractSrc, netInFile |-> netInFile, expected |-> resolved])>>, "cases.ndjson")
=============================================================================
