SPECIFICATION TSpec
CONSTANTS
  Blocks = {0, 1, 2, 3, 4, 5, 6, 7, 8, 9, 10, 11, 12}
  Entries = {"aa", "bb", "cc"}
  MaxCalls = 1000000
CONSTRAINT Hwm
VIEW TView
INVARIANTS CurIsLastTrue ProcessedInOrder AtMostOncePerRequest ErrorMeansNo
POSTCONDITION Accepted
