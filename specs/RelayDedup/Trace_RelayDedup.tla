-------------------------- MODULE Trace_RelayDedup --------------------------
(* Linearizability of concurrent NotifyRelayEntryStarted calls.            *)
(* Events (harness /verif/harness/pkg/beacon/event/c06_test.go):           *)
(*   Reset(ans)            a new run: fresh Deduplicator; `ans` is what    *)
(*                         the chain answers for the whole run             *)
(*   Call(id, start, prev) goroutine is about to call the method           *)
(*   Return(id, ret, err)  the method returned                             *)
(* Between its Call and its Return every call takes effect atomically at   *)
(* some point (Lin): TLC chooses the order of overlapping calls.  A trace  *)
(* is accepted iff some order explains every returned value with the       *)
(* atomic Notify of RelayDedup.                                            *)
EXTENDS RelayDedup, TraceKit

VARIABLES l,        \* cursor
          pend,     \* calls invoked, not yet taken effect: id -> [start, prev]
          done,     \* calls that took effect, not yet returned: id -> [ret, err]
          runAns    \* the chain's answer during this run

tvars == <<vars, l, pend, done, runAns>>

Empty == [x \in {} |-> 0]
Without(f, k) == [x \in DOMAIN f \ {k} |-> f[x]]
With(f, k, v) == [x \in DOMAIN f \cup {k} |-> IF x = k THEN v ELSE f[x]]

TInit == Init /\ l = 1 /\ pend = Empty /\ done = Empty /\ runAns = NoAns /\ HwmInit

IsEvent(e) == l <= Len(Trace) /\ Trace[l].event = e /\ l' = l + 1

TReset ==
    /\ IsEvent("Reset")
    /\ curStart' = 0 /\ curPrev' = "" /\ calls' = 0 /\ last' = NoCall /\ trues' = <<>>
    /\ pend' = Empty /\ done' = Empty
    /\ runAns' = [kind |-> Trace[l].ans.kind, prev |-> Trace[l].ans.prev, start |-> Trace[l].ans.start]

TCall ==
    /\ IsEvent("Call")
    /\ pend' = With(pend, Trace[l].id, [start |-> Trace[l].start, prev |-> Trace[l].prev])
    /\ UNCHANGED <<vars, done, runAns>>

\* linearization point of a pending call (silent).  Linearization points are
\* postponed as far as possible without loss of generality: a call takes
\* effect only when the next event is the Return of a call that has not taken
\* effect yet (then some sequence of pending calls ending with that one is
\* linearized).
Lin ==
    /\ l' = l
    /\ l <= Len(Trace) /\ Trace[l].event = "Return" /\ Trace[l].id \notin DOMAIN done
    /\ \E id \in DOMAIN pend :
          LET s == pend[id].start
              p == pend[id].prev
              a == IF Consults(s, p) THEN runAns ELSE NoAns IN
            /\ Notify(s, p, a)
            /\ done' = With(done, id, [ret |-> last'.ret, err |-> last'.err])
            /\ pend' = Without(pend, id)
    /\ UNCHANGED runAns

TReturn ==
    /\ IsEvent("Return")
    /\ Trace[l].id \in DOMAIN done
    /\ done[Trace[l].id].ret = Trace[l].ret
    /\ done[Trace[l].id].err = Trace[l].err
    /\ done' = Without(done, Trace[l].id)
    /\ UNCHANGED <<vars, pend, runAns>>

TNext == TReset \/ TCall \/ Lin \/ TReturn
TSpec == TInit /\ [][TNext]_tvars

\* Two search states that agree on the remembered request, the cursor and the
\* pending / effected calls have the same future: the ghost variables (trues,
\* last, calls) are hidden from the fingerprint so that different orders
\* reaching the same point are explored once.
TView == <<curStart, curPrev, l, pend, done, runAns>>

Hwm == HwmConstraint(l)
Accepted == HwmAccepted
=============================================================================
