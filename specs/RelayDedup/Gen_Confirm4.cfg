SPECIFICATION CSpec
CONSTANTS
  Expected = 5
  Values = {0, 4, 5, 7}
  RetrySet = {1, 2, 3, 4, 5}
INVARIANTS Emit CTypeOK ConfirmedOnlyIfCurrent ConfirmedMeansEqual NeverConfirmOld Bounded Terminates
