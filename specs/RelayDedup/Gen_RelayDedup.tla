--------------------------- MODULE Gen_RelayDedup ---------------------------
(* Behaviour generation: every sequence of MaxCalls notifications (with    *)
(* every chain answer where the chain is consulted); each step carries the *)
(* expected return values, number of chain queries and state afterwards.   *)
EXTENDS RelayDedup, TLC, Json, CSV, IOUtils

VARIABLE hist
gvars == <<vars, hist>>

GInit == Init /\ hist = <<>>
GNext == Next /\ hist' = Append(hist, [start |-> last'.start, prev |-> last'.prev, ans |-> last'.ans,
                                       ret |-> last'.ret, err |-> last'.err, queries |-> last'.queries,
                                       curStart |-> curStart', curPrev |-> curPrev'])
GSpec == GInit /\ [][GNext]_gvars

Emit == (calls = MaxCalls) => CSVWrite("%1$s", <<ToJson([steps |-> hist])>>, "behaviours.ndjson")
=============================================================================
