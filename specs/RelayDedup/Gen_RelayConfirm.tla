-------------------------- MODULE Gen_RelayConfirm --------------------------
EXTENDS RelayConfirm, TLC, Json, CSV, IOUtils
Emit == (outcome # "running") =>
          CSVWrite("%1$s", <<ToJson([answers |-> answers, outcome |-> outcome, confirmations |-> confirmations,
                                     expected |-> Expected, maxRetries |-> MaxRetries])>>, "confirm.ndjson")
=============================================================================
