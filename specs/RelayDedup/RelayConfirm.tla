---------------------------- MODULE RelayConfirm ----------------------------
(***************************************************************************)
(* confirmCurrentRelayRequest of pkg/beacon/beacon.go: before a relay      *)
(* request event is handed to the deduplicator and to signing, the node    *)
(* asks the chain which request is current, with retries:                  *)
(*                                                                         *)
(*   for i := 1; ; i++ {                                                   *)
(*     v, err := chain.CurrentRequestStartBlock()                          *)
(*     err != nil : i == maxRetries ? give up : sleep, retry   (QueryErr)  *)
(*     v == expected : onConfirmed(); return                 (QueryEqual)  *)
(*     v >  expected : return (request is old)              (QueryGreater) *)
(*     i == maxRetries : give up                                 (GiveUp)  *)
(*     otherwise : sleep, retry                               (QueryLess)  *)
(*   }                                                                     *)
(*                                                                         *)
(* The chain's answers are nondeterministic per query.                     *)
(***************************************************************************)
EXTENDS Integers, Sequences

CONSTANTS Expected,     \* start block of the event being confirmed
          Values,       \* block numbers the chain may answer
          RetrySet      \* values of the maxRetries parameter (>= 1)

Err == -1               \* the chain call failed
AnswersC == Values \cup {Err}

VARIABLES MaxRetries,   \* the maxRetries argument of this run
          i,            \* loop counter (1-based attempt about to be made)
          outcome,      \* "running" | "confirmed" | "skipped" | "gaveup"
          answers,      \* what the chain answered so far
          confirmations \* number of onConfirmed() invocations

cvars == <<MaxRetries, i, outcome, answers, confirmations>>

CInit == MaxRetries \in RetrySet /\ i = 1 /\ outcome = "running" /\ answers = <<>> /\ confirmations = 0

Query(v) == answers' = Append(answers, v)

QueryErr ==
    /\ outcome = "running" /\ i < MaxRetries
    /\ Query(Err) /\ i' = i + 1
    /\ UNCHANGED <<MaxRetries, outcome, confirmations>>

QueryEqual ==
    /\ outcome = "running"
    /\ Query(Expected)
    /\ outcome' = "confirmed" /\ confirmations' = confirmations + 1
    /\ UNCHANGED <<MaxRetries, i>>

QueryGreater ==
    /\ outcome = "running"
    /\ \E v \in Values : v > Expected /\ Query(v)
    /\ outcome' = "skipped"
    /\ UNCHANGED <<MaxRetries, i, confirmations>>

QueryLess ==
    /\ outcome = "running" /\ i < MaxRetries
    /\ \E v \in Values : v < Expected /\ Query(v)
    /\ i' = i + 1
    /\ UNCHANGED <<MaxRetries, outcome, confirmations>>

\* last attempt failed or still shows an older / no request
GiveUp ==
    /\ outcome = "running" /\ i = MaxRetries
    /\ \E v \in AnswersC : (v = Err \/ v < Expected) /\ Query(v)
    /\ outcome' = "gaveup"
    /\ UNCHANGED <<MaxRetries, i, confirmations>>

CNext == QueryErr \/ QueryEqual \/ QueryGreater \/ QueryLess \/ GiveUp
CSpec == CInit /\ [][CNext]_cvars

---------------------------------------------------------------------------
CTypeOK == /\ i \in 1..MaxRetries
           /\ outcome \in {"running", "confirmed", "skipped", "gaveup"}
           /\ confirmations \in 0..1

\* signing starts only for the request the chain reports as current
ConfirmedOnlyIfCurrent ==
    (confirmations > 0) <=> (outcome = "confirmed")
ConfirmedMeansEqual ==
    outcome = "confirmed" => answers[Len(answers)] = Expected

\* never for a request older than the chain's current one
NeverConfirmOld ==
    (\E k \in 1..Len(answers) : answers[k] # Err /\ answers[k] > Expected) => outcome = "skipped"

\* the loop is bounded: at most MaxRetries queries, one per iteration
Bounded == Len(answers) <= MaxRetries /\ (outcome = "running" => Len(answers) = i - 1)
Terminates == Len(answers) = MaxRetries => outcome # "running"
=============================================================================
