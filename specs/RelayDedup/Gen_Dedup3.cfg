SPECIFICATION GSpec
CONSTANTS
  Blocks = {0, 1, 2, 3}
  Entries = {"aa", "bb"}
  MaxCalls = 3
INVARIANTS Emit TypeOK CurIsLastTrue ProcessedInOrder AtMostOncePerRequest ErrorMeansNo
