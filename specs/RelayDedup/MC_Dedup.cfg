SPECIFICATION Spec
CONSTANTS
  Blocks = {0, 1, 2, 3}
  Entries = {"aa", "bb"}
  MaxCalls = 6
INVARIANTS TypeOK CurIsLastTrue ProcessedInOrder AtMostOncePerRequest ErrorMeansNo
PROPERTIES TrueOnlyIfNewer NewAlwaysProcessed ReuseOnlyIfConfirmed StateFollowsResult Monotone
