----------------------------- MODULE RelayDedup -----------------------------
(***************************************************************************)
(* Relay-entry-requested deduplication of pkg/beacon/event/deduplicator.go *)
(* (Deduplicator.NotifyRelayEntryStarted), the gate in front of            *)
(* node.GenerateRelayEntry in pkg/beacon/beacon.go.                        *)
(*                                                                         *)
(* The method holds relayEntryMutex from the first to the last statement,  *)
(* so one call is one atomic step Notify(start, prev, chainAnswer):        *)
(*                                                                         *)
(*   if currentRequestStartBlock == 0            -> process  (NotifyFirst) *)
(*   if start > currentRequestStartBlock                                   *)
(*      if prev != currentRequestPreviousEntry   -> process  (NotifyNew)   *)
(*      else consult the chain:                                            *)
(*         CurrentRequestPreviousEntry() fails   -> error    (NotifyErr)   *)
(*         CurrentRequestStartBlock() fails      -> error    (NotifyErr)   *)
(*         chain says (prev, start) is current   -> process  (NotifyRetry) *)
(*         otherwise                             -> ignore   (NotifyReorg) *)
(*   otherwise                                   -> ignore   (NotifyStale) *)
(*   process: remember (start, prev), return true                          *)
(*                                                                         *)
(* A chain answer is only looked at on the consult path; elsewhere the     *)
(* answer is the constant NoAns so that behaviours are not multiplied.     *)
(***************************************************************************)
EXTENDS Integers, Sequences, FiniteSets

CONSTANTS Blocks,     \* start blocks notifications may carry (naturals)
          Entries,    \* previous-entry values (strings)
          MaxCalls    \* bound on the number of notifications

NoAns == [kind |-> "none", prev |-> "", start |-> 0]
Ans(p, s) == [kind |-> "ok", prev |-> p, start |-> s]
ErrPrev == [kind |-> "errPrev", prev |-> "", start |-> 0]
ErrStart == [kind |-> "errStart", prev |-> "", start |-> 0]
\* what the chain can say when consulted
Answers == {Ans(p, s) : p \in Entries, s \in Blocks} \cup {ErrPrev, ErrStart}

VARIABLES curStart,   \* Deduplicator.currentRequestStartBlock
          curPrev,    \* Deduplicator.currentRequestPreviousEntry
          calls,      \* number of notifications so far
          last,       \* last call: [start, prev, ans, ret, err, queries]
          trues       \* ghost: sequence of [start, prev] for which true was returned

vars == <<curStart, curPrev, calls, last, trues>>

NoCall == [start |-> 0, prev |-> "", ans |-> NoAns, ret |-> FALSE, err |-> FALSE, queries |-> 0]

Init == /\ curStart = 0 /\ curPrev = "" /\ calls = 0 /\ last = NoCall /\ trues = <<>>

Consults(s, p) == curStart # 0 /\ s > curStart /\ p = curPrev

\* number of chain methods called: previous entry first, then start block
Queries(s, p, a) == IF ~Consults(s, p) THEN 0
                    ELSE IF a.kind = "errPrev" THEN 1 ELSE 2

Process(s, p, a) ==
    /\ curStart' = s /\ curPrev' = p
    /\ calls' = calls + 1
    /\ last' = [start |-> s, prev |-> p, ans |-> a, ret |-> TRUE, err |-> FALSE, queries |-> Queries(s, p, a)]
    /\ trues' = Append(trues, [start |-> s, prev |-> p])

Leave(s, p, a, e) ==
    /\ calls' = calls + 1
    /\ last' = [start |-> s, prev |-> p, ans |-> a, ret |-> FALSE, err |-> e, queries |-> Queries(s, p, a)]
    /\ UNCHANGED <<curStart, curPrev, trues>>

NotifyFirst(s, p) == calls < MaxCalls /\ curStart = 0 /\ Process(s, p, NoAns)
NotifyNew(s, p)   == calls < MaxCalls /\ curStart # 0 /\ s > curStart /\ p # curPrev /\ Process(s, p, NoAns)
NotifyStale(s, p) == calls < MaxCalls /\ curStart # 0 /\ s <= curStart /\ Leave(s, p, NoAns, FALSE)
NotifyErr(s, p, a) ==
    /\ calls < MaxCalls /\ Consults(s, p) /\ a.kind \in {"errPrev", "errStart"}
    /\ Leave(s, p, a, TRUE)
NotifyRetry(s, p, a) ==
    /\ calls < MaxCalls /\ Consults(s, p) /\ a.kind = "ok" /\ a.prev = p /\ a.start = s
    /\ Process(s, p, a)
NotifyReorg(s, p, a) ==
    /\ calls < MaxCalls /\ Consults(s, p) /\ a.kind = "ok" /\ ~(a.prev = p /\ a.start = s)
    /\ Leave(s, p, a, FALSE)

\* the whole method as one relation (used by the trace specification)
Notify(s, p, a) ==
    \/ (a = NoAns /\ (NotifyFirst(s, p) \/ NotifyNew(s, p) \/ NotifyStale(s, p)))
    \/ NotifyErr(s, p, a) \/ NotifyRetry(s, p, a) \/ NotifyReorg(s, p, a)

DoFirst == \E s \in Blocks, p \in Entries : NotifyFirst(s, p)
DoNew   == \E s \in Blocks, p \in Entries : NotifyNew(s, p)
DoStale == \E s \in Blocks, p \in Entries : NotifyStale(s, p)
DoErr   == \E s \in Blocks, p \in Entries, a \in Answers : NotifyErr(s, p, a)
DoRetry == \E s \in Blocks, p \in Entries, a \in Answers : NotifyRetry(s, p, a)
DoReorg == \E s \in Blocks, p \in Entries, a \in Answers : NotifyReorg(s, p, a)

Next == DoFirst \/ DoNew \/ DoStale \/ DoErr \/ DoRetry \/ DoReorg

Spec == Init /\ [][Next]_vars

---------------------------------------------------------------------------
TypeOK ==
    /\ curStart \in Blocks \cup {0}
    /\ curPrev \in Entries \cup {""}
    /\ calls \in 0..MaxCalls
    /\ last.ret \in BOOLEAN /\ last.err \in BOOLEAN

\* the remembered request is the last processed one
CurIsLastTrue ==
    IF trues = <<>> THEN curStart = 0 /\ curPrev = ""
    ELSE curStart = trues[Len(trues)].start /\ curPrev = trues[Len(trues)].prev

\* C06: never for a request older than (or equal to) one already processed:
\* processed start blocks strictly increase.  (Block 0 is not a real request
\* block: while the remembered block is 0 the code processes anything.)
ProcessedInOrder ==
    \A i, j \in 1..Len(trues) :
        (i < j /\ trues[i].start > 0) => trues[i].start < trues[j].start

\* C06: at most once per request (a request is identified by its start block)
AtMostOncePerRequest ==
    \A s \in Blocks \ {0} :
        Cardinality({i \in 1..Len(trues) : trues[i].start = s}) <= 1

\* an error never changes the state and never says "process"
ErrorMeansNo == last.err => ~last.ret

\* action properties --------------------------------------------------------
\* returns true => genuinely newer than what is remembered (or nothing remembered)
TrueOnlyIfNewer ==
    [][last'.ret => (last'.start > curStart \/ curStart = 0)]_vars

\* C06: a genuinely new request with a new previous entry is always processed
NewAlwaysProcessed ==
    [][(calls' = calls + 1 /\ curStart # 0 /\ last'.start > curStart /\ last'.prev # curPrev)
          => last'.ret]_vars

\* C06: a later request reusing the previous entry is processed iff the
\* chain confirms it as the current one
ReuseOnlyIfConfirmed ==
    [][(calls' = calls + 1 /\ curStart # 0 /\ last'.start > curStart /\ last'.prev = curPrev)
          => (last'.ret <=> (last'.ans.kind = "ok" /\ last'.ans.prev = last'.prev
                                /\ last'.ans.start = last'.start))]_vars

\* the state changes exactly when true is returned, to the notified request
StateFollowsResult ==
    [][IF last'.ret /\ calls' = calls + 1
          THEN curStart' = last'.start /\ curPrev' = last'.prev
          ELSE curStart' = curStart /\ curPrev' = curPrev]_vars

\* remembered start block never decreases once a real block is remembered
Monotone == [][curStart # 0 => curStart' >= curStart]_vars
=============================================================================
