SPECIFICATION CSpec
CONSTANTS
  Expected = 5
  Values = {0, 4, 5, 7, 9}
  RetrySet = {1, 2, 3, 6}
INVARIANTS CTypeOK ConfirmedOnlyIfCurrent ConfirmedMeansEqual NeverConfirmOld Bounded Terminates
