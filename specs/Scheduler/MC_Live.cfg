SPECIFICATION FairSpec
CONSTANTS
  NumLatches = 2
  MaxNest = 2
  NumFns = 0
  MaxGor = 0
INVARIANTS TypeOK
PROPERTIES ResumesWhenIdle StopsWhenExecuting
