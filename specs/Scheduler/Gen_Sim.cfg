SPECIFICATION GSpec
CONSTANTS
  NumLatches = 3
  MaxNest = 2
  NumFns = 2
  MaxGor = 12
  MaxSteps = 40
  MaxLocks = 7
INVARIANTS Emit GenInvariants
