SPECIFICATION Spec
CONSTANTS
  NumLatches = 2
  MaxNest = 2
  NumFns = 1
  MaxGor = 3
INVARIANTS TypeOK StoppedAllCancelled WorkingOnePerFn AtMostOneLive
PROPERTIES NoBeginWhileStopped CheckSound ResumeOnlyAfterIdleReads
