SPECIFICATION Spec
CONSTANTS
  NumLatches = 2
  MaxNest = 2
  NumFns = 2
  MaxGor = 5
INVARIANTS TypeOK StoppedAllCancelled WorkingOnePerFn AtMostOneLive
PROPERTIES NoBeginWhileStopped CheckSound ResumeOnlyAfterIdleReads
