------------------------------ MODULE Scheduler ------------------------------
(***************************************************************************)
(* pkg/generator: Scheduler (scheduler.go) and ProtocolLatch (latch.go).   *)
(*                                                                         *)
(* Code structure mirrored here                                            *)
(*                                                                         *)
(*   ProtocolLatch.Lock/Unlock   Lock(l), Unlock(l): a counter under a     *)
(*                               mutex; Unlock at 0 panics (UnlockPanic).  *)
(*   ProtocolLatch.IsExecuting   counter # 0; read by CheckRead.           *)
(*   Scheduler.RegisterProtocol  Register(l): append under protocolsMutex  *)
(*                               (so it cannot happen while a check runs). *)
(*   Scheduler.compute           Compute: append the worker function and,  *)
(*                               if the state is working, startWorker.     *)
(*   Scheduler.checkProtocols    CheckStart (takes protocolsMutex; returns *)
(*                               at once when nothing is registered),      *)
(*                               CheckRead (one IsExecuting call, in       *)
(*                               registration order, `break` at the first  *)
(*                               executing one), CheckStop / CheckResume   *)
(*                               (stop() / resume() under workMutex).      *)
(*                               The reads of different latches are NOT    *)
(*                               one atomic snapshot: Lock/Unlock/Compute  *)
(*                               interleave with them.                     *)
(*   Scheduler.startWorker       a goroutine with its own context:         *)
(*                               WTop (loop head: exit when the context is *)
(*                               done, otherwise call the worker function  *)
(*                               = an iteration begins), WEnd (the worker  *)
(*                               function returned).                       *)
(***************************************************************************)
EXTENDS Integers, Sequences, FiniteSets

CONSTANTS NumLatches,   \* latches that exist (registered or not)
          MaxNest,      \* bound on a latch counter
          NumFns,       \* worker functions that can be handed to compute
          MaxGor        \* bound on worker goroutines ever started (model bound)

Latches == 1..NumLatches

VARIABLES counter,     \* latch -> Lock calls minus Unlock calls
          protocols,   \* Scheduler.protocols: sequence of registered latches
          state,       \* Scheduler.state
          fns,         \* Len(Scheduler.workers): functions handed to compute so far
          gor,         \* worker goroutines in start order: [fn, live, pc: "top"|"run"|"exited"]
          chk,         \* the check in progress: [pc: "idle"|"read"|"stop"|"resume", idx]
          held,        \* history: registered latches executing since the check began
          quiet,       \* history: no registered latch executed since the check began
          panics       \* history: number of Unlock calls that panicked

vars == <<counter, protocols, state, fns, gor, chk, held, quiet, panics>>

GIds == DOMAIN gor
Registered == {protocols[i] : i \in DOMAIN protocols}

Init ==
    /\ counter = [l \in Latches |-> 0]
    /\ protocols = <<>>
    /\ state = "working"          \* zero value of Scheduler
    /\ fns = 0
    /\ gor = <<>>
    /\ chk = [pc |-> "idle", idx |-> 0]
    /\ held = {} /\ quiet = FALSE /\ panics = 0

---------------------------------------------------------------------------
\* latches

Lock(l) ==
    /\ counter[l] < MaxNest
    /\ counter' = [counter EXCEPT ![l] = @ + 1]
    /\ quiet' = (quiet /\ l \notin Registered)
    /\ UNCHANGED <<protocols, state, fns, gor, chk, held, panics>>

Unlock(l) ==
    /\ counter[l] > 0
    /\ counter' = [counter EXCEPT ![l] = @ - 1]
    /\ held' = IF counter[l] = 1 THEN held \ {l} ELSE held
    /\ UNCHANGED <<protocols, state, fns, gor, chk, quiet, panics>>

\* "Unlock panics if no Lock was called before"; the counter stays 0
UnlockPanic(l) ==
    /\ counter[l] = 0
    /\ panics < 1
    /\ panics' = panics + 1
    /\ UNCHANGED <<counter, protocols, state, fns, gor, chk, held, quiet>>

---------------------------------------------------------------------------
\* scheduler

Register(l) ==
    /\ chk.pc = "idle"                 \* protocolsMutex is held by a running check
    /\ l \notin Registered
    /\ protocols' = Append(protocols, l)
    /\ UNCHANGED <<counter, state, fns, gor, chk, held, quiet, panics>>

NewGor(f) == [fn |-> f, live |-> TRUE, pc |-> "top"]

Compute ==
    /\ fns < NumFns
    /\ fns' = fns + 1
    /\ IF state = "working"
          THEN Len(gor) < MaxGor /\ gor' = Append(gor, NewGor(fns + 1))
          ELSE gor' = gor
    /\ UNCHANGED <<counter, protocols, state, chk, held, quiet, panics>>

CheckStart ==
    /\ chk.pc = "idle"
    /\ IF protocols = <<>>
          THEN UNCHANGED <<chk, held, quiet>>        \* `return`: nothing can stop the scheduler
          ELSE /\ chk' = [pc |-> "read", idx |-> 1]
               /\ held' = {l \in Registered : counter[l] > 0}
               /\ quiet' = (\A l \in Registered : counter[l] = 0)
    /\ UNCHANGED <<counter, protocols, state, fns, gor, panics>>

CheckRead ==
    /\ chk.pc = "read"
    /\ IF counter[protocols[chk.idx]] # 0
          THEN chk' = [chk EXCEPT !.pc = "stop"]                       \* break
          ELSE IF chk.idx = Len(protocols)
                  THEN chk' = [chk EXCEPT !.pc = "resume"]
                  ELSE chk' = [chk EXCEPT !.idx = @ + 1]
    /\ UNCHANGED <<counter, protocols, state, fns, gor, held, quiet, panics>>

\* stop()
CheckStop ==
    /\ chk.pc = "stop"
    /\ chk' = [pc |-> "idle", idx |-> 0]
    /\ state' = "stopped"
    /\ gor' = IF state = "stopped" THEN gor
              ELSE [g \in GIds |-> [gor[g] EXCEPT !.live = FALSE]]
    /\ UNCHANGED <<counter, protocols, fns, held, quiet, panics>>

\* resume(): one new goroutine per worker function
RECURSIVE Started(_, _)
Started(g, k) == IF k > fns THEN g ELSE Started(Append(g, NewGor(k)), k + 1)

CheckResume ==
    /\ chk.pc = "resume"
    /\ chk' = [pc |-> "idle", idx |-> 0]
    /\ state' = "working"
    /\ IF state = "working"
          THEN gor' = gor
          ELSE Len(gor) + fns <= MaxGor /\ gor' = Started(gor, 1)
    /\ UNCHANGED <<counter, protocols, fns, held, quiet, panics>>

---------------------------------------------------------------------------
\* worker goroutines

\* loop head: `select { case <-ctx.Done(): return; default: workerFn(ctx) }`
WTop(g) ==
    /\ gor[g].pc = "top"
    /\ gor' = [gor EXCEPT ![g].pc = IF gor[g].live THEN "run" ELSE "exited"]
    /\ UNCHANGED <<counter, protocols, state, fns, chk, held, quiet, panics>>

\* the worker function returned
WEnd(g) ==
    /\ gor[g].pc = "run"
    /\ gor' = [gor EXCEPT ![g].pc = "top"]
    /\ UNCHANGED <<counter, protocols, state, fns, chk, held, quiet, panics>>

---------------------------------------------------------------------------
DoLock        == \E l \in Latches : Lock(l)
DoUnlock      == \E l \in Latches : Unlock(l)
DoUnlockPanic == \E l \in Latches : UnlockPanic(l)
DoRegister    == \E l \in Latches : Register(l)
DoWTop        == \E g \in GIds : WTop(g)
DoWEnd        == \E g \in GIds : WEnd(g)

Next == DoLock \/ DoUnlock \/ DoUnlockPanic \/ DoRegister \/ Compute
        \/ CheckStart \/ CheckRead \/ CheckStop \/ CheckResume \/ DoWTop \/ DoWEnd

Spec == Init /\ [][Next]_vars

\* for the liveness configuration: the periodic check keeps running
CheckStep == CheckStart \/ CheckRead \/ CheckStop \/ CheckResume
FairSpec == Spec /\ WF_vars(CheckStep)

---------------------------------------------------------------------------
\* C45

IsExecuting(l) == counter[l] # 0
SomeExecuting == \E l \in Registered : IsExecuting(l)

\* a stopped scheduler has cancelled every worker context ...
StoppedAllCancelled == (state = "stopped") => \A g \in GIds : ~gor[g].live

\* ... and a working one runs exactly one goroutine per worker function
WorkingOnePerFn ==
    (state = "working") =>
        \A f \in 1..fns : Cardinality({g \in GIds : gor[g].fn = f /\ gor[g].live /\ gor[g].pc # "exited"}) = 1

\* never two live goroutines for the same worker function, live ones never exit
AtMostOneLive ==
    /\ \A f \in 1..NumFns : Cardinality({g \in GIds : gor[g].fn = f /\ gor[g].live}) <= 1
    /\ \A g \in GIds : gor[g].pc = "exited" => ~gor[g].live

\* no iteration of a worker function begins while the scheduler is stopped
NoBeginWhileStopped ==
    [][\A g \in GIds : (gor[g].pc = "top" /\ gor'[g].pc = "run") => state = "working"]_vars

\* a check during which some registered protocol was executing all the time
\* leaves the scheduler stopped; a check during which none was executing at
\* any time leaves it working
CheckSound ==
    [][(chk.pc \in {"stop", "resume"} /\ chk'.pc = "idle") =>
          /\ (held # {} => state' = "stopped")
          /\ (quiet => state' = "working")]_vars

\* nested executions are counted: the state can only turn from stopped to
\* working in a check that saw every registered latch at zero (each read of
\* that check returned false)
ResumeOnlyAfterIdleReads ==
    [][(state = "stopped" /\ state' = "working") => chk.pc = "resume"]_vars

CounterOK == \A l \in Latches : counter[l] \in 0..MaxNest

TypeOK ==
    /\ CounterOK
    /\ state \in {"working", "stopped"}
    /\ fns \in 0..NumFns
    /\ chk.pc \in {"idle", "read", "stop", "resume"}
    /\ \A g \in GIds : gor[g].pc \in {"top", "run", "exited"} /\ gor[g].fn \in 1..fns

\* liveness (FairSpec): generation resumes once no protocol is executing,
\* and stops once one keeps executing
ResumesWhenIdle   == (~SomeExecuting) ~> (state = "working" \/ SomeExecuting)
StopsWhenExecuting ==
    \A l \in Latches : (<>[](l \in Registered /\ IsExecuting(l))) => <>[](state = "stopped")
=============================================================================
