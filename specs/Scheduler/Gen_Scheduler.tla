--------------------------- MODULE Gen_Scheduler ---------------------------
(* Behaviour generation for conformance replay of Scheduler.                *)
(*                                                                          *)
(* The harness drives Lock / Unlock / RegisterProtocol / compute, starts a  *)
(* check (a goroutine calling checkProtocols), lets it perform one          *)
(* IsExecuting read at a time (the registered protocols are the real        *)
(* latches behind a gate) and lets worker iterations end.  What the code    *)
(* does on its own - a worker goroutine reaching its loop head (WTop), the  *)
(* check calling stop() / resume() after its last read - are "tau" steps,   *)
(* generated with priority: a controlled step is only taken when no tau     *)
(* step is enabled.  The exhaustive MC_* configurations have no such        *)
(* restriction.                                                             *)
(*   hist[i] = [a, l, g, tau, st]   st = state after the step               *)
EXTENDS Scheduler, TLC, Json, CSV, IOUtils

CONSTANTS MaxSteps,   \* length of a behaviour
          MaxLocks    \* Lock steps per behaviour (keeps room for checks that resume)

VARIABLE hist
gvars == <<vars, hist>>

ViewP == [counter |-> counter', protocols |-> protocols', state |-> state', fns |-> fns',
          gor |-> gor', chk |-> chk', panics |-> panics']

E(a, l, g, tau) == hist' = Append(hist, [a |-> a, l |-> l, g |-> g, tau |-> tau, st |-> ViewP])

TauEnabled == \/ \E g \in GIds : gor[g].pc = "top"
              \/ chk.pc \in {"stop", "resume"}

Locks == Cardinality({i \in DOMAIN hist : hist[i].a = "Lock"})

Quiet == ~TauEnabled /\ Len(hist) < MaxSteps

GInit == Init /\ hist = <<>>

GTau ==
    \/ \E g \in GIds : WTop(g) /\ E("WTop", 0, g, TRUE)
    \/ CheckStop   /\ E("CheckStop", 0, 0, TRUE)
    \/ CheckResume /\ E("CheckResume", 0, 0, TRUE)

GCtl ==
    /\ Quiet
    /\ \/ \E l \in Latches :
             \/ Locks < MaxLocks /\ Lock(l) /\ E("Lock", l, 0, FALSE)
             \/ Unlock(l)      /\ E("Unlock", l, 0, FALSE)
             \/ UnlockPanic(l) /\ E("UnlockPanic", l, 0, FALSE)
             \/ Register(l)    /\ E("Register", l, 0, FALSE)
       \/ Compute    /\ E("Compute", 0, 0, FALSE)
       \/ CheckStart /\ E("CheckStart", 0, 0, FALSE)
       \/ CheckRead  /\ E("CheckRead", protocols[chk.idx], 0, FALSE)
       \/ \E g \in GIds : WEnd(g) /\ E("WEnd", 0, g, FALSE)

GNext == GTau \/ GCtl
GSpec == GInit /\ [][GNext]_gvars

Done == Len(hist) >= MaxSteps /\ ~TauEnabled

Emit == Done => CSVWrite("%1$s", <<ToJson([steps |-> hist])>>, "behaviours.ndjson")

GenInvariants == StoppedAllCancelled /\ WorkingOnePerFn /\ AtMostOneLive
=============================================================================
