--------------------------- MODULE WindowWatcher ---------------------------
(***************************************************************************)
(* Coordination window watcher: pkg/tbtc/coordination.go                   *)
(* watchCoordinationWindows, coordinationWindow.index / isAfter; started   *)
(* by pkg/tbtc/node.go runCoordinationLayer with blockCounter.WatchBlocks. *)
(*                                                                         *)
(*   blocksChan := watchBlocksFn(ctx); var lastWindow *coordinationWindow  *)
(*   for { select {                                                        *)
(*     case block := <-blocksChan:                                         *)
(*        if window := newCoordinationWindow(block); window.index() > 0 {  *)
(*           if window.isAfter(lastWindow) {                               *)
(*              lastWindow = window                                        *)
(*              go onWindowFn(window)  } }                                 *)
(*     case <-ctx.Done(): return } }                                       *)
(*                                                                         *)
(* The block channel gives no guarantee: numbers may repeat, skip or go    *)
(* backwards.  The model's F is the window frequency (900 in the code);    *)
(* blocks range over representative values around multiples of F.          *)
(*                                                                         *)
(*   Observe(b)  one iteration of the loop taking the block case           *)
(*   Run(w)      the goroutine spawned for window w invokes onWindowFn;    *)
(*               goroutines are scheduled in any order                     *)
(*   Cancel      the context is cancelled                                  *)
(*   Return      the loop takes the ctx.Done case and returns.  Between    *)
(*               Cancel and Return the select may still take the block     *)
(*               case if a block is ready (Go's select picks at random):   *)
(*               Observe stays enabled until Return.                       *)
(***************************************************************************)
EXTENDS Naturals, Sequences, FiniteSets

CONSTANTS F,          \* window frequency in blocks
          Blocks,     \* block numbers the channel may emit
          MaxLen,     \* bound on the number of observed blocks
          MayCancel

VARIABLES last,       \* coordination block of lastWindow (0 = nil)
          started,    \* sequence of windows for which a goroutine was spawned
          ran,        \* sequence of windows whose callback was invoked
          seen,       \* history: blocks observed so far
          cancelled, returned

vars == <<last, started, ran, seen, cancelled, returned>>

\* coordinationWindow.index()
Index(b) == IF b % F = 0 THEN b \div F ELSE 0
\* coordinationWindow.isAfter(lastWindow); l = 0 stands for nil
IsAfter(b, l) == l = 0 \/ b > l
Triggers(b, l) == Index(b) > 0 /\ IsAfter(b, l)

Range(s) == {s[i] : i \in 1..Len(s)}
Pending == Range(started) \ Range(ran)

Init ==
    /\ last = 0 /\ started = <<>> /\ ran = <<>> /\ seen = <<>>
    /\ cancelled = FALSE /\ returned = FALSE

Observe(b) ==
    /\ ~returned
    /\ Len(seen) < MaxLen
    /\ seen' = Append(seen, b)
    /\ IF Triggers(b, last)
          THEN /\ last' = b
               /\ started' = Append(started, b)
          ELSE UNCHANGED <<last, started>>
    /\ UNCHANGED <<ran, cancelled, returned>>

Run(w) ==
    /\ w \in Pending
    /\ ran' = Append(ran, w)
    /\ UNCHANGED <<last, started, seen, cancelled, returned>>

Cancel ==
    /\ MayCancel /\ ~cancelled
    /\ cancelled' = TRUE
    /\ UNCHANGED <<last, started, ran, seen, returned>>

Return ==
    /\ cancelled /\ ~returned
    /\ returned' = TRUE
    /\ UNCHANGED <<last, started, ran, seen, cancelled>>

DoObserve == \E b \in Blocks : Observe(b)
DoRun     == \E w \in Pending : Run(w)

Next == DoObserve \/ DoRun \/ Cancel \/ Return
Spec == Init /\ [][Next]_vars
\* spawned goroutines are eventually scheduled; a cancelled loop returns
LiveSpec == Spec /\ WF_vars(DoRun) /\ WF_vars(Return)

---------------------------------------------------------------------------
TypeOK ==
    /\ last \in Blocks \cup {0}
    /\ \A i \in 1..Len(started) : started[i] \in Blocks
    /\ cancelled \in BOOLEAN /\ returned \in BOOLEAN

\* C23: coordination starts only for windows at a positive multiple of F
StartedValid == \A i \in 1..Len(started) : started[i] > 0 /\ started[i] % F = 0

\* C23: never for a window earlier than (or equal to) one already started
StartedIncreasing == \A i, j \in 1..Len(started) : i < j => started[i] < started[j]

\* C23: at most once per window, also as far as callbacks are concerned
RanOnce ==
    /\ \A i, j \in 1..Len(ran) : i # j => ran[i] # ran[j]
    /\ Range(ran) \subseteq Range(started)

LastIsNewest == last = (IF started = <<>> THEN 0 ELSE started[Len(started)])

\* declarative characterization: exactly the observed blocks that are a
\* positive multiple of F and larger than every such block observed before
RecordHigh(i) == /\ seen[i] > 0 /\ seen[i] % F = 0
                 /\ \A j \in 1..(i - 1) : (seen[j] > 0 /\ seen[j] % F = 0) => seen[j] < seen[i]
RECURSIVE Records(_)
Records(n) == IF n = 0 THEN <<>>
              ELSE IF RecordHigh(n) THEN Append(Records(n - 1), seen[n]) ELSE Records(n - 1)
Exact == started = Records(Len(seen))

\* once the loop returned nothing is started any more
QuietAfterReturn == [][returned => (started' = started /\ last' = last)]_vars
\* started windows are never forgotten or reordered
StartedOnlyGrows == [][Len(started') >= Len(started)
                       /\ SubSeq(started', 1, Len(started)) = started]_vars

\* every started window's callback is eventually invoked
AllRun == \A w \in Blocks : (w \in Range(started)) ~> (w \in Range(ran))
=============================================================================
