------------------------- MODULE Gen_WindowWatcher -------------------------
(* Behaviour generation: every block stream of MaxLen steps over Blocks,    *)
(* optionally cut by a cancellation (Cancel immediately followed by Return: *)
(* a sequential driver waits for the loop to return) after which further    *)
(* blocks are offered but must not be taken.  Callback goroutines are not   *)
(* scheduled by the driver: after every step it waits until none is left    *)
(* and compares the set of invoked callbacks with `started`.                *)
EXTENDS WindowWatcher, TLC, Json, CSV, IOUtils

VARIABLE hist
gvars == <<vars, hist>>
GInit == Init /\ hist = <<>>

GObserve == \E b \in Blocks :
    /\ Len(hist) < MaxLen
    /\ Observe(b)
    /\ hist' = Append(hist, [a |-> "Observe", b |-> b, idx |-> Index(b), after |-> IsAfter(b, last),
                             last |-> last, trig |-> Triggers(b, last), started |-> started'])
GCancel ==
    /\ MayCancel /\ ~cancelled /\ Len(hist) < MaxLen
    /\ cancelled' = TRUE /\ returned' = TRUE
    /\ UNCHANGED <<last, started, ran, seen>>
    /\ hist' = Append(hist, [a |-> "Cancel", b |-> 0, idx |-> 0, after |-> FALSE, last |-> last,
                             trig |-> FALSE, started |-> started])
\* after the loop returned: a block is offered and nobody takes it
GOffer == \E b \in Blocks :
    /\ returned /\ Len(hist) < MaxLen
    /\ UNCHANGED vars
    /\ hist' = Append(hist, [a |-> "Offer", b |-> b, idx |-> Index(b), after |-> IsAfter(b, last), last |-> last,
                             trig |-> FALSE, started |-> started])

GNext == GObserve \/ GCancel \/ GOffer
GSpec == GInit /\ [][GNext]_gvars

Done == Len(hist) = MaxLen
Emit == Done => CSVWrite("%1$s", <<ToJson([steps |-> hist, started |-> started])>>, "streams.ndjson")
=============================================================================
