------------------------ MODULE Trace_WindowWatcher ------------------------
(* Trace validation of real runs of watchCoordinationWindows (real F = 900, *)
(* real block numbers) against WindowWatcher.                               *)
(* Events (harness: /verif/harness/pkg/tbtc/c23_test.go):                   *)
(*   Reset        a new watcher, a new independent run                      *)
(*   Offer(b)     the sender is about to send b on the block channel        *)
(*   Accepted     the send completed (the loop received the block)          *)
(*   Rejected     the send was abandoned because the watcher had returned   *)
(*   Trigger(w)   onWindowFn was invoked for the window starting at w       *)
(*   Cancel       the context is about to be cancelled                      *)
(*   Returned     watchCoordinationWindows returned                         *)
(*   Quiet        the loop is parked in its select (or returned) and no     *)
(*                goroutine spawned by it is alive: nothing is pending      *)
(* Silent steps inferred by TLC: Take (the loop iteration for the offered   *)
(* block, i.e. Observe) and Return.                                         *)
EXTENDS WindowWatcher, TraceKit

VARIABLES l, off     \* off = [b, st]: st \in "none" | "offered" | "taken"
tvars == <<vars, l, off>>

NoOffer == [b |-> 0, st |-> "none"]
TInit == Init /\ l = 1 /\ off = NoOffer /\ HwmInit

IsEvent(e) == l <= Len(Trace) /\ Trace[l].event = e /\ l' = l + 1

TReset ==
    /\ IsEvent("Reset")
    /\ last' = 0 /\ started' = <<>> /\ ran' = <<>> /\ seen' = <<>>
    /\ cancelled' = FALSE /\ returned' = FALSE /\ off' = NoOffer

TOffer == /\ IsEvent("Offer") /\ off.st = "none"
          /\ off' = [b |-> Trace[l].b, st |-> "offered"]
          /\ UNCHANGED vars

Take == /\ l' = l /\ off.st = "offered"
        /\ Observe(off.b)
        /\ off' = [off EXCEPT !.st = "taken"]

TAccepted == IsEvent("Accepted") /\ off.st = "taken" /\ off' = NoOffer /\ UNCHANGED vars
TRejected == IsEvent("Rejected") /\ off.st = "offered" /\ returned /\ off' = NoOffer /\ UNCHANGED vars

TTrigger == IsEvent("Trigger") /\ Run(Trace[l].w) /\ UNCHANGED off
TCancel == IsEvent("Cancel") /\ Cancel /\ UNCHANGED off
SilentReturn == l' = l /\ Return /\ UNCHANGED off
TReturned == IsEvent("Returned") /\ returned /\ UNCHANGED <<vars, off>>
TQuiet == IsEvent("Quiet") /\ Pending = {} /\ off.st = "none" /\ UNCHANGED <<vars, off>>

TNext == TReset \/ TOffer \/ Take \/ TAccepted \/ TRejected \/ TTrigger \/ TCancel
         \/ SilentReturn \/ TReturned \/ TQuiet
TSpec == TInit /\ [][TNext]_tvars

Hwm == HwmConstraint(l)
Accepted == HwmAccepted
=============================================================================
