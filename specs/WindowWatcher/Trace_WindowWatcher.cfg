SPECIFICATION TSpec
CONSTANTS
  F = 900
  Blocks = {}
  MaxLen = 1000000
  MayCancel = TRUE
CONSTRAINT Hwm
INVARIANTS StartedValid StartedIncreasing RanOnce LastIsNewest Exact
POSTCONDITION Accepted
