SPECIFICATION LiveSpec
CONSTANTS
  F = 3
  Blocks = {0, 3, 6, 7}
  MaxLen = 4
  MayCancel = TRUE
INVARIANTS TypeOK
PROPERTIES AllRun
