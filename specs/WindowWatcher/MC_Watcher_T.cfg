SPECIFICATION Spec
CONSTANTS
  F = 3
  Blocks = {0, 2, 3, 4, 6, 7, 9, 10}
  MaxLen = 5
  MayCancel = TRUE
INVARIANTS TypeOK StartedValid StartedIncreasing RanOnce LastIsNewest Exact
PROPERTIES QuietAfterReturn StartedOnlyGrows
