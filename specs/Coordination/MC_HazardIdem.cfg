SPECIFICATION Spec
CONSTANTS
  Ops = {1, 2}
  MaxList = 2
  Wallets = {"w1"}
  Hashes = {"h1"}
  Seeds = {"s1", "s2"}
  CallSeeds = {"s1", "s2"}
  F = 3
  Blocks = {3}
  MaxCalls = 3
  Execs = {"e1", "e2"}
  Stateless = FALSE
  FreshArrays = TRUE
INVARIANTS TypeOK LeaderIsOperator LeaderIdempotent
