---------------------------- MODULE Coordination ----------------------------
(***************************************************************************)
(* Coordination seed, leader election and actions checklist:               *)
(* pkg/tbtc/coordination.go coordinationExecutor.getSeed / getLeader /     *)
(* getActionsChecklist and coordinationWindow.index, as used by            *)
(* coordinationExecutor.coordinate.                                        *)
(*                                                                         *)
(*   getSeed(block)   = sha256(walletPublicKeyHash ++ hash(block - 32))    *)
(*                      error if the safe block hash cannot be fetched     *)
(*   getLeader(seed)  = unique operators of the wallet, sorted ascending,  *)
(*                      shuffled by math/rand seeded with seed[:8];        *)
(*                      element 0                                          *)
(*   getActionsChecklist(index, seed)                                      *)
(*                    = nil if index = 0, else Redemption, then            *)
(*                      DepositSweep, MovedFundsSweep, MovingFunds if      *)
(*                      index % 4 = 0, then Heartbeat iff                  *)
(*                      rand(seed[:8]).Float64() < 1/16                    *)
(*                                                                         *)
(* The specification models neither SHA-256 nor math/rand.  The results of *)
(* the hash and of the PRNG are HIDDEN CHOICES held in specification       *)
(* variables, bound the first time they are needed and fixed from then on: *)
(*   seedOf[<<wallet, safe block hash>>]  the seed (injective)             *)
(*   pick[<<seed, n>>] \in 1..n           which element of the n sorted    *)
(*                                        unique operators leads           *)
(*   draw[seed] \in BOOLEAN               the heartbeat draw               *)
(* Every call made by any member, with any order and repetition of the     *)
(* operators in its local view, must be explainable by these.              *)
(*                                                                         *)
(* THE EXECUTOR IS A LONG-LIVED OBJECT: node.getCoordinationExecutor keeps *)
(* one coordinationExecutor per wallet in node.coordinationExecutors and   *)
(* every window of that wallet is coordinated on the same instance.  A     *)
(* member that restarted, joined late or skipped a window has an instance  *)
(* with a different call history.  The model therefore has executor        *)
(* instances (NewExecutor binds the wallet and the member's view of its    *)
(* operators), every call is made ON an instance and is recorded with its  *)
(* position in that instance's history; the results must not depend on     *)
(* that history (LeaderHistoryIndependent, ...).                           *)
(* SEVERAL WALLETS' EXECUTORS LIVE IN ONE PROCESS and their GetChecklist /  *)
(* coordinate() steps interleave.  A checklist is a Go slice: a reference   *)
(* to a backing array plus a length.  The caller keeps it (the leader       *)
(* passes it to the proposal generator, the follower appends ActionNoop to  *)
(* it -- `append(actionsChecklist, ActionNoop)` in coordinate() -- and uses *)
(* the result as actionsAllowed for the whole active phase).  The model has *)
(* a heap of arrays and handles held by callers; what a caller reads        *)
(* through its handle must never change after it was returned               *)
(* (ChecklistStable) and must be a function of the seed and the window only *)
(* (ChecklistDependsOnlyOnSeedAndWindow), whatever other executors do.      *)
(* FreshArrays = TRUE is the contract (every call builds its own slice);    *)
(* FreshArrays = FALSE is the hazard grain of precomputed package-level     *)
(* checklists returned by reference, with the heartbeat and Noop appended   *)
(* in place into the spare capacity of the shared array.                    *)
(*                                                                         *)
(* Stateless = TRUE is the contract (the three functions are pure).        *)
(* Stateless = FALSE is the hazard grain of an executor that caches its    *)
(* sorted unique operator list and lets rng.Shuffle permute the cached     *)
(* slice in place: the next selection starts from the order the previous   *)
(* ones left behind.                                                       *)
(* Operators are integers whose order is the order of their addresses.     *)
(***************************************************************************)
EXTENDS Naturals, Sequences, FiniteSets, SequencesExt, TLC

CONSTANTS Ops,        \* operators (integers, address order)
          MaxList,    \* longest operator list
          Wallets, Hashes, Seeds,
          CallSeeds,  \* seeds the model passes to getLeader / getActionsChecklist (bounds the search)
          F,          \* coordinationFrequencyBlocks
          Blocks,     \* coordination blocks passed to the checklist
          MaxCalls,
          Execs,      \* executor instances
          Stateless,  \* TRUE: contract; FALSE: hazard grain (cached list shuffled in place)
          FreshArrays \* TRUE: contract; FALSE: hazard grain (shared backing arrays)

VARIABLES seedOf, pick, draw,  \* hidden choices (partial functions)
          permOf,              \* hazard grain: the whole permutation per <<seed, n>>
          execs,               \* e -> [w, ops, n]: wallet, view of its operators, calls made so far
          cache,               \* hazard grain: e -> current order of the cached unique operators
          hist,                \* set of call records made so far
          heap,                \* array id -> slots of a backing array ("_" = unused capacity)
          held                 \* handle -> [arr, len, exp, s, idx, noop]: a checklist held by a caller

vars == <<seedOf, pick, draw, permOf, execs, cache, hist, heap, held>>

FRange(f) == {f[x] : x \in DOMAIN f}
Extend(f, k, v) == [x \in DOMAIN f \cup {k} |-> IF x = k THEN v ELSE f[x]]

Lists == UNION {[1..n -> Ops] : n \in 1..MaxList}

\* Sorted(Unique(ops))
RECURSIVE SortSet(_)
SortSet(S) == IF S = {} THEN <<>>
              ELSE LET m == CHOOSE x \in S : \A y \in S : x <= y IN <<m>> \o SortSet(S \ {m})
SortedUnique(list) == SortSet(Range(list))

Perms(n) == {f \in [1..n -> 1..n] : \A i, j \in 1..n : i # j => f[i] # f[j]}

\* coordinationWindow.index()
Index(b) == IF b % F = 0 THEN b \div F ELSE 0

Checklist(idx, hb) ==
    IF idx = 0 THEN <<>>
    ELSE <<"Redemption">>
         \o (IF idx % 4 = 0 THEN <<"DepositSweep", "MovedFundsSweep", "MovingFunds">> ELSE <<>>)
         \o (IF hb THEN <<"Heartbeat">> ELSE <<>>)

Full == <<"Redemption", "DepositSweep", "MovedFundsSweep", "MovingFunds">>
\* handles and the arrays built per call are numbered 1, 2, ...; the two package-level arrays:
PrioArr == 1000000001
FullArr == 1000000002
NextHandle == Cardinality(DOMAIN held) + 1
Init == /\ seedOf = <<>> /\ pick = <<>> /\ draw = <<>> /\ permOf = <<>>
        /\ execs = <<>> /\ cache = <<>> /\ hist = {}
        /\ held = <<>>
        /\ heap = IF FreshArrays THEN <<>>
                  ELSE (PrioArr :> <<"Redemption">>) @@ (FullArr :> Full \o <<"_", "_", "_", "_">>)

\* what a caller reads through its handle
Read(k) == SubSeq(heap[held[k].arr], 1, held[k].len)

Budget == Cardinality(hist) < MaxCalls
\* a call on executor e is recorded with its position in e's history
Record(e, r) ==
    /\ Budget
    /\ e \in DOMAIN execs
    /\ hist' = hist \cup {r @@ [e |-> e, pos |-> execs[e].n + 1]}
    /\ execs' = [execs EXCEPT ![e].n = @ + 1]

\* node.getCoordinationExecutor: a member creates the executor of wallet w with
\* its view `list` of the wallet's operators (signingGroupOperators)
NewExecutor(e, w, list) ==
    /\ e \notin DOMAIN execs
    /\ execs' = Extend(execs, e, [w |-> w, ops |-> list, n |-> 0])
    /\ cache' = Extend(cache, e, SortedUnique(list))
    /\ UNCHANGED <<seedOf, pick, draw, permOf, hist, heap, held>>

\* getSeed on executor e when the safe block (coordination block - 32) has hash h
GetSeed(e, h, s) ==
    /\ e \in DOMAIN execs
    /\ LET k == <<execs[e].w, h>> IN
         /\ IF k \in DOMAIN seedOf THEN seedOf[k] = s ELSE s \notin FRange(seedOf)
         /\ seedOf' = Extend(seedOf, k, s)
    /\ Record(e, [kind |-> "seed", w |-> execs[e].w, h |-> h, out |-> s])
    /\ UNCHANGED <<pick, draw, permOf, cache, heap, held>>

\* getSeed when the chain cannot return the safe block hash
GetSeedFails(e) ==
    /\ e \in DOMAIN execs
    /\ Record(e, [kind |-> "seedError", w |-> execs[e].w])
    /\ UNCHANGED <<seedOf, pick, draw, permOf, cache, heap, held>>

\* getLeader on executor e (contract: a pure function of the seed and the view)
GetLeader(e, s, r) ==
    /\ Stateless
    /\ e \in DOMAIN execs
    /\ LET su == SortedUnique(execs[e].ops)
           k == <<s, Len(su)>> IN
         /\ r \in 1..Len(su)
         /\ (k \in DOMAIN pick) => pick[k] = r
         /\ pick' = Extend(pick, k, r)
         /\ Record(e, [kind |-> "leader", s |-> s, ops |-> execs[e].ops, out |-> su[r]])
    /\ UNCHANGED <<seedOf, draw, permOf, cache, heap, held>>

\* hazard grain: the seed's shuffle is applied IN PLACE to the executor's cached list
GetLeaderCached(e, s, pm) ==
    /\ ~Stateless
    /\ e \in DOMAIN execs
    /\ LET cur == cache[e]
           k == <<s, Len(cur)>> IN
         /\ pm \in Perms(Len(cur))
         /\ (k \in DOMAIN permOf) => permOf[k] = pm
         /\ permOf' = Extend(permOf, k, pm)
         /\ cache' = [cache EXCEPT ![e] = [i \in 1..Len(cur) |-> cur[pm[i]]]]
         /\ Record(e, [kind |-> "leader", s |-> s, ops |-> execs[e].ops, out |-> cur[pm[1]]])
    /\ UNCHANGED <<seedOf, pick, draw, heap, held>>

\* coordinate(): getActionsChecklist(window.index(), seed) for the window at block b
\* The caller receives the result as handle k.
GetChecklist(e, s, b, hb, k) ==
    /\ e \in DOMAIN execs
    /\ k \notin DOMAIN held
    /\ IF Index(b) = 0
          THEN UNCHANGED draw      \* returns nil before the PRNG is touched
          ELSE /\ (s \in DOMAIN draw) => draw[s] = hb
               /\ draw' = Extend(draw, s, hb)
    /\ LET idx == Index(b)
           out == Checklist(idx, hb)
           h(arr) == [arr |-> arr, len |-> Len(out), exp |-> out, s |-> s, idx |-> idx, noop |-> FALSE] IN
         /\ Record(e, [kind |-> "checklist", s |-> s, b |-> b, idx |-> idx, out |-> out, k |-> k])
         /\ IF FreshArrays \/ idx = 0
               THEN \* a slice built for this call (with the spare capacity Go's append leaves)
                    /\ heap' = Extend(heap, k, out \o <<"_">>)
                    /\ held' = Extend(held, k, h(k))
               ELSE IF idx % 4 # 0
               THEN IF hb
                      THEN \* append to the 1/1 priority slice reallocates
                           /\ heap' = Extend(heap, k, out)
                           /\ held' = Extend(held, k, h(k))
                      ELSE /\ UNCHANGED heap
                           /\ held' = Extend(held, k, h(PrioArr))
               ELSE \* the shared 4/8 slice: the heartbeat is appended in place
                    /\ heap' = IF hb THEN [heap EXCEPT ![FullArr][5] = "Heartbeat"] ELSE heap
                    /\ held' = Extend(held, k, h(FullArr))
    /\ UNCHANGED <<seedOf, pick, permOf, cache>>

\* coordinate(), follower branch: actionsAllowed = append(actionsChecklist, ActionNoop),
\* kept for the whole active phase as handle k2
AppendNoop(k, k2) ==
    /\ k \in DOMAIN held /\ k2 \notin DOMAIN held /\ ~held[k].noop
    /\ LET h == held[k]
           h2(arr) == [h EXCEPT !.arr = arr, !.len = h.len + 1, !.exp = h.exp \o <<"Noop">>, !.noop = TRUE] IN
         IF h.len < Len(heap[h.arr])
            THEN \* spare capacity: written in place
                 /\ heap' = [heap EXCEPT ![h.arr][h.len + 1] = "Noop"]
                 /\ held' = Extend(held, k2, h2(h.arr))
            ELSE \* reallocated copy
                 /\ heap' = Extend(heap, k2, Read(k) \o <<"Noop", "_">>)
                 /\ held' = Extend(held, k2, h2(k2))
    /\ UNCHANGED <<seedOf, pick, draw, permOf, execs, cache, hist>>

DoNewExecutor     == \E e \in Execs, w \in Wallets, list \in Lists : NewExecutor(e, w, list)
DoGetSeed         == \E e \in Execs, h \in Hashes, s \in Seeds : GetSeed(e, h, s)
DoGetSeedFails    == \E e \in Execs : GetSeedFails(e)
DoGetLeader       == \E e \in Execs, s \in CallSeeds, r \in 1..Cardinality(Ops) : GetLeader(e, s, r)
DoGetLeaderCached == \E e \in Execs, s \in CallSeeds, pm \in UNION {Perms(n) : n \in 1..Cardinality(Ops)} :
                        GetLeaderCached(e, s, pm)
DoGetChecklist    == \E e \in Execs, s \in CallSeeds, b \in Blocks, hb \in BOOLEAN : GetChecklist(e, s, b, hb, NextHandle)
DoAppendNoop      == \E k \in DOMAIN held : Cardinality(DOMAIN held) <= MaxCalls /\ AppendNoop(k, NextHandle)

Next == DoNewExecutor \/ DoGetSeed \/ DoGetSeedFails \/ DoGetLeader \/ DoGetLeaderCached \/ DoGetChecklist
        \/ DoAppendNoop
Spec == Init /\ [][Next]_vars

---------------------------------------------------------------------------
Calls(k) == {c \in hist : c.kind = k}

\* C22: the leader is one of the wallet's operators
LeaderIsOperator == \A c \in Calls("leader") : c.out \in Range(c.ops)

\* C22: same seed, same SET of operators => same leader, whatever the order
\* or repetition of the operators in the local view
LeaderIgnoresOrderAndRepetition ==
    \A c1, c2 \in Calls("leader") :
        (c1.s = c2.s /\ Range(c1.ops) = Range(c2.ops)) => c1.out = c2.out

\* C22 on long-lived executors: the leader for a seed does not depend on which
\* and how many calls the executor served before (members with different
\* histories agree), and asking the same executor again gives the same answer
LeaderHistoryIndependent ==
    \A c1, c2 \in Calls("leader") :
        (c1.s = c2.s /\ c1.ops = c2.ops /\ (c1.e # c2.e \/ c1.pos # c2.pos)) => c1.out = c2.out
LeaderIdempotent ==
    \A c1, c2 \in Calls("leader") : (c1.e = c2.e /\ c1.s = c2.s) => c1.out = c2.out

\* the shuffle depends only on the seed and the number of unique operators
Rank(c) == CHOOSE i \in 1..Len(SortedUnique(c.ops)) : SortedUnique(c.ops)[i] = c.out
LeaderRankDependsOnSeedAndSize ==
    \A c1, c2 \in Calls("leader") :
        (c1.s = c2.s /\ Cardinality(Range(c1.ops)) = Cardinality(Range(c2.ops))) => Rank(c1) = Rank(c2)

\* C22: shape of the checklist
HasHeartbeat(c) == \E i \in 1..Len(c.out) : c.out[i] = "Heartbeat"
ChecklistShape ==
    \A c \in Calls("checklist") :
        /\ c.idx = (IF c.b % F = 0 THEN c.b \div F ELSE 0)
        /\ (c.idx = 0) <=> (c.out = <<>>)
        /\ c.idx > 0 => c.out[1] = "Redemption"
        /\ c.idx > 0 =>
              LET body == IF HasHeartbeat(c) THEN SubSeq(c.out, 2, Len(c.out) - 1) ELSE Tail(c.out) IN
                 body = (IF c.idx % 4 = 0 THEN <<"DepositSweep", "MovedFundsSweep", "MovingFunds">> ELSE <<>>)
        /\ \A i \in 1..Len(c.out) : c.out[i] = "Heartbeat" => i = Len(c.out)

\* C22: the heartbeat is decided by the seed alone: every window of a seed agrees
HeartbeatBySeedOnly ==
    \A c1, c2 \in Calls("checklist") :
        (c1.s = c2.s /\ c1.idx > 0 /\ c2.idx > 0) => (HasHeartbeat(c1) <=> HasHeartbeat(c2))
\* ... on whatever executor and at whatever point of its history it is asked
ChecklistHistoryIndependent ==
    \A c1, c2 \in Calls("checklist") : (c1.s = c2.s /\ c1.idx = c2.idx) => c1.out = c2.out

\* C22: a checklist (and the follower's allowed actions derived from it) that a
\* caller holds never changes after it was returned, whatever this or other
\* wallets' executors compute afterwards ...
ChecklistStable == \A k \in DOMAIN held : Read(k) = held[k].exp
\* ... so what is read through it depends on the seed and the window only
ChecklistDependsOnlyOnSeedAndWindow ==
    \A k \in DOMAIN held :
        Read(k) = (IF held[k].idx = 0 THEN <<>> ELSE Checklist(held[k].idx, draw[held[k].s]))
                  \o (IF held[k].noop THEN <<"Noop">> ELSE <<>>)

\* C22: the seed is a function of the wallet and the safe block hash, nothing
\* else (not the executor, not its history)
SeedHistoryIndependent ==
    \A c1, c2 \in Calls("seed") : (c1.w = c2.w /\ c1.h = c2.h) <=> (c1.out = c2.out)

TypeOK ==
    /\ \A k \in DOMAIN pick : pick[k] \in 1..k[2]
    /\ \A s \in DOMAIN draw : draw[s] \in BOOLEAN

\* bookkeeping (model checking only: the trace specification forgets old records)
ExecCounts == \A e \in DOMAIN execs : execs[e].n = Cardinality({c \in hist : c.e = e})
=============================================================================
