---------------------------- MODULE Coordination ----------------------------
(***************************************************************************)
(* Coordination seed, leader election and actions checklist:               *)
(* pkg/tbtc/coordination.go coordinationExecutor.getSeed / getLeader /     *)
(* getActionsChecklist and coordinationWindow.index, as used by            *)
(* coordinationExecutor.coordinate.                                        *)
(*                                                                         *)
(*   getSeed(block)   = sha256(walletPublicKeyHash ++ hash(block - 32))    *)
(*                      error if the safe block hash cannot be fetched     *)
(*   getLeader(seed)  = unique operators of the wallet, sorted ascending,  *)
(*                      shuffled by math/rand seeded with seed[:8];        *)
(*                      element 0                                          *)
(*   getActionsChecklist(index, seed)                                      *)
(*                    = nil if index = 0, else Redemption, then            *)
(*                      DepositSweep, MovedFundsSweep, MovingFunds if      *)
(*                      index % 4 = 0, then Heartbeat iff                  *)
(*                      rand(seed[:8]).Float64() < 1/16                    *)
(*                                                                         *)
(* The specification models neither SHA-256 nor math/rand.  The results of *)
(* the hash and of the PRNG are HIDDEN CHOICES held in specification       *)
(* variables, bound the first time they are needed and fixed from then on: *)
(*   seedOf[<<wallet, safe block hash>>]  the seed (injective)             *)
(*   pick[<<seed, n>>] \in 1..n           which element of the n sorted    *)
(*                                        unique operators leads           *)
(*   draw[seed] \in BOOLEAN               the heartbeat draw               *)
(* Every call made by any member, with any order and repetition of the     *)
(* operators in its local view, must be explainable by these.              *)
(* Operators are integers whose order is the order of their addresses.     *)
(***************************************************************************)
EXTENDS Naturals, Sequences, FiniteSets, SequencesExt

CONSTANTS Ops,        \* operators (integers, address order)
          MaxList,    \* longest operator list
          Wallets, Hashes, Seeds,
          CallSeeds,  \* seeds the model passes to getLeader / getActionsChecklist (bounds the search)
          F,          \* coordinationFrequencyBlocks
          Blocks,     \* coordination blocks passed to the checklist
          MaxCalls

VARIABLES seedOf, pick, draw,  \* hidden choices (partial functions)
          hist                 \* set of call records made so far

vars == <<seedOf, pick, draw, hist>>

FRange(f) == {f[x] : x \in DOMAIN f}
Extend(f, k, v) == [x \in DOMAIN f \cup {k} |-> IF x = k THEN v ELSE f[x]]

Lists == UNION {[1..n -> Ops] : n \in 1..MaxList}

\* Sorted(Unique(ops))
RECURSIVE SortSet(_)
SortSet(S) == IF S = {} THEN <<>>
              ELSE LET m == CHOOSE x \in S : \A y \in S : x <= y IN <<m>> \o SortSet(S \ {m})
SortedUnique(list) == SortSet(Range(list))

\* coordinationWindow.index()
Index(b) == IF b % F = 0 THEN b \div F ELSE 0

Checklist(idx, hb) ==
    IF idx = 0 THEN <<>>
    ELSE <<"Redemption">>
         \o (IF idx % 4 = 0 THEN <<"DepositSweep", "MovedFundsSweep", "MovingFunds">> ELSE <<>>)
         \o (IF hb THEN <<"Heartbeat">> ELSE <<>>)

Init == seedOf = <<>> /\ pick = <<>> /\ draw = <<>> /\ hist = {}

Budget == Cardinality(hist) < MaxCalls
Record(r) == Budget /\ hist' = hist \cup {r}

\* getSeed for wallet w when the safe block (coordination block - 32) has hash h
GetSeed(w, h, s) ==
    /\ LET k == <<w, h>> IN
         /\ IF k \in DOMAIN seedOf THEN seedOf[k] = s ELSE s \notin FRange(seedOf)
         /\ seedOf' = Extend(seedOf, k, s)
    /\ Record([kind |-> "seed", w |-> w, h |-> h, out |-> s])
    /\ UNCHANGED <<pick, draw>>

\* getSeed when the chain cannot return the safe block hash
GetSeedFails(w) ==
    /\ Record([kind |-> "seedError", w |-> w])
    /\ UNCHANGED <<seedOf, pick, draw>>

\* getLeader with the member's local view `list` of the wallet's operators
GetLeader(s, list, r) ==
    /\ LET su == SortedUnique(list)
           k == <<s, Len(su)>> IN
         /\ r \in 1..Len(su)
         /\ (k \in DOMAIN pick) => pick[k] = r
         /\ pick' = Extend(pick, k, r)
         /\ Record([kind |-> "leader", s |-> s, ops |-> list, out |-> su[r]])
    /\ UNCHANGED <<seedOf, draw>>

\* coordinate(): getActionsChecklist(window.index(), seed) for the window at block b
GetChecklist(s, b, hb) ==
    /\ IF Index(b) = 0
          THEN UNCHANGED draw      \* returns nil before the PRNG is touched
          ELSE /\ (s \in DOMAIN draw) => draw[s] = hb
               /\ draw' = Extend(draw, s, hb)
    /\ Record([kind |-> "checklist", s |-> s, b |-> b, idx |-> Index(b), out |-> Checklist(Index(b), hb)])
    /\ UNCHANGED <<seedOf, pick>>

DoGetSeed      == \E w \in Wallets, h \in Hashes, s \in Seeds : GetSeed(w, h, s)
DoGetSeedFails == \E w \in Wallets : GetSeedFails(w)
DoGetLeader    == \E s \in CallSeeds, list \in Lists, r \in 1..Cardinality(Ops) : GetLeader(s, list, r)
DoGetChecklist == \E s \in CallSeeds, b \in Blocks, hb \in BOOLEAN : GetChecklist(s, b, hb)

Next == DoGetSeed \/ DoGetSeedFails \/ DoGetLeader \/ DoGetChecklist
Spec == Init /\ [][Next]_vars

---------------------------------------------------------------------------
Calls(k) == {c \in hist : c.kind = k}

\* C22: the leader is one of the wallet's operators
LeaderIsOperator == \A c \in Calls("leader") : c.out \in Range(c.ops)

\* C22: same seed, same SET of operators => same leader, whatever the order
\* or repetition of the operators in the local view
LeaderIgnoresOrderAndRepetition ==
    \A c1, c2 \in Calls("leader") :
        (c1.s = c2.s /\ Range(c1.ops) = Range(c2.ops)) => c1.out = c2.out

\* the shuffle depends only on the seed and the number of unique operators
Rank(c) == CHOOSE i \in 1..Len(SortedUnique(c.ops)) : SortedUnique(c.ops)[i] = c.out
LeaderRankDependsOnSeedAndSize ==
    \A c1, c2 \in Calls("leader") :
        (c1.s = c2.s /\ Cardinality(Range(c1.ops)) = Cardinality(Range(c2.ops))) => Rank(c1) = Rank(c2)

\* C22: shape of the checklist
HasHeartbeat(c) == \E i \in 1..Len(c.out) : c.out[i] = "Heartbeat"
ChecklistShape ==
    \A c \in Calls("checklist") :
        /\ c.idx = (IF c.b % F = 0 THEN c.b \div F ELSE 0)
        /\ (c.idx = 0) <=> (c.out = <<>>)
        /\ c.idx > 0 => c.out[1] = "Redemption"
        /\ c.idx > 0 =>
              LET body == IF HasHeartbeat(c) THEN SubSeq(c.out, 2, Len(c.out) - 1) ELSE Tail(c.out) IN
                 body = (IF c.idx % 4 = 0 THEN <<"DepositSweep", "MovedFundsSweep", "MovingFunds">> ELSE <<>>)
        /\ \A i \in 1..Len(c.out) : c.out[i] = "Heartbeat" => i = Len(c.out)

\* C22: the heartbeat is decided by the seed alone: every window of a seed agrees
HeartbeatBySeedOnly ==
    \A c1, c2 \in Calls("checklist") :
        (c1.s = c2.s /\ c1.idx > 0 /\ c2.idx > 0) => (HasHeartbeat(c1) <=> HasHeartbeat(c2))
ChecklistDeterministic ==
    \A c1, c2 \in Calls("checklist") : (c1.s = c2.s /\ c1.idx = c2.idx) => c1.out = c2.out

\* C22: the seed is a function of the wallet and the safe block hash, nothing else
SeedDeterministic ==
    \A c1, c2 \in Calls("seed") : (c1.w = c2.w /\ c1.h = c2.h) <=> (c1.out = c2.out)

TypeOK ==
    /\ \A k \in DOMAIN pick : pick[k] \in 1..k[2]
    /\ \A s \in DOMAIN draw : draw[s] \in BOOLEAN
=============================================================================
