------------------------- MODULE Trace_Coordination -------------------------
(* Validation of the recorded call history of the real getSeed / getLeader / *)
(* getActionsChecklist (real F = 900, real block numbers, seeds as hex       *)
(* strings, operators numbered in the order of their addresses) against      *)
(* Coordination: ONE hidden choice per (wallet, hash), per (seed, number of  *)
(* unique operators) and per seed must explain every call of every member.   *)
(* Every call is made ON an executor instance; a member keeps ONE real       *)
(* coordinationExecutor per (wallet, view of its operators) for the whole    *)
(* run, members handle different subsets / orders of seeds, and control      *)
(* calls are made on fresh executors.                                        *)
(* Events (harness: /verif/harness/pkg/tbtc/c22_test.go):                    *)
(*   Reset                      forget the call records (not the choices,    *)
(*                              not the executors)                           *)
(*   NewExecutor(e, w, ops)     an executor for wallet w with view ops       *)
(*   Seed(e, h, seed)           getSeed on e returned seed (safe hash h)     *)
(*   SeedError(e)               getSeed failed (safe block hash unknown)     *)
(*   Leader(e, seed, leader)    getLeader on e returned leader               *)
(*                              (0 = an address that is no operator)         *)
(*   Checklist(e, seed, b, idx, out, k)  window.index() = idx for the window *)
(*                              at b; getActionsChecklist(idx, seed) = out;  *)
(*                              the harness keeps the returned slice as k    *)
(*   AppendNoop(k, k2, out)     allowed := append(slice k, ActionNoop) as    *)
(*                              coordinate() does; kept as k2; reads out     *)
(*   Recheck(k, out)            slice k is read again later: it reads out    *)
EXTENDS Coordination, TraceKit

VARIABLE l
tvars == <<vars, l>>
TInit == Init /\ l = 1 /\ HwmInit
IsEvent(e) == l <= Len(Trace) /\ Trace[l].event = e /\ l' = l + 1

TReset == IsEvent("Reset") /\ hist' = {} /\ UNCHANGED <<seedOf, pick, draw, permOf, execs, cache, heap, held>>

TNewExecutor == IsEvent("NewExecutor") /\ NewExecutor(Trace[l].e, Trace[l].w, Trace[l].ops)

TSeed == IsEvent("Seed") /\ GetSeed(Trace[l].e, Trace[l].h, Trace[l].seed)
TSeedError == IsEvent("SeedError") /\ GetSeedFails(Trace[l].e)

TLeader ==
    /\ IsEvent("Leader")
    /\ Trace[l].e \in DOMAIN execs
    /\ LET su == SortedUnique(execs[Trace[l].e].ops) IN
         \E r \in 1..Len(su) :
            /\ su[r] = Trace[l].leader
            /\ GetLeader(Trace[l].e, Trace[l].seed, r)

TChecklist ==
    /\ IsEvent("Checklist")
    /\ Trace[l].idx = Index(Trace[l].b)
    /\ \E hb \in BOOLEAN :
          /\ Trace[l].out = Checklist(Index(Trace[l].b), hb)
          /\ GetChecklist(Trace[l].e, Trace[l].seed, Trace[l].b, hb, Trace[l].k)

TAppendNoop ==
    /\ IsEvent("AppendNoop")
    /\ AppendNoop(Trace[l].k, Trace[l].k2)
    /\ Trace[l].out = held[Trace[l].k].exp \o <<"Noop">>

\* a slice returned earlier still reads what it read when it was returned
TRecheck ==
    /\ IsEvent("Recheck")
    /\ Trace[l].k \in DOMAIN held
    /\ Trace[l].out = held[Trace[l].k].exp
    /\ Trace[l].out = Read(Trace[l].k)
    /\ UNCHANGED vars

TNext == TReset \/ TNewExecutor \/ TSeed \/ TSeedError \/ TLeader \/ TChecklist \/ TAppendNoop \/ TRecheck
TSpec == TInit /\ [][TNext]_tvars
Hwm == HwmConstraint(l)
Accepted == HwmAccepted
=============================================================================
