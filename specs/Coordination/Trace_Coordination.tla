------------------------- MODULE Trace_Coordination -------------------------
(* Validation of the recorded call history of the real getSeed / getLeader / *)
(* getActionsChecklist (real F = 900, real block numbers, seeds as hex       *)
(* strings, operators numbered in the order of their addresses) against      *)
(* Coordination: ONE hidden choice per (wallet, hash), per (seed, number of  *)
(* unique operators) and per seed must explain every call of every member.   *)
(* Events (harness: /verif/harness/pkg/tbtc/c22_test.go):                    *)
(*   Reset                      forget the call history (not the choices)    *)
(*   Seed(w, h, seed)           getSeed returned seed for wallet w, hash h   *)
(*   SeedError(w)               getSeed failed (safe block hash unknown)     *)
(*   Leader(seed, ops, leader)  getLeader with local view ops returned leader*)
(*                              (0 = an address that is no operator)         *)
(*   Checklist(seed, b, idx, out)  window.index() = idx for the window at b; *)
(*                              getActionsChecklist(idx, seed) = out         *)
EXTENDS Coordination, TraceKit

VARIABLE l
tvars == <<vars, l>>
TInit == Init /\ l = 1 /\ HwmInit
IsEvent(e) == l <= Len(Trace) /\ Trace[l].event = e /\ l' = l + 1

TReset == IsEvent("Reset") /\ hist' = {} /\ UNCHANGED <<seedOf, pick, draw>>

TSeed == IsEvent("Seed") /\ GetSeed(Trace[l].w, Trace[l].h, Trace[l].seed)
TSeedError == IsEvent("SeedError") /\ GetSeedFails(Trace[l].w)

TLeader ==
    /\ IsEvent("Leader")
    /\ \E r \in 1..Len(SortedUnique(Trace[l].ops)) :
          /\ SortedUnique(Trace[l].ops)[r] = Trace[l].leader
          /\ GetLeader(Trace[l].seed, Trace[l].ops, r)

TChecklist ==
    /\ IsEvent("Checklist")
    /\ Trace[l].idx = Index(Trace[l].b)
    /\ \E hb \in BOOLEAN :
          /\ Trace[l].out = Checklist(Index(Trace[l].b), hb)
          /\ GetChecklist(Trace[l].seed, Trace[l].b, hb)

TNext == TReset \/ TSeed \/ TSeedError \/ TLeader \/ TChecklist
TSpec == TInit /\ [][TNext]_tvars
Hwm == HwmConstraint(l)
Accepted == HwmAccepted
=============================================================================
