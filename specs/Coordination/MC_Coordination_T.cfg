SPECIFICATION Spec
CONSTANTS
  Ops = {1, 2, 3}
  MaxList = 3
  Wallets = {"w1", "w2"}
  Hashes = {"h1", "h2"}
  Seeds = {"s1", "s2"}
  CallSeeds = {"s1", "s2"}
  F = 3
  Blocks = {0, 1, 3, 4, 12, 13, 24, 15}
  MaxCalls = 2
  Execs = {"e1"}
  Stateless = TRUE
  FreshArrays = TRUE
INVARIANTS TypeOK ExecCounts LeaderIsOperator LeaderIgnoresOrderAndRepetition LeaderHistoryIndependent LeaderIdempotent LeaderRankDependsOnSeedAndSize ChecklistShape HeartbeatBySeedOnly ChecklistHistoryIndependent SeedHistoryIndependent ChecklistStable ChecklistDependsOnlyOnSeedAndWindow
