SPECIFICATION Spec
CONSTANTS
  Ops = {1, 2, 3}
  MaxList = 3
  Wallets = {"w1", "w2"}
  Hashes = {"h1", "h2"}
  Seeds = {"s1", "s2"}
  CallSeeds = {"s1"}
  F = 3
  Blocks = {0, 3, 12, 13, 24}
  MaxCalls = 2
INVARIANTS TypeOK LeaderIsOperator LeaderIgnoresOrderAndRepetition LeaderRankDependsOnSeedAndSize ChecklistShape HeartbeatBySeedOnly ChecklistDeterministic SeedDeterministic
