-------------------------- MODULE Gen_Coordination --------------------------
(* Input-space enumeration for the conformance harness.  The results of     *)
(* getLeader / getActionsChecklist depend on hidden choices, so a case      *)
(* carries the input and what is determined without them:                   *)
(*   leader case:    the operator list (a member's local view), its sorted  *)
(*                   unique operators;                                      *)
(*   checklist case: the coordination block (model frequency F), its window *)
(*                   index and the two possible checklists (with / without  *)
(*                   heartbeat).                                            *)
(* The harness runs every case for many concrete (wallet, block hash) seeds *)
(* and members and records the calls for Trace_Coordination.                *)
EXTENDS Coordination, TLC, Json, CSV, IOUtils

VARIABLE c
Cases == {[kind |-> "leader", ops |-> l, su |-> SortedUnique(l), b |-> 0, idx |-> 0, plain |-> <<>>, hb |-> <<>>] : l \in Lists}
         \cup {[kind |-> "checklist", ops |-> <<>>, su |-> <<>>, b |-> b, idx |-> Index(b),
                plain |-> Checklist(Index(b), FALSE), hb |-> Checklist(Index(b), TRUE)] : b \in Blocks}
GInit == c \in Cases /\ Init
GSpec == GInit /\ [][UNCHANGED <<c, vars>>]_<<c, vars>>
Emit == CSVWrite("%1$s", <<ToJson(c)>>, "cases.ndjson")
=============================================================================
