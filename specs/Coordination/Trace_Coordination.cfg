SPECIFICATION TSpec
CONSTANTS
  Ops = {1, 2, 3, 4, 5}
  MaxList = 1
  Wallets = {}
  Hashes = {}
  Seeds = {}
  CallSeeds = {}
  F = 900
  Blocks = {}
  MaxCalls = 1000000
CONSTRAINT Hwm
INVARIANTS LeaderIsOperator LeaderIgnoresOrderAndRepetition LeaderRankDependsOnSeedAndSize ChecklistShape HeartbeatBySeedOnly ChecklistDeterministic SeedDeterministic
POSTCONDITION Accepted
