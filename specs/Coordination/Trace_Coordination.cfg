SPECIFICATION TSpec
CONSTANTS
  Ops = {1, 2, 3, 4, 5}
  MaxList = 1
  Wallets = {}
  Hashes = {}
  Seeds = {}
  CallSeeds = {}
  F = 900
  Blocks = {}
  MaxCalls = 1000000
  Execs = {}
  Stateless = TRUE
  FreshArrays = TRUE
CONSTRAINT Hwm
INVARIANTS LeaderIsOperator LeaderIgnoresOrderAndRepetition LeaderHistoryIndependent LeaderIdempotent LeaderRankDependsOnSeedAndSize ChecklistShape HeartbeatBySeedOnly ChecklistHistoryIndependent SeedHistoryIndependent ChecklistStable ChecklistDependsOnlyOnSeedAndWindow
POSTCONDITION Accepted
