SPECIFICATION GSpec
CONSTANTS
  Ops = {1, 2, 3, 4}
  MaxList = 4
  Wallets = {}
  Hashes = {}
  Seeds = {}
  CallSeeds = {}
  F = 3
  Blocks = {0, 1, 2, 3, 4, 5, 6, 9, 12, 13, 14, 15, 24, 36, 47, 48, 300}
  MaxCalls = 0
  Execs = {}
  Stateless = TRUE
  FreshArrays = TRUE
INVARIANTS Emit
