SPECIFICATION Spec
CONSTANTS
  Ops = {1, 2}
  MaxList = 1
  Wallets = {"w1", "w2"}
  Hashes = {"h1"}
  Seeds = {"s1", "s2"}
  CallSeeds = {"s1", "s2"}
  F = 3
  Blocks = {3, 12}
  MaxCalls = 2
  Execs = {"e1", "e2"}
  Stateless = TRUE
  FreshArrays = FALSE
INVARIANTS TypeOK ChecklistShape ChecklistStable
