SPECIFICATION Spec
CONSTANTS
  Ops = {1, 2, 3}
  MaxList = 2
  Wallets = {"w1", "w2"}
  Hashes = {"h1", "h2"}
  Seeds = {"s1", "s2"}
  CallSeeds = {"s1"}
  F = 3
  Blocks = {0, 3, 12, 13}
  MaxCalls = 3
INVARIANTS TypeOK LeaderIsOperator LeaderIgnoresOrderAndRepetition LeaderRankDependsOnSeedAndSize ChecklistShape HeartbeatBySeedOnly ChecklistDeterministic SeedDeterministic
