SPECIFICATION Spec
CONSTANTS
  Ops = {1, 2, 3}
  MaxList = 2
  Wallets = {"w1"}
  Hashes = {"h1", "h2"}
  Seeds = {"s1", "s2"}
  CallSeeds = {"s1"}
  F = 3
  Blocks = {3, 12}
  MaxCalls = 3
  Execs = {"e1", "e2"}
  Stateless = TRUE
  FreshArrays = TRUE
INVARIANTS TypeOK ExecCounts LeaderIsOperator LeaderIgnoresOrderAndRepetition LeaderHistoryIndependent LeaderIdempotent LeaderRankDependsOnSeedAndSize ChecklistShape HeartbeatBySeedOnly ChecklistHistoryIndependent SeedHistoryIndependent ChecklistStable ChecklistDependsOnlyOnSeedAndWindow
