SPECIFICATION GSpec
CONSTANTS
  G = 5
  Signers = {2, 3, 5}
  Intruders = {}
  R = 9
  Drop <- CodeDrop
  Checks <- AllChecks
  ForgedKinds <- AllKinds
  MaxForged = 4
  MaxDup = 2
  Skew = 0
INVARIANTS Emit EmitRetention TypeOK EarlyRetained HistoryClean TransitionSound SameSignature SignersNeverFail IntrudersNeverSign NothingNeededLost
CONSTRAINT StopAfterEmit
