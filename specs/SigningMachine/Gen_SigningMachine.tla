------------------------- MODULE Gen_SigningMachine -------------------------
(* Behaviour generation for SigningMachine (TLC -simulate): every step is  *)
(* logged with the acting member's abstract state after the step; the log  *)
(* is written when the last selected signer completes.  Also written once: *)
(* the retention table (state x message type -> is an admissible message   *)
(* handed to that state kept in the shared history?).                      *)
EXTENDS MC_SigningMachine, TLC, Json, CSV, IOUtils

CONSTANT Skew   \* 0, or a signer whose schedule is steered (still a legal behaviour of Spec): its last ephemeral
                \* public key message is held back until every peer has sent its round-one message, and it stays in
                \* the silent symmetric-key state until those round-one messages were handed to it

VARIABLE log
gvars == <<vars, log>>

PeersRoundOne(i) == {Genuine(3, p) : p \in Signers \ {i}}
HoldLastEphemeral(i, m) ==
    /\ (i = Skew /\ m.t = 1 /\ m.s # i /\ Admit(i, m) /\ Cardinality(SendersOf(i, 1)) = Cardinality(View(i)) - 2)
          => PeersRoundOne(i) \subseteq net
    /\ (i = Skew /\ m \in PeersRoundOne(i)) => cur[i] # 1      \* the peers' round-one messages are still in flight
StayInSilentState(i) ==
    (i = Skew /\ cur[i] = 2) => PeersRoundOne(i) \subseteq seen[i]

Wire(m) == [t |-> m.t, s |-> m.s, k |-> m.k, ses |-> m.ses, ctx |-> m.ctx]
NoMsg == [t |-> 0, s |-> 0, k |-> 0, ses |-> "", ctx |-> {}]

After(i) == [status |-> status'[i], cur |-> cur'[i], inited |-> inited'[i],
             hist |-> {Wire(m) : m \in hist'[i]}, nadm |-> nadm'[i],
             can |-> (cur'[i] \in {2, Last} \/ Cardinality({m.s : m \in {x \in hist'[i] : x.t = cur'[i]}}) = Cardinality(View(i)) - 1)]

\* `at` = the receiver's state when the message is handed to it
Log(a, i, m, kind) == log' = Append(log, [a |-> a, i |-> i, m |-> m, kind |-> kind, at |-> cur[i], after |-> After(i)])

GInit == Init /\ log = <<>>
GStart      == \E i \in Members : Start(i) /\ Log("Start", i, NoMsg, "")
GInitiate   == \E i \in Members : Initiate(i) /\ Log("Initiate", i, NoMsg, "")
GTransition == \E i \in Members : StayInSilentState(i) /\ Transition(i) /\ Log("Transition", i, NoMsg, "")
GFinish     == \E i \in Members : Finish(i) /\ Log("Finish", i, NoMsg, "")
GDeliver    == \E i \in Members : \E m \in net :
                   /\ (Admit(i, m) \/ Len(log) < MaxLog)
                   /\ HoldLastEphemeral(i, m)
                   /\ Deliver(i, m)
                   /\ Log("Deliver", i, Wire(m), IF m.s = i THEN "echo" ELSE IF m.s \in Unselected THEN "intruder" ELSE "genuine")
GDeliverDup == \E i \in Members : \E m \in net : RandomElement(1..3) = 1 /\ DeliverDup(i, m) /\ Log("Deliver", i, Wire(m), "dup")
GDeliverForged == \E i \in Signers : \E m \in {RandomElement(Forged(i) \cup {NoMsg})} :
                   m # NoMsg /\ RandomElement(1..4) = 1 /\ DeliverForged(i, m) /\ Log("Deliver", i, Wire(m), "forged")

GNext == GStart \/ GInitiate \/ GTransition \/ GFinish \/ GDeliver \/ GDeliverDup \/ GDeliverForged
GSpec == GInit /\ [][GNext]_gvars

Terminal == /\ \A i \in Signers : status[i] = "done"
            /\ Len(log) > 0 /\ log[Len(log)].a = "Finish" /\ log[Len(log)].i \in Signers

Emit == Terminal =>
    CSVWrite("%1$s", <<ToJson([g |-> G, signers |-> Signers, intruders |-> Intruders, rounds |-> R,
                               steps |-> log, forged |-> nForged, dups |-> nDup, status |-> status])>>,
             "sbehaviours.ndjson")

\* written once: which (state, message type) pairs keep an admissible message
EmitRetention == (log = <<>>) =>
    CSVWrite("%1$s", <<ToJson([g |-> G, signers |-> Signers, rounds |-> R,
                               table |-> {[state |-> k, t |-> t, retained |-> k \notin Drop] : k \in States, t \in MsgTypes}])>>,
             "retention.ndjson")

StopAfterEmit == ~Terminal /\ Len(log) < 120 * G
=============================================================================
