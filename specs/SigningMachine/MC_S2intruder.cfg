SPECIFICATION Spec
CONSTANTS
  G = 3
  Signers = {1, 3}
  Intruders = {2}
  R = 2
  Drop <- CodeDrop
  Checks <- AllChecks
  ForgedKinds <- NoKinds
  MaxForged = 0
  MaxDup = 0
INVARIANTS TypeOK EarlyRetained HistoryClean TransitionSound SameSignature SignersNeverFail IntrudersNeverSign NothingNeededLost
