SPECIFICATION Spec
CONSTANTS
  G = 3
  Signers = {1, 3}
  Intruders = {}
  R = 2
  Drop <- CodeDrop
  Checks <- AllChecks
  ForgedKinds <- AllKinds
  MaxForged = 1
  MaxDup = 1
INVARIANTS TypeOK EarlyRetained HistoryClean TransitionSound SameSignature SignersNeverFail IntrudersNeverSign NothingNeededLost
