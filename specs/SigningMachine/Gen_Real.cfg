SPECIFICATION GSpec
CONSTANTS
  G = 4
  Signers = {1, 2, 4}
  Intruders = {}
  R = 9
  Drop <- CodeDrop
  Checks <- AllChecks
  ForgedKinds <- NoKinds
  MaxForged = 0
  MaxDup = 2
  Skew = 2
INVARIANTS Emit EmitRetention TypeOK EarlyRetained HistoryClean TransitionSound SameSignature SignersNeverFail IntrudersNeverSign NothingNeededLost
CONSTRAINT StopAfterEmit
