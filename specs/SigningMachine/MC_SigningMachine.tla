------------------------- MODULE MC_SigningMachine -------------------------
EXTENDS SigningMachine
AllChecks == {"self", "member", "operating", "session"}
AllKinds  == {"excluded", "session", "outsider"}
NoKinds   == {}
CodeDrop  == {R + 3}           \* finalizationState.Receive ignores everything
SilentDrop == {2, R + 3}       \* hazard: the silent symmetric-key state ignores messages too
MaxLog == 120
=============================================================================
