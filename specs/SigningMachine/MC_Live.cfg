SPECIFICATION FairSpec
CONSTANTS
  G = 3
  Signers = {1, 3}
  Intruders = {}
  R = 2
  Drop <- CodeDrop
  Checks <- AllChecks
  ForgedKinds <- NoKinds
  MaxForged = 0
  MaxDup = 0
INVARIANTS TypeOK
PROPERTIES Completes
