SPECIFICATION Spec
CONSTANTS
  G = 3
  Signers = {1, 2, 3}
  Intruders = {}
  R = 2
  Drop <- CodeDrop
  Checks <- AllChecks
  ForgedKinds <- NoKinds
  MaxForged = 0
  MaxDup = 0
INVARIANTS TypeOK EarlyRetained HistoryClean TransitionSound SameSignature SignersNeverFail IntrudersNeverSign NothingNeededLost
