--------------------------- MODULE SigningMachine ---------------------------
(***************************************************************************)
(* C08 -- the tECDSA signing protocol (pkg/tecdsa/signing) as              *)
(* signing.Execute runs it: one message-driven machine (pkg/protocol/state *)
(* AsyncMachine) per running signer over a broadcast channel that delays   *)
(* and reorders per receiver.  The network layer filters retransmissions   *)
(* as duplicates, so a message reaches a receiver's machine ONCE (plus a   *)
(* bounded number of explicit duplicates): a message the current state     *)
(* throws away never comes back.                                           *)
(*                                                                         *)
(* Protocol states of a signer (pkg/tecdsa/signing/states.go), R = 9:      *)
(*   1        ephemeralKeyPairGenerationState  sends 1, waits for type 1   *)
(*   2        symmetricKeyGenerationState      silent, consumes type 1     *)
(*   2+r      tssRound<r>State, r = 1..R       sends 2+r, consumes 1+r     *)
(*                                             (r > 1), waits for 2+r      *)
(*   R+3      finalizationState                silent, consumes R+2, ends  *)
(* Every state but the last has the same Receive: a payload implementing   *)
(* `message` is appended to the SHARED BaseAsyncState history iff          *)
(*   sender # self /\ valid membership /\ IsOperating(sender) /\ session   *)
(* whatever its type -- a faster peer may already be one round ahead, and  *)
(* its message must still be there when the later state needs it.  The     *)
(* silent symmetric-key state lasts one ticker period (~100 ms); peers'    *)
(* round-one messages that arrive in that window are stored by ITS         *)
(* Receive.  finalizationState.Receive ignores everything (nothing is      *)
(* needed after it).                                                       *)
(*                                                                         *)
(* CONSTANT Drop = the states whose Receive ignores messages: {R+3} in the *)
(* code; the hazard configuration adds the silent state 2 ("no messages    *)
(* are valid in this state") and must be refuted by TLC.                   *)
(***************************************************************************)
EXTENDS Integers, Sequences, FiniteSets

CONSTANTS
    G,           \* size of the wallet's final signing group
    Signers,     \* final indices selected for the attempt
    Intruders,   \* unselected members that run Execute nevertheless
    R,           \* number of TSS rounds (9 in the code)
    Drop,        \* states whose Receive ignores messages
    Checks,      \* admission conjuncts in force
    ForgedKinds, \* subset of {"excluded", "session", "outsider"}
    MaxForged, MaxDup

Members    == 1..G
Unselected == Members \ Signers
Runners    == Signers \cup Intruders
Last       == R + 3
States     == 1..Last
MsgTypes   == {1} \cup 3..(R + 2)
Consumes(k) == IF k = 2 THEN 1 ELSE IF k >= 4 THEN k - 1 ELSE 0

ASSUME /\ Signers \subseteq Members /\ Intruders \subseteq Unselected /\ Cardinality(Signers) >= 2
       /\ R \in Nat /\ R >= 2 /\ Drop \subseteq States

\* group view after Execute's marking loop (the attempt's excluded members, never the member itself)
View(i) == Members \ (Unselected \ {i})

Msg(t, s, k, ses, ctx) == [t |-> t, s |-> s, k |-> k, ses |-> ses, ctx |-> ctx]
Genuine(t, i) == Msg(t, i, i, "cur", View(i))
AllGenuine == {Genuine(t, j) : t \in MsgTypes, j \in Runners}

Forged(i) ==
    UNION {
      IF "excluded" \in ForgedKinds THEN {Msg(t, e, e, "cur", View(e)) : t \in MsgTypes, e \in Unselected} ELSE {},
      IF "session" \in ForgedKinds  THEN {Msg(t, p, p, "old", Signers) : t \in MsgTypes, p \in Signers \ {i}} ELSE {},
      IF "outsider" \in ForgedKinds THEN {Msg(t, p, 0, "cur", Signers) : t \in MsgTypes, p \in Signers \ {i}} ELSE {} }

VARIABLES
    status,    \* i -> "idle" | "running" | "done" | "failed"
    cur,       \* i -> current state
    inited,    \* i -> Initiate of the current state returned nil
    hist,      \* i -> admitted messages (shared BaseAsyncState, as a set)
    nadm,      \* i -> number of ReceiveToHistory calls
    consumed,  \* i -> messages fed to the TSS party / key derivation
    net,       \* protocol messages sent so far
    seen,      \* i -> messages the network already handed to i's machine
    accepted,  \* i -> ghost: admissible messages handed to i before its final state
    nForged, nDup

vars == <<status, cur, inited, hist, nadm, consumed, net, seen, accepted, nForged, nDup>>

Init ==
    /\ status = [i \in Members |-> "idle"] /\ cur = [i \in Members |-> 1]
    /\ inited = [i \in Members |-> FALSE]
    /\ hist = [i \in Members |-> {}] /\ nadm = [i \in Members |-> 0]
    /\ consumed = [i \in Members |-> {}]
    /\ net = {} /\ seen = [i \in Members |-> {}] /\ accepted = [i \in Members |-> {}]
    /\ nForged = 0 /\ nDup = 0

Admit(i, m) ==
    /\ ("self" \in Checks) => m.s # i
    /\ ("member" \in Checks) => (m.k = m.s /\ m.s \in Members)
    /\ ("operating" \in Checks) => m.s \in View(i)
    /\ ("session" \in Checks) => m.ses = "cur"

OfType(i, t) == {m \in hist[i] : m.t = t}
SendersOf(i, t) == {m.s : m \in OfType(i, t)}

CanTransition(i) ==
    \/ cur[i] \in {2, Last}
    \/ Cardinality(SendersOf(i, cur[i])) = Cardinality(View(i)) - 1

\* round-one and round-two messages (types 3, 4) carry point-to-point parts
\* for the members of the SENDER's party context
Consumable(i, M) ==
    /\ {m.s : m \in M} = View(i) \ {i}
    /\ Cardinality(M) = Cardinality(View(i)) - 1
    /\ \A m \in M : /\ m.ses = "cur" /\ m.k = m.s
                     /\ m.t \in {3, 4} => i \in m.ctx

Start(i) ==
    /\ i \in Runners /\ status[i] = "idle"
    /\ status' = [status EXCEPT ![i] = "running"]
    /\ UNCHANGED <<cur, inited, hist, nadm, consumed, net, seen, accepted, nForged, nDup>>
DoStart == \E i \in Members : Start(i)

Initiate(i) ==
    /\ status[i] = "running" /\ ~inited[i]
    /\ LET k == cur[i]  c == Consumes(cur[i]) IN
         IF c # 0 /\ ~Consumable(i, OfType(i, c))
            THEN /\ status' = [status EXCEPT ![i] = "failed"]
                 /\ UNCHANGED <<inited, consumed, net>>
            ELSE /\ inited' = [inited EXCEPT ![i] = TRUE]
                 /\ consumed' = [consumed EXCEPT ![i] = IF c # 0 THEN @ \cup OfType(i, c) ELSE @]
                 /\ net' = IF k \in MsgTypes THEN net \cup {Genuine(k, i)} ELSE net
                 /\ UNCHANGED status
    /\ UNCHANGED <<cur, hist, nadm, seen, accepted, nForged, nDup>>
DoInitiate == \E i \in Members : Initiate(i)

Transition(i) ==
    /\ status[i] = "running" /\ inited[i] /\ CanTransition(i) /\ cur[i] < Last
    /\ cur' = [cur EXCEPT ![i] = @ + 1]
    /\ inited' = [inited EXCEPT ![i] = FALSE]
    /\ UNCHANGED <<status, hist, nadm, consumed, net, seen, accepted, nForged, nDup>>
DoTransition == \E i \in Members : Transition(i)

Finish(i) ==
    /\ status[i] = "running" /\ inited[i] /\ cur[i] = Last
    /\ status' = [status EXCEPT ![i] = "done"]
    /\ UNCHANGED <<cur, inited, hist, nadm, consumed, net, seen, accepted, nForged, nDup>>
DoFinish == \E i \in Members : Finish(i)

\* the machine hands a message to the CURRENT state's Receive
Receive(i, m) ==
    LET stored == Admit(i, m) /\ cur[i] \notin Drop IN
    /\ hist' = [hist EXCEPT ![i] = IF stored THEN @ \cup {m} ELSE @]
    /\ nadm' = [nadm EXCEPT ![i] = IF stored THEN @ + 1 ELSE @]
    /\ accepted' = [accepted EXCEPT ![i] = IF Admit(i, m) /\ cur[i] # Last THEN @ \cup {m} ELSE @]

Deliver(i, m) ==
    /\ status[i] = "running" /\ m \in net \ seen[i]
    /\ Receive(i, m)
    /\ seen' = [seen EXCEPT ![i] = @ \cup {m}]
    /\ UNCHANGED <<status, cur, inited, consumed, net, nForged, nDup>>
DoDeliver == \E i \in Members : \E m \in net : Deliver(i, m)

DeliverDup(i, m) ==
    /\ status[i] = "running" /\ m \in seen[i] /\ nDup < MaxDup
    /\ Receive(i, m)
    /\ nDup' = nDup + 1
    /\ UNCHANGED <<status, cur, inited, consumed, net, seen, nForged>>
DoDeliverDup == \E i \in Members : \E m \in net : DeliverDup(i, m)

DeliverForged(i, m) ==
    /\ status[i] = "running" /\ i \in Signers /\ nForged < MaxForged
    /\ m \in Forged(i)
    /\ Receive(i, m)
    /\ nForged' = nForged + 1
    /\ UNCHANGED <<status, cur, inited, consumed, net, seen, nDup>>
DoDeliverForged == \E i \in Members : \E m \in Forged(i) : DeliverForged(i, m)

Next == DoStart \/ DoInitiate \/ DoTransition \/ DoFinish \/ DoDeliver \/ DoDeliverDup \/ DoDeliverForged
Spec == Init /\ [][Next]_vars

\* the machines keep running and the network delivers every sent message to
\* every running member (once)
FairSpec ==
    /\ Spec
    /\ \A i \in Members : WF_vars(Start(i)) /\ WF_vars(Initiate(i)) /\ WF_vars(Transition(i)) /\ WF_vars(Finish(i))
    /\ \A i \in Members : \A m \in AllGenuine : WF_vars(Deliver(i, m))

---------------------------------------------------------------------------
TypeOK ==
    /\ \A i \in Members : /\ status[i] \in {"idle", "running", "done", "failed"}
                          /\ cur[i] \in States /\ inited[i] \in BOOLEAN
    /\ nForged \in 0..MaxForged /\ nDup \in 0..MaxDup

\* C08 / C15: a message admitted by ANY state of the receiver before the final
\* one -- including the silent symmetric-key state -- is in the shared history,
\* i.e. available to the later state that needs it
EarlyRetained == \A i \in Runners : accepted[i] \subseteq hist[i]

HistoryClean ==
    \A i \in Signers : \A m \in hist[i] :
        m.s \in Signers \ {i} /\ m.ses = "cur" /\ m.k = m.s /\ m \in net

TransitionSound ==
    \A i \in Signers : status[i] # "idle" =>
        \A t \in MsgTypes : t < cur[i] => SendersOf(i, t) = Signers \ {i}

\* every signer that completes derived its signature share from exactly the
\* other selected signers' messages: they all hold the same signature
Expected(i) == {Genuine(t, j) : t \in MsgTypes, j \in Signers \ {i}}
SameSignature == \A i \in Signers : status[i] = "done" => consumed[i] = Expected(i)

SignersNeverFail    == \A i \in Signers : status[i] # "failed"
IntrudersNeverSign  == \A e \in Intruders : status[e] # "done"

\* a signer is never stuck: if every message it still needs was already handed
\* to its machine, the messages are in its history (nothing needed was lost)
NothingNeededLost ==
    \A i \in Signers : status[i] = "running" =>
        \A m \in seen[i] : (Admit(i, m) /\ m.t >= cur[i] /\ cur[i] # Last) => m \in hist[i]

AllDone   == \A i \in Signers : status[i] = "done"
Completes == <>AllDone
=============================================================================
