SPECIFICATION FairSpec
CONSTANTS
  G = 3
  Signers = {1, 3}
  Intruders = {}
  R = 2
  Drop <- SilentDrop
  Checks <- AllChecks
  ForgedKinds <- NoKinds
  MaxForged = 0
  MaxDup = 0
INVARIANTS TypeOK
PROPERTIES Completes
