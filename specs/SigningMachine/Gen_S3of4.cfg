SPECIFICATION GSpec
CONSTANTS
  G = 4
  Signers = {1, 2, 4}
  Intruders = {3}
  R = 9
  Drop <- CodeDrop
  Checks <- AllChecks
  ForgedKinds <- AllKinds
  MaxForged = 4
  MaxDup = 2
  Skew = 0
INVARIANTS Emit EmitRetention TypeOK EarlyRetained HistoryClean TransitionSound SameSignature SignersNeverFail IntrudersNeverSign NothingNeededLost
CONSTRAINT StopAfterEmit
