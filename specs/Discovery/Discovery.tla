------------------------------ MODULE Discovery ------------------------------
(***************************************************************************)
(* Proposal discovery of the tBTC wallet coordinator (/repo/pkg/tbtcpg):   *)
(*                                                                         *)
(*   findDeposits / FindDepositsToSweep   deposit_sweep.go  -> FindDeposits*)
(*   findPendingRedemptions /                                              *)
(*   FindPendingRedemptions               redemptions.go -> FindRedemptions*)
(*   ProposalGenerator.Generate           tbtcpg.go         -> Generate    *)
(*                                                                         *)
(* All three are deterministic functions of the chain state they read (up  *)
(* to the order of equally old redemption requests, see AllowedRedemptions)*)
(* so a scenario is enumerated in Init and one named action per function   *)
(* computes what the code must return.                                     *)
(*                                                                         *)
(* Time.  Ages are integer slots: a request with age slot a is between a   *)
(* and a+1 time units old (the harness puts it at a + 1/2 units, one unit  *)
(* = 1 hour), thresholds are whole units.  So "older than minAge" is       *)
(* a >= minAge and "not older than the timeout" is a + 1 <= timeout; ages  *)
(* exactly on a threshold are not modelled.                                *)
(***************************************************************************)
EXTENDS Integers, Sequences, FiniteSets

CONSTANTS
    \* ---- deposits
    MaxDepositEvents,   \* max number of DepositRevealed events
    DepositBlocks,      \* reveal blocks
    DepositStates,      \* subset of AllDepositStates
    DepositLimits,      \* maxNumberOfDeposits values (0 = unlimited)
    DepositFlags,       \* set of <<skipSwept, skipUnconfirmed>>
    DepositFilters,     \* subset of {"this", "all"}: events of the wallet only / of all wallets
    \* ---- redemptions
    RedemptionHistories,\* set of event sequences, each event [key, block, wallet]; block 0 = older
                        \* than the lookback window of the event filter
    RedemptionAges,     \* age slots of pending requests
    RedemptionDelays,   \* per-request delays (units)
    RedemptionLimits,   \* requestsLimit values (0 = unlimited)
    RequestMinAge, RequestTimeout,
    RedemptionFaults,
    \* ---- generator
    MaxChecklist,       \* max checklist length
    ChecklistActions,   \* actions that may appear in a checklist
    SupportedActions    \* actions the generator has a task for

DepositMinAge == 2
RequiredConfirmations == 6      \* tbtc.DepositSweepRequiredFundingTxConfirmations

\* representative states of a revealed deposit (request in the Bridge + funding transaction)
\*   ok       old enough, not swept, 6 confirmations     ok7     ... 7 confirmations
\*   young    revealed less than the minimum age ago     swept   already swept
\*   conf5    only 5 confirmations                       conferr confirmations cannot be read (counts as 0)
\*   sweptc5  swept and 5 confirmations                  missing no deposit request in the Bridge (error)
\*   other    a deposit of another wallet (eligible otherwise)
AllDepositStates == {"ok", "ok7", "young", "swept", "conf5", "conferr", "sweptc5", "missing", "other"}

DepAge(s)   == IF s = "young" THEN 1 ELSE 3
DepSwept(s) == s \in {"swept", "sweptc5"}
DepConf(s)  == CASE s \in {"conf5", "sweptc5"} -> 5 [] s = "conferr" -> 0 [] s = "ok7" -> 7 [] OTHER -> 6
DepWallet(s) == IF s = "other" THEN "other" ELSE "this"

DepositEvents == [block : DepositBlocks, state : DepositStates]
DepositHistories == UNION { [1..n -> DepositEvents] : n \in 0..MaxDepositEvents }

DepositScenarios ==
    [kind : {"deposits"}, events : DepositHistories, limit : DepositLimits, flags : DepositFlags,
     filter : DepositFilters]

\* redemption scenario: a history plus the Bridge state of every redemption key
RedemptionKeysOf(h) == { h[i].key : i \in 1..Len(h) }
KeyStates == {[pending |-> FALSE, age |-> 0, delay |-> 0]} \cup
             [pending : {TRUE}, age : RedemptionAges, delay : RedemptionDelays]
RedemptionScenarios ==
    UNION { [kind : {"redemptions"}, events : {h}, keys : [RedemptionKeysOf(h) -> KeyStates],
             limit : RedemptionLimits, fault : RedemptionFaults] : h \in RedemptionHistories }

Outcomes == {"proposal", "none", "error"}
Checklists == UNION { [1..n -> ChecklistActions] : n \in 0..MaxChecklist }
GeneratorScenarios ==
    [kind : {"generate"}, checklist : Checklists, outcome : [SupportedActions -> Outcomes]]

VARIABLES in, res, done
vars == <<in, res, done>>

---------------------------------------------------------------------------
\* helpers

\* stable sort of a sequence by an integer key: positions ordered by (key, position)
RECURSIVE StableOrder(_, _)
StableOrder(keyOf, S) ==    \* S: set of positions; keyOf: function position -> key
    IF S = {} THEN <<>>
    ELSE LET m == CHOOSE x \in S : \A y \in S : keyOf[x] < keyOf[y] \/ (keyOf[x] = keyOf[y] /\ x <= y)
         IN <<m>> \o StableOrder(keyOf, S \ {m})

---------------------------------------------------------------------------
\* findDeposits: events of the wallet (filter applied by the chain), stable-sorted by reveal
\* block; each looked up in the Bridge until the limit is reached.

DepositEligible(s, flags) ==
    /\ s # "missing"
    /\ DepAge(s) >= DepositMinAge
    /\ ~(flags[1] /\ DepSwept(s))
    /\ ~(flags[2] /\ DepConf(s) < RequiredConfirmations)

\* scan the ordered positions; acc = selected positions so far
RECURSIVE ScanDeposits(_, _, _, _, _, _)
ScanDeposits(evs, order, i, acc, cap, flags) ==
    IF i > Len(order) \/ Len(acc) = cap THEN [err |-> "", sel |-> acc]
    ELSE LET s == evs[order[i]].state IN
         IF s = "missing" THEN [err |-> "noRequest", sel |-> <<>>]
         ELSE IF DepositEligible(s, flags) THEN ScanDeposits(evs, order, i + 1, Append(acc, order[i]), cap, flags)
         ELSE ScanDeposits(evs, order, i + 1, acc, cap, flags)

DepositsResult(sc) ==
    LET evs     == sc.events
        visible == { i \in 1..Len(evs) : sc.filter = "all" \/ DepWallet(evs[i].state) = "this" }
        order   == StableOrder([i \in 1..Len(evs) |-> evs[i].block], visible)
        cap     == IF sc.limit > 0 THEN sc.limit ELSE Len(order)
        r       == ScanDeposits(evs, order, 1, <<>>, cap, sc.flags)
    IN [err |-> r.err, sel |-> r.sel, ran |-> <<>>]

---------------------------------------------------------------------------
\* findPendingRedemptions: events of the wallet not older than the lookback window,
\* deduplicated per redemption key; keys still pending in the Bridge, oldest request first;
\* timed-out and too-young requests are skipped until the limit is reached.

VisibleKeys(sc) ==
    { sc.events[i].key : i \in { j \in 1..Len(sc.events) : sc.events[j].wallet = "this" /\ sc.events[j].block > 0 } }
PendingKeys(sc) == { k \in VisibleKeys(sc) : sc.keys[k].pending }

TimedOut(st) == st.age + 1 > RequestTimeout
EffectiveMinAge(st) == IF st.delay > RequestMinAge THEN st.delay ELSE RequestMinAge
TooYoung(st) == st.age < EffectiveMinAge(st)

RECURSIVE ScanRedemptions(_, _, _, _, _, _)
ScanRedemptions(sc, order, i, acc, cap, fault) ==
    IF i > Len(order) \/ Len(acc) = cap THEN [err |-> "", sel |-> acc]
    ELSE LET st == sc.keys[order[i]] IN
         IF TimedOut(st) THEN ScanRedemptions(sc, order, i + 1, acc, cap, fault)
         ELSE IF fault = "delay" THEN [err |-> "delay", sel |-> <<>>]
         ELSE IF TooYoung(st) THEN ScanRedemptions(sc, order, i + 1, acc, cap, fault)
         ELSE ScanRedemptions(sc, order, i + 1, Append(acc, order[i]), cap, fault)

\* all orders of a set of keys that are oldest-first (equally old requests in any order:
\* the code iterates over a Go map before a stable sort)
OldestFirstOrders(sc, K) ==
    { o \in [1..Cardinality(K) -> K] :
          /\ \A i, j \in 1..Cardinality(K) : i # j => o[i] # o[j]
          /\ \A i \in 1..(Cardinality(K) - 1) : sc.keys[o[i]].age >= sc.keys[o[i + 1]].age }

RedemptionsFor(sc, order) ==
    IF sc.fault = "events" THEN [err |-> "events", sel |-> <<>>]
    ELSE IF sc.fault = "pending" /\ VisibleKeys(sc) # {} THEN [err |-> "pending", sel |-> <<>>]
    ELSE LET cap == IF sc.limit > 0 THEN sc.limit ELSE Len(order)
         IN ScanRedemptions(sc, order, 1, <<>>, cap, sc.fault)

AllowedRedemptions(sc) == { RedemptionsFor(sc, o) : o \in OldestFirstOrders(sc, PendingKeys(sc)) }

\* the result for one canonical order (keys are strings: ties broken by the CHOOSE below)
RedemptionsResult(sc) ==
    LET r == CHOOSE x \in AllowedRedemptions(sc) : TRUE
    IN [err |-> r.err, sel |-> r.sel, ran |-> <<>>]

---------------------------------------------------------------------------
\* ProposalGenerator.Generate: run the tasks in checklist order; unsupported actions are
\* skipped; the first error aborts; the first proposal is returned; otherwise no-op.

RECURSIVE RunChecklist(_, _, _)
RunChecklist(sc, i, ran) ==
    IF i > Len(sc.checklist) THEN [err |-> "", sel |-> <<"Noop">>, ran |-> ran]
    ELSE LET a == sc.checklist[i] IN
         IF a \notin SupportedActions THEN RunChecklist(sc, i + 1, ran)
         ELSE CASE sc.outcome[a] = "error"    -> [err |-> a, sel |-> <<>>, ran |-> Append(ran, a)]
                [] sc.outcome[a] = "proposal" -> [err |-> "", sel |-> <<a>>, ran |-> Append(ran, a)]
                [] sc.outcome[a] = "none"     -> RunChecklist(sc, i + 1, Append(ran, a))

GenerateResult(sc) == RunChecklist(sc, 1, <<>>)

---------------------------------------------------------------------------
Pending == [err |-> "pending", sel |-> <<>>, ran |-> <<>>]

Init == in \in (DepositScenarios \cup RedemptionScenarios \cup GeneratorScenarios)
        /\ res = Pending /\ done = FALSE

FindDeposits ==
    /\ ~done /\ in.kind = "deposits"
    /\ res' = DepositsResult(in) /\ done' = TRUE /\ UNCHANGED in
FindRedemptions ==
    /\ ~done /\ in.kind = "redemptions"
    /\ res' = RedemptionsResult(in) /\ done' = TRUE /\ UNCHANGED in
Generate ==
    /\ ~done /\ in.kind = "generate"
    /\ res' = GenerateResult(in) /\ done' = TRUE /\ UNCHANGED in

Next == FindDeposits \/ FindRedemptions \/ Generate
Spec == Init /\ [][Next]_vars

---------------------------------------------------------------------------
\* Invariants (C33), stated declaratively

Built(kind) == done /\ in.kind = kind /\ res.err = ""
Range(s) == { s[i] : i \in 1..Len(s) }
IsInjective(s) == \A i, j \in 1..Len(s) : i # j => s[i] # s[j]

\* ---- deposits
\* positions the chain hands out, in the order the code must consider them
DepBefore(i, j) == in.events[i].block < in.events[j].block \/ (in.events[i].block = in.events[j].block /\ i < j)
DepVisible(i) == in.filter = "all" \/ DepWallet(in.events[i].state) = "this"
DepGood(i) == DepVisible(i) /\ DepositEligible(in.events[i].state, in.flags)

DepositsAreFirstEligible ==
    Built("deposits") =>
        /\ IsInjective(res.sel)
        /\ \A i \in Range(res.sel) : DepGood(i)                                     \* only eligible ones
        /\ \A n \in 1..(Len(res.sel) - 1) : DepBefore(res.sel[n], res.sel[n + 1])  \* in reveal order
        /\ (in.limit > 0) => Len(res.sel) <= in.limit                               \* at most the maximum
        \* no eligible deposit is passed over: every eligible deposit before a selected one is
        \* selected, and the result is only shorter than the limit if nothing else is eligible
        /\ \A i \in 1..Len(in.events) :
              (DepGood(i) /\ i \notin Range(res.sel)) =>
                  /\ \A j \in Range(res.sel) : DepBefore(j, i)
                  /\ in.limit > 0 /\ Len(res.sel) = in.limit

\* deposits of other wallets are never proposed for this wallet
DepositsOfThisWalletOnly ==
    (Built("deposits") /\ in.filter = "this") =>
        \A i \in Range(res.sel) : DepWallet(in.events[i].state) = "this"

\* sweeping mode (both flags): never a swept, young or insufficiently confirmed deposit
SweepableOnly ==
    (Built("deposits") /\ in.flags = <<TRUE, TRUE>>) =>
        \A i \in Range(res.sel) : in.events[i].state \in {"ok", "ok7", "other"}

\* ---- redemptions
RedGood(k) == /\ k \in PendingKeys(in) /\ ~TimedOut(in.keys[k]) /\ ~TooYoung(in.keys[k])

RedemptionsAreOldestEligible ==
    (Built("redemptions") /\ in.fault = "none") =>
        /\ IsInjective(res.sel)                                             \* one per redemption key
        /\ \A k \in Range(res.sel) : RedGood(k)
        /\ \A n \in 1..(Len(res.sel) - 1) : in.keys[res.sel[n]].age >= in.keys[res.sel[n + 1]].age
        /\ (in.limit > 0) => Len(res.sel) <= in.limit
        /\ \A k \in PendingKeys(in) :
              (RedGood(k) /\ k \notin Range(res.sel)) =>
                  /\ \A j \in Range(res.sel) : in.keys[j].age >= in.keys[k].age
                  /\ in.limit > 0 /\ Len(res.sel) = in.limit

\* age window: [max(minAge, delay), timeout]
RedemptionsInsideWindow ==
    Built("redemptions") =>
        \A k \in Range(res.sel) :
            /\ in.keys[k].age >= RequestMinAge /\ in.keys[k].age >= in.keys[k].delay
            /\ in.keys[k].age + 1 <= RequestTimeout

\* whatever the order of equally old requests, the same number of requests is selected and
\* the ages selected are the same
TieIndependent ==
    (done /\ in.kind = "redemptions") =>
        \A x, y \in AllowedRedemptions(in) :
            /\ x.err = y.err
            /\ Len(x.sel) = Len(y.sel)
            /\ \A n \in 1..Len(x.sel) : in.keys[x.sel[n]].age = in.keys[y.sel[n]].age

\* ---- generator
FirstYielding ==
    (done /\ in.kind = "generate") =>
        LET sup == [i \in 1..Len(in.checklist) |-> in.checklist[i] \in SupportedActions]
            decisive == { i \in 1..Len(in.checklist) : sup[i] /\ in.outcome[in.checklist[i]] # "none" }
        IN IF decisive = {} THEN /\ res.err = "" /\ res.sel = <<"Noop">>
                                 /\ res.ran = SelectSeq(in.checklist, LAMBDA x : x \in SupportedActions)
           ELSE LET f == CHOOSE i \in decisive : \A j \in decisive : i <= j
                    a == in.checklist[f]
                IN /\ (in.outcome[a] = "proposal") => (res.err = "" /\ res.sel = <<a>>)
                   /\ (in.outcome[a] = "error") => (res.err = a /\ res.sel = <<>>)
                   \* exactly the supported tasks up to the decisive one ran, in checklist order
                   /\ res.ran = SelectSeq(SubSeq(in.checklist, 1, f), LAMBDA x : x \in SupportedActions)
=============================================================================
