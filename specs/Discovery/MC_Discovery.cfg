SPECIFICATION Spec
CONSTANTS
  MaxDepositEvents = 3
  DepositBlocks = {1, 2}
  DepositStates = {"ok", "young", "swept", "conf5", "conferr", "missing", "other"}
  DepositLimits = {0, 1, 2}
  DepositFilters = {"this", "all"}
  DepositFlags <- SweepFlags
  RedemptionHistories <- HistoriesQ
  RedemptionAges = {1, 3, 5, 8}
  RedemptionDelays = {0, 4}
  RedemptionLimits = {0, 1, 2}
  RequestMinAge = 2
  RequestTimeout = 7
  RedemptionFaults = {"none", "events", "pending", "delay"}
  MaxChecklist = 3
  ChecklistActions = {"Noop", "Heartbeat", "DepositSweep", "Redemption", "MovingFunds"}
  SupportedActions = {"Heartbeat", "DepositSweep", "Redemption", "MovingFunds"}
INVARIANTS DepositsAreFirstEligible DepositsOfThisWalletOnly SweepableOnly RedemptionsAreOldestEligible RedemptionsInsideWindow TieIndependent FirstYielding
