---------------------------- MODULE Gen_Discovery ----------------------------
(* Case generation: every scenario of the configured space with what the    *)
(* specification expects; for redemptions the set of all results allowed by  *)
(* the order of equally old requests.  One batch, single-state model.        *)
EXTENDS MC_Discovery, TLC, Json, SequencesExt

CONSTANT GenKinds    \* which kinds of cases this run emits (the engine runs the kinds in parallel)

DepositCase(sc) == [in |-> sc, expected |-> DepositsResult(sc), allowed |-> {}]
RedemptionCase(sc) ==
    [in |-> [kind |-> sc.kind, events |-> sc.events, limit |-> sc.limit, fault |-> sc.fault,
             \* function over strings -> JSON object
             keys |-> sc.keys],
     expected |-> RedemptionsResult(sc),
     allowed |-> { [err |-> r.err, sel |-> r.sel] : r \in AllowedRedemptions(sc) }]
GenerateCase(sc) == [in |-> sc, expected |-> GenerateResult(sc), allowed |-> {}]

Cases == (IF "deposits" \in GenKinds THEN { DepositCase(sc) : sc \in DepositScenarios } ELSE {})
         \cup (IF "redemptions" \in GenKinds THEN { RedemptionCase(sc) : sc \in RedemptionScenarios } ELSE {})
         \cup (IF "generate" \in GenKinds THEN { GenerateCase(sc) : sc \in GeneratorScenarios } ELSE {})

GInit == /\ in = [kind |-> "generation"] /\ res = Pending /\ done = TRUE
GNext == FALSE /\ UNCHANGED vars
GSpec == GInit /\ [][GNext]_vars

EmitAll == ndJsonSerialize("cases.ndjson", SetToSeq(Cases))
=============================================================================
