---------------------------- MODULE MC_Discovery ----------------------------
(* Constant definitions (tuples / records cannot be written in a .cfg).     *)
EXTENDS Discovery

AllFlags   == {<<TRUE, TRUE>>, <<FALSE, FALSE>>, <<TRUE, FALSE>>, <<FALSE, TRUE>>}
SweepFlags == {<<TRUE, TRUE>>, <<FALSE, FALSE>>}

E(k, b, w) == [key |-> k, block |-> b, wallet |-> w]
T(k, b) == E(k, b, "this")

\* redemption event histories: in order, out of order, duplicates per key (the latest event
\* counts), events older than the lookback window, events of another wallet
Histories ==
    { <<>>,
      <<T("k1", 1)>>,
      <<T("k1", 1), T("k2", 2), T("k3", 3)>>,
      <<T("k3", 3), T("k1", 1), T("k2", 2)>>,
      <<T("k1", 1), T("k1", 3), T("k2", 2)>>,
      <<T("k2", 2), T("k2", 2), T("k3", 1), T("k1", 1)>>,
      <<T("k1", 0), T("k2", 1)>>,
      <<T("k1", 0), T("k1", 2), E("k3", 1, "other"), T("k2", 3)>>,
      <<E("k1", 1, "other"), E("k2", 2, "other")>> }
HistoriesQ ==
    { <<>>,
      <<T("k3", 3), T("k1", 1), T("k2", 2)>>,
      <<T("k1", 1), T("k1", 3), T("k2", 2)>>,
      <<T("k1", 0), T("k1", 2), E("k3", 1, "other"), T("k2", 3)>> }
=============================================================================
