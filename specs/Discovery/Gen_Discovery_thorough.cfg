SPECIFICATION GSpec
CONSTANTS
  MaxDepositEvents = 3
  DepositBlocks = {1, 2}
  DepositStates = {"ok", "ok7", "young", "swept", "conf5", "conferr", "sweptc5", "missing", "other"}
  DepositLimits = {0, 2}
  DepositFilters = {"this", "all"}
  DepositFlags <- AllFlags
  RedemptionHistories <- Histories
  RedemptionAges = {1, 3, 5, 6, 8}
  RedemptionDelays = {0, 4}
  RedemptionLimits = {0, 1, 2}
  RequestMinAge = 2
  RequestTimeout = 7
  RedemptionFaults = {"none", "events", "pending", "delay"}
  MaxChecklist = 3
  ChecklistActions = {"Noop", "Heartbeat", "DepositSweep", "Redemption", "MovingFunds", "MovedFundsSweep"}
  SupportedActions = {"Heartbeat", "DepositSweep", "Redemption", "MovingFunds", "MovedFundsSweep"}
  GenKinds = {"deposits", "redemptions", "generate"}
INVARIANTS EmitAll
