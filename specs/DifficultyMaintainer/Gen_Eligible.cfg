SPECIFICATION GSpec
CONSTANTS
  L = 8
  ProofLens = {1, 2, 3}
  MaxHeight = 40
  MaxEpoch = 4
  MaxFaults = 1
  MaxEnv = 1
  MaxLag = 2
  Steps = 60
  StartEligible = TRUE
  MaxOther = 1
  MaxRestarts = 3
  FaultAfter = 12
  RaceBias = FALSE
  MaxStale = 1
INVARIANTS Emit
