---------------------- MODULE Gen_DifficultyMaintainer ----------------------
(* Behaviour generation for lock-step replay on the real control loop.      *)
(* Every step records the action, whether the query fails, the environment  *)
(* after the step (the harness installs it in its scripted chains) and what *)
(* the maintainer must do next (pc).  Used with -simulate.                  *)
EXTENDS DifficultyMaintainer, TLC, Json, CSV, IOUtils

CONSTANTS Steps,          \* length of an emitted behaviour
          StartEligible,  \* start with a ready relay and an authorized maintainer
          MaxOther,       \* retargets by another maintainer
          MaxRestarts,    \* restarts of proveEpochs
          FaultAfter,     \* queries fail only after this many steps
          RaceBias,       \* environment changes only between the maintainer's reads and its submission
          MaxStale        \* polls answered with a stale epoch (each costs the code's 1 s sleep)

VARIABLES hist, init, stale, others, restarts
gvars == <<vars, hist, init, stale, others, restarts>>

Env == [height |-> height, relay |-> relayEpoch, visible |-> visibleEpoch, proofLen |-> proofLen,
        ready |-> ready, authDirect |-> authDirect, authRefund |-> authRefund]

GInit ==
    /\ Init
    /\ StartEligible => (ready /\ Authorized)
    /\ hist = <<>> /\ stale = 0 /\ others = 0 /\ restarts = 0
    /\ init = [env |-> Env, disableProxy |-> disableProxy]

Log(a) ==
    hist' = Append(hist, [a |-> a, fault |-> (faults' > faults), pc |-> pc', env |-> Env',
                          first |-> First, last |-> Last, epoch |-> NewEpoch,
                          ok |-> sub'.ok, nsubs |-> 0])

GNext ==
    /\ Len(hist) < Steps
    \* a behaviour that can only idle in back-off is cut short (padded by mining)
    /\ UNCHANGED init
    /\ \/ QueryReady /\ Log("QueryReady") /\ UNCHANGED <<stale, others, restarts>>
       \/ QueryAuth /\ Log("QueryAuth") /\ UNCHANGED <<stale, others, restarts>>
       \/ QueryHeight /\ Log("QueryHeight") /\ UNCHANGED <<stale, others, restarts>>
       \/ QueryEpoch /\ Log("QueryEpoch") /\ UNCHANGED <<stale, others, restarts>>
       \/ QueryProofLen /\ Log("QueryProofLen") /\ UNCHANGED <<stale, others, restarts>>
       \/ FetchHeaders /\ Log("FetchHeaders") /\ UNCHANGED <<stale, others, restarts>>
       \/ Submit /\ Log("Submit") /\ UNCHANGED <<stale, others, restarts>>
       \/ /\ PollEpoch /\ Log("PollEpoch")
          /\ IF pc' = "wait" THEN stale < MaxStale /\ stale' = stale + 1 ELSE UNCHANGED stale
          /\ UNCHANGED <<others, restarts>>
       \/ IdleDone /\ Log("IdleDone") /\ UNCHANGED <<stale, others, restarts>>
       \/ BackoffDone /\ Log("BackoffDone") /\ restarts < MaxRestarts /\ restarts' = restarts + 1 /\ UNCHANGED <<stale, others>>
       \/ DoMine /\ Log("Mine") /\ UNCHANGED <<stale, others, restarts>>
       \/ OtherRetarget /\ Log("OtherRetarget") /\ others < MaxOther /\ others' = others + 1 /\ UNCHANGED <<stale, restarts>>
       \/ Propagate /\ Log("Propagate") /\ UNCHANGED <<stale, others, restarts>>
       \/ /\ EnvChange /\ Log("EnvChange") /\ UNCHANGED <<stale, others, restarts>>
          \* readiness / authorization are withdrawn while a run is under way (the interesting moment)
          /\ (ready /\ Authorized /\ ~(ready' /\ Authorized')) => eligible
    /\ (faults' > faults) => Len(hist) >= FaultAfter
    /\ (RaceBias /\ (envs' > envs \/ (relayEpoch' > relayEpoch /\ pc # "submit"))) => pc \in {"plen", "headers", "submit"}

GSpec == GInit /\ [][GNext]_gvars

Emit ==
    (Len(hist) = Steps) =>
        CSVWrite("%1$s", <<ToJson([init |-> init, steps |-> hist, L |-> L])>>, "behaviours.ndjson")
=============================================================================
