------------------------ MODULE DifficultyMaintainer ------------------------
(***************************************************************************)
(* The Bitcoin difficulty relay maintainer:                                *)
(* pkg/maintainer/btcdiff/bitcoin_difficulty.go.                           *)
(*                                                                         *)
(* Code structure mirrored here (one action per chain query / decision):   *)
(*   startControlLoop        -> BackoffDone (restart after an error)       *)
(*   proveEpochs             -> QueryReady, QueryAuth (verifySubmission-   *)
(*                              Eligibility), then the loop below;         *)
(*                              IdleDone when no epoch was proven          *)
(*   proveNextEpoch          -> QueryHeight (GetLatestBlockHeight),        *)
(*                              QueryEpoch (CurrentEpoch),                 *)
(*                              QueryProofLen (ProofLength) + the range    *)
(*                              computation and the height test,           *)
(*                              FetchHeaders (getBlockHeaders),            *)
(*                              Submit (Retarget / RetargetWithRefund)     *)
(*   waitForCurrentEpochUpdate -> PollEpoch                                *)
(* Every query can fail (budget MaxFaults); every failure ends proveEpochs *)
(* and the control loop restarts it after the back-off.                    *)
(*                                                                         *)
(* Environment (interleaved with the maintainer's queries): Bitcoin blocks *)
(* are mined, another maintainer retargets the relay first, the relay's    *)
(* view lags behind the mined retarget, governance changes the proof       *)
(* length, authorization / readiness change.                               *)
(*                                                                         *)
(* The epoch length is the constant L (the harness maps model heights to   *)
(* real heights around multiples of 2016).                                 *)
(***************************************************************************)
EXTENDS Integers, Sequences, FiniteSets

CONSTANTS L,            \* epoch length (scaled)
          ProofLens,    \* possible relay proof lengths (each <= L \div 2)
          MaxHeight,    \* bound of the Bitcoin height
          MaxEpoch,     \* bound of the relay epoch
          MaxFaults,    \* failing queries / rejected submissions injected
          MaxEnv,       \* governance / authorization changes
          MaxLag        \* polls that see a stale relay epoch

VARIABLES
    \* ---- environment
    height,        \* Bitcoin chain tip
    relayEpoch,    \* the relay's current epoch (on chain)
    visibleEpoch,  \* what CurrentEpoch() answers (may lag behind relayEpoch)
    proofLen,      \* the relay's proof length
    ready,         \* relay genesis done
    authDirect,    \* maintainer authorized in LightRelay (Retarget)
    authRefund,    \* maintainer authorized in the proxy (RetargetWithRefund)
    disableProxy,  \* Config.DisableProxy
    \* ---- maintainer
    pc,            \* where the control loop is
    eligible,      \* this run (invocation of proveEpochs) passed verifySubmissionEligibility
    okRun,         \* highest epoch this run got accepted by the relay (-1: none);
                   \* while pc = "wait" it is the epoch waitForCurrentEpochUpdate waits for
    hRead, eRead, pRead,   \* values read by proveNextEpoch (0 when not in use)
    \* ---- bookkeeping
    sub,           \* the last submission, with the facts that held when it was made
    okEver,        \* highest epoch this maintainer ever got accepted (-1: none)
    verified,      \* a verification passed since the last rejected submission
    faults, envs, lags

envVars == <<height, relayEpoch, visibleEpoch, proofLen, ready, authDirect, authRefund, disableProxy>>
mVars == <<pc, eligible, okRun, hRead, eRead, pRead>>
hVars == <<sub, okEver, verified>>
vars == <<envVars, mVars, hVars, faults, envs, lags>>

Pcs == {"start", "auth", "height", "epoch", "plen", "headers", "submit", "wait", "idle", "backoff"}

\* the range proveNextEpoch computes from what it read
NewEpoch == eRead + 1
First == NewEpoch * L - pRead
Last == NewEpoch * L + pRead - 1

Authorized == IF disableProxy THEN authDirect ELSE authRefund
Via == IF disableProxy THEN "Retarget" ELSE "RetargetWithRefund"

NoSub == [via |-> "none", epoch |-> 0, first |-> 0, last |-> 0, ok |-> FALSE,
          eligible |-> TRUE, verified |-> TRUE, next |-> TRUE, mined |-> TRUE,
          movedOn |-> TRUE, notBehind |-> TRUE, rightForRelay |-> TRUE]

Init ==
    /\ height \in {L - 2, L, L + 1}
    /\ relayEpoch \in {0, 1} /\ visibleEpoch = relayEpoch
    /\ proofLen \in ProofLens
    /\ ready \in BOOLEAN /\ disableProxy \in BOOLEAN
    \* the authorization that does not apply to the configured mode is the opposite one,
    \* so that consulting the wrong one changes the outcome
    /\ authDirect \in BOOLEAN /\ authRefund = ~authDirect
    /\ pc = "start" /\ eligible = FALSE /\ okRun = -1
    /\ hRead = 0 /\ eRead = 0 /\ pRead = 0
    /\ sub = NoSub /\ okEver = -1 /\ verified = TRUE
    /\ faults = 0 /\ envs = 0 /\ lags = 0

---------------------------------------------------------------------------
(* Maintainer *)

\* any failing query: the error propagates out of proveEpochs
Fails == /\ faults < MaxFaults /\ faults' = faults + 1
NoFault == UNCHANGED faults

\* an error ends proveEpochs; its locals die with it
ToBackoff == /\ pc' = "backoff" /\ hRead' = 0 /\ eRead' = 0 /\ pRead' = 0 /\ UNCHANGED <<eligible, okRun>>

\* isReady, err := bdm.chain.Ready()
QueryReady ==
    /\ pc = "start"
    /\ \/ Fails /\ ToBackoff
       \/ NoFault /\ ~ready /\ ToBackoff                                    \* errNoGenesis
       \/ NoFault /\ ready /\ pc' = "auth" /\ UNCHANGED <<eligible, okRun, hRead, eRead, pRead>>
    /\ UNCHANGED <<envVars, hVars, envs, lags>>

\* IsAuthorized (DisableProxy) / IsAuthorizedForRefund (otherwise)
QueryAuth ==
    /\ pc = "auth"
    /\ \/ Fails /\ ToBackoff /\ UNCHANGED verified
       \/ NoFault /\ ~Authorized /\ ToBackoff /\ UNCHANGED verified         \* errNotAuthorized
       \/ NoFault /\ Authorized /\ pc' = "height" /\ eligible' = TRUE /\ verified' = TRUE
          /\ UNCHANGED <<okRun, hRead, eRead, pRead>>
    /\ UNCHANGED <<envVars, sub, okEver, envs, lags>>

\* currentBlockHeight, err := bdm.btcChain.GetLatestBlockHeight()
QueryHeight ==
    /\ pc = "height"
    /\ \/ Fails /\ ToBackoff
       \/ NoFault /\ hRead' = height /\ pc' = "epoch" /\ UNCHANGED <<eligible, okRun, eRead, pRead>>
    /\ UNCHANGED <<envVars, hVars, envs, lags>>

\* currentEpoch, err := bdm.chain.CurrentEpoch()
QueryEpoch ==
    /\ pc = "epoch"
    /\ \/ Fails /\ ToBackoff
       \/ NoFault /\ eRead' = visibleEpoch /\ pc' = "plen" /\ UNCHANGED <<eligible, okRun, hRead, pRead>>
    /\ UNCHANGED <<envVars, hVars, envs, lags>>

\* proofLength, err := bdm.chain.ProofLength(); range computation;
\* if currentBlockHeight >= lastBlockHeaderHeight { ... } else return false, nil
QueryProofLen ==
    /\ pc = "plen"
    /\ \/ Fails /\ ToBackoff
       \/ /\ NoFault
          /\ IF hRead >= (eRead + 1) * L + proofLen - 1
                THEN pc' = "headers" /\ pRead' = proofLen /\ UNCHANGED <<hRead, eRead>>
                ELSE pc' = "idle" /\ hRead' = 0 /\ eRead' = 0 /\ pRead' = 0      \* return false, nil
          /\ UNCHANGED <<eligible, okRun>>
    /\ UNCHANGED <<envVars, hVars, envs, lags>>

\* headers, err := bdm.getBlockHeaders(first, last): one GetBlockHeader per height
FetchHeaders ==
    /\ pc = "headers"
    /\ \/ Fails /\ ToBackoff
       \/ NoFault /\ pc' = "submit" /\ UNCHANGED <<eligible, okRun, hRead, eRead, pRead>>
    /\ UNCHANGED <<envVars, hVars, envs, lags>>

\* what the relay does with a retarget: it accepts it iff the maintainer is
\* (still) authorized, the relay is ready, the proof is for the epoch after its
\* current one and has the relay's proof length on each side
RelayAccepts == ready /\ Authorized /\ NewEpoch = relayEpoch + 1 /\ pRead = proofLen

\* a submission with the facts that hold at the moment it is made
Submission(ok) ==
    [via |-> Via, epoch |-> NewEpoch, first |-> First, last |-> Last, ok |-> ok,
     eligible |-> eligible, verified |-> verified,
     next |-> (NewEpoch = eRead + 1),
     mined |-> (Last <= hRead /\ hRead <= height),
     movedOn |-> (okRun >= 0 => (eRead >= okRun /\ NewEpoch > okRun)),
     notBehind |-> (okEver >= 0 => NewEpoch >= okEver),
     rightForRelay |-> (ok => NewEpoch = relayEpoch + 1)]

\* bdm.chain.Retarget(headers) / RetargetWithRefund(headers)
Submit ==
    /\ pc = "submit"
    /\ \/ \* rejected by the relay, or the transaction failed for another reason
          /\ (~RelayAccepts /\ NoFault) \/ Fails
          /\ sub' = Submission(FALSE) /\ verified' = FALSE
          /\ ToBackoff
          /\ UNCHANGED <<envVars, okEver, lags>>
       \/ \* accepted: the relay moves to the new epoch; the maintainer's view may lag
          /\ RelayAccepts /\ NoFault
          /\ sub' = Submission(TRUE) /\ okRun' = NewEpoch /\ okEver' = NewEpoch
          /\ relayEpoch' = NewEpoch
          /\ \/ visibleEpoch' = NewEpoch /\ UNCHANGED lags
             \/ lags < MaxLag /\ lags' = lags + 1 /\ UNCHANGED visibleEpoch
          /\ pc' = "wait" /\ hRead' = 0 /\ eRead' = 0 /\ pRead' = 0
          /\ UNCHANGED <<eligible, verified>>
          /\ UNCHANGED <<height, proofLen, ready, authDirect, authRefund, disableProxy>>
    /\ UNCHANGED envs

\* waitForCurrentEpochUpdate: currentEpoch, err := bdm.chain.CurrentEpoch()
PollEpoch ==
    /\ pc = "wait"
    /\ \/ Fails /\ ToBackoff
       \/ /\ NoFault
          /\ pc' = IF visibleEpoch >= okRun THEN "height" ELSE "wait"   \* epochProven: no idle wait
          /\ UNCHANGED <<eligible, okRun, hRead, eRead, pRead>>
    /\ UNCHANGED <<envVars, hVars, envs, lags>>

\* proveEpochs: time.After(IdleBackOffTime) after an iteration that proved nothing
IdleDone ==
    /\ pc = "idle" /\ pc' = "height"
    /\ UNCHANGED <<envVars, eligible, okRun, hRead, eRead, pRead, hVars, faults, envs, lags>>

\* startControlLoop: time.After(RestartBackOffTime), then proveEpochs again
BackoffDone ==
    /\ pc = "backoff" /\ pc' = "start" /\ eligible' = FALSE /\ okRun' = -1
    /\ UNCHANGED <<envVars, hRead, eRead, pRead, hVars, faults, envs, lags>>

---------------------------------------------------------------------------
(* Environment *)

Mine(k) ==
    /\ height + k <= MaxHeight /\ height' = height + k
    /\ UNCHANGED <<relayEpoch, visibleEpoch, proofLen, ready, authDirect, authRefund, disableProxy, mVars, hVars, faults, envs, lags>>
DoMine == \E k \in {1, 3} : Mine(k)

\* another maintainer proves the next epoch first (possible once its headers exist)
OtherRetarget ==
    /\ relayEpoch < MaxEpoch /\ ready
    /\ height >= (relayEpoch + 1) * L + proofLen - 1
    /\ relayEpoch' = relayEpoch + 1
    /\ \/ visibleEpoch' = relayEpoch + 1 /\ UNCHANGED lags
       \/ lags < MaxLag /\ lags' = lags + 1 /\ UNCHANGED visibleEpoch
    /\ UNCHANGED <<height, proofLen, ready, authDirect, authRefund, disableProxy, mVars, hVars, faults, envs>>

\* the maintainer's Ethereum node catches up
Propagate ==
    /\ visibleEpoch # relayEpoch /\ visibleEpoch' = relayEpoch
    /\ UNCHANGED <<height, relayEpoch, proofLen, ready, authDirect, authRefund, disableProxy, mVars, hVars, faults, envs, lags>>

\* governance: proof length, readiness, the authorization that applies to the mode
EnvChange ==
    /\ envs < MaxEnv /\ envs' = envs + 1
    /\ \/ \E p \in ProofLens \ {proofLen} : proofLen' = p /\ UNCHANGED <<ready, authDirect, authRefund>>
       \/ ready' = ~ready /\ UNCHANGED <<proofLen, authDirect, authRefund>>
       \/ authDirect' = ~authDirect /\ authRefund' = ~authRefund /\ UNCHANGED <<proofLen, ready>>
    /\ UNCHANGED <<height, relayEpoch, visibleEpoch, disableProxy, mVars, hVars, faults, lags>>

Next == QueryReady \/ QueryAuth \/ QueryHeight \/ QueryEpoch \/ QueryProofLen \/ FetchHeaders
        \/ Submit \/ PollEpoch \/ IdleDone \/ BackoffDone
        \/ DoMine \/ OtherRetarget \/ Propagate \/ EnvChange

Spec == Init /\ [][Next]_vars

\* fairness for the liveness statement: the maintainer keeps running, the node catches up
FairSpec == Spec /\ WF_vars(QueryReady \/ QueryAuth \/ QueryHeight \/ QueryEpoch \/ QueryProofLen
                             \/ FetchHeaders \/ Submit \/ PollEpoch \/ IdleDone \/ BackoffDone)
                 /\ WF_vars(Propagate)

---------------------------------------------------------------------------
TypeOK ==
    /\ pc \in Pcs /\ height \in 0..MaxHeight /\ relayEpoch \in Nat
    /\ visibleEpoch <= relayEpoch /\ proofLen \in ProofLens

Any == sub.via # "none"     \* the invariants speak about every submission at the moment it is made

\* C43: headers are submitted only for the epoch after the relay's current one (as read)
OnlyNextEpoch == Any => sub.next

\* C43: exactly the proof-length headers before and after the epoch's first block
ExactHeaders ==
    Any => \E p \in ProofLens : /\ sub.first = sub.epoch * L - p
                                /\ sub.last = sub.epoch * L + p - 1

\* C43: ... once all of them are mined
AllMined == Any => sub.mined

\* C43: never when not ready / not authorized: every submission belongs to a run whose
\* eligibility verification passed, through the entry point that was verified
OnlyWhenEligible == Any => (sub.eligible /\ sub.via = Via)

\* C43: after an accepted submission for E the same run submits again only after it saw
\* the relay at E or later, and for a later epoch (each epoch is proven once per run)
MovesOnAfterRelayReached == Any => sub.movedOn

\* across restarts (a failed poll, a stale view) the maintainer never goes back behind
\* an epoch it has proven
NeverBehindProven == Any => sub.notBehind

\* a rejected submission ends the run: the next one comes after a new verification
RejectedEndsRun == Any => sub.verified

\* while waiting, the maintainer waits for the epoch it has just proven
WaitsForOwnEpoch ==
    pc = "wait" => /\ Any /\ sub.ok /\ okRun = sub.epoch /\ relayEpoch >= okRun

\* nothing is fetched or submitted unless this run is eligible
WorkOnlyWhenEligible == pc \in {"height", "epoch", "plen", "headers", "submit", "wait", "idle"} => eligible

\* an accepted submission is exactly what the relay needed
AcceptedIsRight == Any => sub.rightForRelay

\* the decision to fetch headers was taken on a mined range
FetchOnlyMined == pc \in {"headers", "submit"} => (Last <= hRead /\ hRead <= height /\ pRead \in ProofLens)

\* liveness (faults and environment changes exhausted): a provable epoch gets proven
Provable(e) == /\ relayEpoch = e /\ ready /\ Authorized /\ faults = MaxFaults /\ envs = MaxEnv
               /\ height >= (e + 1) * L + proofLen - 1
Progress == \A e \in 0..MaxEpoch : Provable(e) ~> (relayEpoch > e)
\* vacuity guard for Progress (expected to be violated: the antecedent is reachable)
NeverProvable == \A e \in 0..MaxEpoch : ~Provable(e)
=============================================================================
