SPECIFICATION GSpec
CONSTANTS
  L = 8
  ProofLens = {1, 2, 3}
  MaxHeight = 40
  MaxEpoch = 4
  MaxFaults = 3
  MaxEnv = 3
  MaxLag = 2
  Steps = 45
  StartEligible = FALSE
  MaxOther = 1
  MaxRestarts = 6
  MaxStale = 1
INVARIANTS Emit
