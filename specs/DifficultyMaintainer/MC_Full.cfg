SPECIFICATION Spec
CONSTANTS
  L = 8
  ProofLens = {1, 2, 3}
  MaxHeight = 27
  MaxEpoch = 3
  MaxFaults = 2
  MaxEnv = 2
  MaxLag = 1
INVARIANTS TypeOK OnlyNextEpoch ExactHeaders AllMined OnlyWhenEligible MovesOnAfterRelayReached NeverBehindProven RejectedEndsRun WaitsForOwnEpoch WorkOnlyWhenEligible AcceptedIsRight FetchOnlyMined
