SPECIFICATION FairSpec
CONSTANTS
  L = 4
  ProofLens = {1, 2}
  MaxHeight = 10
  MaxEpoch = 2
  MaxFaults = 1
  MaxEnv = 1
  MaxLag = 1
INVARIANTS TypeOK OnlyNextEpoch ExactHeaders AllMined OnlyWhenEligible MovesOnAfterRelayReached NeverBehindProven RejectedEndsRun WaitsForOwnEpoch WorkOnlyWhenEligible AcceptedIsRight FetchOnlyMined
PROPERTY Progress
