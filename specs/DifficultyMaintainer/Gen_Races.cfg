SPECIFICATION GSpec
CONSTANTS
  L = 8
  ProofLens = {1, 2, 3}
  MaxHeight = 40
  MaxEpoch = 4
  MaxFaults = 1
  MaxEnv = 2
  MaxLag = 2
  Steps = 60
  StartEligible = TRUE
  MaxOther = 2
  MaxRestarts = 4
  FaultAfter = 25
  RaceBias = TRUE
  MaxStale = 1
INVARIANTS Emit
