SPECIFICATION Spec
CONSTANTS
  L = 8
  ProofLens = {1, 3}
  MaxHeight = 19
  MaxEpoch = 2
  MaxFaults = 1
  MaxEnv = 1
  MaxLag = 1
INVARIANTS TypeOK OnlyNextEpoch ExactHeaders AllMined OnlyWhenEligible MovesOnAfterRelayReached NeverBehindProven RejectedEndsRun
  WaitsForOwnEpoch WorkOnlyWhenEligible AcceptedIsRight FetchOnlyMined
