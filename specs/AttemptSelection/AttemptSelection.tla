-------------------------- MODULE AttemptSelection --------------------------
(***************************************************************************)
(* Member selection of one signing / key-generation attempt:               *)
(*   pkg/tbtc/signing_loop.go  signingRetryLoop.performMembersSelection /  *)
(*                             qualifiedOperatorsSet / excludedMembersIndexes*)
(*   pkg/tbtc/dkg_loop.go      dkgRetryLoop.performMembersSelection /      *)
(*                             qualifiedOperatorsSet                       *)
(*                                                                         *)
(* Every member of a wallet runs its own retry loop (same group layout,    *)
(* same message/seed, own member index).  After the announcement phase of  *)
(* attempt `attempt` each loop is handed the list of ready members - in    *)
(* whatever order - and derives the members excluded from the attempt.     *)
(* All loops must derive the same list.                                    *)
(*                                                                         *)
(* The selection goes through the retry functions specified in module      *)
(* Retry (instantiated below for its definitions): the seat list passed to *)
(* them is the list of the ready members' operators, the requested count   *)
(* is the honest threshold (signing) or the group quorum (key generation), *)
(* the retry number is attempt-1.  Their shuffles, and the additional      *)
(* shuffle that trims a signing group to exactly the honest threshold, are *)
(* hidden choices (`drawn`): fixed by the first loop that evaluates, and   *)
(* every other loop - whatever its member index and whatever order the     *)
(* ready list came in - must reproduce them.                               *)
(***************************************************************************)
EXTENDS Integers, Sequences, FiniteSets

CONSTANTS MaxN,        \* group sizes 1..MaxN
          MaxOps,      \* operators 1..MaxOps
          MaxAttempt,  \* attempt numbers 1..MaxAttempt
          Kinds,       \* subset of {"signing", "dkg"}
          Slots,       \* evaluation slots (loops whose results are compared)
          AllCalls,    \* TRUE: every member index and every order of the ready list;
                       \* FALSE: representative calls (first member/ascending, last member/descending)
          Variant      \* passed to Retry: "contract" | "hazard"

VARIABLES layout,     \* input: operator of each member (group order), Len = group size
          need,       \* input: honest threshold (signing) / group quorum (dkg)
          kind,       \* input: which loop
          attempt,    \* input: attempt number (attemptCounter)
          readySet,   \* input: the members that announced readiness
          draws,      \* derived input: the possible outcomes of the shuffles for this input
          drawn,      \* hidden: outcome of the shuffles for this input, or NotDrawn
          out         \* slot -> value returned by a loop's performMembersSelection

vars == <<layout, need, kind, attempt, readySet, draws, drawn, out>>

\* the pure definitions of the retry specification
R == INSTANCE Retry WITH
        MaxOps <- MaxOps, MaxLen <- 0, MaxSeats <- 0, Nodes <- {}, Modes <- {},
        SigningRetries <- 0, Variant <- Variant, Reeval <- FALSE,
        members <- <<>>, req <- 0, mode <- "", classes <- <<>>, retry <- 0,
        order <- <<>>, evald <- {}, res <- <<>>

N == Len(layout)
Members == 1..N

---------------------------------------------------------------------------
Range(s) == {s[i] : i \in DOMAIN s}

\* ascending sequence of a set of integers
RECURSIVE Asc(_)
Asc(S) == IF S = {} THEN <<>>
          ELSE LET m == CHOOSE x \in S : \A y \in S : x <= y IN <<m>> \o Asc(S \ {m})

\* every order a set can be reported in
Orders(S) == {p \in [1..Cardinality(S) -> S] : \A i, j \in DOMAIN p : i # j => p[i] # p[j]}

\* qualifiedOperatorsSet: the operators of the ready members, in the order
\* the ready list came in - the seat list handed to the retry function
ReadyOperators(rseq) == [i \in DOMAIN rseq |-> layout[rseq[i]]]

\* the retry functions depend on the seat list only through the seats per
\* operator (lemma OrderIrrelevant), so the ascending order stands for all
Seats == ReadyOperators(Asc(readySet))

\* excludedMembersIndexes / dkg performMembersSelection: a member is
\* included iff it is ready and its operator is qualified
IncludedBy(qual) == {m \in Members : m \in readySet /\ layout[m] \in qual}

NotDrawn == [qual |-> {}, keep |-> {}, set |-> FALSE]
Drawn(qual, keep) == [qual |-> qual, keep |-> keep, set |-> TRUE]

\* the possible outcomes of the shuffles, per loop kind
\* signing: operators accepted by EvaluateRetryParticipantsForSigning, then
\* (if more than `need` members are included) a shuffle of the sorted
\* included members keeps the first `need`
SigningDraws ==
    {Drawn(A, K) : <<A, K>> \in
        {ak \in R!SigningOutcomes(Seats, need) \X SUBSET Members :
            LET inc == IncludedBy(ak[1]) IN
            IF Cardinality(inc) > need
               THEN ak[2] \subseteq inc /\ Cardinality(ak[2]) = need
               ELSE ak[2] = inc}}

\* key generation, first attempt: every ready operator qualifies
DkgFirstDraws == {Drawn(Range(Seats), IncludedBy(Range(Seats)))}

\* key generation, attempt a >= 2: retry number a-1 of
\* EvaluateRetryParticipantsForKeyGeneration excludes an eligible single,
\* pair or triplet according to where a-1 falls
\* (parametrised by the attempt number a so that case generation can tabulate
\* all attempts of one input at once)
Cls == R!Classes(Seats, need)
ClassOfRetry(cls, a) ==
    LET r == a - 1
        s == Cardinality(cls.s) p == Cardinality(cls.p) t == Cardinality(cls.t) IN
    IF r < s THEN cls.s
    ELSE IF r < s + p THEN cls.p
    ELSE IF r < s + p + t THEN cls.t
    ELSE {}
DkgRetryDrawsAt(cls, a) ==
    {Drawn(Range(Seats) \ X, IncludedBy(Range(Seats) \ X)) : X \in ClassOfRetry(cls, a)}
DkgRetryDraws == DkgRetryDrawsAt(Cls, attempt)

\* (kept in the state only to avoid recomputing it for every call)
PossibleDraws ==
    IF kind = "signing" THEN (IF need <= Cardinality(readySet) THEN SigningDraws ELSE {})
    ELSE IF attempt = 1 THEN DkgFirstDraws
    ELSE IF need <= Cardinality(readySet) THEN DkgRetryDraws ELSE {}

ExcludedList(d) == Asc(Members \ d.keep)
OkValue(d)  == [kind |-> "ok", excluded |-> ExcludedList(d)]
ErrValue(e) == [kind |-> e, excluded |-> <<>>]
NoValue     == [kind |-> "none", excluded |-> <<>>]

---------------------------------------------------------------------------
(* Inputs: canonical layouts (operator k+1 first appears after operator k, *)
(* the harness assigns addresses), every need 1..N, every ready set, every *)
(* attempt number.                                                         *)
MaxOf(s) == IF s = <<>> THEN 0 ELSE CHOOSE m \in Range(s) : \A x \in Range(s) : x <= m
Min2(a, b) == IF a < b THEN a ELSE b
RECURSIVE Canon(_)
Canon(n) ==
    IF n = 0 THEN {<<>>}
    ELSE UNION {{Append(s, o) : o \in 1..Min2(MaxOps, MaxOf(s) + 1)} : s \in Canon(n - 1)}
Layouts == UNION {Canon(n) : n \in 1..MaxN}

InitInputs ==
    /\ layout \in Layouts
    /\ need \in 1..Len(layout)
    /\ kind \in Kinds
    /\ attempt \in 1..MaxAttempt
    /\ readySet \in SUBSET (1..Len(layout))
InitRest ==
    /\ draws = PossibleDraws
    /\ drawn = NotDrawn
    /\ out = [s \in Slots |-> NoValue]
Init == InitInputs /\ InitRest

---------------------------------------------------------------------------
(* Actions: loop instance of member m (its index does not enter the        *)
(* computation), handed the ready list rseq, result stored in slot s.      *)

\* the shuffles give the same outcome on every loop: the first evaluation
\* draws, the others reproduce
Draw(d) ==
    /\ d \in draws
    /\ IF drawn.set THEN d = drawn /\ UNCHANGED drawn ELSE drawn' = d

Return(s, v) ==
    /\ out' = [out EXCEPT ![s] = v]
    /\ UNCHANGED <<layout, need, kind, attempt, readySet, draws>>

\* signing_loop.go performMembersSelection, enough ready members
SigningSelect(s, m, rseq) ==
    /\ kind = "signing" /\ Range(rseq) = readySet
    /\ need <= Cardinality(readySet)
    /\ \E d \in draws : Draw(d) /\ Return(s, OkValue(d))

\* fewer ready members than the honest threshold: the retry function
\* reports "asked for too many seats" (start never calls it in that case)
SigningTooFew(s, m, rseq) ==
    /\ kind = "signing" /\ Range(rseq) = readySet
    /\ need > Cardinality(readySet)
    /\ Return(s, ErrValue("toomany")) /\ UNCHANGED drawn

\* dkg_loop.go qualifiedOperatorsSet, attemptCounter = 1
DkgFirst(s, m, rseq) ==
    /\ kind = "dkg" /\ Range(rseq) = readySet /\ attempt = 1
    /\ \E d \in draws : Draw(d) /\ Return(s, OkValue(d))

\* attemptCounter >= 2, an eligible exclusion exists for retry attempt-1
DkgRetry(s, m, rseq) ==
    /\ kind = "dkg" /\ Range(rseq) = readySet /\ attempt >= 2
    /\ need <= Cardinality(readySet)
    /\ \E d \in draws : Draw(d) /\ Return(s, OkValue(d))

\* attemptCounter >= 2, quorum not reachable or every exclusion used up
DkgError(s, m, rseq) ==
    /\ kind = "dkg" /\ Range(rseq) = readySet /\ attempt >= 2
    /\ \/ need > Cardinality(readySet) /\ Return(s, ErrValue("toomany"))
       \/ need <= Cardinality(readySet) /\ draws = {} /\ Return(s, ErrValue("exhausted"))
    /\ UNCHANGED drawn

Reverse(q) == [i \in DOMAIN q |-> q[Len(q) + 1 - i]]
CallSet == IF AllCalls THEN Slots \X Members \X Orders(readySet)
           ELSE {<<s, mr[1], mr[2]>> : s \in Slots, mr \in {<<1, Asc(readySet)>>, <<N, Reverse(Asc(readySet))>>}}
DoSigningSelect == \E c \in CallSet : SigningSelect(c[1], c[2], c[3])
DoSigningTooFew == \E c \in CallSet : SigningTooFew(c[1], c[2], c[3])
DoDkgFirst      == \E c \in CallSet : DkgFirst(c[1], c[2], c[3])
DoDkgRetry      == \E c \in CallSet : DkgRetry(c[1], c[2], c[3])
DoDkgError      == \E c \in CallSet : DkgError(c[1], c[2], c[3])

Next == DoSigningSelect \/ DoSigningTooFew \/ DoDkgFirst \/ DoDkgRetry \/ DoDkgError
Spec == Init /\ [][Next]_vars

---------------------------------------------------------------------------
(* C10.                                                                    *)
Evaluated == {s \in Slots : out[s].kind # "none"}
Succeeded == {s \in Slots : out[s].kind = "ok"}
Included(s) == Members \ Range(out[s].excluded)

\* every loop derives the same value (whatever member, whatever order)
Agreement == \A s, t \in Evaluated : out[s] = out[t]

\* the excluded list is ascending without duplicates, within the group
ExcludedWellFormed ==
    \A s \in Succeeded :
        /\ Range(out[s].excluded) \subseteq Members
        /\ \A i, j \in DOMAIN out[s].excluded : i < j => out[s].excluded[i] < out[s].excluded[j]

\* only ready members take part
OnlyReady == \A s \in Succeeded : Included(s) \subseteq readySet

\* signing: exactly the honest threshold
SigningExact == kind = "signing" => \A s \in Succeeded : Cardinality(Included(s)) = need

\* key generation: ready members of qualified operators, all of them, and at
\* least the quorum from the second attempt on; the first attempt takes
\* every ready member
DkgQualified ==
    kind = "dkg" =>
        \A s \in Succeeded :
            /\ \A m \in readySet : (m \in Included(s)) <=> (layout[m] \in {layout[k] : k \in Included(s)})
            /\ attempt = 1 => Included(s) = readySet
            /\ attempt >= 2 => Cardinality(Included(s)) >= need
            /\ attempt >= 2 => Cardinality({layout[m] : m \in readySet} \ {layout[k] : k \in Included(s)}) \in 1..3

\* errors exactly when documented
ErrorsExact ==
    \A s \in Evaluated :
        /\ out[s].kind = "toomany" <=> (need > Cardinality(readySet) /\ ~(kind = "dkg" /\ attempt = 1))
        /\ out[s].kind = "exhausted" => (kind = "dkg" /\ attempt >= 2)

\* Lemma: the order of the ready list is irrelevant for what the retry
\* functions may return (they see it only through seats per operator)
AtInput == ~drawn.set /\ Evaluated = {}
OrderIrrelevant ==
    AtInput =>
        \A rseq \in Orders(readySet) :
            /\ R!Classes(ReadyOperators(rseq), need) = Cls
            /\ (need <= Cardinality(readySet)) =>
                  R!SigningOutcomes(ReadyOperators(rseq), need) = R!SigningOutcomes(Seats, need)

TypeOK ==
    /\ layout \in Seq(1..MaxOps) /\ need \in 1..N /\ kind \in {"signing", "dkg"}
    /\ attempt \in 1..MaxAttempt /\ readySet \subseteq Members
    /\ drawn.set \in BOOLEAN
    /\ \A s \in Slots : out[s].kind \in {"none", "ok", "toomany", "exhausted"}
=============================================================================
