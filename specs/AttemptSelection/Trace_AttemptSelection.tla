---------------------- MODULE Trace_AttemptSelection ----------------------
(* Trace validation of recorded performMembersSelection calls of real      *)
(* signingRetryLoop / dkgRetryLoop instances against AttemptSelection.     *)
(* Events (harness /verif/harness/pkg/tbtc/c10_test.go):                   *)
(*   Reset(layout, need, kind, attempt, ready)   a new input (plus message *)
(*          / seed and address assignment, not used by the spec)           *)
(*   Select(member, rseq, kind, excluded)   the loop created for member    *)
(*          index `member`, handed the ready list `rseq`, returned this    *)
(* The shuffles are not logged: the first Select fixes `drawn` (TLC tries  *)
(* every outcome the specification allows), every later Select - another   *)
(* member index, another order - must return the same list.                *)
EXTENDS AttemptSelection, TraceKit

VARIABLE l
tvars == <<vars, l>>

TInit ==
    /\ layout = <<1>> /\ need = 1 /\ kind = "dkg" /\ attempt = 1 /\ readySet = {}
    /\ InitRest
    /\ l = 1 /\ HwmInit

IsEvent(e) == l <= Len(Trace) /\ Trace[l].event = e /\ l' = l + 1

TReset ==
    /\ IsEvent("Reset")
    /\ LET e == Trace[l] IN
        /\ layout' = e.layout /\ need' = e.need /\ kind' = e.kind
        /\ attempt' = e.attempt /\ readySet' = Range(e.ready)
    /\ draws' = PossibleDraws'
    /\ drawn' = NotDrawn
    /\ out' = [s \in Slots |-> NoValue]

TSelect ==
    /\ IsEvent("Select")
    /\ LET e == Trace[l] IN
        /\ e.member \in Members
        /\ \E s \in Slots :
              /\ \/ SigningSelect(s, e.member, e.rseq) \/ SigningTooFew(s, e.member, e.rseq)
                 \/ DkgFirst(s, e.member, e.rseq) \/ DkgRetry(s, e.member, e.rseq)
                 \/ DkgError(s, e.member, e.rseq)
              /\ out'[s] = [kind |-> e.kind, excluded |-> e.excluded]

TNext == TReset \/ TSelect
TSpec == TInit /\ [][TNext]_tvars

Hwm == HwmConstraint(l)
Accepted == HwmAccepted
=============================================================================
