SPECIFICATION TSpec
CONSTANTS
  MaxN = 1
  MaxOps = 16
  MaxAttempt = 1000000
  Kinds = {"signing", "dkg"}
  Slots = {1}
  AllCalls = TRUE
  Variant = "contract"
CONSTRAINT Hwm
INVARIANTS Agreement ExcludedWellFormed OnlyReady SigningExact DkgQualified ErrorsExact
POSTCONDITION Accepted
