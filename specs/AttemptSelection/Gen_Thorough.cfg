SPECIFICATION GSpec
CONSTANTS
  MaxN = 6
  MaxOps = 4
  MaxAttempt = 1
  GenAttempts = 12
  Kinds = {"signing", "dkg"}
  Slots = {1}
  AllCalls = FALSE
  Variant = "contract"
INVARIANTS Emit
