SPECIFICATION Spec
CONSTANTS
  MaxN = 6
  MaxOps = 4
  MaxAttempt = 12
  Kinds = {"dkg"}
  Slots = {1, 2}
  AllOrders = FALSE
  Variant = "hazard"
INVARIANTS TypeOK Agreement ExcludedWellFormed OnlyReady SigningExact DkgQualified ErrorsExact
