SPECIFICATION Spec
CONSTANTS
  MaxN = 4
  MaxOps = 3
  MaxAttempt = 7
  Kinds = {"dkg"}
  Slots = {1}
  AllCalls = FALSE
  Variant = "hazard"
INVARIANTS TypeOK Agreement ExcludedWellFormed OnlyReady SigningExact DkgQualified ErrorsExact
