SPECIFICATION Spec
CONSTANTS
  MaxN = 4
  MaxOps = 3
  MaxAttempt = 3
  Kinds = {"signing", "dkg"}
  Slots = {1, 2}
  AllCalls = FALSE
  Variant = "contract"
INVARIANTS TypeOK Agreement ExcludedWellFormed OnlyReady SigningExact DkgQualified ErrorsExact
