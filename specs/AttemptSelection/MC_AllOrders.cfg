SPECIFICATION Spec
CONSTANTS
  MaxN = 3
  MaxOps = 3
  MaxAttempt = 3
  Kinds = {"signing", "dkg"}
  Slots = {1, 2}
  AllCalls = TRUE
  Variant = "contract"
INVARIANTS TypeOK Agreement ExcludedWellFormed OnlyReady SigningExact DkgQualified ErrorsExact OrderIrrelevant
