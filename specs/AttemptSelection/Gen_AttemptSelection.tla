---------------------- MODULE Gen_AttemptSelection ----------------------
(* Case generation for the C10 harness: every input of AttemptSelection    *)
(* (canonical layout, need, loop kind, attempt, ready set) within the      *)
(* range the property quantifies over (need is a majority of the group;    *)
(* ready sets from one member short of `need` upwards; signing attempts    *)
(* differ only in the hidden seed, so two of them suffice), together with  *)
(* what the specification allows:                                          *)
(*   expect    "ok" | "toomany" | "exhausted"                              *)
(*   possible  the excluded-member lists some outcome of the shuffles gives*)
(*   orders    the orders in which the ready list is fed to the loops:     *)
(*             every order for up to 4 ready members, otherwise ascending, *)
(*             descending and all rotations of both                        *)
EXTENDS AttemptSelection, TLC, Json, CSV, IOUtils

GInit ==
    /\ InitInputs
    /\ 2 * need > Len(layout)
    /\ Cardinality(readySet) >= need - 1
    /\ kind = "signing" => attempt <= 2
    /\ InitRest

GNext == FALSE /\ UNCHANGED vars
GSpec == GInit /\ [][GNext]_vars

Rotate(q, k) == [i \in DOMAIN q |-> q[((i - 1 + k) % Len(q)) + 1]]
FeedOrders ==
    IF Cardinality(readySet) <= 4 THEN Orders(readySet)
    ELSE LET a == Asc(readySet) d == Reverse(a) IN
         {Rotate(a, k) : k \in 0..(Len(a) - 1)} \cup {Rotate(d, k) : k \in 0..(Len(d) - 1)}

Expect ==
    IF need > Cardinality(readySet) /\ ~(kind = "dkg" /\ attempt = 1) THEN "toomany"
    ELSE IF draws = {} THEN "exhausted" ELSE "ok"

Case ==
    [layout   |-> layout,
     need     |-> need,
     kind     |-> kind,
     attempt  |-> attempt,
     ready    |-> Asc(readySet),
     expect   |-> Expect,
     possible |-> {ExcludedList(d) : d \in draws},
     orders   |-> FeedOrders]

Emit == CSVWrite("%1$s", <<ToJson(Case)>>, "cases.ndjson")
=============================================================================
