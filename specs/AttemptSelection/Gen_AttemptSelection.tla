---------------------- MODULE Gen_AttemptSelection ----------------------
(* Case generation for the C10 harness: every input of AttemptSelection    *)
(* (canonical layout, need, loop kind, attempt, ready set) within the      *)
(* range the property quantifies over (need is a majority of the group;    *)
(* ready sets from one member short of `need` upwards; signing attempts    *)
(* differ only in the hidden seed, so two of them suffice), together with  *)
(* what the specification allows:                                          *)
(*   attempts  per attempt number a:                                       *)
(*     expect    "ok" | "toomany" | "exhausted"                            *)
(*     possible  the excluded-member lists some outcome of the shuffles    *)
(*               gives                                                     *)
(*   orders    the orders in which the ready list is fed to the loops:     *)
(*             every order for up to 4 ready members, otherwise ascending, *)
(*             descending and all rotations of both                        *)
EXTENDS AttemptSelection, TLC, Json, CSV, IOUtils

CONSTANT GenAttempts   \* attempts 1..GenAttempts are tabulated per input (the cfg sets MaxAttempt = 1)

GInit ==
    /\ InitInputs
    /\ 2 * need > Len(layout)
    /\ Cardinality(readySet) >= need - 1
    /\ InitRest

GNext == FALSE /\ UNCHANGED vars
GSpec == GInit /\ [][GNext]_vars

Rotate(q, k) == [i \in DOMAIN q |-> q[((i - 1 + k) % Len(q)) + 1]]
FeedOrders ==
    IF Cardinality(readySet) <= 4 THEN Orders(readySet)
    ELSE LET a == Asc(readySet) d == Reverse(a) IN
         {Rotate(a, k) : k \in 0..(Len(a) - 1)} \cup {Rotate(d, k) : k \in 0..(Len(d) - 1)}

Enough == need <= Cardinality(readySet)

\* the admissible draws of attempt a (= PossibleDraws with attempt = a); signing
\* attempts differ only in the hidden seed
DrawsAt(cls, a) ==
    IF kind = "signing" THEN draws
    ELSE IF a = 1 THEN DkgFirstDraws
    ELSE IF Enough THEN DkgRetryDrawsAt(cls, a) ELSE {}

ExpectAt(cls, a) ==
    IF ~Enough /\ ~(kind = "dkg" /\ a = 1) THEN "toomany"
    ELSE IF DrawsAt(cls, a) = {} THEN "exhausted" ELSE "ok"

Case ==
    LET cls == IF kind = "dkg" THEN Cls ELSE [s |-> {}, p |-> {}, t |-> {}] IN
    [layout   |-> layout,
     need     |-> need,
     kind     |-> kind,
     ready    |-> Asc(readySet),
     attempts |-> [a \in 1..(IF kind = "signing" THEN 2 ELSE GenAttempts) |->
                     [expect |-> ExpectAt(cls, a),
                      possible |-> {ExcludedList(d) : d \in DrawsAt(cls, a)}]],
     orders   |-> FeedOrders]

Emit == CSVWrite("%1$s", <<ToJson(Case)>>, "cases.ndjson")
=============================================================================
