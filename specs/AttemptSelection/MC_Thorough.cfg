SPECIFICATION Spec
CONSTANTS
  MaxN = 5
  MaxOps = 4
  MaxAttempt = 6
  Kinds = {"signing", "dkg"}
  Slots = {1, 2}
  AllCalls = FALSE
  Variant = "contract"
INVARIANTS TypeOK Agreement ExcludedWellFormed OnlyReady SigningExact DkgQualified ErrorsExact
