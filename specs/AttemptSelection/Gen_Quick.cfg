SPECIFICATION GSpec
CONSTANTS
  MaxN = 5
  MaxOps = 3
  MaxAttempt = 1
  GenAttempts = 8
  Kinds = {"signing", "dkg"}
  Slots = {1}
  AllCalls = FALSE
  Variant = "contract"
INVARIANTS Emit
