----------------------------- MODULE Gen_Retry -----------------------------
(* Case generation for the conformance harness: every input of the Retry   *)
(* specification (canonical seat list x requested count) with what the     *)
(* specification says about it:                                            *)
(*   tooMany   the request exceeds the seats                               *)
(*   singles / pairs / triplets   the eligible exclusions per class        *)
(*   r         their number = retries before the documented error          *)
(*   outcomes  the operator sets the signing variant may accept            *)
(*   hazard    the hazard variant (wrong third operator) differs from the  *)
(*             contract on this input for some address assignment          *)
(* One document per input; there is no Next (inputs are initial states).   *)
EXTENDS Retry, TLC, Json, CSV, IOUtils

GNext == FALSE /\ UNCHANGED vars
GSpec == Init /\ [][GNext]_vars

Case ==
    [members  |-> members,
     req      |-> req,
     tooMany  |-> req > Len(members),
     singles  |-> Singles(members, req),
     pairs    |-> Pairs(members, req),
     triplets |-> Triplets(members, req),
     r        |-> Cardinality(AllExclusions(members, req)),
     outcomes |-> IF req > Len(members) THEN {} ELSE SigningOutcomes(members, req),
     hazard   |-> HazardInput(members, req)]

Emit == CSVWrite("%1$s", <<ToJson(Case)>>, "cases.ndjson")
=============================================================================
