SPECIFICATION Spec
CONSTANTS
  MaxOps = 3
  MaxLen = 3
  MaxSeats = 3
  Nodes = {1}
  Modes = {"keygen", "signing"}
  SigningRetries = 1
  Variant = "contract"
  Reeval = TRUE
INVARIANTS TypeOK SubList OperatorAtomic EnoughSeats Agreement TooManyExact
  DistinctExclusions OnlyEligible ClassOrder ExhaustedExact KeygenDropsOneToThree
  SigningMinimal SigningNeverExhausted AmongSingles SigningLoopLemma
