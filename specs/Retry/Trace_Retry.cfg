SPECIFICATION TSpec
CONSTANTS
  MaxOps = 16
  MaxLen = 0
  MaxSeats = 64
  Nodes = {1, 2}
  Modes = {"keygen", "signing"}
  SigningRetries = 1000000
  Variant = "contract"
  Reeval = TRUE
CONSTRAINT Hwm
INVARIANTS SubList OperatorAtomic EnoughSeats Agreement TooManyExact
  DistinctExclusions OnlyEligible ClassOrder ExhaustedExact KeygenDropsOneToThree
  SigningMinimal SigningNeverExhausted
POSTCONDITION Accepted
