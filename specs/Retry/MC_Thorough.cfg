SPECIFICATION Spec
CONSTANTS
  MaxOps = 4
  MaxLen = 6
  MaxSeats = 3
  Nodes = {1, 2}
  Modes = {"keygen", "signing"}
  SigningRetries = 1
  Variant = "contract"
  Reeval = FALSE
INVARIANTS TypeOK SubList OperatorAtomic EnoughSeats Agreement TooManyExact
  DistinctExclusions OnlyEligible ClassOrder ExhaustedExact KeygenDropsOneToThree
  SigningMinimal SigningNeverExhausted AmongSingles SigningLoopLemma
VIEW OrderView
