---------------------------- MODULE Trace_Retry ----------------------------
(* Trace validation of recorded calls of the real                          *)
(* EvaluateRetryParticipantsForKeyGeneration / ...ForSigning against Retry. *)
(* Events (harness /verif/harness/pkg/tecdsa/retry/c09_test.go):           *)
(*   Reset(mode, members, req)        a new input (and seed, address       *)
(*                                    assignment: not used by the spec)    *)
(*   Call(node, retry, kind, seats, more)   node evaluated the current     *)
(*                                    retry number and got this value      *)
(*   Next                             every node evaluated; next retry     *)
(*   Reeval(node, retry, kind, ...)   a node evaluated an earlier retry    *)
(*                                    number again                         *)
(* The shuffles are not logged: TLC infers them.  A Call is accepted only  *)
(* if some not yet used, eligible exclusion of the right class (keygen) or *)
(* some shuffle prefix (signing) explains the returned seats, and every    *)
(* later evaluation of the same retry number returned the same value.      *)
EXTENDS Retry, TraceKit

VARIABLE l
tvars == <<vars, l>>

TInit ==
    /\ members = <<>> /\ req = 0 /\ mode = "keygen" /\ classes = Classes(<<>>, 0)
    /\ retry = 0 /\ order = <<>> /\ evald = {} /\ res = [n \in Nodes |-> None]
    /\ l = 1 /\ HwmInit

IsEvent(e) == l <= Len(Trace) /\ Trace[l].event = e /\ l' = l + 1

Logged(e) == [kind |-> e.kind, seats |-> e.seats, more |-> e.more, retry |-> e.retry]

TReset ==
    /\ IsEvent("Reset")
    /\ LET e == Trace[l] IN
        /\ members' = e.members /\ req' = e.req /\ mode' = e.mode
        /\ classes' = Classes(e.members, e.req)
    /\ retry' = 0 /\ order' = <<>> /\ evald' = {} /\ res' = [n \in Nodes |-> None]

TCall ==
    /\ IsEvent("Call")
    /\ LET e == Trace[l] IN
        /\ e.retry = retry
        /\ \/ TooMany(e.node) \/ ExcludeSingle(e.node) \/ ExcludePair(e.node)
           \/ ExcludeTriplet(e.node) \/ Exhausted(e.node) \/ SelectForSigning(e.node)
        /\ res'[e.node] = Logged(e)

TNextRetry == IsEvent("Next") /\ NextRetry

TReeval ==
    /\ IsEvent("Reeval")
    /\ LET e == Trace[l] IN
        /\ Reevaluate(e.node, e.retry)
        /\ res'[e.node] = Logged(e)

TNext == TReset \/ TCall \/ TNextRetry \/ TReeval
TSpec == TInit /\ [][TNext]_tvars

Hwm == HwmConstraint(l)
Accepted == HwmAccepted
=============================================================================
