SPECIFICATION GSpec
CONSTANTS
  MaxOps = 5
  MaxLen = 7
  MaxSeats = 3
  Nodes = {1}
  Modes = {"keygen"}
  SigningRetries = 0
  Variant = "contract"
  Reeval = FALSE
INVARIANTS Emit
