------------------------------- MODULE Retry -------------------------------
(***************************************************************************)
(* Retry participant selection of pkg/tecdsa/retry/retry.go.               *)
(*                                                                         *)
(* A group is a list of seats (`members`, one operator per seat, operators *)
(* may hold several seats, in any order).  After a failed attempt every    *)
(* node of the group evaluates, for the same retry number, one of          *)
(*                                                                         *)
(*   EvaluateRetryParticipantsForSigning        (mode "signing")           *)
(*   EvaluateRetryParticipantsForKeyGeneration  (mode "keygen")            *)
(*                                                                         *)
(* and must obtain the same sub-list of seats.  The Go code shuffles with  *)
(* math/rand seeded from the seed.  The PRNG is NOT modelled: the outcome  *)
(* of every shuffle is a hidden choice, fixed by the first node that       *)
(* evaluates a retry number and recorded in `order`; every other           *)
(* evaluation of that retry number (same round, or later re-evaluation)    *)
(* must reproduce it.                                                      *)
(*                                                                         *)
(*   keygen : operators whose removal leaves >= req seats are the eligible *)
(*            singles (retry.go: the `operators` slice); pairs / triplets  *)
(*            of them whose removal leaves >= req seats are the eligible   *)
(*            pairs / triplets (excludeOperatorPairs / -Triplets).  Each   *)
(*            class is shuffled once per seed (the rng is fresh on every   *)
(*            call and the shuffle is its first use, so one permutation    *)
(*            per class), retry r selects the r-th element of              *)
(*            singles ++ pairs ++ triplets; past the end: error.           *)
(*            => order[r+1] is the exclusion of retry r; lazily chosen     *)
(*            among the not yet used exclusions of the class of r.         *)
(*   signing: rng seeded with seed+retry; all operators shuffled; operators*)
(*            are accepted in shuffled order until their seats reach req.  *)
(*            => order[r+1] is the accepted operator set of retry r.       *)
(*                                                                         *)
(* Operators are integers; their order stands for the address order the    *)
(* code sorts by (it matters only for the hazard variant below).           *)
(*                                                                         *)
(* CONSTANT Variant: "contract" = eligibility of a triplet computed from   *)
(* its three operators; "hazard" = the third operator's seat count read    *)
(* from the second one (`operators[j]` for `operators[k]`), the slip the   *)
(* triple loop invites.  TLC must find the hazard variant violating the    *)
(* invariants; its violating inputs direct the replay on the real code.    *)
(***************************************************************************)
EXTENDS Integers, Sequences, FiniteSets

CONSTANTS MaxOps,          \* operators are 1..MaxOps
          MaxLen,          \* seat lists of length 0..MaxLen
          MaxSeats,        \* at most this many seats per operator
          Nodes,           \* nodes evaluating the same inputs
          Modes,           \* subset of {"keygen", "signing"}
          SigningRetries,  \* signing: retry numbers 0..SigningRetries
          Variant,         \* "contract" | "hazard"
          Reeval           \* whether earlier retries may be re-evaluated

VARIABLES members,   \* input: the seat list
          req,       \* input: requested number of seats (retryParticipantsCount)
          mode,      \* input: which function
          retry,     \* the retry number of the current round
          classes,   \* derived input: the eligible-for-exclusion lists the function builds
          order,     \* hidden: order[r+1] = shuffle outcome fixed for retry r
          evald,     \* nodes that evaluated the current round
          res        \* node -> last returned value

vars == <<members, req, mode, classes, retry, order, evald, res>>

Ops == 1..MaxOps

---------------------------------------------------------------------------
(* Pure definitions over a seat list ms and a requested count q.           *)

Range(s)      == {s[i] : i \in DOMAIN s}
OpsOf(ms)     == Range(ms)
Seats(ms, o)  == Cardinality({i \in DOMAIN ms : ms[i] = o})
Without(ms, X) == SelectSeq(ms, LAMBDA o : o \notin X)   \* seats of X dropped, input order kept
Only(ms, X)    == SelectSeq(ms, LAMBDA o : o \in X)
SeatsOf(ms, X) == Len(Only(ms, X))

\* excluding the operators X still leaves the requested number of seats
Eligible(ms, q, X) == Len(ms) - SeatsOf(ms, X) >= q

Singles(ms, q)  == {X \in SUBSET OpsOf(ms) : Cardinality(X) = 1 /\ Eligible(ms, q, X)}
SingleOps(ms, q) == {o \in OpsOf(ms) : Eligible(ms, q, {o})}
\* the code forms pairs and triplets of eligible singles only (lemma
\* AmongSingles: that loses nothing)
Pairs(ms, q)    == {X \in SUBSET SingleOps(ms, q) : Cardinality(X) = 2 /\ Eligible(ms, q, X)}
Triplets(ms, q) == {X \in SUBSET SingleOps(ms, q) : Cardinality(X) = 3 /\ Eligible(ms, q, X)}
AllExclusions(ms, q) == Singles(ms, q) \cup Pairs(ms, q) \cup Triplets(ms, q)

\* hazard: for i < j < k the count is len - seats[i] - seats[j] - seats[j]
HazardTriplets(ms, q) ==
    {{a, b, c} : <<a, b, c>> \in
        {t \in SingleOps(ms, q) \X SingleOps(ms, q) \X SingleOps(ms, q) :
            /\ t[1] < t[2] /\ t[2] < t[3]
            /\ Len(ms) - Seats(ms, t[1]) - 2 * Seats(ms, t[2]) >= q}}

TripletsUsed(ms, q) == IF Variant = "hazard" THEN HazardTriplets(ms, q) ELSE Triplets(ms, q)

\* the input is one on which the hazard variant differs from the contract
\* for SOME assignment of addresses to the operators
HazardInput(ms, q) ==
    \E a, b, c \in SingleOps(ms, q) :
        /\ a # b /\ b # c /\ a # c
        /\ (Len(ms) - Seats(ms, a) - 2 * Seats(ms, b) >= q) # Eligible(ms, q, {a, b, c})

\* signing: the accepted sets a shuffle can produce.  Operators are taken in
\* shuffled order while the seats collected so far are < q, so the accepted
\* set A is a prefix whose last operator was still needed.
SigningOutcomes(ms, q) ==
    IF q = 0 THEN {{}}
    ELSE {A \in SUBSET OpsOf(ms) :
            /\ SeatsOf(ms, A) >= q
            /\ \E last \in A : SeatsOf(ms, A \ {last}) < q}

\* the same, literally as the loop over a shuffled operator list p
Perms(S) == {p \in [1..Cardinality(S) -> S] : \A i, j \in DOMAIN p : i # j => p[i] # p[j]}
PrefixSet(p, n) == {p[i] : i \in 1..n}
AcceptedByLoop(ms, q, p) ==
    LET n == CHOOSE k \in 0..Len(p) :
                /\ SeatsOf(ms, PrefixSet(p, k)) >= q
                /\ \A k2 \in 0..(k - 1) : SeatsOf(ms, PrefixSet(p, k2)) < q
    IN PrefixSet(p, n)

\* s is a subsequence of t
RECURSIVE IsSubSeq(_, _)
IsSubSeq(s, t) ==
    IF s = <<>> THEN TRUE
    ELSE IF t = <<>> THEN FALSE
    ELSE IF Head(s) = Head(t) THEN IsSubSeq(Tail(s), Tail(t))
    ELSE IsSubSeq(s, Tail(t))

---------------------------------------------------------------------------
(* Inputs: canonical seat lists (operator k+1 first appears after operator *)
(* k; the harness applies address assignments), every requested count up   *)
(* to one more than available.                                             *)

MaxOf(s) == IF s = <<>> THEN 0 ELSE CHOOSE m \in Range(s) : \A x \in Range(s) : x <= m
Min2(a, b) == IF a < b THEN a ELSE b

RECURSIVE Canon(_)
Canon(n) ==
    IF n = 0 THEN {<<>>}
    ELSE UNION {{Append(s, o) : o \in {x \in 1..Min2(MaxOps, MaxOf(s) + 1) : Seats(s, x) < MaxSeats}}
                : s \in Canon(n - 1)}

SeatLists == UNION {Canon(n) : n \in 0..MaxLen}

None == [kind |-> "none", seats |-> <<>>, more |-> 0, retry |-> 0]
Ok(r, seats)      == [kind |-> "ok", seats |-> seats, more |-> 0, retry |-> r]
TooManyErr(r)     == [kind |-> "toomany", seats |-> <<>>, more |-> 0, retry |-> r]
ExhaustedErr(r, k) == [kind |-> "exhausted", seats |-> <<>>, more |-> k, retry |-> r]

\* what the prologue of the key generation function computes from its
\* arguments: the `operators` slice, pairIndexes, tripletIndexes (as sets;
\* their order is the hidden shuffle)
\* `eligible` is the specification's own (contract) set of admissible
\* exclusions; it is kept next to them only so that the invariants need not
\* recompute it in every state.
Classes(ms, q) == [s |-> Singles(ms, q), p |-> Pairs(ms, q), t |-> TripletsUsed(ms, q),
                   eligible |-> AllExclusions(ms, q)]

Init ==
    /\ members \in SeatLists
    /\ req \in 0..(Len(members) + 1)
    /\ mode \in Modes
    /\ classes = Classes(members, req)
    /\ retry = 0
    /\ order = <<>>
    /\ evald = {}
    /\ res = [n \in Nodes |-> None]

---------------------------------------------------------------------------
(* Actions.  One per return path of the two functions.                     *)

S == Cardinality(classes.s)
P == Cardinality(classes.p)
T == Cardinality(classes.t)

Return(n, v) ==
    /\ res' = [res EXCEPT ![n] = v]
    /\ evald' = evald \cup {n}
    /\ UNCHANGED <<members, req, mode, classes, retry>>

\* the shuffle outcome of this retry: fixed by the first evaluator, drawn
\* from the not yet used elements of the class (one permutation per class)
Draw(class, X) ==
    /\ X \in class
    /\ IF Len(order) > retry
          THEN X = order[retry + 1] /\ UNCHANGED order
          ELSE X \notin Range(order) /\ order' = Append(order, X)

\* both functions: "asked for too many seats"
TooMany(n) ==
    /\ n \notin evald
    /\ req > Len(members)
    /\ Return(n, TooManyErr(retry))
    /\ UNCHANGED order

\* EvaluateRetryParticipantsForKeyGeneration -> excludeSingleOperator
ExcludeSingle(n) ==
    /\ mode = "keygen" /\ n \notin evald /\ req <= Len(members)
    /\ retry < S
    /\ \E X \in classes.s :
          /\ Draw(classes.s, X)
          /\ Return(n, Ok(retry, Without(members, X)))

\* -> excludeOperatorPairs (index = retry - #singles)
ExcludePair(n) ==
    /\ mode = "keygen" /\ n \notin evald /\ req <= Len(members)
    /\ retry >= S /\ retry < S + P
    /\ \E X \in classes.p :
          /\ Draw(classes.p, X)
          /\ Return(n, Ok(retry, Without(members, X)))

\* -> excludeOperatorTriplets (index = retry - #singles - #pairs)
ExcludeTriplet(n) ==
    /\ mode = "keygen" /\ n \notin evald /\ req <= Len(members)
    /\ retry >= S + P /\ retry < S + P + T
    /\ \E X \in classes.t :
          /\ Draw(classes.t, X)
          /\ Return(n, Ok(retry, Without(members, X)))

\* "the retry count was too large to handle ... still needed [k] more retries"
Exhausted(n) ==
    /\ mode = "keygen" /\ n \notin evald /\ req <= Len(members)
    /\ retry >= S + P + T
    /\ Return(n, ExhaustedErr(retry, retry - (S + P + T)))
    /\ UNCHANGED order

\* EvaluateRetryParticipantsForSigning
SelectForSigning(n) ==
    /\ mode = "signing" /\ n \notin evald /\ req <= Len(members)
    /\ \E A \in SigningOutcomes(members, req) :
          /\ IF Len(order) > retry
                THEN A = order[retry + 1] /\ UNCHANGED order
                ELSE order' = Append(order, A)
          /\ Return(n, Ok(retry, Only(members, A)))

RetryBound ==
    IF mode = "signing" THEN SigningRetries
    ELSE S + P + T + 1

\* every node evaluated this retry; the attempt failed; next retry
NextRetry ==
    /\ evald = Nodes
    /\ retry < RetryBound
    /\ retry' = retry + 1
    /\ evald' = {}
    /\ UNCHANGED <<members, req, mode, classes, order, res>>

\* what a fixed shuffle outcome yields for an earlier retry number r
Replayed(r) ==
    IF req > Len(members) THEN TooManyErr(r)
    ELSE IF r < Len(order) THEN
        Ok(r, IF mode = "keygen" THEN Without(members, order[r + 1]) ELSE Only(members, order[r + 1]))
    ELSE ExhaustedErr(r, r - Len(order))

\* a node evaluates an earlier retry number again (restart, late member,
\* other call order): the functions are stateless, the value is the same
Reevaluate(n, r) ==
    /\ Reeval
    /\ r < retry \/ (r = retry /\ evald = Nodes)
    /\ res' = [res EXCEPT ![n] = Replayed(r)]
    /\ UNCHANGED <<members, req, mode, classes, retry, order, evald>>

DoTooMany          == \E n \in Nodes : TooMany(n)
DoExcludeSingle    == \E n \in Nodes : ExcludeSingle(n)
DoExcludePair      == \E n \in Nodes : ExcludePair(n)
DoExcludeTriplet   == \E n \in Nodes : ExcludeTriplet(n)
DoExhausted        == \E n \in Nodes : Exhausted(n)
DoSelectForSigning == \E n \in Nodes : SelectForSigning(n)
DoReevaluate       == \E nr \in Nodes \X (0..retry) : Reevaluate(nr[1], nr[2])

Next == \/ DoTooMany \/ DoExcludeSingle \/ DoExcludePair \/ DoExcludeTriplet
        \/ DoExhausted \/ DoSelectForSigning \/ NextRetry \/ DoReevaluate

Spec == Init /\ [][Next]_vars

---------------------------------------------------------------------------
(* C09.                                                                    *)

Returned == {n \in Nodes : res[n].kind = "ok"}

\* the result is a sub-list of the seats, in input order
SubList == \A n \in Returned : IsSubSeq(res[n].seats, members)

\* an operator's seats are kept or dropped together
OperatorAtomic ==
    \A n \in Returned : \A o \in Ops :
        Seats(res[n].seats, o) \in {0, Seats(members, o)}

\* at least the requested number of seats
EnoughSeats == \A n \in Returned : Len(res[n].seats) >= req

\* identical on every node (for the same retry number)
Agreement ==
    \A n, m \in Nodes :
        (res[n].kind # "none" /\ res[m].kind # "none" /\ res[n].retry = res[m].retry)
            => res[n] = res[m]

\* too many seats requested is the only error of signing, and reported by
\* both functions exactly then
TooManyExact ==
    \A n \in Nodes : res[n].kind # "none" =>
        ((res[n].kind = "toomany") <=> (req > Len(members)))

Card(X) == Cardinality(X)

\* key generation: exclusions are distinct ...
DistinctExclusions ==
    mode = "keygen" => \A i, j \in DOMAIN order : i # j => order[i] # order[j]

\* ... only eligible ones are used (an ineligible combination is never used) ...
OnlyEligible ==
    (mode = "keygen" /\ order # <<>>) =>
        \A i \in DOMAIN order : order[i] \in classes.eligible

\* ... singles before pairs before triplets ...
ClassOrder ==
    mode = "keygen" => \A i, j \in DOMAIN order : i < j => Card(order[i]) <= Card(order[j])

\* ... and none is skipped: the error comes exactly when every eligible
\* single, pair and triplet has been used, and reports the overshoot
ExhaustedExact ==
    (mode = "keygen" /\ \E n \in Nodes : res[n].kind \in {"ok", "exhausted"}) =>
        LET R == Card(classes.eligible) IN
        \A n \in Nodes :
            /\ res[n].kind = "exhausted" => (res[n].retry >= R /\ res[n].more = res[n].retry - R)
            /\ res[n].kind = "ok" => res[n].retry < R

\* key generation keeps the group as large as possible: at most three
\* operators are dropped, never none
KeygenDropsOneToThree ==
    mode = "keygen" => \A i \in DOMAIN order : Card(order[i]) \in 1..3

\* signing keeps the group as small as the shuffle allows: the last accepted
\* operator was needed
SigningMinimal ==
    mode = "signing" =>
        \A i \in DOMAIN order :
            \/ order[i] = {} /\ req = 0
            \/ \E last \in order[i] : SeatsOf(members, order[i] \ {last}) < req

\* signing never fails for an admissible request
SigningNeverExhausted == mode = "signing" => \A n \in Nodes : res[n].kind # "exhausted"

---------------------------------------------------------------------------
(* Lemmas about the definitions, checked on every input.                   *)

\* forming pairs/triplets of eligible singles only (as the code does) finds
\* every eligible pair/triplet of operators
AtInput == retry = 0 /\ evald = {} /\ order = <<>>

AmongSingles ==
    AtInput =>
        \A X \in SUBSET OpsOf(members) :
            (Card(X) \in 2..3 /\ Eligible(members, req, X)) => X \subseteq SingleOps(members, req)

\* the characterisation of signing outcomes equals the literal loop over
\* every shuffle
SigningLoopLemma ==
    (mode = "signing" /\ req <= Len(members) /\ AtInput) =>
        SigningOutcomes(members, req) =
            {AcceptedByLoop(members, req, p) : p \in Perms(OpsOf(members))}

\* For exhaustive checking without re-evaluation the future and every
\* invariant depend on `order` only through its range, length and last
\* element (see ClassOrder / DistinctExclusions: the first violating state
\* differs in one of them from every non-violating one).
OrderView ==
    <<members, req, mode, classes, retry, Range(order), Len(order),
      IF order = <<>> THEN {} ELSE order[Len(order)], evald, res>>

TypeOK ==
    /\ members \in Seq(Ops) /\ req \in Nat /\ mode \in {"keygen", "signing"}
    /\ retry \in Nat /\ evald \subseteq Nodes
    /\ \A i \in DOMAIN order : order[i] \subseteq Ops
    /\ \A n \in Nodes : res[n].kind \in {"none", "ok", "toomany", "exhausted"}
    /\ Len(order) <= retry + 1
=============================================================================
