------------------------------ MODULE Gen_Pool ------------------------------
(* Behaviour generation for conformance replay of Pool.                     *)
(*                                                                          *)
(* The harness controls generateFn and the persistence (it decides when and *)
(* how they return) and the callers of GetNow / stop / resume / restart.    *)
(* It does not control the steps the worker goroutine takes on its own:     *)
(* the loop head (WTop) and the select (WPush / WDrop).  Those "tau" steps  *)
(* happen as soon as they can, so behaviours are generated with priority    *)
(* for tau steps: a controlled step is only taken when no tau step is       *)
(* enabled.  (The exhaustive MC_* configurations do not have this           *)
(* restriction.)  When the worker's context is cancelled and the channel    *)
(* has room, Go's select picks either branch at random: such a step is      *)
(* marked race = TRUE and carries the pool of the other branch (alt).       *)
(*                                                                          *)
(* After MaxSteps entries the behaviour drains the pool through GetNow, so  *)
(* that the content and order of the channel are observed too.  Each        *)
(* emitted document is  [steps |-> hist]  with                              *)
(*   hist[i] = [a, w, g, r, ret, tau, race, alt, st]                        *)
(* where st is the abstract state after the step.                           *)
EXTENDS Pool, TLC, Json, CSV, IOUtils

CONSTANTS SerialStorage,   \* TRUE: Save and Delete exclude each other (preParamsStorage.mutex
                           \* is held while the persistence handle is called), so a GetNow
                           \* cannot reach Delete while a Save is in progress and vice versa
          MaxSteps,        \* hist entries before the behaviour starts draining
          MaxEmptyPops     \* GetNow calls on an empty pool per behaviour

VARIABLE hist
gvars == <<vars, hist>>

ViewP == [disk |-> SortedSeq(disk'), pool |-> pool', handed |-> handed', sched |-> sched',
          workers |-> workers', getters |-> getters', nextVal |-> nextVal']

E(a, w, g, r, ret, tau, race, alt) ==
    hist' = Append(hist, [a |-> a, w |-> w, g |-> g, r |-> SortedSeq(r), ret |-> ret,
                          tau |-> tau, race |-> race, alt |-> alt, st |-> ViewP])

PushReady(w) == workers[w].pc = "push" /\ Len(pool) < Size
DropReady(w) == workers[w].pc = "push" /\ ~workers[w].live
TauEnabled == \E w \in WIds : workers[w].pc = "top" \/ PushReady(w) \/ DropReady(w)

\* somebody is inside a storage call (parked by the harness in the handle)
InStorage == \/ \E w \in WIds : workers[w].pc = "save"
             \/ \E g \in Getters : getters[g].pc = "popped"
StorageFree == ~SerialStorage \/ ~InStorage

Draining == Len(hist) >= MaxSteps
EmptyPops == Cardinality({i \in DOMAIN hist : hist[i].a = "GPopEmpty"})
Quiet == ~TauEnabled /\ ~Draining

GInit == Init /\ hist = <<>>

GTau ==
    \E w \in WIds :
       \/ WTop(w)  /\ E("WTop", w, 0, {}, "", TRUE, FALSE, <<>>)
       \/ WPush(w) /\ E("WPush", w, 0, {}, "", TRUE, DropReady(w), pool)
       \/ WDrop(w) /\ E("WDrop", w, 0, {}, "", TRUE, PushReady(w), Append(pool, workers[w].val))

GWorker ==
    /\ ~TauEnabled
    /\ \E w \in WIds :
          \/ ~Draining /\ StorageFree /\ WGenerate(w) /\ E("WGenerate", w, 0, {}, nextVal, FALSE, FALSE, <<>>)
          \/ ~Draining /\ WGenerateNil(w) /\ E("WGenerateNil", w, 0, {}, "", FALSE, FALSE, <<>>)
          \/ WSaveOk(w) /\ E("WSaveOk", w, 0, {}, "", FALSE, FALSE, <<>>)   \* also while draining
          \/ ~Draining /\ WSaveFail(w) /\ E("WSaveFail", w, 0, {}, "", FALSE, FALSE, <<>>)
          \/ ~Draining /\ \E R \in Readable(disk \cup {workers[w].val}) :
                WSaveCrash(w, R) /\ E("WSaveCrash", w, 0, R, "", FALSE, FALSE, <<>>)

GSched ==
    /\ Quiet
    /\ \/ Stop   /\ E("Stop", 0, 0, {}, "", FALSE, FALSE, <<>>)
       \/ Resume /\ E("Resume", 0, 0, {}, "", FALSE, FALSE, <<>>)
       \/ \E R \in Readable(disk) : Restart(R) /\ E("Restart", 0, 0, R, "", FALSE, FALSE, <<>>)

GGet ==
    /\ ~TauEnabled
    /\ \E g \in Getters :
          \/ StorageFree /\ GPop(g) /\ E("GPop", 0, g, {}, Head(pool), FALSE, FALSE, <<>>)
          \/ GDeleteOk(g) /\ E("GDeleteOk", 0, g, {}, getters[g].val, FALSE, FALSE, <<>>)
          \/ ~Draining /\ EmptyPops < MaxEmptyPops /\ GPopEmpty(g) /\ E("GPopEmpty", 0, g, {}, "empty", FALSE, FALSE, <<>>)
          \/ ~Draining /\ GDeleteFail(g) /\ E("GDeleteFail", 0, g, {}, "err", FALSE, FALSE, <<>>)
          \/ ~Draining /\ \E R \in Readable(disk \ {getters[g].val}) :
                GDeleteCrash(g, R) /\ E("GDeleteCrash", 0, g, R, "", FALSE, FALSE, <<>>)

GNext == GTau \/ GWorker \/ GSched \/ GGet
GSpec == GInit /\ [][GNext]_gvars

Done == /\ Draining /\ ~TauEnabled /\ pool = <<>>
        /\ \A g \in Getters : getters[g].pc = "idle"

Emit == Done => CSVWrite("%1$s", <<ToJson([steps |-> hist, size |-> Size])>>, "behaviours.ndjson")

\* the Gen restriction must not hide property violations of its own
GenInvariants == NoDoubleHandOut /\ NoInvalidHandOut /\ PoolBounded /\ RemovedBeforeUse
                 /\ PoolPersisted /\ PoolDistinct
=============================================================================
