SPECIFICATION Spec
CONSTANTS
  Size = 2
  NumValues = 4
  NumGetters = 2
  MaxWorkers = 3
  MaxSaveFail = 1
  MaxDelFail = 1
  MaxRestarts = 2
  MaxStops = 2
  MaxNil = 1
  MaxReadSkip = 1
  SkipOnSaveFail = TRUE
INVARIANTS TypeOK NoDoubleHandOut NoInvalidHandOut PoolBounded RemovedBeforeUse PoolPersisted PoolDistinct OneLiveWorker StoppedMeansCancelled
