SPECIFICATION GSpec
CONSTANTS
  Size = 2
  NumValues = 5
  NumGetters = 2
  MaxWorkers = 3
  MaxSaveFail = 1
  MaxDelFail = 1
  MaxRestarts = 2
  MaxStops = 2
  MaxNil = 1
  MaxReadSkip = 1
  SkipOnSaveFail = TRUE
  SerialStorage = FALSE
  MaxSteps = 30
  MaxEmptyPops = 2
INVARIANTS Emit GenInvariants
