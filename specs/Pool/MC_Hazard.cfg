SPECIFICATION Spec
CONSTANTS
  Size = 2
  NumValues = 3
  NumGetters = 1
  MaxWorkers = 2
  MaxSaveFail = 1
  MaxDelFail = 1
  MaxRestarts = 1
  MaxStops = 1
  MaxNil = 1
  MaxReadSkip = 1
  SkipOnSaveFail = FALSE
INVARIANTS NoInvalidHandOut
