SPECIFICATION GSpec
CONSTANTS
  Size = 1
  NumValues = 2
  NumGetters = 1
  MaxWorkers = 2
  MaxSaveFail = 1
  MaxDelFail = 1
  MaxRestarts = 1
  MaxStops = 1
  MaxNil = 0
  MaxReadSkip = 0
  SkipOnSaveFail = TRUE
  SerialStorage = FALSE
  MaxSteps = 12
  MaxEmptyPops = 2
INVARIANTS Emit GenInvariants
