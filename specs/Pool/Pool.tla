-------------------------------- MODULE Pool --------------------------------
(***************************************************************************)
(* The pre-parameter pool of pkg/generator (pool.go) together with its     *)
(* persistence (pkg/tecdsa/dkg/preparams.go preParamsStorage) and the part *)
(* of the Scheduler (scheduler.go) the pool's worker depends on.           *)
(*                                                                         *)
(* Code structure mirrored here                                            *)
(*                                                                         *)
(*   NewParameterPool        Boot: persistence.ReadAll(), the first `Size` *)
(*                           entries (oldest first) go into the channel,   *)
(*                           scheduler.compute(worker) starts one worker   *)
(*                           goroutine with its own context.               *)
(*   Scheduler.startWorker   WTop: `for { select { <-ctx.Done(): return;   *)
(*                           default: workerFn(ctx) } }`                   *)
(*   worker function         WGenerate / WGenerateNil  generateFn(ctx)     *)
(*                           WSaveOk / WSaveFail       persistence.Save    *)
(*                           WPush / WDrop             select { pool <- p; *)
(*                                                     <-ctx.Done() }      *)
(*   Scheduler.stop/resume   Stop (every context cancelled), Resume (a new *)
(*                           goroutine with a new context per worker fn).  *)
(*   ParameterPool.GetNow    GPop / GPopEmpty (receive from the channel or *)
(*                           ErrEmptyPool), GDeleteOk / GDeleteFail        *)
(*                           (persistence.Delete, then return).            *)
(*   process crash/restart   Restart (at any point), WSaveCrash and        *)
(*                           GDeleteCrash (the storage call took effect    *)
(*                           but the process died before it returned).     *)
(*                                                                         *)
(* Values are numbered in generation order, which is also their age        *)
(* (preParamsStorage names files by creation timestamp and sorts by it).   *)
(*                                                                         *)
(* CONSTANT SkipOnSaveFail selects the reaction to a failed Save:          *)
(*   TRUE   the contract: a value that could not be persisted is not put   *)
(*          into the pool (pool_test.go TestPersist: "it would not be      *)
(*          correct to add a parameter to the pool before first persisting *)
(*          it"),                                                          *)
(*   FALSE  the hazard variant: whatever Save returned (nil for            *)
(*          preParamsStorage) is sent to the channel.                      *)
(***************************************************************************)
EXTENDS Integers, Sequences, FiniteSets

CONSTANTS Size,            \* capacity of the pool channel
          NumValues,       \* values generateFn can produce (1..NumValues)
          NumGetters,      \* concurrent GetNow callers
          MaxWorkers,      \* worker goroutines per incarnation (bounds Resume)
          MaxSaveFail,     \* failing persistence.Save calls
          MaxDelFail,      \* failing persistence.Delete calls
          MaxRestarts,     \* crashes / restarts
          MaxStops,        \* scheduler stops
          MaxNil,          \* generateFn calls returning nil
          MaxReadSkip,     \* entries ReadAll may fail to deliver, per restart
          SkipOnSaveFail   \* see above

Nil     == 0
Values  == 1..NumValues
Getters == 1..NumGetters

VARIABLES disk,     \* set of values in persistent storage
          pool,     \* the channel: sequence of values (Nil = a nil *Persisted)
          handed,   \* every value GetNow ever returned, all incarnations, in order
          nextVal,  \* next value generateFn produces
          sched,    \* Scheduler.state: "working" | "stopped"
          workers,  \* worker goroutines of this incarnation, in start order:
                    \*   [pc: "top"|"gen"|"save"|"push"|"exited", live: ctx not cancelled, val]
          getters,  \* GetNow calls in flight: [pc: "idle"|"popped", val]
          used      \* fault / event budget spent so far

vars == <<disk, pool, handed, nextVal, sched, workers, getters, used>>

WIds == DOMAIN workers

---------------------------------------------------------------------------
\* helpers

RECURSIVE SortedSeq(_)
SortedSeq(S) == IF S = {} THEN <<>>
                ELSE LET m == CHOOSE x \in S : \A y \in S : x <= y
                     IN <<m>> \o SortedSeq(S \ {m})

Take(s, n) == SubSeq(s, 1, IF Len(s) < n THEN Len(s) ELSE n)

Range(s) == {s[i] : i \in DOMAIN s}

NewWorker == [pc |-> "top", live |-> TRUE, val |-> Nil]
IdleGetters == [g \in Getters |-> [pc |-> "idle", val |-> Nil]]

\* NewParameterPool over storage content d of which ReadAll delivered R
Boot(R) ==
    /\ pool' = Take(SortedSeq(R), Size)
    /\ sched' = "working"                    \* a new process has a new Scheduler
    /\ workers' = <<NewWorker>>              \* scheduler.compute -> startWorker
    /\ getters' = IdleGetters

Readable(d) == {R \in SUBSET d : Cardinality(d \ R) <= MaxReadSkip}

Init ==
    /\ disk = {} /\ handed = <<>> /\ nextVal = 1
    /\ pool = <<>> /\ sched = "working" /\ workers = <<NewWorker>> /\ getters = IdleGetters
    /\ used = [saveFail |-> 0, delFail |-> 0, restarts |-> 0, stops |-> 0, nils |-> 0]

---------------------------------------------------------------------------
\* the worker goroutine

\* startWorker loop head
WTop(w) ==
    /\ workers[w].pc = "top"
    /\ workers' = [workers EXCEPT ![w].pc = IF workers[w].live THEN "gen" ELSE "exited"]
    /\ UNCHANGED <<disk, pool, handed, nextVal, sched, getters, used>>

\* generateFn returned a fresh value
WGenerate(w) ==
    /\ workers[w].pc = "gen"
    /\ nextVal <= NumValues
    /\ workers' = [workers EXCEPT ![w].pc = "save", ![w].val = nextVal]
    /\ nextVal' = nextVal + 1
    /\ UNCHANGED <<disk, pool, handed, sched, getters, used>>

\* generateFn returned nil (context done, timeout): the iteration ends
WGenerateNil(w) ==
    /\ workers[w].pc = "gen"
    /\ used.nils < MaxNil
    /\ workers' = [workers EXCEPT ![w].pc = "top"]
    /\ used' = [used EXCEPT !.nils = @ + 1]
    /\ UNCHANGED <<disk, pool, handed, nextVal, sched, getters>>

WSaveOk(w) ==
    /\ workers[w].pc = "save"
    /\ disk' = disk \cup {workers[w].val}
    /\ workers' = [workers EXCEPT ![w].pc = "push"]
    /\ UNCHANGED <<pool, handed, nextVal, sched, getters, used>>

WSaveFail(w) ==
    /\ workers[w].pc = "save"
    /\ used.saveFail < MaxSaveFail
    /\ used' = [used EXCEPT !.saveFail = @ + 1]
    /\ IF SkipOnSaveFail
          THEN workers' = [workers EXCEPT ![w].pc = "top", ![w].val = Nil]
          ELSE workers' = [workers EXCEPT ![w].pc = "push", ![w].val = Nil]
    /\ UNCHANGED <<disk, pool, handed, nextVal, sched, getters>>

\* select: the channel has room
WPush(w) ==
    /\ workers[w].pc = "push"
    /\ Len(pool) < Size
    /\ pool' = Append(pool, workers[w].val)
    /\ workers' = [workers EXCEPT ![w].pc = "top", ![w].val = Nil]
    /\ UNCHANGED <<disk, handed, nextVal, sched, getters, used>>

\* select: the worker's context is done
WDrop(w) ==
    /\ workers[w].pc = "push"
    /\ ~workers[w].live
    /\ workers' = [workers EXCEPT ![w].pc = "top", ![w].val = Nil]
    /\ UNCHANGED <<disk, pool, handed, nextVal, sched, getters, used>>

---------------------------------------------------------------------------
\* the scheduler (only what the pool's worker sees; C45 has the full model)

Stop ==
    /\ sched = "working"
    /\ used.stops < MaxStops
    /\ sched' = "stopped"
    /\ workers' = [w \in WIds |-> [workers[w] EXCEPT !.live = FALSE]]
    /\ used' = [used EXCEPT !.stops = @ + 1]
    /\ UNCHANGED <<disk, pool, handed, nextVal, getters>>

Resume ==
    /\ sched = "stopped"
    /\ Len(workers) < MaxWorkers
    /\ sched' = "working"
    /\ workers' = Append(workers, NewWorker)
    /\ UNCHANGED <<disk, pool, handed, nextVal, getters, used>>

---------------------------------------------------------------------------
\* GetNow

GPop(g) ==
    /\ getters[g].pc = "idle"
    /\ pool # <<>>
    /\ getters' = [getters EXCEPT ![g] = [pc |-> "popped", val |-> Head(pool)]]
    /\ pool' = Tail(pool)
    /\ UNCHANGED <<disk, handed, nextVal, sched, workers, used>>

\* `default:` branch, ErrEmptyPool; nothing changes
GPopEmpty(g) ==
    /\ getters[g].pc = "idle"
    /\ pool = <<>>
    /\ UNCHANGED vars

GDeleteOk(g) ==
    /\ getters[g].pc = "popped"
    /\ disk' = disk \ {getters[g].val}
    /\ handed' = Append(handed, getters[g].val)
    /\ getters' = [getters EXCEPT ![g] = [pc |-> "idle", val |-> Nil]]
    /\ UNCHANGED <<pool, nextVal, sched, workers, used>>

\* Delete failed: GetNow returns an error, the value is neither used nor
\* put back; it is still in storage and comes back with the next restart.
GDeleteFail(g) ==
    /\ getters[g].pc = "popped"
    /\ used.delFail < MaxDelFail
    /\ used' = [used EXCEPT !.delFail = @ + 1]
    /\ getters' = [getters EXCEPT ![g] = [pc |-> "idle", val |-> Nil]]
    /\ UNCHANGED <<disk, pool, handed, nextVal, sched, workers>>

---------------------------------------------------------------------------
\* crash and restart: memory is lost, storage stays

RestartFrom(d, R) ==
    /\ used.restarts < MaxRestarts
    /\ used' = [used EXCEPT !.restarts = @ + 1]
    /\ disk' = d
    /\ Boot(R)
    /\ UNCHANGED <<handed, nextVal>>

Restart(R) == RestartFrom(disk, R)

\* the process dies inside persistence.Save after the write reached storage
WSaveCrash(w, R) ==
    /\ workers[w].pc = "save"
    /\ RestartFrom(disk \cup {workers[w].val}, R)

\* the process dies inside persistence.Delete after the removal took effect
GDeleteCrash(g, R) ==
    /\ getters[g].pc = "popped"
    /\ RestartFrom(disk \ {getters[g].val}, R)

---------------------------------------------------------------------------
\* one named top-level disjunct per action (TLC coverage names them)
DoWTop         == \E w \in WIds : WTop(w)
DoWGenerate    == \E w \in WIds : WGenerate(w)
DoWGenerateNil == \E w \in WIds : WGenerateNil(w)
DoWSaveOk      == \E w \in WIds : WSaveOk(w)
DoWSaveFail    == \E w \in WIds : WSaveFail(w)
DoWPush        == \E w \in WIds : WPush(w)
DoWDrop        == \E w \in WIds : WDrop(w)
DoGPop         == \E g \in Getters : GPop(g)
DoGPopEmpty    == \E g \in Getters : GPopEmpty(g)
DoGDeleteOk    == \E g \in Getters : GDeleteOk(g)
DoGDeleteFail  == \E g \in Getters : GDeleteFail(g)
DoRestart      == \E R \in Readable(disk) : Restart(R)
WSaveCrashAny(w)   == \E R \in Readable(disk \cup {workers[w].val}) : WSaveCrash(w, R)
GDeleteCrashAny(g) == \E R \in Readable(disk \ {getters[g].val}) : GDeleteCrash(g, R)
DoWSaveCrash   == \E w \in WIds : WSaveCrashAny(w)
DoGDeleteCrash == \E g \in Getters : GDeleteCrashAny(g)

Next ==
    \/ DoWTop \/ DoWGenerate \/ DoWGenerateNil \/ DoWSaveOk \/ DoWSaveFail
    \/ DoWPush \/ DoWDrop \/ Stop \/ Resume
    \/ DoGPop \/ DoGPopEmpty \/ DoGDeleteOk \/ DoGDeleteFail
    \/ DoRestart \/ DoWSaveCrash \/ DoGDeleteCrash

Spec == Init /\ [][Next]_vars

---------------------------------------------------------------------------
\* C39

\* the pool never hands out the same parameter twice (across restarts)
NoDoubleHandOut ==
    \A i, j \in DOMAIN handed : i # j => handed[i] # handed[j]

\* the pool never hands out a missing / invalid parameter
NoInvalidHandOut == \A i \in DOMAIN handed : handed[i] \in Values

\* never more than the configured size
PoolBounded == Len(pool) <= Size

\* a handed-out parameter was removed from storage before it was returned
\* (values are never saved twice, so it is gone for good)
RemovedBeforeUse == \A i \in DOMAIN handed : handed[i] \notin disk

\* everything a GetNow could receive is a real parameter that is persisted
\* (so that a crash before the hand-out cannot lose or duplicate it)
PoolPersisted == \A i \in DOMAIN pool : pool[i] \in Values /\ pool[i] \in disk

\* a parameter waits at most once, and never after it was handed out
PoolDistinct ==
    /\ \A i, j \in DOMAIN pool : i # j => pool[i] # pool[j]
    /\ \A i \in DOMAIN pool : pool[i] \notin Range(handed)
    /\ \A g \in Getters : getters[g].pc = "popped" =>
          /\ getters[g].val \notin Range(pool)
          /\ getters[g].val \notin Range(handed)
    /\ \A g, h \in Getters : (g # h /\ getters[g].pc = "popped" /\ getters[h].pc = "popped")
                                => getters[g].val # getters[h].val

\* NOT an invariant (TLC: Stop while worker 1 is in Save, Resume, worker 2
\* delivers value 2, then the cancelled worker 1 still wins the select and
\* delivers value 1): the channel is not strictly oldest-first.  Kept as a
\* documented non-property; it is oldest-first right after every Boot.
PoolOldestFirst == \A i, j \in DOMAIN pool : i < j => pool[i] < pool[j]

\* at most one worker goroutine has a live context (stop cancels all before
\* resume starts a new one)
OneLiveWorker ==
    Cardinality({w \in WIds : workers[w].live /\ workers[w].pc # "exited"}) <= 1

\* a stopped scheduler has no live worker context
StoppedMeansCancelled == (sched = "stopped") => \A w \in WIds : ~workers[w].live

TypeOK ==
    /\ disk \subseteq Values
    /\ \A i \in DOMAIN pool : pool[i] \in Values \cup {Nil}
    /\ nextVal \in 1..(NumValues + 1)
    /\ sched \in {"working", "stopped"}
    /\ \A w \in WIds : /\ workers[w].pc \in {"top", "gen", "save", "push", "exited"}
                       /\ workers[w].live \in BOOLEAN
                       /\ workers[w].val \in Values \cup {Nil}
    /\ \A g \in Getters : getters[g].pc \in {"idle", "popped"}
=============================================================================
