SPECIFICATION GSpec
CONSTANTS
  Size = 2
  NumValues = 5
  NumGetters = 2
  MaxWorkers = 1
  MaxSaveFail = 1
  MaxDelFail = 1
  MaxRestarts = 2
  MaxStops = 0
  MaxNil = 1
  MaxReadSkip = 1
  SkipOnSaveFail = TRUE
  SerialStorage = TRUE
  MaxSteps = 30
  MaxEmptyPops = 2
INVARIANTS Emit GenInvariants
