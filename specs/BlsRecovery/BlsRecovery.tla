---------------------------- MODULE BlsRecovery ----------------------------
(***************************************************************************)
(* Threshold BLS recovery of pkg/bls (RecoverSignature, RecoverPublicKey,  *)
(* lagrangeBasis), over a small prime field Z_Q instead of the BN254       *)
(* scalar field.  A share of member i is the field element f(i) of a       *)
(* polynomial f of degree K-1 (bls.GetSecretKeyShare); the group secret is *)
(* f(0).  (In the code the shares are group elements f(i)*H; recovery is   *)
(* linear, so the field element stands for the group element.)             *)
(*                                                                         *)
(* Code structure mirrored here (pkg/bls/bls.go):                          *)
(*                                                                         *)
(*   for _, s := range shares {                    -- the scan loop        *)
(*       if len(validParticipants) == threshold { break }   ScanStop       *)
(*       if s == nil || s.V == nil || s.I < 0 { continue }  ScanSkip       *)
(*       validParticipants = append(.., s.I)                ScanTake       *)
(*   }                                                                     *)
(*   if len(validParticipants) < threshold { return error } ScanShort      *)
(*   for i := range validParticipants {            -- the combine loop     *)
(*       basis := lagrangeBasis(i, validParticipants)                      *)
(*       result += basis * <value of participant i>         Combine        *)
(*   }                                                                     *)
(*   return result                                          Finish         *)
(*                                                                         *)
(* RecoverPublicKey has the break after the append instead of at the top   *)
(* of the loop; both take exactly the first `threshold` non-skipped        *)
(* entries, so one scan machine describes both.                            *)
(*                                                                         *)
(* CONSTANT Aligned selects what "<value of participant i>" is:            *)
(*   TRUE  = the contract: the value of the entry that contributed index   *)
(*           validParticipants[i] (its own value);                         *)
(*   FALSE = the positional reading `shares[i].V`: the value of the i-th   *)
(*           entry of the ORIGINAL slice, whatever it is (hazard variant,  *)
(*           used to find the inputs on which the two readings differ).    *)
(***************************************************************************)
EXTENDS Integers, Sequences, FiniteSets

CONSTANTS Q,        \* prime modulus of the toy field
          K,        \* threshold (polynomial degree K-1), K >= 1
          Idx,      \* member indices shares may carry (distinct mod Q, >= 0)
          NegIdx,   \* |i| for entries with a negative index -i (value f(i))
          MaxLen,   \* maximal length of the input slice
          Polys,    \* set of polynomials (coefficient sequences of length K)
          Aligned   \* see above

ASSUME /\ Q \in Nat /\ Q > 1 /\ K \in Nat /\ K >= 1
       /\ \A i \in Idx : i \in 0..(Q - 1)
       /\ \A p \in Polys : Len(p) = K

(* Entries of the input slice:                                             *)
(*   [t |-> "share", i |-> i]  a correct share of member i (value f(i))    *)
(*   [t |-> "nil",   i |-> 0]  a nil pointer                               *)
(*   [t |-> "nilv",  i |-> i]  index i, nil value (s.V == nil)             *)
(*   [t |-> "neg",   i |-> i]  index -i (negative), value f(i)             *)
ShareE(i) == [t |-> "share", i |-> i]
NilE      == [t |-> "nil", i |-> 0]
NilVE(i)  == [t |-> "nilv", i |-> i]
NegE(i)   == [t |-> "neg", i |-> i]

Entry == {ShareE(i) : i \in Idx} \cup {NilE} \cup {NilVE(i) : i \in NegIdx}
           \cup {NegE(i) : i \in NegIdx}

\* s == nil || s.V == nil || s.I < 0
Skipped(e) == e.t \in {"nil", "nilv", "neg"}

\* the property's precondition: correct shares carry distinct indices
DistinctShares(es) ==
    \A a, b \in 1..Len(es) :
        (a # b /\ es[a].t = "share" /\ es[b].t = "share") => es[a].i # es[b].i

RECURSIVE SeqsUpTo(_)
SeqsUpTo(n) == IF n = 0 THEN {<<>>}
               ELSE SeqsUpTo(n - 1) \cup [1..n -> Entry]

Inputs == {es \in SeqsUpTo(MaxLen) : DistinctShares(es)}

---------------------------------------------------------------------------
(* field arithmetic *)
Mod(x) == x % Q
Inv(a) == CHOOSE b \in 1..(Q - 1) : Mod(a * b) = 1

RECURSIVE EvalFrom(_, _, _)
\* Horner, as bls.GetSecretKeyShare: coefficient p[1] is the secret f(0)
EvalFrom(p, x, j) == IF j > Len(p) THEN 0
                     ELSE Mod(p[j] + x * EvalFrom(p, x, j + 1))
F(p, x) == EvalFrom(p, x, 1)

\* the value an entry carries (0 stands for "no value": never read by the
\* contract; reading it is a nil dereference in the code)
HasValue(e) == e.t \in {"share", "neg"}
Val(p, e)   == IF HasValue(e) THEN F(p, e.i) ELSE 0

\* lagrangeBasis(i, validParticipants): prod_{j#i} x_j / (x_j - x_i)
RECURSIVE NumFrom(_, _, _), DenFrom(_, _, _)
NumFrom(vp, i, j) == IF j > Len(vp) THEN 1
                     ELSE IF j = i THEN NumFrom(vp, i, j + 1)
                     ELSE Mod(vp[j] * NumFrom(vp, i, j + 1))
DenFrom(vp, i, j) == IF j > Len(vp) THEN 1
                     ELSE IF j = i THEN DenFrom(vp, i, j + 1)
                     ELSE Mod((vp[j] - vp[i]) * DenFrom(vp, i, j + 1))
Basis(vp, i) == Mod(NumFrom(vp, i, 1) * Inv(DenFrom(vp, i, 1)))

---------------------------------------------------------------------------
VARIABLES entries,   \* the input slice
          poly,      \* the sharing polynomial
          phase,     \* "scan" | "combine" | "done"
          pos,       \* scan cursor (1-based position of the next entry)
          vp,        \* validParticipants: indices taken so far
          vpos,      \* ghost: positions the indices of vp came from
          ci,        \* combine cursor (1-based)
          acc,       \* result accumulator
          result     \* "none" | "ok" | "err" | "panic"

vars == <<entries, poly, phase, pos, vp, vpos, ci, acc, result>>

Init ==
    /\ entries \in Inputs
    /\ poly \in Polys
    /\ phase = "scan" /\ pos = 1 /\ vp = <<>> /\ vpos = <<>>
    /\ ci = 1 /\ acc = 0 /\ result = "none"

\* `break` once threshold indices were collected
ScanStop ==
    /\ phase = "scan" /\ Len(vp) = K
    /\ phase' = "combine"
    /\ UNCHANGED <<entries, poly, pos, vp, vpos, ci, acc, result>>

\* `continue` on nil / nil value / negative index
ScanSkip ==
    /\ phase = "scan" /\ Len(vp) < K /\ pos <= Len(entries)
    /\ Skipped(entries[pos])
    /\ pos' = pos + 1
    /\ UNCHANGED <<entries, poly, phase, vp, vpos, ci, acc, result>>

ScanTake ==
    /\ phase = "scan" /\ Len(vp) < K /\ pos <= Len(entries)
    /\ ~Skipped(entries[pos])
    /\ vp' = Append(vp, entries[pos].i)
    /\ vpos' = Append(vpos, pos)
    /\ pos' = pos + 1
    /\ UNCHANGED <<entries, poly, phase, ci, acc, result>>

\* slice exhausted with fewer than threshold indices: error
ScanShort ==
    /\ phase = "scan" /\ Len(vp) < K /\ pos > Len(entries)
    /\ phase' = "done" /\ result' = "err"
    /\ UNCHANGED <<entries, poly, pos, vp, vpos, ci, acc>>

\* position of the entry whose value is combined with basis ci
Source(c) == IF Aligned THEN vpos[c] ELSE c

Combine ==
    /\ phase = "combine" /\ ci <= Len(vp)
    /\ LET e == entries[Source(ci)] IN
         IF HasValue(e)
            THEN /\ acc' = Mod(acc + Basis(vp, ci) * Val(poly, e))
                 /\ ci' = ci + 1
                 /\ UNCHANGED <<phase, result>>
            ELSE \* nil pointer / nil value dereferenced
                 /\ phase' = "done" /\ result' = "panic"
                 /\ UNCHANGED <<acc, ci>>
    /\ UNCHANGED <<entries, poly, pos, vp, vpos>>

Finish ==
    /\ phase = "combine" /\ ci > Len(vp)
    /\ phase' = "done" /\ result' = "ok"
    /\ UNCHANGED <<entries, poly, pos, vp, vpos, ci, acc>>

Next == ScanStop \/ ScanSkip \/ ScanTake \/ ScanShort \/ Combine \/ Finish

Spec == Init /\ [][Next]_vars

---------------------------------------------------------------------------
(* The documented behaviour as a function: take the first K non-skipped    *)
(* entries and interpolate at 0 with their own values.                     *)
UsablePositions(es) == {p \in 1..Len(es) : ~Skipped(es[p])}

RECURSIVE FirstPositions(_, _, _)
FirstPositions(es, p, n) ==
    IF n = 0 \/ p > Len(es) THEN <<>>
    ELSE IF Skipped(es[p]) THEN FirstPositions(es, p + 1, n)
    ELSE <<p>> \o FirstPositions(es, p + 1, n - 1)

RECURSIVE SumFrom(_, _, _, _)
SumFrom(p, es, ps, c) ==
    IF c > Len(ps) THEN 0
    ELSE Mod(Basis([x \in 1..Len(ps) |-> es[ps[x]].i], c) * Val(p, es[ps[c]])
             + SumFrom(p, es, ps, c + 1))

RecoverFn(es, p) ==
    LET ps == FirstPositions(es, 1, K) IN
      IF Len(ps) < K THEN [result |-> "err", value |-> 0, used |-> ps]
      ELSE [result |-> "ok", value |-> SumFrom(p, es, ps, 1), used |-> ps]

Done == phase = "done"

TypeOK ==
    /\ phase \in {"scan", "combine", "done"}
    /\ result \in {"none", "ok", "err", "panic"}
    /\ pos \in 1..(MaxLen + 1) /\ ci \in 1..(K + 1) /\ acc \in 0..(Q - 1)
    /\ Len(vp) <= K /\ Len(vp) = Len(vpos)

\* C03: whenever recovery succeeds it yields the group secret f(0) -- whatever
\* the order of the shares and wherever the skipped entries are placed.
RecoversSecret == (Done /\ result = "ok") => acc = poly[1]

\* recovery fails exactly when fewer than K usable entries were supplied
ErrIffShort ==
    Done => ((result = "err") <=> (Cardinality(UsablePositions(entries)) < K))

\* skipped entries are never dereferenced
NeverPanics == result # "panic"

\* the indices used are those of the first K non-skipped entries
UsesFirstK ==
    (Done /\ result = "ok") =>
        /\ vpos = FirstPositions(entries, 1, K)
        /\ vp = [x \in 1..K |-> entries[vpos[x]].i]

\* the step machine computes the documented function
MatchesFunction ==
    Done => LET r == RecoverFn(entries, poly) IN
              /\ result = r.result
              /\ (result = "ok" => acc = r.value)

\* a skipped entry's value never contributes (ghost check on the source)
OwnValues ==
    (phase = "combine" /\ ci <= Len(vp)) =>
        (Aligned => entries[Source(ci)].i = vp[ci] /\ ~Skipped(entries[Source(ci)]))
=============================================================================
