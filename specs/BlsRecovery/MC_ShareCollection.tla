------------------------- MODULE MC_ShareCollection -------------------------
(* Message alphabet for the exhaustive / generation configurations.        *)
EXTENDS ShareCollection

Others == Members \ {Self}
NextMember(s) == (s % N) + 1

AllMsgs ==
       {Msg("share", s, Sh(s, "prev"), "cur") : s \in Others}              \* correct share
  \cup {Msg("share", s, Sh(NextMember(s), "prev"), "cur") : s \in Others}  \* signed by another member (possibly a replay of Self's share)
  \cup {Msg("share", s, Sh(s, "other"), "cur") : s \in Others}             \* right key, other message
  \cup {Msg("share", s, InfShare, "cur") : s \in Others}                   \* point at infinity
  \cup {Msg("share", s, Garbage, "cur") : s \in Others}                    \* bytes that do not unmarshal
  \cup {Msg("share", s, Sh(s, "prev"), "old") : s \in Others}              \* correct share, other session id
  \cup {Msg("share", Self, Sh(Self, "prev"), "cur")}                       \* own message echoed
  \cup {Msg("share", N + 1, Sh(N + 1, "prev"), "cur")}                     \* sender outside the group
  \cup {Msg("other", NextMember(Self), Sh(NextMember(Self), "prev"), "cur")} \* other payload type

\* repeated messages of the same senders: correct, signed by another member,
\* over another message, point at infinity, malformed -- two senders only, so
\* that histories "valid then invalid", "invalid then valid", "valid then a
\* different valid-looking share" of one sender are enumerated in depth
TwoSenders == {CHOOSE s \in Others : \A t \in Others : s <= t,
               CHOOSE s \in Others : \A t \in Others : s >= t}
RepeatMsgs ==
       {Msg("share", s, Sh(s, "prev"), "cur") : s \in TwoSenders}
  \cup {Msg("share", s, Sh(NextMember(s), "prev"), "cur") : s \in TwoSenders}
  \cup {Msg("share", s, Sh(s, "other"), "cur") : s \in TwoSenders}
  \cup {Msg("share", s, InfShare, "cur") : s \in TwoSenders}
  \cup {Msg("share", s, Garbage, "cur") : s \in TwoSenders}

AllKnown == Members
LastUnknown == Members \ {N}
=============================================================================
