SPECIFICATION Spec
CONSTANTS
  Q = 11
  K = 2
  Idx = {0, 1, 2, 3}
  NegIdx = {1, 3}
  MaxLen = 3
  Polys <- SomePolys
  Aligned = TRUE
INVARIANTS TypeOK RecoversSecret ErrIffShort NeverPanics UsesFirstK MatchesFunction OwnValues
