SPECIFICATION GSpec
CONSTANTS
  N = 4
  Self = 1
  H = 3
  Known <- AllKnown
  Msgs <- AllMsgs
  MaxMsgs = 3
INVARIANTS Emit TypeOK OnlyVerifiedShares OnlyKnownSenders OwnShareKept AtMostThreshold SubmitsGroupSignature UsedSharesVerify NothingBeforeThreshold
PROPERTIES SharesStable
