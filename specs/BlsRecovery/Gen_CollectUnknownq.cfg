SPECIFICATION GSpec
CONSTANTS
  N = 4
  Self = 2
  H = 3
  Known <- LastUnknown
  Msgs <- AllMsgs
  MaxMsgs = 2
INVARIANTS Emit TypeOK OnlyVerifiedShares OnlyKnownSenders OwnShareKept AtMostThreshold SubmitsGroupSignature UsedSharesVerify NothingBeforeThreshold
PROPERTIES SharesStable
