SPECIFICATION Spec
CONSTANTS
  Q = 11
  K = 1
  Idx = {1, 2, 3}
  NegIdx = {1}
  MaxLen = 3
  Polys <- OnePoly
  Aligned = TRUE
INVARIANTS Emit
