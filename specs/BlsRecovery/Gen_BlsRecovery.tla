-------------------------- MODULE Gen_BlsRecovery --------------------------
(* Case generation for BlsRecovery: every input slice (one fixed           *)
(* polynomial; the harness draws its own random BN254 polynomial), run     *)
(* through the step machine; the outcome of the contract reading           *)
(* (Aligned = TRUE) is emitted together with what the positional reading   *)
(* shares[i] would touch, so that the harness can classify the cases.      *)
EXTENDS MC_BlsRecovery, TLC, Json, CSV, IOUtils

OnePoly == {[j \in 1..K |-> (2 * j + 1) % Q]}

\* the positional reading differs from the contract on this input
Misaligned(es) ==
    LET ps == FirstPositions(es, 1, K) IN
      Len(ps) = K /\ \E c \in 1..K : ps[c] # c

Emit ==
    Done => CSVWrite("%1$s", <<ToJson([k |-> K,
                                       entries |-> entries,
                                       result |-> result,
                                       used |-> vpos,
                                       usedIdx |-> vp,
                                       misaligned |-> Misaligned(entries)])>>, "cases.ndjson")
=============================================================================
