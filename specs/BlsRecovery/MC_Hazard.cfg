SPECIFICATION Spec
CONSTANTS
  Q = 11
  K = 2
  Idx = {1, 2, 3}
  NegIdx = {1}
  MaxLen = 3
  Polys <- SomePolys
  Aligned = FALSE
INVARIANTS TypeOK RecoversSecret
