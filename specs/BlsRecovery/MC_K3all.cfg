SPECIFICATION Spec
CONSTANTS
  Q = 11
  K = 3
  Idx = {1, 2, 3, 4}
  NegIdx = {2}
  MaxLen = 3
  Polys <- AllPolys
  Aligned = TRUE
INVARIANTS TypeOK RecoversSecret ErrIffShort NeverPanics UsesFirstK MatchesFunction OwnValues
