-------------------------- MODULE ShareCollection --------------------------
(***************************************************************************)
(* Collection of relay-entry signature shares: the message loop of         *)
(* pkg/beacon/entry/entry.go SignAndSubmit, extractAndValidateShare and    *)
(* completeSignature (-> dkg.ThresholdSigner.CompleteSignature ->          *)
(* bls.RecoverSignature).                                                  *)
(*                                                                         *)
(* Cryptography is symbolic: a share is [signer |-> t, msg |-> m] = the    *)
(* BLS signature of message m under member t's private key share;          *)
(* bls.VerifyG1(pkShare[s], previousEntry, share) holds iff signer = s and *)
(* msg = "prev".  Two more byte strings exist: "inf" (the encoding of the  *)
(* point at infinity, unmarshals fine) and "garbage" (does not unmarshal). *)
(* The harness realizes every symbolic share with real BN254 values.       *)
(*                                                                         *)
(*   for len(receivedValidShares) < honestThreshold { select {             *)
(*     case netMessage:                                                    *)
(*        not a SignatureShareMessage, own message, other session: Ignore  *)
(*        extractAndValidateShare fails:                          Reject   *)
(*        otherwise receivedValidShares[sender] = share:          Accept   *)
(*     case relayEntrySubmitted: return nil               OtherSubmitted   *)
(*     case relayEntryTimeout:   return error                    Timeout   *)
(*   } }                                                                   *)
(*   completeSignature(...)                                     Complete   *)
(*   submitter.submitRelayEntry(...)                              Submit   *)
(*                                                                         *)
(* Repeated messages of one sender: every message is validated on its own  *)
(* and, if valid, written to receivedValidShares[sender] again.  BLS       *)
(* shares are deterministic, so a valid repeat carries the same share: the *)
(* first admitted share of a sender is never replaced by another value,    *)
(* and an invalid repeat changes nothing (SharesStable).  Messages that    *)
(* arrive once the loop was left are never looked at (LateMsg).            *)
(***************************************************************************)
EXTENDS Integers, Sequences, FiniteSets, TLC

CONSTANTS N,        \* group size; members are 1..N
          Self,     \* the member running SignAndSubmit
          H,        \* honest threshold
          Known,    \* members with an entry in groupPublicKeyShares
          Msgs,     \* the messages the network may deliver
          MaxMsgs   \* bound on deliveries

Members == 1..N

Sh(t, m)  == [signer |-> t, msg |-> m]
InfShare  == Sh(0, "inf")
Garbage   == Sh(0, "garbage")

\* message = [kind, sender, share, session]; kind "share" is a
\* *SignatureShareMessage, anything else another payload type
Msg(kind, sender, share, session) ==
    [kind |-> kind, sender |-> sender, share |-> share, session |-> session]

Unmarshals(sh) == sh.msg # "garbage"
\* bls.VerifyG1(groupPublicKeyShares[s], previousEntry, share)
Verifies(s, sh) == sh.signer = s /\ sh.msg = "prev"

VARIABLES received,   \* receivedValidShares: member -> share
          phase,      \* "loop" | "completed" | "submitted" | "left" | "timedout"
          sig,        \* "none" | "group" | "bad": what completeSignature produced
          delivered   \* number of messages taken from the channel

vars == <<received, phase, sig, delivered>>

Count == Cardinality(DOMAIN received)
InLoop == phase = "loop" /\ Count < H

Init ==
    /\ received = (Self :> Sh(Self, "prev"))   \* signer.CalculateSignatureShare
    /\ phase = "loop" /\ sig = "none" /\ delivered = 0

Filtered(m) == m.kind # "share" \/ m.sender = Self \/ m.session # "cur"

\* extractAndValidateShare succeeds
Valid(m) == /\ Unmarshals(m.share)
            /\ m.sender \in Known
            /\ Verifies(m.sender, m.share)

Ignore(m) ==
    /\ InLoop /\ delivered < MaxMsgs /\ Filtered(m)
    /\ delivered' = delivered + 1
    /\ UNCHANGED <<received, phase, sig>>

Reject(m) ==
    /\ InLoop /\ delivered < MaxMsgs /\ ~Filtered(m) /\ ~Valid(m)
    /\ delivered' = delivered + 1
    /\ UNCHANGED <<received, phase, sig>>

Accept(m) ==
    /\ InLoop /\ delivered < MaxMsgs /\ ~Filtered(m) /\ Valid(m)
    /\ received' = [s \in DOMAIN received \cup {m.sender} |->
                       IF s = m.sender THEN m.share ELSE received[s]]
    /\ delivered' = delivered + 1
    /\ UNCHANGED <<phase, sig>>

OtherSubmitted ==
    /\ InLoop
    /\ phase' = "left"
    /\ UNCHANGED <<received, sig, delivered>>

Timeout ==
    /\ InLoop
    /\ phase' = "timedout"
    /\ UNCHANGED <<received, sig, delivered>>

\* completeSignature: the map is turned into a slice in map-iteration order
\* and bls.RecoverSignature interpolates the first H entries; with correct
\* shares of H distinct members the result is the group signature
\* (BlsRecovery!RecoversSecret), with any other share it is not.
Complete ==
    /\ phase = "loop" /\ Count >= H
    /\ \E S \in SUBSET (DOMAIN received) :
          /\ Cardinality(S) = H
          /\ sig' = IF \A s \in S : Verifies(s, received[s]) THEN "group" ELSE "bad"
    /\ phase' = "completed"
    /\ UNCHANGED <<received, delivered>>

\* a message delivered after the loop was left: stays in the channel buffer
LateMsg(m) ==
    /\ phase = "completed" /\ delivered < MaxMsgs
    /\ delivered' = delivered + 1
    /\ UNCHANGED <<received, phase, sig>>

Submit ==
    /\ phase = "completed"
    /\ phase' = "submitted"
    /\ UNCHANGED <<received, sig, delivered>>

DoIgnore == \E m \in Msgs : Ignore(m)
DoReject == \E m \in Msgs : Reject(m)
DoAccept == \E m \in Msgs : Accept(m)
DoLate   == \E m \in Msgs : LateMsg(m)

Next == DoIgnore \/ DoReject \/ DoAccept \/ DoLate \/ OtherSubmitted \/ Timeout \/ Complete \/ Submit

Spec == Init /\ [][Next]_vars

---------------------------------------------------------------------------
TypeOK ==
    /\ DOMAIN received \subseteq Members
    /\ phase \in {"loop", "completed", "submitted", "left", "timedout"}
    /\ sig \in {"none", "group", "bad"}

\* C03, second sentence: a share that does not verify under its member's
\* public key share is never used for a relay entry.
OnlyVerifiedShares == \A s \in DOMAIN received : Verifies(s, received[s])

\* only members with a known public key share contribute
OnlyKnownSenders == DOMAIN received \subseteq (Known \cup {Self})

\* the own share is always part of the collection
OwnShareKept == Self \in DOMAIN received /\ received[Self] = Sh(Self, "prev")

\* the loop stops as soon as the threshold is reached
AtMostThreshold == Count <= (IF H > 1 THEN H ELSE 1)

\* what is submitted is the group signature
SubmitsGroupSignature == phase \in {"completed", "submitted"} => sig = "group"
\* every share that takes part in the recovery verifies under its sender's key
\* share at the moment of completion (nothing was swapped in after admission)
UsedSharesVerify ==
    phase \in {"completed", "submitted"} => \A s \in DOMAIN received : Verifies(s, received[s])

\* action property: an admitted share is never removed or replaced by another value
SharesStable ==
    [][\A s \in DOMAIN received : s \in DOMAIN received' /\ received'[s] = received[s]]_vars

NothingBeforeThreshold == phase \in {"loop", "left", "timedout"} => sig = "none"
=============================================================================
