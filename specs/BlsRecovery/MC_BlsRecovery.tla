--------------------------- MODULE MC_BlsRecovery ---------------------------
(* Constant definitions for the exhaustive configurations of BlsRecovery.  *)
EXTENDS BlsRecovery

\* every polynomial of degree < K over Z_Q
AllPolys == [1..K -> 0..(Q - 1)]

\* recovery is linear in the coefficients: the monomials plus a few dense
\* polynomials already decide it; used where AllPolys is too large
SomePolys == {[j \in 1..K |-> IF j = m THEN 1 ELSE 0] : m \in 1..K}
             \cup {[j \in 1..K |-> (3 * j + 2) % Q], [j \in 1..K |-> (j * j + 5) % Q],
                   [j \in 1..K |-> Q - j]}
=============================================================================
