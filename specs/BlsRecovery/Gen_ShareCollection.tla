------------------------ MODULE Gen_ShareCollection ------------------------
(* Behaviour generation for ShareCollection: every behaviour with a        *)
(* history variable; emitted when SignAndSubmit has returned.              *)
EXTENDS MC_ShareCollection, Json, CSV, IOUtils

VARIABLE hist
gvars == <<vars, hist>>

Holders(r) == {s \in Members : s \in DOMAIN r}
Step(a, m, out) == hist' = Append(hist, [a |-> a, m |-> m, out |-> out,
                                         count |-> Cardinality(DOMAIN received'),
                                         holders |-> Holders(received')])
NoMsg == Msg("none", 0, Garbage, "cur")

GInit == Init /\ hist = <<>>
GNext ==
    \/ \E m \in Msgs : Ignore(m) /\ Step("Deliver", m, "ignore")
    \/ \E m \in Msgs : Reject(m) /\ Step("Deliver", m, "reject")
    \/ \E m \in Msgs : Accept(m) /\ Step("Deliver", m, "accept")
    \/ OtherSubmitted /\ Step("OtherSubmitted", NoMsg, "left")
    \/ Timeout /\ Step("Timeout", NoMsg, "timedout")
    \/ Complete /\ Step("Complete", NoMsg, sig')
    \/ Submit /\ Step("Submit", NoMsg, sig)
GSpec == GInit /\ [][GNext]_gvars

Terminal == phase \in {"submitted", "left", "timedout"}
Emit == Terminal => CSVWrite("%1$s", <<ToJson([steps |-> hist, phase |-> phase, sig |-> sig,
                                               count |-> Count, holders |-> Holders(received),
                                               n |-> N, self |-> Self, h |-> H,
                                               known |-> Known])>>, "collection.ndjson")
=============================================================================
