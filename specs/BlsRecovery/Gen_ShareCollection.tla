------------------------ MODULE Gen_ShareCollection ------------------------
(* Behaviour generation for ShareCollection: every behaviour with a        *)
(* history variable; emitted when SignAndSubmit has returned.              *)
EXTENDS MC_ShareCollection, Json, CSV, IOUtils

VARIABLE hist
gvars == <<vars, hist>>

Holders(r) == {s \in Members : s \in DOMAIN r}
Step(a, m, out) == hist' = Append(hist, [a |-> a, m |-> m, out |-> out,
                                         count |-> Cardinality(DOMAIN received'),
                                         holders |-> Holders(received')])
NoMsg == Msg("none", 0, Garbage, "cur")

GInit == Init /\ hist = <<>>
GIgnoreM(m) == Ignore(m) /\ Step("Deliver", m, "ignore")
GRejectM(m) == Reject(m) /\ Step("Deliver", m, "reject")
GAcceptM(m) == Accept(m) /\ Step("Deliver", m, "accept")
GIgnore   == \E m \in Msgs : GIgnoreM(m)
GReject   == \E m \in Msgs : GRejectM(m)
GAccept   == \E m \in Msgs : GAcceptM(m)
GLateM(m) == LateMsg(m) /\ Step("Late", m, "late")
GLate     == \E m \in Msgs : GLateM(m)
GOther    == OtherSubmitted /\ Step("OtherSubmitted", NoMsg, "left")
GTimeout  == Timeout /\ Step("Timeout", NoMsg, "timedout")
GComplete == Complete /\ Step("Complete", NoMsg, sig')
GSubmit   == Submit /\ Step("Submit", NoMsg, sig)
GNext == GIgnore \/ GReject \/ GAccept \/ GLate \/ GOther \/ GTimeout \/ GComplete \/ GSubmit
GSpec == GInit /\ [][GNext]_gvars

Terminal == phase \in {"submitted", "left", "timedout"}
Emit == Terminal => CSVWrite("%1$s", <<ToJson([steps |-> hist, phase |-> phase, sig |-> sig,
                                               count |-> Count, holders |-> Holders(received),
                                               n |-> N, self |-> Self, h |-> H,
                                               known |-> Known])>>, "collection.ndjson")
=============================================================================
