SPECIFICATION Spec
CONSTANTS
  Q = 11
  K = 2
  Idx = {0, 1, 2, 3, 4}
  NegIdx = {1, 4}
  MaxLen = 4
  Polys <- OnePoly
  Aligned = TRUE
INVARIANTS Emit
