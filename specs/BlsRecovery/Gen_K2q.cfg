SPECIFICATION Spec
CONSTANTS
  Q = 11
  K = 2
  Idx = {0, 1, 2, 3, 4}
  NegIdx = {1, 4}
  MaxLen = 3
  Polys <- SomePolys
  Aligned = TRUE
INVARIANTS Emit TypeOK RecoversSecret ErrIffShort NeverPanics UsesFirstK MatchesFunction OwnValues
