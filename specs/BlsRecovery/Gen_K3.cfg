SPECIFICATION Spec
CONSTANTS
  Q = 11
  K = 3
  Idx = {1, 2, 3, 4, 5}
  NegIdx = {2}
  MaxLen = 5
  Polys <- OnePoly
  Aligned = TRUE
INVARIANTS Emit
