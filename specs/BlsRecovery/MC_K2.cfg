SPECIFICATION Spec
CONSTANTS
  Q = 11
  K = 2
  Idx = {1, 2, 3, 4}
  NegIdx = {3}
  MaxLen = 4
  Polys <- AllPolys
  Aligned = TRUE
INVARIANTS TypeOK RecoversSecret ErrIffShort NeverPanics UsesFirstK MatchesFunction OwnValues
