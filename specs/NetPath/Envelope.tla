------------------------------ MODULE Envelope ------------------------------
(***************************************************************************)
(* Attribution of incoming broadcast messages: pkg/net/libp2p/channel.go   *)
(* processPubsubMessage / processContainerMessage and identity.go          *)
(* Unmarshal.                                                              *)
(*                                                                         *)
(* An incoming pubsub message has an authenticated author (outer: the peer *)
(* id libp2p verified the message signature against) and carries bytes. The *)
(* channel processes it in this order, any failure drops the message:      *)
(*   Container   proto.Unmarshal of the BroadcastNetworkMessage            *)
(*   Type        an unmarshaler is registered for the envelope's type      *)
(*   Payload     the unmarshaler accepts the payload                       *)
(*   Identity    identity.Unmarshal(sender): protobuf, public key, peer id *)
(*   Match       outer peer id = peer id of the inner identity             *)
(*   KeyType     the inner key is a secp256k1 key (operator key)           *)
(*   Deliver     net.Message{sender id = inner id, sender public key =     *)
(*               operator key of the inner identity, type, payload, seqno} *)
(*               to every registered handler's queue                       *)
(* A batch of envelopes is processed one after the other; nothing of one   *)
(* envelope survives into the processing of the next.                      *)
(***************************************************************************)
EXTENDS Naturals, Sequences, FiniteSets

CONSTANTS SecpPeers,   \* peers with a secp256k1 (operator) key; "sx" / "sy" stand for operators whose
                       \* public key has a leading zero byte in X / in Y (the delivered key is the
                       \* fixed-width 65-byte form for them too)
          OtherPeers,  \* peers with a valid libp2p key of another type (Ed25519)
          BatchLen

Peers == SecpPeers \cup OtherPeers
\* the mirror identity of an operator: the well-formed secp256k1 key (x, -y) for the
\* operator's (x, y): same X, another point, another peer id (the compressed forms differ
\* in the 02/03 prefix only). Nobody publishes under it here; it only occurs as inner identity.
Mirror(p) == <<"mirror", p>>
Mirrors == { Mirror(p) : p \in SecpPeers }
WellFormedIds == { <<"peer", p>> : p \in Peers } \cup Mirrors
\* what the sender field can hold: a well-formed identity (a peer's, or a mirror), or bytes that
\* are no protobuf ("garbage"), a protobuf whose key bytes are no key ("badkey"), or nothing ("empty")
Malformed == { <<"malformed", k>> : k \in {"garbage", "badkey", "empty"} }
Inner == WellFormedIds \cup Malformed
Id(p) == <<"peer", p>>

Envelopes == [outer : Peers, container : {"ok", "garbage"}, type : {"registered", "unknown"},
              payload : {"ok", "undecodable"}, inner : Inner, seq : {1, 2}]

VARIABLES batch,      \* Seq(Envelopes) to process
          i,          \* next envelope
          delivered,  \* Seq of [at, sender, key, type, seq]: what deliver() was called with
          verdicts    \* Seq of "delivered" | reason of the drop

vars == <<batch, i, delivered, verdicts>>

\* processPubsubMessage + processContainerMessage as one decision
Verdict(e) ==
    IF e.container = "garbage" THEN "container"
    ELSE IF e.type = "unknown" THEN "type"
    ELSE IF e.payload = "undecodable" THEN "payload"
    ELSE IF e.inner \notin WellFormedIds THEN "identity"
    ELSE IF e.inner # Id(e.outer) THEN "mismatch"
    ELSE IF e.outer \notin SecpPeers THEN "keytype"
    ELSE "delivered"

Init ==
    /\ batch \in [1..BatchLen -> Envelopes]
    /\ i = 1 /\ delivered = <<>> /\ verdicts = <<>>

Process ==
    /\ i <= Len(batch)
    /\ LET e == batch[i] v == Verdict(e) IN
         /\ verdicts' = Append(verdicts, v)
         /\ delivered' = IF v = "delivered"
                            THEN Append(delivered, [at |-> i, sender |-> e.inner, key |-> e.inner, type |-> e.type, seq |-> e.seq])
                            ELSE delivered
    /\ i' = i + 1
    /\ UNCHANGED batch

Next == Process
Spec == Init /\ [][Next]_vars

---------------------------------------------------------------------------
\* C18: a delivered message names the authenticated author, with that author's key
Attributed ==
    \A k \in DOMAIN delivered :
        LET d == delivered[k] e == batch[d.at] IN
        /\ d.sender = Id(e.outer) /\ d.key = Id(e.outer)
        /\ e.outer \in SecpPeers
        /\ e.type = "registered" /\ e.payload = "ok" /\ e.container = "ok"
        /\ d.seq = e.seq

\* C18: everything else is dropped, and drops do not affect other messages:
\* every well-formed, correctly attributed envelope of the batch is delivered
\* exactly once, in order
WellFormed(e) == /\ e.container = "ok" /\ e.type = "registered" /\ e.payload = "ok"
                 /\ e.inner = Id(e.outer) /\ e.outer \in SecpPeers
Independent ==
    i > Len(batch) =>
        /\ \A j \in DOMAIN batch :
               Cardinality({k \in DOMAIN delivered : delivered[k].at = j}) = (IF WellFormed(batch[j]) THEN 1 ELSE 0)
        /\ \A k, l \in DOMAIN delivered : k < l => delivered[k].at < delivered[l].at

TypeOK == i \in 1..(BatchLen + 1) /\ Len(verdicts) = i - 1
=============================================================================
