SPECIFICATION Spec
CONSTANTS
  PosPeriod = 1
  NegPeriod = 0
  MaxClock = 0
  MaxCalls = 4
  AllowRChoices = {{}}
  AllowSChoices = {{"R"}}
  RecogAInit = {TRUE}
  ChainPeers = {"A"}
  MaxChain = 0
  MaxErr = 0
  GuardOn = FALSE
  Nonces = {1}
  HsBudget = 0
  MaxDials = 1
  MaxAdvDials = 1
  MaxDrops = 0
  Handlers = {"h1"}
  CancelHandlers = {"h1"}
  MaxSend = 1
  MaxRetx = 2
  Cap = 1
  SecondCheck = TRUE
  Filter = TRUE
  MaxTicks = 1
  Backoff1 = FALSE
  Backoff2 = TRUE
  CancelMsgs = {}
  MaxAdv = 1
  AdvKinds = {"impostor"}
  FwInbound = TRUE
  VerifyAct1 = TRUE
  MatchInner = TRUE
  StrictSign = TRUE
  Reduce = TRUE
INVARIANTS TypeOK FirewallInvs HandshakeInvs BroadcastInvs RetransmissionInvs
  LinkAuthenticated LinkJustified HopAdmitted RejectedNeverDelivered HandlerNeverSeesRejected NoImpostor HandlerSeesAuthor Authentic ForgedNeverRead
  PubsExact SenderStops WireOnLiveLinks
