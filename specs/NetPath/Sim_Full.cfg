SPECIFICATION Spec
CONSTANTS
  PosPeriod = 1
  NegPeriod = 0
  MaxClock = 3
  MaxCalls = 6
  AllowRChoices = {{}, {"S"}}
  AllowSChoices = {{"R"}, {"R", "A"}}
  RecogAInit = {TRUE, FALSE}
  ChainPeers = {"A", "S"}
  MaxChain = 2
  MaxErr = 1
  GuardOn = TRUE
  Nonces = {1, 2}
  HsBudget = 1
  MaxDials = 2
  MaxAdvDials = 3
  MaxDrops = 2
  Handlers = {"h1", "h2"}
  CancelHandlers = {"h2"}
  MaxSend = 2
  MaxRetx = 6
  Cap = 2
  SecondCheck = TRUE
  Filter = TRUE
  MaxTicks = 3
  Backoff1 = FALSE
  Backoff2 = TRUE
  CancelMsgs = {1, 2}
  MaxAdv = 3
  AdvKinds = {"own", "impostor", "garbage", "replay", "forged"}
  FwInbound = TRUE
  VerifyAct1 = TRUE
  MatchInner = TRUE
  StrictSign = TRUE
  Reduce = FALSE
INVARIANTS TypeOK FirewallInvs HandshakeInvs BroadcastInvs RetransmissionInvs
  LinkAuthenticated LinkJustified HopAdmitted RejectedNeverDelivered HandlerNeverSeesRejected NoImpostor HandlerSeesAuthor Authentic ForgedNeverRead
  PubsExact SenderStops WireOnLiveLinks
