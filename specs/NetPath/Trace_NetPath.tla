--------------------------- MODULE Trace_NetPath ---------------------------
(* Trace validation of real end-to-end executions against the composition   *)
(* NetPath. The executions are recorded by                                   *)
(* /verif/harness/pkg/net/libp2p/x_netpath_test.go: two real libp2p          *)
(* providers R and S (libp2p.Connect over loopback TCP, real                 *)
(* AnyApplicationPolicy firewall, real channel, real retransmission ticker   *)
(* fed by hand) and an adversary host A built from the package's own         *)
(* transport pieces. Nothing is hooked into the code: every event comes from *)
(* an object the harness hands to the code (firewall wrapper, application,   *)
(* publisher wrapper, unmarshaler, handler, connection manager wrapper,      *)
(* contexts).                                                                *)
(*                                                                           *)
(*   Reset(allowR, allowS, recogA, adv)  a new world; adv = how A handshakes  *)
(*   Chain(peer, recognized)             the application's answer changes    *)
(*   Advance(kind)                       every negative ("neg") / every      *)
(*                                       cache entry ("pos") has expired     *)
(*   HandshakeDone(node, peer, ok)       ok: node's firewall was entered for *)
(*                                       peer on a connection (the handshake *)
(*                                       completed); ~ok: A's dial failed    *)
(*                                       before the firewall was reached     *)
(*   FirewallVerdict(node, peer, kind, res, asked)  Validate returned; kind  *)
(*                                       conn | guard                        *)
(*   DisconnectCall/Ret(a, b)            around ConnectionManager.           *)
(*                                       DisconnectPeer (harness or guard)   *)
(*   RegisterCall/Ret(h), CancelCall/Ret(h)   around Recv / the handler      *)
(*                                       context's cancel()                  *)
(*   Published(node, author, inner, seqno)    the channel handed a NEW       *)
(*                                       message to its pubsub topic         *)
(*   Retransmit(node, k, inner, seqno)   ... the k-th message again          *)
(*   CancelSendCall/Ret(k)               around cancel() of the Send context *)
(*   TickCall                            before a tick is fed to S's ticker  *)
(*   Inject(env)                         the harness hands env to R's        *)
(*                                       processPubsubMessage as relayed by  *)
(*                                       A (only while A is connected to R)  *)
(*   Arrived(env)                        R's channel unmarshals the payload  *)
(*                                       (inside processContainerMessage)    *)
(*   Dropped(env, reason)                processPubsubMessage returned the   *)
(*                                       error (Inject only)                 *)
(*   Delivered(h, sender, seqno, keyok, env)  first statement of handler h   *)
(* Everything else (network reads, relays, deliver(), queues, goroutines,    *)
(* ticker, callbacks) is a silent step TLC has to place. "Call" events are   *)
(* logged before the call, all others after the effect.                      *)
(*                                                                           *)
(* Time: the harness runs the real TimeCaches with short periods and keeps   *)
(* every Validate inside guarded real-time windows (see the harness), so the *)
(* clock only moves at Advance events: NegPeriod = 0, an Advance("neg") is   *)
(* one tick, PosPeriod ticks never pass without an Advance("pos").           *)
EXTENDS NetPath, TraceKit

VARIABLES l,          \* cursor
          hsok,       \* <<node, peer>>: handshake observed, firewall verdict pending
          disc,       \* pending DisconnectPeer calls [id, a, b, renewed]
          regP, canP, \* [Handlers -> phase] of Recv / cancel calls
          csP,        \* [1..2 -> phase] of cancel calls of Send contexts
          tickCredit, \* ticks fed, not yet read by Ticker.start
          advMode,    \* how A runs its handshakes in this world: [claim, proto, chalok]
          advPubd     \* envelopes A has published so far

tvars == <<vars, l, hsok, disc, regP, canP, csP, tickCredit, advMode, advPubd>>
traceOnly == <<hsok, disc, regP, canP, csP, tickCredit, advMode, advPubd>>

ToSet(sq) == {sq[j] : j \in DOMAIN sq}
E(x) == [author |-> x.author, inner |-> x.inner, seq |-> x.seq, sig |-> "ok"]

IsEvent(e) == l <= Len(Trace) /\ Trace[l].event = e /\ l' = l + 1
Ev == Trace[l]
NextIs(e) == l <= Len(Trace) /\ Trace[l].event = e

ResetTo(aR, aS, recA) ==
    /\ clock' = 0
    /\ allowR' = aR /\ posR' = [p \in {"S", "A"} |-> None] /\ negR' = [p \in {"S", "A"} |-> None] /\ callsR' = 0
    /\ lastR' = FWR!NoCall /\ yesAtR' = [p \in {"S", "A"} |-> None] /\ noAtR' = [p \in {"S", "A"} |-> None]
    /\ allowS' = aS /\ posS' = [p \in {"R", "A"} |-> None] /\ negS' = [p \in {"R", "A"} |-> None] /\ callsS' = 0
    /\ lastS' = FWS!NoCall /\ yesAtS' = [p \in {"R", "A"} |-> None] /\ noAtS' = [p \in {"R", "A"} |-> None]
    /\ recog' = {"R", "S"} \cup (IF recA THEN {"A"} ELSE {}) /\ nchain' = 0 /\ nerr' = 0
    /\ HsIdle /\ UNCHANGED <<old, used>>
    /\ sess' = "idle" /\ sfw' = [i |-> "todo", r |-> "todo"] /\ ndials' = 0
    /\ cs' = [e \in Ends |-> "none"] /\ claimed' = [n \in Honest |-> "A"]
    /\ everAdm' = [n \in Honest |-> {}] /\ adm' = [e \in Ends |-> NoAdm]
    /\ ndrops' = 0 /\ nadvdials' = 0
    /\ counter' = [s \in {"S", "A"} |-> 0]
    /\ budget' = [m \in BC!Msgs |-> 0]
    /\ dl' = {} /\ handlers' = <<>>
    /\ ctxDone' = [h \in Handlers |-> FALSE] /\ removed' = [h \in Handlers |-> FALSE]
    /\ pc' = [h \in Handlers |-> "none"] /\ queue' = [h \in Handlers |-> <<>>]
    /\ cur' = [h \in Handlers |-> BC!NoMsg] /\ seen' = [h \in Handlers |-> {}]
    /\ ninv' = [h \in Handlers |-> [m \in BC!Msgs |-> 0]]
    /\ stale' = [h \in Handlers |-> FALSE] /\ acc' = [h \in Handlers |-> {}]
    /\ book' = [calls |-> [s \in {"S", "A"} |-> 0], tagged |-> [m \in BC!Msgs |-> {}], fails |-> 0]
    /\ ticks' = 0
    /\ live1' = TRUE /\ reg1' = FALSE /\ pc1' = <<>> /\ tc1' = 0 /\ delay1' = 1 /\ rt1' = 1 /\ retx1' = <<>> /\ sac1' = MaxTicks + 1
    /\ live2' = TRUE /\ reg2' = FALSE /\ pc2' = <<>> /\ tc2' = 0 /\ delay2' = 1 /\ rt2' = 1 /\ retx2' = <<>> /\ sac2' = MaxTicks + 1
    /\ wire' = {} /\ inbox' = {} /\ advUsed' = 0
    /\ pubs' = [k \in 1..MaxSend |-> 0] /\ forged' = {} /\ readLog' = {}

TInit ==
    /\ Init /\ l = 1 /\ HwmInit /\ TLCSet(2, 0)
    /\ hsok = {} /\ disc = {}
    /\ regP = [h \in Handlers |-> "idle"] /\ canP = [h \in Handlers |-> "idle"]
    /\ csP = [k \in 1..2 |-> "idle"] /\ tickCredit = 0
    /\ advMode = [claim |-> "A", proto |-> "keep", chalok |-> TRUE] /\ advPubd = {}

TReset ==
    /\ IsEvent("Reset")
    /\ ResetTo(ToSet(Ev.allowR), ToSet(Ev.allowS), Ev.recogA)
    /\ hsok' = {} /\ disc' = {}
    /\ regP' = [h \in Handlers |-> "idle"] /\ canP' = [h \in Handlers |-> "idle"]
    /\ csP' = [k \in 1..2 |-> "idle"] /\ tickCredit' = 0
    /\ advMode' = [claim |-> Ev.adv.claim, proto |-> Ev.adv.proto, chalok |-> Ev.adv.chalok] /\ advPubd' = {}

---------------------------------------------------------------------------
\* chain and time

TChain ==
    /\ IsEvent("Chain")
    /\ recog' = IF Ev.recognized THEN recog \cup {Ev.peer} ELSE recog \ {Ev.peer}
    /\ UNCHANGED <<clock, fwRvars, fwSvars, nchain, nerr, hsVars, sessVars, connVars, bcVars, ticks, rt1Vars, rt2Vars,
                   netVars, ghostVars, traceOnly>>

TAdvance ==
    /\ IsEvent("Advance")
    /\ clock' = clock + (IF Ev.kind = "pos" THEN PosPeriod + 1 ELSE NegPeriod + 1)
    /\ UNCHANGED <<fwRvars, fwSvars, chainVars, hsVars, sessVars, connVars, bcVars, ticks, rt1Vars, rt2Vars,
                   netVars, ghostVars, traceOnly>>

---------------------------------------------------------------------------
\* connections

\* the firewall of Ev.node was entered for Ev.peer: the handshake with that identity completed there.
\* For A's own identity that is only possible if A ran the handshake properly (HsAccepts, from AdvHandshake).
THandshakeDone ==
    /\ IsEvent("HandshakeDone")
    /\ (Ev.ok => <<Ev.node, Ev.peer>> \in Ends)
    /\ IF Ev.ok
          THEN /\ (Ev.peer = "A" => HsAccepts(advMode.claim, advMode.proto, advMode.chalok))
               /\ hsok' = hsok \cup {<<Ev.node, Ev.peer>>}
          ELSE hsok' = hsok
    /\ UNCHANGED <<vars, disc, regP, canP, csP, tickCredit, advMode, advPubd>>

\* what A can write to node n: its own publications; towards R also what S published (relay / replay)
AdvHas(n) == advPubd \cup (IF n = "R" THEN {SEnv(k) : k \in 1..counter["S"]} ELSE {})

Renew(n, p) == {IF {d.a, d.b} = {n, p} THEN [d EXCEPT !.renewed = TRUE] ELSE d : d \in disc}

\* checkFirewallRules on a fresh connection (NodeValidate = FWR!Validate / FWS!Validate)
TFwConn ==
    /\ IsEvent("FirewallVerdict") /\ Ev.kind = "conn"
    /\ <<Ev.node, Ev.peer>> \in Ends          \* a node validates a remote peer, never itself or a stranger
    /\ <<Ev.node, Ev.peer>> \in hsok /\ hsok' = hsok \ {<<Ev.node, Ev.peer>>}
    /\ LET n == Ev.node p == Ev.peer IN
         /\ NodeValidate(n, p, Ev.res = "error")
         /\ LastP(n).res = Ev.res /\ (LastP(n).asked > 0) = Ev.asked
         /\ IF Ev.res = "admit"
               THEN /\ cs' = [cs EXCEPT ![<<n, p>>] = "admitted"]
                    /\ adm' = [adm EXCEPT ![<<n, p>>] = AdmRec(n, p)]
                    /\ everAdm' = [everAdm EXCEPT ![n] = @ \cup {p}]
                    /\ disc' = Renew(n, p)
                    \* A writes what it has (its own publications, S's) to the new connection right away
                    /\ wire' = IF p = "A" THEN wire \cup {[to |-> n, hop |-> "A", env |-> e] : e \in AdvHas(n)} ELSE wire
               ELSE UNCHANGED <<cs, adm, everAdm, disc, wire>>        \* a connection that exists already stays
    /\ UNCHANGED <<recog, nchain, nerr, hsVars, sessVars, claimed, ndrops, nadvdials, bcVars, ticks, rt1Vars, rt2Vars,
                   inbox, advUsed, ghostVars, regP, canP, csP, tickCredit, advMode, advPubd>>

\* watchtower: Validate of a connected peer; the DisconnectPeer of a rejection is seen as DisconnectCall/Ret
TFwGuard ==
    /\ IsEvent("FirewallVerdict") /\ Ev.kind = "guard"
    /\ <<Ev.node, Ev.peer>> \in Ends
    /\ LET n == Ev.node p == Ev.peer IN
         /\ NodeValidate(n, p, Ev.res = "error")
         /\ LastP(n).res = Ev.res /\ (LastP(n).asked > 0) = Ev.asked
         /\ IF Ev.res = "admit" /\ cs[<<n, p>>] = "admitted"
               THEN /\ adm' = [adm EXCEPT ![<<n, p>>] = AdmRec(n, p)]
                    /\ everAdm' = [everAdm EXCEPT ![n] = @ \cup {p}]
               ELSE UNCHANGED <<adm, everAdm>>
    /\ UNCHANGED <<recog, nchain, nerr, hsVars, sessVars, cs, claimed, ndrops, nadvdials, bcVars, ticks, rt1Vars, rt2Vars,
                   netVars, ghostVars, traceOnly>>

TDisconnectCall ==
    /\ IsEvent("DisconnectCall")
    /\ disc' = disc \cup {[id |-> l, a |-> Ev.a, b |-> Ev.b, renewed |-> FALSE]}   \* id: calls for the same pair stay apart
    /\ UNCHANGED <<vars, hsok, regP, canP, csP, tickCredit, advMode, advPubd>>

\* A's connection is gone once DisconnectPeer has returned - unless a new one was admitted meanwhile. The
\* connection between the two honest nodes is not followed this closely (its two ends are admitted by two
\* firewalls at two moments): it counts as possibly there from the first mutual admission on, which only
\* makes the specification explain more of what S sends, never anything of A's.
TDisconnectRet ==
    /\ IsEvent("DisconnectRet")
    /\ \E d \in disc :
         /\ d.a = Ev.a /\ d.b = Ev.b
         /\ disc' = disc \ {d}
         /\ IF d.renewed \/ "A" \notin {d.a, d.b} THEN UNCHANGED <<cs, adm, wire>>
            ELSE cs' = DownCs(d.a, d.b) /\ adm' = DownAdm(d.a, d.b) /\ wire' = DownWire(d.a, d.b)
    /\ UNCHANGED <<clock, fwRvars, fwSvars, chainVars, hsVars, sessVars, claimed, everAdm, ndrops, nadvdials, bcVars,
                   ticks, rt1Vars, rt2Vars, inbox, advUsed, ghostVars, hsok, regP, canP, csP, tickCredit, advMode, advPubd>>

---------------------------------------------------------------------------
\* receiver lifecycle (as in Trace_Broadcast)

TRegisterCall ==
    /\ IsEvent("RegisterCall") /\ regP[Ev.h] = "idle"
    /\ regP' = [regP EXCEPT ![Ev.h] = "called"]
    /\ UNCHANGED <<vars, hsok, disc, canP, csP, tickCredit, advMode, advPubd>>
SRegister(h) ==
    /\ regP[h] = "called" /\ BC!Register(h) /\ UNCHANGED nonBc
    /\ regP' = [regP EXCEPT ![h] = "done"]
    /\ UNCHANGED <<l, hsok, disc, canP, csP, tickCredit, advMode, advPubd>>
TRegisterRet ==
    /\ IsEvent("RegisterRet") /\ regP[Ev.h] = "done"
    /\ regP' = [regP EXCEPT ![Ev.h] = "ret"]
    /\ UNCHANGED <<vars, hsok, disc, canP, csP, tickCredit, advMode, advPubd>>
TCancelCall ==
    /\ IsEvent("CancelCall") /\ canP[Ev.h] = "idle"
    /\ canP' = [canP EXCEPT ![Ev.h] = "called"]
    /\ UNCHANGED <<vars, hsok, disc, regP, csP, tickCredit, advMode, advPubd>>
SCancel(h) ==
    /\ canP[h] = "called" /\ BC!Cancel(h) /\ UNCHANGED nonBc
    /\ canP' = [canP EXCEPT ![h] = "done"]
    /\ UNCHANGED <<l, hsok, disc, regP, csP, tickCredit, advMode, advPubd>>
TCancelRet ==
    /\ IsEvent("CancelRet") /\ canP[Ev.h] = "done"
    /\ canP' = [canP EXCEPT ![Ev.h] = "ret"]
    /\ UNCHANGED <<vars, hsok, disc, regP, csP, tickCredit, advMode, advPubd>>

---------------------------------------------------------------------------
\* sender S

\* SendS / Callback with the floodsub relay through A added to the publication: A, if connected to R, forwards
\* what S publishes (A is told everything S publishes - an over-approximation on the safe side)
ViaA(k) == IF Up("A", "R") THEN {[to |-> "R", hop |-> "A", env |-> SEnv(k)]} ELSE {}
SendSVia(k) ==
    /\ k = counter["S"] + 1 /\ k <= MaxSend /\ k <= 2
    /\ BC!Send("S")
    /\ IF k = 1 THEN reg1' = TRUE /\ UNCHANGED <<live1, pc1, tc1, delay1, rt1, retx1, sac1, rt2Vars>>
                ELSE reg2' = TRUE /\ UNCHANGED <<live2, pc2, tc2, delay2, rt2, retx2, sac2, rt1Vars>>
    /\ wire' = wire \cup (IF SendUp("S", "R") THEN {[to |-> "R", hop |-> "S", env |-> SEnv(k)]} ELSE {}) \cup ViaA(k)
    /\ pubs' = [pubs EXCEPT ![k] = @ + 1]
    /\ UNCHANGED <<clock, fwRvars, fwSvars, chainVars, hsVars, sessVars, connVars, ticks, inbox, advUsed, forged, readLog>>
CallbackVia(k) ==
    /\ IF k = 1
          THEN /\ \E g \in DOMAIN pc1 : pc1[g] = "start"
               /\ IF Backoff1 THEN RT1!AtomicTick(FirstStart(pc1)) ELSE RT1!Call(FirstStart(pc1))
               /\ UNCHANGED rt2Vars
          ELSE /\ \E g \in DOMAIN pc2 : pc2[g] = "start"
               /\ IF Backoff2 THEN RT2!AtomicTick(FirstStart(pc2)) ELSE RT2!Call(FirstStart(pc2))
               /\ UNCHANGED rt1Vars
    /\ LET fires == IF k = 1 THEN (Backoff1 => tc1 + 1 = rt1) ELSE (Backoff2 => tc2 + 1 = rt2) IN
         IF fires THEN /\ wire' = wire \cup (IF SendUp("S", "R") THEN {[to |-> "R", hop |-> "S", env |-> SEnv(k)]} ELSE {}) \cup ViaA(k)
                       /\ pubs' = [pubs EXCEPT ![k] = @ + 1]
                  ELSE UNCHANGED <<wire, pubs>>
    /\ UNCHANGED <<clock, fwRvars, fwSvars, chainVars, hsVars, sessVars, connVars, bcVars, inbox, advUsed, forged, readLog>>

\* channel.Send reached the publisher with a new message: SendS (number, schedule, first publication).
\* The envelope must name S and carry the next number of S's counter.
TPublishedS ==
    /\ IsEvent("Published") /\ Ev.node = "S"
    /\ Ev.author = "S" /\ Ev.inner = "S" /\ Ev.seqno = counter["S"] + 1
    /\ SendSVia(Ev.seqno)
    /\ UNCHANGED traceOnly

\* a retransmission of S's k-th message reached the publisher: a tick callback whose strategy fires.
\* It must carry the same identity and the same number.
TRetransmitS ==
    /\ IsEvent("Retransmit") /\ Ev.node = "S"
    /\ Ev.k \in 1..2 /\ Ev.inner = "S" /\ Ev.seqno = Ev.k
    /\ CallbackVia(Ev.k) /\ pubs'[Ev.k] = pubs[Ev.k] + 1
    /\ UNCHANGED traceOnly
\* a callback of the backoff strategy that does not fire
SQuietCallback ==
    /\ NextIs("Retransmit") /\ Ev.k \in 1..2      \* only needed to let the firing callback come
    /\ CallbackVia(Ev.k) /\ pubs' = pubs
    /\ UNCHANGED <<l, traceOnly>>

TTickCall ==
    /\ IsEvent("TickCall")
    /\ tickCredit' = tickCredit + 1
    /\ UNCHANGED <<vars, hsok, disc, regP, canP, csP, advMode, advPubd>>
STickAll ==
    /\ tickCredit > 0 /\ TickAll
    /\ tickCredit' = tickCredit - 1
    /\ UNCHANGED <<l, hsok, disc, regP, canP, csP, advMode, advPubd>>

TCancelSendCall ==
    /\ IsEvent("CancelSendCall") /\ csP[Ev.k] = "idle"
    /\ csP' = [csP EXCEPT ![Ev.k] = "called"]
    /\ UNCHANGED <<vars, hsok, disc, regP, canP, tickCredit, advMode, advPubd>>
SCancelSend(k) ==
    /\ csP[k] = "called" /\ k <= counter["S"]
    /\ IF k = 1 THEN RT1!Cancel /\ UNCHANGED rt2Vars ELSE RT2!Cancel /\ UNCHANGED rt1Vars
    /\ UNCHANGED <<clock, fwRvars, fwSvars, chainVars, hsVars, sessVars, connVars, bcVars, netVars, ghostVars>>
    /\ csP' = [csP EXCEPT ![k] = "done"]
    /\ UNCHANGED <<l, hsok, disc, regP, canP, tickCredit, advMode, advPubd>>
TCancelSendRet ==
    /\ IsEvent("CancelSendRet") /\ csP[Ev.k] = "done"
    /\ csP' = [csP EXCEPT ![Ev.k] = "ret"]
    /\ UNCHANGED <<vars, hsok, disc, regP, canP, tickCredit, advMode, advPubd>>

---------------------------------------------------------------------------
\* adversary A (a real floodsub node under the harness' control)

\* A's channel handed an envelope to its topic: own message (next number of A's counter), impostor, garbage.
\* Copies go to the nodes A is connected to now, and to later connections when they come up (TFwConn).
TPublishedA ==
    /\ IsEvent("Published") /\ Ev.node = "A" /\ Ev.author = "A"
    /\ LET e == [author |-> "A", inner |-> Ev.inner, seq |-> Ev.seqno, sig |-> "ok"] IN
         /\ e \in Envs
         /\ IF e.inner = "A" THEN e.seq = counter["A"] + 1 /\ BC!Send("A") ELSE UNCHANGED bcVars
         /\ wire' = wire \cup {[to |-> n, hop |-> "A", env |-> e] : n \in {x \in Honest : Up("A", x)}}
         /\ advPubd' = advPubd \cup {e}
    /\ UNCHANGED <<clock, fwRvars, fwSvars, chainVars, hsVars, sessVars, connVars, ticks, rt1Vars, rt2Vars,
                   inbox, advUsed, ghostVars, hsok, disc, regP, canP, csP, tickCredit, advMode>>

\* the harness plays A's relay itself: an envelope handed to R's processPubsubMessage while A is connected to R
TInject ==
    /\ IsEvent("Inject") /\ Up("A", "R") /\ E(Ev.env) \in AdvHas("R")
    /\ wire' = wire \cup {[to |-> "R", hop |-> "A", env |-> E(Ev.env)]}
    /\ UNCHANGED <<clock, fwRvars, fwSvars, chainVars, hsVars, sessVars, connVars, bcVars, ticks, rt1Vars, rt2Vars,
                   inbox, advUsed, ghostVars, traceOnly>>

---------------------------------------------------------------------------
\* R's channel

\* processContainerMessage at R got as far as unmarshalling the payload: Process (verdict, deliver)
\* (the pubsub seen-cache is not modelled: what R has read once it may process again)
TArrived ==
    /\ IsEvent("Arrived")
    /\ E(Ev.env) \in inbox /\ Handle(E(Ev.env))
    /\ UNCHANGED <<inbox, traceOnly>>

\* processPubsubMessage returned an error for the envelope just processed: the specification drops it too,
\* for the same reason
TDropped ==
    /\ IsEvent("Dropped")
    /\ Verdict(E(Ev.env)) # "delivered" /\ Verdict(E(Ev.env)) = Ev.reason
    /\ UNCHANGED <<vars, traceOnly>>

\* handler h is entered with a message: it is the one the processing goroutine holds, it passed the envelope
\* check, and what the handler is told about it (sender, number, sender's operator key) is the author's
TDelivered ==
    /\ IsEvent("Delivered")
    /\ LET e == E(Ev.env) h == Ev.h IN
         /\ Verdict(e) = "delivered"
         /\ Ev.sender = e.author /\ Ev.seqno = e.seq /\ Ev.keyok
         /\ cur[h] = MsgOf(e) /\ BC!Invoke(h)
    /\ UNCHANGED <<nonBc, traceOnly>>

---------------------------------------------------------------------------
\* silent steps. The order in which TLC may place them is restricted to orders that explain at least as much
\* as any other (so that a trace the specification cannot explain is refuted after a small search):
\*  - reading from a connection as early as possible is never worse than reading later (R keeps what it read;
\*    S only reads when it can forward: reading without forwarding explains nothing);
\*  - the filter and the handler's return touch nothing else; a tick read earlier spawns no fewer callbacks, a
\*    Send context cancelled earlier than necessary is only needed against a pending tick - both orders are tried
\*    only when a tick and a cancellation are pending together;
\*  - a callback that does not fire is only taken when the next event (a Retransmit) needs it; the way of a
\*    message through deliver() and a handler's queue is only taken for a message that handler will be seen to
\*    receive later in this world (duplicates and messages nobody is seen to receive stay where they are), and
\*    only when the next event is a Delivered or while a handler's cancel() is in progress (what was checked
\*    before the cancellation may be delivered after it); the context check follows the dequeue at once (an
\*    earlier check passes whenever a later one does).
ReadableR == {c \in wire : c.to = "R" /\ Up("R", c.hop)}
ReadableS == {c \in wire : c.to = "S" /\ Up("S", c.hop) /\ SendUp("S", "R") /\ c.env.author # "S"}
UrgH    == \E h \in Handlers : pc[h] \in {"dequeued", "checked", "running"}
UrgNet  == ReadableR \cup ReadableS # {}
UrgTick == tickCredit > 0 /\ \A k \in 1..2 : csP[k] # "called"
UrgCS   == tickCredit = 0 /\ \E k \in 1..2 : csP[k] = "called"
Urgent  == UrgH \/ UrgNet \/ UrgTick \/ UrgCS
SUrgent ==
    IF UrgH THEN (BC!DoCheckCtx \/ BC!DoFilterDup \/ BC!DoReturn) /\ UNCHANGED <<nonBc, l, traceOnly>>
    ELSE IF UrgNet THEN NetRead(CHOOSE c \in ReadableR \cup ReadableS : TRUE) /\ UNCHANGED <<l, traceOnly>>
    ELSE IF UrgTick THEN STickAll
    ELSE SCancelSend(CHOOSE k \in 1..2 : csP[k] = "called")

\* looking ahead in the recorded world: will handler h be entered with message m?
ResetLines == {j \in 1..Len(Trace) : Trace[j].event = "Reset"} \cup {Len(Trace) + 1}
NextReset == [j \in 1..(Len(Trace) + 1) |-> CHOOSE k \in ResetLines : k >= j /\ \A k2 \in ResetLines : k2 >= j => k <= k2]
FutureDlv(h, m) ==
    \E j \in l..(NextReset[l] - 1) : Trace[j].event = "Delivered" /\ Trace[j].h = h /\ MsgOf(E(Trace[j].env)) = m
NeedsH(h, m) == m \notin seen[h] /\ FutureDlv(h, m)
NeededD(d)   == \E j \in d.i..Len(d.snap) : NeedsH(d.snap[j], d.m)
NeededQ(h)   == \E j \in DOMAIN queue[h] : NeedsH(h, queue[h][j])

CancelWindow == \E h \in Handlers : canP[h] = "called"
Silent ==
    \/ \E h \in Handlers : SRegister(h) \/ SCancel(h)
    \/ \E k \in 1..2 : SCancelSend(k)
    \/ STickAll \/ SQuietCallback
    \/ /\ UNCHANGED <<nonBc, l, traceOnly>>
       /\ \/ /\ NextIs("Delivered") \/ CancelWindow
             /\ \/ \E d \in dl : NeededD(d) /\ BC!TrySend(d)
                \/ \E h \in Handlers : NeededQ(h) /\ BC!Dequeue(h)
          \/ ((\E h \in Handlers : regP[h] = "called") /\ (BC!DoRemoveHandler \/ BC!DoExitOnDone))

Pinned ==
    \/ TReset \/ TChain \/ TAdvance
    \/ THandshakeDone \/ TFwConn \/ TFwGuard \/ TDisconnectCall \/ TDisconnectRet
    \/ TRegisterCall \/ TRegisterRet \/ TCancelCall \/ TCancelRet
    \/ TPublishedS \/ TRetransmitS \/ TTickCall \/ TCancelSendCall \/ TCancelSendRet
    \/ TPublishedA \/ TInject \/ TArrived \/ TDropped \/ TDelivered

TNext == IF Urgent THEN SUrgent ELSE (Pinned \/ Silent)
TSpec == TInit /\ [][TNext]_tvars

\* Worlds are independent: every path that consumes a Reset arrives in the same state. Once one path has got
\* there, what is left to explore before that Reset cannot explain anything more (register 2 = the last Reset
\* consumed by some path; states before it are not expanded further).
SeenReset ==
    IF l > 1 /\ l - 1 <= Len(Trace) /\ Trace[l - 1].event = "Reset" /\ l - 1 > TLCGet(2) THEN TLCSet(2, l - 1) ELSE TRUE
\* once some path has consumed the whole trace it is explained: stop TLC
Hwm == HwmConstraint(l) /\ SeenReset /\ l >= TLCGet(2) /\ (l > Len(Trace) => TLCSet("exit", TRUE))
Accepted == HwmAccepted
=============================================================================
