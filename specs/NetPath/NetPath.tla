------------------------------- MODULE NetPath -------------------------------
(***************************************************************************)
(* COMPOSITION of the message path of keep-core's libp2p network layer     *)
(* (DESIGN.md section 7):                                                  *)
(*                                                                         *)
(*   peer connects -> connection handshake -> firewall validation of the   *)
(*   authenticated peer -> connection kept or dropped -> broadcast message *)
(*   published -> envelope check -> per-channel delivery to the handlers   *)
(*   -> retransmission filter;  sender side: retransmission schedule.      *)
(*                                                                         *)
(* Three peers: R (honest receiver, has the handlers), S (honest sender,   *)
(* also a floodsub relay), A (adversary: may or may not be a recognized    *)
(* operator, has its own key only).                                        *)
(*                                                                         *)
(* The per-property modules are reused by INSTANCE, their actions are the  *)
(* steps of this specification (Handshake, Firewall and Retransmission are *)
(* taken from their own directories at check time; Envelope.tla and        *)
(* Broadcast.tla in this directory are copies of specs/Envelope and        *)
(* specs/Broadcast taken on 2026-09-22, to be refreshed from there):       *)
(*   HS  = Handshake       (C20)  the three acts of a session S -> R with  *)
(*                                A on the wire (acts, protocol id,        *)
(*                                challenge, signed pinned envelopes)      *)
(*   FWR, FWS = Firewall   (C21)  anyApplicationPolicy.Validate of R and   *)
(*                                of S: allowlist, positive and negative   *)
(*                                cache over ONE clock and ONE chain state *)
(*   ENV = Envelope        (C18)  Verdict(): processContainerMessage       *)
(*   BC  = Broadcast       (C16)  Send/nextSeqno, deliver (snapshot +      *)
(*                                non-blocking sends), Recv, cancel,       *)
(*                                removeHandler, processing goroutine with *)
(*                                the second context check and the         *)
(*                                duplicate filter                         *)
(*   RT1, RT2 = Retransmission (C17) one instance per message of S, both   *)
(*                                on the one ticker of S's provider        *)
(*                                (TickerMulti: shared tick, own context)  *)
(*                                                                         *)
(* Go call chain -> action:                                                *)
(*  libp2p.go Connect/discoverAndListen: libp2p.Security(...) builds the   *)
(*  transport with the node's firewall; transport.go SecureInbound /       *)
(*  SecureOutbound -> newAuthenticated{In,Out}boundConnection:             *)
(*     run handshake            StartDial, HsStep (= HS!Next), AdvHandshake*)
(*     checkFirewallRules       SessFwI, SessFwR, FwCheckAdv               *)
(*     close on error / return  SessEnd (both ends admitted = link up)     *)
(*  libp2p.go Connect: watchtower.NewGuard(firewall, connectionManager)    *)
(*                              Guard (re-validation, DisconnectPeer)      *)
(*  channel.go Send             SendS (BC!Send + first publish + schedule) *)
(*  retransmission.Ticker.start TickAll;  strategy.Tick -> doSend Callback *)
(*  context of Send ends        CancelSend (RTk!Cancel)                    *)
(*  pubsub (floodsub, StrictSign, channel_manager.go) read from a          *)
(*  connection, signature check, forward to the other peers, hand to the   *)
(*  subscription -> incomingMessageQueue (inbox)            NetRead        *)
(*  channel.go incomingMessageWorker -> processPubsubMessage ->            *)
(*  processContainerMessage (ENV!Verdict) -> deliver        Process/Handle *)
(*  channel.go deliver/Recv/removeHandler + WithRetransmissionSupport      *)
(*                              BC!TrySend .. BC!Return (unchanged)        *)
(*  adversary: own dials (any claimed identity, protocol id, challenge),   *)
(*  injection of own / impostor / malformed / replayed / forged envelopes  *)
(*                              AdvHandshake, AdvInject                    *)
(*  chain: IsRecognized answers change, calls may fail     ChainChange     *)
(*                                                                         *)
(* A connection has two ends: cs[<<n, q>>] is node n's end of its          *)
(* connection with q ("admitted" once n's constructor returned it, i.e.    *)
(* after n's handshake side and n's firewall). A node writes as soon as    *)
(* its own end exists (SendUp), what it writes is read once both ends      *)
(* exist (Up); copies in flight are lost when the connection goes.         *)
(*                                                                         *)
(* Not modelled: TLS below the keep handshake (the attacker of HS sits on  *)
(* the bare wire, which is stronger), the pubsub seen-cache (worst case:   *)
(* expired, every copy is processed again), overflow of the 4096-slot      *)
(* incomingMessageQueue, R's and S's dials towards A (A is the dialer),    *)
(* asynchronous registration of the retransmission handler (onTick runs    *)
(* in its own goroutine: here it is registered when Send returns).         *)
(***************************************************************************)
EXTENDS Integers, Sequences, FiniteSets, TLC

CONSTANTS
    \* ---- firewall / chain
    PosPeriod, NegPeriod, MaxClock, MaxCalls,
    AllowRChoices, AllowSChoices,  \* sets of possible allowlists of R (over {"S","A"}) and S (over {"R","A"})
    RecogAInit,                    \* subset of BOOLEAN: may A be a recognized operator at the start
    ChainPeers,                    \* peers whose recognition may change
    MaxChain,                      \* recognition changes
    MaxErr,                        \* failing IsRecognized calls
    GuardOn,                       \* watchtower re-validation of connected peers
    \* ---- handshake / connections
    Nonces, HsBudget,              \* attacker actions on the wire of honest sessions (whole behaviour)
    MaxDials, MaxAdvDials, MaxDrops,
    \* ---- broadcast channel of R
    Handlers, CancelHandlers, MaxSend, MaxRetx, Cap, SecondCheck, Filter,
    \* ---- retransmission at S
    MaxTicks, Backoff1, Backoff2, CancelMsgs,
    \* ---- adversary
    MaxAdv, AdvKinds,              \* subset of {"own", "impostor", "garbage", "replay", "forged"}
    \* ---- the glue as written (TRUE) or deliberately broken (FALSE): negative configurations
    FwInbound,                     \* newAuthenticatedInboundConnection calls checkFirewallRules
    VerifyAct1,                    \* responderReceiveAct1 verifies the envelope against the claimed peer id
    MatchInner,                    \* processContainerMessage compares outer and inner sender
    StrictSign,                    \* pubsub.WithMessageSignaturePolicy(StrictSign)
    Reduce                         \* TRUE: steps that commute with everything else are not interleaved (see Next)

ASSUME MaxSend \in Nat \ {0}   \* S sends at most two messages (RT1, RT2); A numbers its own up to MaxSend

Honest == {"R", "S"}
Peers  == {"R", "S", "A"}
None   == -1

VARIABLES
    clock,
    allowR, posR, negR, callsR, lastR, yesAtR, noAtR,   \* FWR
    allowS, posS, negS, callsS, lastS, yesAtS, noAtS,   \* FWS
    recog, nchain, nerr,                                \* chain: recognized operators, budgets
    ip, rp, n1, n2, rn1, old, ist, rst, pin, net, sent, dlv, used,   \* HS (current / last session)
    sess, sfw, ndials,                                  \* honest session: "idle" | "hs"; firewall results of both ends
    cs,                  \* [Ends -> "none" | "hsok" | "admitted"]: node n's end of its connection with peer q
    claimed,             \* [Honest -> Peers]: identity under which A's connection runs at the node
    everAdm,             \* ghost [Honest -> SUBSET Peers]: identities the node's firewall ever admitted
    adm,                 \* ghost [Ends -> admission record of the current connection]
    ndrops, nadvdials,
    counter, budget, dl, handlers, ctxDone, removed, pc, queue, cur, seen, ninv, stale, acc, book,  \* BC
    ticks,
    live1, reg1, pc1, tc1, delay1, rt1, retx1, sac1,    \* RT1
    live2, reg2, pc2, tc2, delay2, rt2, retx2, sac2,    \* RT2
    wire,                \* copies in flight: [to, hop, env]
    inbox,               \* envelopes read by R's pubsub, not yet processed by a message worker
    advUsed,
    pubs,                \* ghost [1..MaxSend -> Nat] publications of S's k-th message
    forged,              \* ghost: messages handed to deliver() whose author is not the inner identity
    readLog              \* ghost: set of <<message, hop>> R's channel accepted

fwRvars == <<allowR, posR, negR, callsR, lastR, yesAtR, noAtR>>
fwSvars == <<allowS, posS, negS, callsS, lastS, yesAtS, noAtS>>
chainVars == <<recog, nchain, nerr>>
hsVars == <<ip, rp, n1, n2, rn1, old, ist, rst, pin, net, sent, dlv, used>>
sessVars == <<sess, sfw, ndials>>
connVars == <<cs, claimed, everAdm, adm, ndrops, nadvdials>>
bcVars == <<counter, budget, dl, handlers, ctxDone, removed, pc, queue, cur, seen, ninv, stale, acc, book>>
rt1Vars == <<live1, reg1, pc1, tc1, delay1, rt1, retx1, sac1>>
rt2Vars == <<live2, reg2, pc2, tc2, delay2, rt2, retx2, sac2>>
netVars == <<wire, inbox, advUsed>>
ghostVars == <<pubs, forged, readLog>>

vars == <<clock, fwRvars, fwSvars, chainVars, hsVars, sessVars, connVars, bcVars, ticks, rt1Vars, rt2Vars,
          netVars, ghostVars>>

---------------------------------------------------------------------------
\* the modules

FWR == INSTANCE Firewall WITH Peers <- {"S", "A"}, NApps <- 1, Variant <- "code",
                              allow <- allowR, pos <- posR, neg <- negR, calls <- callsR, last <- lastR,
                              yesAt <- yesAtR, noAt <- noAtR
FWS == INSTANCE Firewall WITH Peers <- {"R", "A"}, NApps <- 1, Variant <- "code",
                              allow <- allowS, pos <- posS, neg <- negS, calls <- callsS, last <- lastS,
                              yesAt <- yesAtS, noAt <- noAtS
HS  == INSTANCE Handshake WITH Protocols <- {"keep", "evil"}, Wire <- TRUE, Budget <- HsBudget
ENV == INSTANCE Envelope WITH SecpPeers <- Peers, OtherPeers <- {}, BatchLen <- 1,
                              batch <- <<>>, i <- 1, delivered <- <<>>, verdicts <- <<>>
BC  == INSTANCE Broadcast WITH Senders <- {"S", "A"}, Lifecycle <- "separate", MaxFail <- 0, GiveBack <- FALSE
RT1 == INSTANCE Retransmission WITH Backoff <- Backoff1, Atomic <- TRUE, MayCancel <- (1 \in CancelMsgs),
                              sent <- ticks, live <- live1, registered <- reg1, pc <- pc1, tc <- tc1,
                              delay <- delay1, rt <- rt1, retx <- retx1, sentAtCancel <- sac1
RT2 == INSTANCE Retransmission WITH Backoff <- Backoff2, Atomic <- TRUE, MayCancel <- (2 \in CancelMsgs),
                              sent <- ticks, live <- live2, registered <- reg2, pc <- pc2, tc <- tc2,
                              delay <- delay2, rt <- rt2, retx <- retx2, sentAtCancel <- sac2

---------------------------------------------------------------------------
\* connections

Ends == {<<"R", "S">>, <<"R", "A">>, <<"S", "R">>, <<"S", "A">>}   \* <<node, remote peer>>
NoAdm == [at |-> None, yes |-> None, src |-> "none", id |-> "none"]

\* the connection between x and y carries data: every honest end has admitted the other
Up(x, y) ==
    IF x = "A" THEN cs[<<y, "A">>] = "admitted"
    ELSE IF y = "A" THEN cs[<<x, "A">>] = "admitted"
    ELSE cs[<<x, y>>] = "admitted" /\ cs[<<y, x>>] = "admitted"

\* identity node n holds for its peer q (A may run under a claimed identity when VerifyAct1 is off)
Ident(n, q) == IF q = "A" THEN claimed[n] ELSE q

\* x's end of the connection x - y exists: x writes to it (what it writes is read once both ends exist)
SendUp(x, y) == IF x = "A" THEN cs[<<y, "A">>] = "admitted" ELSE cs[<<x, y>>] = "admitted"

OnLink(c, x, y) == {c.to, c.hop} = {x, y}

\* both ends of the connection x - y go away, copies in flight on it are lost
DownCs(x, y) ==
    [e \in Ends |-> IF (e = <<x, y>> \/ e = <<y, x>>) THEN "none" ELSE cs[e]]
DownAdm(x, y) ==
    [e \in Ends |-> IF (e = <<x, y>> \/ e = <<y, x>>) THEN NoAdm ELSE adm[e]]
DownWire(x, y) == {c \in wire : ~OnLink(c, x, y)}

---------------------------------------------------------------------------
\* envelopes and messages

Envs == [author : Peers, inner : Peers \cup {"garbage"}, seq : 1..MaxSend, sig : {"ok", "bad"}]
SEnv(k) == [author |-> "S", inner |-> "S", seq |-> k, sig |-> "ok"]
MsgOf(e) == [s |-> e.inner, n |-> e.seq]

\* channel.go processContainerMessage, as specified by Envelope!Verdict
\* (Envelope tags the content of the sender field: a peer's well-formed identity, or malformed bytes)
EnvInner(x) == IF x \in Peers THEN ENV!Id(x) ELSE <<"malformed", "garbage">>
Verdict(e) ==
    LET v == ENV!Verdict([outer |-> e.author, container |-> "ok", type |-> "registered", payload |-> "ok",
                          inner |-> EnvInner(e.inner), seq |-> e.seq])
    IN IF ~MatchInner /\ v = "mismatch" THEN "delivered" ELSE v

\* what A can put on a connection it has
AdvEnvs ==
    (IF "own" \in AdvKinds THEN {[author |-> "A", inner |-> "A", seq |-> k, sig |-> "ok"] : k \in 1..MaxSend} ELSE {})
    \cup (IF "impostor" \in AdvKinds THEN {[author |-> "A", inner |-> "S", seq |-> k, sig |-> "ok"] : k \in 1..MaxSend} ELSE {})
    \cup (IF "garbage" \in AdvKinds THEN {[author |-> "A", inner |-> "garbage", seq |-> 1, sig |-> "ok"]} ELSE {})
    \cup (IF "replay" \in AdvKinds THEN {SEnv(k) : k \in 1..counter["S"]} ELSE {})
    \cup (IF "forged" \in AdvKinds THEN {[author |-> "S", inner |-> "S", seq |-> k, sig |-> "bad"] : k \in 1..MaxSend} ELSE {})

---------------------------------------------------------------------------
\* chain and firewall calls

\* the answer the (single) application gives when asked about p; fail = the call errors
Ans(p, fail) == [j \in 1..1 |-> IF fail THEN "err" ELSE IF p \in recog THEN "yes" ELSE "no"]
FailChoices == IF nerr < MaxErr THEN {FALSE, TRUE} ELSE {FALSE}

\* node n's policy validates identity p (FWR!Validate / FWS!Validate)
NodeValidate(n, p, fail) ==
    IF n = "R" THEN FWR!Validate(p, Ans(p, fail)) /\ UNCHANGED fwSvars
               ELSE FWS!Validate(p, Ans(p, fail)) /\ UNCHANGED fwRvars
LastP(n) == IF n = "R" THEN lastR' ELSE lastS'
YesAtP(n, p) == IF n = "R" THEN yesAtR'[p] ELSE yesAtS'[p]
ErrStep(n, fail) == nerr' = IF fail /\ LastP(n).res = "error" THEN nerr + 1 ELSE nerr
AdmRec(n, p) == [at |-> clock, yes |-> YesAtP(n, p), src |-> LastP(n).src, id |-> p]

---------------------------------------------------------------------------
HsIdle ==
    /\ ip' = "keep" /\ rp' = "keep" /\ n1' = CHOOSE x \in Nonces : \A y \in Nonces : x <= y
    /\ n2' = 0 /\ rn1' = HS!NoNonce
    /\ ist' = "start" /\ rst' = "start" /\ pin' = "" /\ net' = HS!None
    /\ sent' = [a \in 1..3 |-> HS!None] /\ dlv' = [a \in 1..3 |-> HS!None]

Init ==
    /\ FWR!Init /\ allowR \in AllowRChoices
    /\ FWS!Init /\ allowS \in AllowSChoices
    /\ \E b \in RecogAInit : recog = {"R", "S"} \cup (IF b THEN {"A"} ELSE {})
    /\ nchain = 0 /\ nerr = 0
    /\ ip = "keep" /\ rp = "keep" /\ n1 = (CHOOSE x \in Nonces : \A y \in Nonces : x <= y)
    /\ n2 = 0 /\ rn1 = HS!NoNonce
    /\ old \in [n1 : Nonces, n2 : Nonces, p : {"keep"}]
    /\ ist = "start" /\ rst = "start" /\ pin = "" /\ net = HS!None
    /\ sent = [a \in 1..3 |-> HS!None] /\ dlv = [a \in 1..3 |-> HS!None] /\ used = 0
    /\ sess = "idle" /\ sfw = [i |-> "todo", r |-> "todo"] /\ ndials = 0
    /\ cs = [e \in Ends |-> "none"] /\ claimed = [n \in Honest |-> "A"]
    /\ everAdm = [n \in Honest |-> {}] /\ adm = [e \in Ends |-> NoAdm]
    /\ ndrops = 0 /\ nadvdials = 0
    /\ BC!Init
    /\ ticks = 0
    /\ live1 = TRUE /\ reg1 = FALSE /\ pc1 = <<>> /\ tc1 = 0 /\ delay1 = 1 /\ rt1 = 1 /\ retx1 = <<>> /\ sac1 = MaxTicks + 1
    /\ live2 = TRUE /\ reg2 = FALSE /\ pc2 = <<>> /\ tc2 = 0 /\ delay2 = 1 /\ rt2 = 1 /\ retx2 = <<>> /\ sac2 = MaxTicks + 1
    /\ wire = {} /\ inbox = {} /\ advUsed = 0
    /\ pubs = [k \in 1..MaxSend |-> 0] /\ forged = {} /\ readLog = {}

---------------------------------------------------------------------------
\* time and chain

Tick ==
    /\ FWR!Tick                                     \* clock' = clock + 1
    /\ UNCHANGED <<fwSvars, chainVars, hsVars, sessVars, connVars, bcVars, ticks, rt1Vars, rt2Vars, netVars, ghostVars>>

\* the staking contract changes its mind about p
ChainChange(p) ==
    /\ nchain < MaxChain /\ p \in ChainPeers
    /\ recog' = IF p \in recog THEN recog \ {p} ELSE recog \cup {p}
    /\ nchain' = nchain + 1
    /\ UNCHANGED <<clock, fwRvars, fwSvars, nerr, hsVars, sessVars, connVars, bcVars, ticks, rt1Vars, rt2Vars,
                   netVars, ghostVars>>

---------------------------------------------------------------------------
\* honest session S -> R (S dials: transport.SecureOutbound at S, SecureInbound at R), A on the wire

StartDial ==
    /\ sess = "idle" /\ ndials < MaxDials
    /\ cs[<<"S", "R">>] = "none" /\ cs[<<"R", "S">>] = "none"
    /\ sess' = "hs" /\ sfw' = [i |-> "todo", r |-> "todo"] /\ ndials' = ndials + 1
    /\ ip' = "keep" /\ rp' = "keep" /\ n1' \in Nonces /\ n2' = 0 /\ rn1' = HS!NoNonce
    /\ ist' = "start" /\ rst' = "start" /\ pin' = "" /\ net' = HS!None
    /\ sent' = [a \in 1..3 |-> HS!None] /\ dlv' = [a \in 1..3 |-> HS!None]
    /\ UNCHANGED <<old, used>>
    /\ UNCHANGED <<clock, fwRvars, fwSvars, chainVars, connVars, bcVars, ticks, rt1Vars, rt2Vars, netVars, ghostVars>>

\* runHandshakeAsInitiator / runHandshakeAsResponder and the wire in between: the Handshake module's steps
HsStep ==
    /\ sess = "hs"
    /\ HS!Next
    /\ UNCHANGED <<clock, fwRvars, fwSvars, chainVars, sessVars, connVars, bcVars, ticks, rt1Vars, rt2Vars, netVars, ghostVars>>

\* newAuthenticatedOutboundConnection: handshake done -> checkFirewallRules (S validates R)
SessFwI ==
    /\ sess = "hs" /\ ist = "done" /\ sfw.i = "todo"
    /\ \E fail \in FailChoices :
         /\ NodeValidate("S", "R", fail)
         /\ ErrStep("S", fail)
         /\ LET ok == lastS'.res = "admit" IN
              /\ sfw' = [sfw EXCEPT !.i = IF ok THEN "admit" ELSE "reject"]
              /\ cs' = [cs EXCEPT ![<<"S", "R">>] = IF ok THEN "admitted" ELSE "none"]
              /\ adm' = [adm EXCEPT ![<<"S", "R">>] = IF ok THEN AdmRec("S", "R") ELSE NoAdm]
              /\ everAdm' = [everAdm EXCEPT !["S"] = IF ok THEN @ \cup {"R"} ELSE @]
    /\ UNCHANGED <<recog, nchain, hsVars, sess, ndials, claimed, ndrops, nadvdials, bcVars, ticks, rt1Vars, rt2Vars,
                   netVars, ghostVars>>

\* newAuthenticatedInboundConnection: handshake done -> checkFirewallRules (R validates the pinned peer).
\* pin = "X": the attacker put its own identity on act 1 and signed all acts itself - the session is A's.
SessFwR ==
    /\ sess = "hs" /\ rst = "done" /\ sfw.r = "todo"
    /\ LET q == IF pin = "X" THEN "A" ELSE "S" IN
       IF cs[<<"R", q>>] # "none"
          THEN \* R has a connection (attempt) with q already: this one is not kept
               /\ sfw' = [sfw EXCEPT !.r = "reject"]
               /\ UNCHANGED <<clock, fwRvars, fwSvars, nerr, everAdm, cs, adm, claimed>>
       ELSE IF ~FwInbound
          THEN \* the broken glue skips the check
               /\ sfw' = [sfw EXCEPT !.r = "admit"]
               /\ cs' = [cs EXCEPT ![<<"R", q>>] = "admitted"]
               /\ adm' = [adm EXCEPT ![<<"R", q>>] = [at |-> clock, yes |-> None, src |-> "skipped", id |-> q]]
               /\ claimed' = IF q = "A" THEN [claimed EXCEPT !["R"] = "A"] ELSE claimed
               /\ UNCHANGED <<clock, fwRvars, fwSvars, nerr, everAdm>>
          ELSE \E fail \in FailChoices :
                 /\ NodeValidate("R", q, fail)
                 /\ ErrStep("R", fail)
                 /\ LET ok == lastR'.res = "admit" IN
                      /\ sfw' = [sfw EXCEPT !.r = IF ok THEN "admit" ELSE "reject"]
                      /\ cs' = [cs EXCEPT ![<<"R", q>>] = IF ok THEN "admitted" ELSE "none"]
                      /\ adm' = [adm EXCEPT ![<<"R", q>>] = IF ok THEN AdmRec("R", q) ELSE NoAdm]
                      /\ everAdm' = [everAdm EXCEPT !["R"] = IF ok THEN @ \cup {q} ELSE @]
                      /\ claimed' = IF q = "A" THEN [claimed EXCEPT !["R"] = "A"] ELSE claimed
    /\ UNCHANGED <<recog, nchain, hsVars, sess, ndials, ndrops, nadvdials, bcVars, ticks, rt1Vars, rt2Vars,
                   netVars, ghostVars>>

\* both constructors have returned (a connection, or an error after Close): the connection S - R exists iff
\* both sides completed the handshake with each other and both firewalls admitted
SessEnd ==
    /\ sess = "hs" /\ HS!Over
    /\ (ist = "done" => sfw.i # "todo") /\ (rst = "done" => sfw.r # "todo")
    /\ LET good == ist = "done" /\ rst = "done" /\ pin = "I" /\ sfw.i = "admit" /\ sfw.r = "admit" IN
         /\ cs' = IF good THEN cs
                  ELSE [cs EXCEPT ![<<"S", "R">>] = "none", ![<<"R", "S">>] = IF pin = "X" THEN @ ELSE "none"]
         /\ adm' = IF good THEN adm
                   ELSE [adm EXCEPT ![<<"S", "R">>] = NoAdm, ![<<"R", "S">>] = IF pin = "X" THEN @ ELSE NoAdm]
         /\ wire' = IF good THEN wire ELSE DownWire("S", "R")
    /\ sess' = "idle" /\ sfw' = [i |-> "todo", r |-> "todo"]
    /\ HsIdle /\ UNCHANGED <<old, used>>
    /\ UNCHANGED <<clock, fwRvars, fwSvars, chainVars, ndials, claimed, everAdm, ndrops, nadvdials, bcVars, ticks,
                   rt1Vars, rt2Vars, inbox, advUsed, ghostVars>>

---------------------------------------------------------------------------
\* the adversary dials node n itself: it signs with its own key, may claim any identity, run any protocol id
\* and echo a right or a wrong challenge. Restated from Handshake (AnswerAct1 / Finalize with Verified):
\* the responder completes iff the envelopes verify against the claimed peer id (only A's own id verifies
\* under A's signatures), the protocol ids agree and act 3 carries H(nonce1, nonce2).
HsAccepts(claim, proto, chalok) == (VerifyAct1 => claim = "A") /\ proto = "keep" /\ chalok
AdvHandshake(n, claim, proto, chalok) ==
    /\ nadvdials < MaxAdvDials /\ cs[<<n, "A">>] = "none"
    /\ nadvdials' = nadvdials + 1
    /\ IF HsAccepts(claim, proto, chalok)
          THEN /\ cs' = [cs EXCEPT ![<<n, "A">>] = "hsok"]
               /\ claimed' = [claimed EXCEPT ![n] = claim]
          ELSE UNCHANGED <<cs, claimed>>
    /\ UNCHANGED <<clock, fwRvars, fwSvars, chainVars, hsVars, sessVars, everAdm, adm, ndrops, bcVars, ticks,
                   rt1Vars, rt2Vars, netVars, ghostVars>>

\* newAuthenticatedInboundConnection at n, after the handshake with A: checkFirewallRules
FwCheckAdv(n) ==
    /\ cs[<<n, "A">>] = "hsok"
    /\ IF ~FwInbound
          THEN /\ cs' = [cs EXCEPT ![<<n, "A">>] = "admitted"]
               /\ adm' = [adm EXCEPT ![<<n, "A">>] = [at |-> clock, yes |-> None, src |-> "skipped", id |-> claimed[n]]]
               /\ UNCHANGED <<clock, fwRvars, fwSvars, nerr, everAdm>>
          ELSE \E fail \in FailChoices :
                 /\ NodeValidate(n, claimed[n], fail)
                 /\ ErrStep(n, fail)
                 /\ LET ok == LastP(n).res = "admit" IN
                      /\ cs' = [cs EXCEPT ![<<n, "A">>] = IF ok THEN "admitted" ELSE "none"]
                      /\ adm' = [adm EXCEPT ![<<n, "A">>] = IF ok THEN AdmRec(n, claimed[n]) ELSE NoAdm]
                      /\ everAdm' = [everAdm EXCEPT ![n] = IF ok THEN @ \cup {claimed[n]} ELSE @]
    /\ UNCHANGED <<recog, nchain, hsVars, sessVars, claimed, ndrops, nadvdials, bcVars, ticks, rt1Vars, rt2Vars,
                   netVars, ghostVars>>

---------------------------------------------------------------------------
\* watchtower.Guard.checkFirewallRules(q) at n: Validate again, DisconnectPeer on any error
Guard(n, q) ==
    /\ GuardOn /\ <<n, q>> \in Ends /\ cs[<<n, q>>] = "admitted"
    /\ (q \in Honest => sess = "idle")
    /\ \E fail \in FailChoices :
         /\ NodeValidate(n, Ident(n, q), fail)
         /\ ErrStep(n, fail)
         /\ IF LastP(n).res = "admit"
               THEN /\ adm' = [adm EXCEPT ![<<n, q>>] = AdmRec(n, Ident(n, q))]
                    /\ everAdm' = [everAdm EXCEPT ![n] = @ \cup {Ident(n, q)}]
                    /\ UNCHANGED <<cs, wire>>
               ELSE /\ cs' = DownCs(n, q) /\ adm' = DownAdm(n, q) /\ wire' = DownWire(n, q)
                    /\ UNCHANGED everAdm
    /\ UNCHANGED <<recog, nchain, hsVars, sessVars, claimed, ndrops, nadvdials, bcVars, ticks, rt1Vars, rt2Vars,
                   inbox, advUsed, ghostVars>>

\* a connection breaks (network, peer restart, the adversary hangs up)
Disconnect(x, y) ==
    /\ ndrops < MaxDrops /\ Up(x, y) /\ ({x, y} \subseteq Honest => sess = "idle")
    /\ cs' = DownCs(x, y) /\ adm' = DownAdm(x, y) /\ wire' = DownWire(x, y)
    /\ ndrops' = ndrops + 1
    /\ UNCHANGED <<clock, fwRvars, fwSvars, chainVars, hsVars, sessVars, claimed, everAdm, nadvdials, bcVars, ticks,
                   rt1Vars, rt2Vars, inbox, advUsed, ghostVars>>

---------------------------------------------------------------------------
\* sender S: channel.Send, retransmission

\* publisher.Publish at S: a copy towards every peer S is connected to (A learns everything anyway)
Publish(k) ==
    /\ wire' = wire \cup (IF SendUp("S", "R") THEN {[to |-> "R", hop |-> "S", env |-> SEnv(k)]} ELSE {})
    /\ pubs' = [pubs EXCEPT ![k] = @ + 1]

\* channel.Send: nextSeqno, ScheduleRetransmissions (registers with the ticker), doSend
SendS ==
    LET k == counter["S"] + 1 IN
    /\ k <= MaxSend /\ k <= 2
    /\ BC!Send("S")
    /\ IF k = 1 THEN reg1' = TRUE /\ UNCHANGED <<live1, pc1, tc1, delay1, rt1, retx1, sac1, rt2Vars>>
                ELSE reg2' = TRUE /\ UNCHANGED <<live2, pc2, tc2, delay2, rt2, retx2, sac2, rt1Vars>>
    /\ Publish(k)
    /\ UNCHANGED <<clock, fwRvars, fwSvars, chainVars, hsVars, sessVars, connVars, ticks, inbox, advUsed, forged, readLog>>

\* Ticker.start reads one tick: every registered, live message of S gets a callback goroutine
TickAll ==
    /\ RT1!DeliverTick /\ RT2!DeliverTick
    /\ UNCHANGED <<clock, fwRvars, fwSvars, chainVars, hsVars, sessVars, connVars, bcVars, netVars, ghostVars>>

FirstStart(p) == CHOOSE g \in DOMAIN p : p[g] = "start" /\ \A j \in DOMAIN p : p[j] = "start" => g <= j

\* one callback goroutine runs strategy.Tick(retransmit); the goroutines of one message are interchangeable
Callback(k) ==
    /\ IF k = 1
          THEN /\ \E g \in DOMAIN pc1 : pc1[g] = "start"
               /\ LET g == FirstStart(pc1) IN
                    IF Backoff1 THEN RT1!AtomicTick(g) /\ (IF tc1 + 1 = rt1 THEN Publish(1) ELSE UNCHANGED <<wire, pubs>>)
                                ELSE RT1!Call(g) /\ Publish(1)
               /\ UNCHANGED rt2Vars
          ELSE /\ MaxSend >= 2 /\ \E g \in DOMAIN pc2 : pc2[g] = "start"
               /\ LET g == FirstStart(pc2) IN
                    IF Backoff2 THEN RT2!AtomicTick(g) /\ (IF tc2 + 1 = rt2 THEN Publish(2) ELSE UNCHANGED <<wire, pubs>>)
                                ELSE RT2!Call(g) /\ Publish(2)
               /\ UNCHANGED rt1Vars
    /\ UNCHANGED <<clock, fwRvars, fwSvars, chainVars, hsVars, sessVars, connVars, bcVars, inbox, advUsed, forged, readLog>>

\* the context given to Send ends
CancelSend(k) ==
    /\ k \in CancelMsgs /\ k <= counter["S"] /\ k <= 2
    /\ IF k = 1 THEN RT1!Cancel /\ UNCHANGED rt2Vars ELSE RT2!Cancel /\ UNCHANGED rt1Vars
    /\ UNCHANGED <<clock, fwRvars, fwSvars, chainVars, hsVars, sessVars, connVars, bcVars, netVars, ghostVars>>

---------------------------------------------------------------------------
\* network and R's channel

\* pubsub at c.to reads a message from the connection with c.hop: signature policy, then
\*  at S: floodsub forwards what others authored to its other peers (R); messages claiming S itself are dropped
\*  at R: hand over to the subscription (-> incomingMessageQueue); R's own forwards reach nobody who listens
NetRead(c) ==
    /\ c \in wire /\ Up(c.to, c.hop)
    /\ LET valid == c.env.sig = "ok" \/ ~StrictSign
           fwd == IF valid /\ c.to = "S" /\ c.env.author # "S" /\ SendUp("S", "R")
                     THEN {[to |-> "R", hop |-> "S", env |-> c.env]} ELSE {}
       IN /\ wire' = (wire \ {c}) \cup fwd
          /\ inbox' = IF valid /\ c.to = "R" THEN inbox \cup {c.env} ELSE inbox
          /\ readLog' = IF valid /\ c.to = "R" THEN readLog \cup {<<c.env, c.hop>>} ELSE readLog
    /\ UNCHANGED <<clock, fwRvars, fwSvars, chainVars, hsVars, sessVars, connVars, bcVars, ticks, rt1Vars, rt2Vars,
                   advUsed, pubs, forged>>

\* incomingMessageWorker: processPubsubMessage -> processContainerMessage -> deliver (snapshot)
Handle(e) ==
    /\ IF Verdict(e) = "delivered"
          THEN /\ BC!StartDeliverC(MsgOf(e), 0)
               /\ forged' = IF e.author # e.inner THEN forged \cup {MsgOf(e)} ELSE forged
          ELSE UNCHANGED <<bcVars, forged>>
    /\ UNCHANGED <<clock, fwRvars, fwSvars, chainVars, hsVars, sessVars, connVars, ticks, rt1Vars, rt2Vars,
                   wire, advUsed, pubs, readLog>>
Process(e) ==
    /\ e \in inbox
    /\ inbox' = inbox \ {e}
    /\ Handle(e)

\* A writes an envelope to a connection it has; its own messages take the next number of its counter
AdvInject(n, e) ==
    /\ advUsed < MaxAdv /\ n \in Honest /\ Up("A", n) /\ e \in AdvEnvs
    /\ IF e.author = "A" /\ e.inner = "A"
          THEN e.seq <= counter["A"] + 1 /\ (IF e.seq = counter["A"] + 1 THEN BC!Send("A") ELSE UNCHANGED bcVars)
          ELSE UNCHANGED bcVars
    /\ wire' = wire \cup {[to |-> n, hop |-> "A", env |-> e]}
    /\ advUsed' = advUsed + 1
    /\ UNCHANGED <<clock, fwRvars, fwSvars, chainVars, hsVars, sessVars, connVars, ticks, rt1Vars, rt2Vars,
                   inbox, ghostVars>>

\* everything of Broadcast that happens inside R's channel, unchanged
nonBc == <<clock, fwRvars, fwSvars, chainVars, hsVars, sessVars, connVars, ticks, rt1Vars, rt2Vars, netVars, ghostVars>>

---------------------------------------------------------------------------
(* Scheduling. With Reduce = TRUE two families of steps that commute with   *)
(* everything else are not interleaved with it (a hand-made partial-order   *)
(* reduction; MC_Unreduced checks the same invariants without it):          *)
(*  - the tail of the processing goroutine after the context check          *)
(*    (FilterDup, Invoke, Return) reads and writes only that handler's pc,  *)
(*    cur, seen, ninv: it runs to completion first (as in Trace_Broadcast); *)
(*  - while a session S -> R is in progress only the session, the clock and *)
(*    the chain move: the data plane neither reads nor writes what the      *)
(*    session touches until the last firewall verdict makes the link carry  *)
(*    data, after which only SessEnd (which keeps the link) is left;        *)
(*  - the clock only matters relative to cache entries: it stands still     *)
(*    while all four caches are empty.                                      *)
BusyH  == \E h \in Handlers : pc[h] \in {"checked", "passed", "running"}
Free   == ~Reduce \/ ~BusyH
Quiet  == Free /\ (~Reduce \/ sess = "idle")
Cached == \/ \E p \in {"S", "A"} : (posR[p] # None \/ negR[p] # None)
          \/ \E q \in {"R", "A"} : (posS[q] # None \/ negS[q] # None)

DoTick         == Free /\ (Reduce => Cached) /\ Tick
DoChainChange  == Free /\ \E p \in ChainPeers : ChainChange(p)
DoStartDial    == Quiet /\ StartDial
DoHsStep       == Free /\ HsStep
DoSessFwI      == Free /\ SessFwI
DoSessFwR      == Free /\ SessFwR
DoSessEnd      == Free /\ SessEnd
DoAdvHandshake == Quiet /\ \E n \in Honest, claim \in Peers, proto \in {"keep", "evil"}, chalok \in BOOLEAN :
                     claim # n /\ AdvHandshake(n, claim, proto, chalok)
DoFwCheckAdv   == Quiet /\ \E n \in Honest : FwCheckAdv(n)
DoGuard        == Quiet /\ \E e \in Ends : Guard(e[1], e[2])
DoDisconnect   == Quiet /\ \E x \in Honest, y \in Peers : x # y /\ (y = "A" \/ x = "S") /\ Disconnect(x, y)
DoSendS        == Quiet /\ SendS
DoTickAll      == Quiet /\ TickAll
DoCallback     == Quiet /\ \E k \in 1..2 : k <= MaxSend /\ Callback(k)
DoCancelSend   == Quiet /\ \E k \in 1..2 : k <= MaxSend /\ CancelSend(k)
DoNetRead      == Quiet /\ \E c \in wire : NetRead(c)
DoProcess      == Quiet /\ \E e \in inbox : Process(e)
DoAdvInject    == Quiet /\ \E n \in Honest, e \in AdvEnvs : AdvInject(n, e)
TrySend        == Quiet /\ BC!DoTrySend /\ UNCHANGED nonBc
Register       == Quiet /\ BC!DoRegister /\ UNCHANGED nonBc
CancelHandler  == Quiet /\ (\E h \in CancelHandlers : BC!Cancel(h)) /\ UNCHANGED nonBc
RemoveHandler  == Quiet /\ BC!DoRemoveHandler /\ UNCHANGED nonBc
ExitOnDone     == Quiet /\ BC!DoExitOnDone /\ UNCHANGED nonBc
Dequeue        == Quiet /\ BC!DoDequeue /\ UNCHANGED nonBc
CheckCtx       == Quiet /\ BC!DoCheckCtx /\ UNCHANGED nonBc
FilterDup      == BC!DoFilterDup /\ UNCHANGED nonBc
Invoke         == BC!DoInvoke /\ UNCHANGED nonBc
Return         == BC!DoReturn /\ UNCHANGED nonBc

Next ==
    \/ DoTick \/ DoChainChange
    \/ DoStartDial \/ DoHsStep \/ DoSessFwI \/ DoSessFwR \/ DoSessEnd
    \/ DoAdvHandshake \/ DoFwCheckAdv \/ DoGuard \/ DoDisconnect
    \/ DoSendS \/ DoTickAll \/ DoCallback \/ DoCancelSend
    \/ DoNetRead \/ DoProcess \/ DoAdvInject
    \/ TrySend \/ Register \/ CancelHandler \/ RemoveHandler \/ ExitOnDone
    \/ Dequeue \/ CheckCtx \/ FilterDup \/ Invoke \/ Return

Spec == Init /\ [][Next]_vars

\* fairness for the liveness properties: the network delivers, goroutines run
Fair ==
    /\ WF_vars(DoNetRead) /\ WF_vars(DoProcess) /\ WF_vars(TrySend)
    /\ WF_vars(Dequeue) /\ WF_vars(CheckCtx) /\ WF_vars(FilterDup) /\ WF_vars(Invoke) /\ WF_vars(Return)
    /\ WF_vars(DoCallback) /\ WF_vars(DoTickAll)
LSpec == Spec /\ Fair

---------------------------------------------------------------------------
\* invariants of the modules, on the composition

FirewallInvs ==
    /\ FWR!TypeOK /\ FWR!AdmitJustified /\ FWR!CachedRejectJustified /\ FWR!EvalRejectJustified
    /\ FWR!ErrorNeverAdmits /\ FWR!CachesBacked /\ FWR!ExactVerdict /\ FWR!CachesDisjoint /\ FWR!AllowlistedNotCached
    /\ FWS!TypeOK /\ FWS!AdmitJustified /\ FWS!CachedRejectJustified /\ FWS!EvalRejectJustified
    /\ FWS!ErrorNeverAdmits /\ FWS!CachesBacked /\ FWS!ExactVerdict /\ FWS!CachesDisjoint /\ FWS!AllowlistedNotCached
HandshakeInvs ==
    /\ HS!TypeOK /\ HS!CompleteIff /\ HS!Agreement /\ HS!InitiatorSound /\ HS!ResponderSound /\ HS!WireSound
    /\ HS!ProtocolMismatchFails /\ HS!NoTouchedWordAccepted
BroadcastInvs ==
    /\ BC!TypeOK /\ BC!AtMostOnce /\ BC!NoStaleInvoke /\ BC!OnlyAllocated /\ BC!SeqnoUnique /\ BC!QueueBound
    /\ BC!HandlersConsistent /\ BC!FilterConsistent /\ BC!NoLoss /\ BC!ExitedIdle /\ BC!InvokedOnlyRegistered
RetransmissionInvs ==
    /\ RT1!TypeOK /\ RT1!BackoffExact /\ RT1!StandardExact /\ RT1!StopsAfterCancel /\ RT1!NeverAhead
    /\ RT2!TypeOK /\ RT2!BackoffExact /\ RT2!StandardExact /\ RT2!StopsAfterCancel /\ RT2!NeverAhead

---------------------------------------------------------------------------
\* system-level invariants (no single module states them)

TypeOK ==
    /\ clock \in 0..MaxClock /\ sess \in {"idle", "hs"}
    /\ \A e \in Ends : cs[e] \in {"none", "hsok", "admitted"}
    /\ cs[<<"R", "S">>] # "hsok" /\ cs[<<"S", "R">>] # "hsok"
    /\ \A n \in Honest : claimed[n] \in Peers /\ everAdm[n] \subseteq Peers
    /\ \A c \in wire : c.to \in Honest /\ c.hop \in Peers /\ c.env \in Envs
    /\ inbox \subseteq Envs
    /\ advUsed \in 0..MaxAdv /\ ndials \in 0..MaxDials /\ nadvdials \in 0..MaxAdvDials /\ ndrops \in 0..MaxDrops

\* messages inside R's channel (handed to deliver() and not yet forgotten)
InChannel ==
    {d.m : d \in dl} \cup UNION {BC!Range(queue[h]) : h \in Handlers}
    \cup {cur[h] : h \in {x \in Handlers : cur[x] # BC!NoMsg}}
    \cup UNION {{m \in BC!Msgs : ninv[h][m] > 0} : h \in Handlers}

\* (1) a connection that carries data is one whose remote end proved the identity the firewall validated,
\*     and that identity passed the firewall at connection time or at a later guard round: it is
\*     allowlisted, or the chain recognized it at most PosPeriod before that check
LinkAuthenticated == \A n \in Honest : cs[<<n, "A">>] # "none" => claimed[n] = "A"
LinkJustified ==
    \A e \in Ends : cs[e] = "admitted" =>
        LET a == adm[e] al == IF e[1] = "R" THEN allowR ELSE allowS IN
        /\ a.at # None /\ a.src # "skipped" /\ a.id = Ident(e[1], e[2])
        /\ a.id \in everAdm[e[1]]
        /\ (a.id \in al \/ (a.yes # None /\ a.at - a.yes <= PosPeriod))

\* (2) whatever reached R's channel came over a connection of R with a peer R's firewall had admitted
HopAdmitted ==
    \A m \in InChannel : \E x \in readLog : MsgOf(x[1]) = m /\ x[2] \in everAdm["R"]

\* (3) an identity no honest node's firewall ever admitted gets nothing delivered, however well-formed its
\*     envelopes are: nothing it authored is read, queued, or handed to a handler anywhere
NeverAdmitted(p) == \A n \in Honest : p \notin everAdm[n]
RejectedNeverDelivered ==
    NeverAdmitted("A") =>
        /\ \A m \in InChannel : m.s # "A"
        /\ \A e \in inbox : e.author # "A"
        /\ \A c \in wire : c.hop # "A" /\ c.env.author # "A"
        /\ \A x \in readLog : x[2] # "A"

\* (3), at the handler: what the negative configurations are made to run into
HandlerNeverSeesRejected ==
    NeverAdmitted("A") => \A h \in Handlers : \A m \in BC!Msgs : ninv[h][m] > 0 => m.s # "A"

\* (3') the per-node reading of (3) - "R delivers only what peers R itself admitted wrote" - does NOT hold:
\*      floodsub relays, so a peer S admits (or has cached) gets its messages to R through S (MC_NegRelay)
PerNodeAdmission == \A m \in InChannel : m.s = "A" => "A" \in everAdm["R"]

\* (4) the sender a handler sees is the authenticated author: nothing is attributed to S that S did not
\*     send, nothing A wrote is attributed to somebody else
NoImpostor == forged = {}
HandlerSeesAuthor == \A h \in Handlers : \A m \in BC!Msgs : ninv[h][m] > 0 => m \notin forged
Authentic == \A m \in InChannel : m.s = "S" => m.n <= counter["S"] /\ pubs[m.n] > 0

\* (4') a message whose pubsub signature does not verify never gets past pubsub (StrictSign, channel_manager.go)
ForgedNeverRead == (\A e \in inbox : e.sig = "ok") /\ (\A x \in readLog : x[1].sig = "ok")

\* (5) at most once per (sender, seqno) and handler, across retransmissions, relays, replays, reconnects;
\*     nothing dequeued after the handler's context ended is handed over
AtMostOnce == BC!AtMostOnce
NothingAfterCancel == BC!NoStaleInvoke

\* (6) the sender stops when its context ends: publications = the one of Send + one per retransmission the
\*     schedule made, and those are bounded by the ticks delivered before the cancellation
PubsExact ==
    /\ pubs[1] = (IF counter["S"] >= 1 THEN 1 ELSE 0) + Len(retx1)
    /\ (MaxSend >= 2 => pubs[2] = (IF counter["S"] >= 2 THEN 1 ELSE 0) + Len(retx2))
    /\ \A k \in 3..MaxSend : pubs[k] = 0
SenderStops ==
    /\ ~live1 => pubs[1] <= 1 + sac1
    /\ (MaxSend >= 2 /\ ~live2) => pubs[2] <= 1 + sac2

\* (7) nothing is in flight on a connection whose sending end is gone
WireOnLiveLinks == \A c \in wire : SendUp(c.hop, c.to)

---------------------------------------------------------------------------
\* liveness (under Fair)

SMsg(k) == [s |-> "S", n |-> k]

\* what a live handler's queue accepted is handed to it (or its context ends)
HandlerProgress ==
    \A h \in Handlers : \A m \in BC!Msgs :
        (m \in acc[h]) ~> (ninv[h][m] >= 1 \/ ctxDone[h])

\* one message, connection stays: a (re)transmission that is on its way to R while h is registered reaches
\* h exactly once (AtMostOnce) unless h's context ends
EndToEnd ==
    \A h \in Handlers :
        ((\E c \in wire : c.to = "R" /\ c.env = SEnv(1)) /\ h \in BC!Range(handlers))
            ~> (ninv[h][SMsg(1)] >= 1 \/ ctxDone[h])

\* every publication of a sender whose connection to R stays up ends in R's inbox or beyond
SentReachesChannel ==
    (pubs[1] > 0 /\ Up("S", "R") /\ \E c \in wire : c.env = SEnv(1)) ~> (\E x \in readLog : x[1] = SEnv(1))
=============================================================================
