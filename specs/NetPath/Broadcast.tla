----------------------------- MODULE Broadcast -----------------------------
(***************************************************************************)
(* Broadcast channel delivery of keep-core: pkg/net/libp2p/channel.go and  *)
(* pkg/net/local/broadcast_channel.go (same structure), with the duplicate *)
(* filter of pkg/net/retransmission/retransmission.go                      *)
(* (WithRetransmissionSupport).                                            *)
(*                                                                         *)
(* Code structure mirrored here (one action per step of the Go code):      *)
(*                                                                         *)
(*   Send            nextSeqno(): atomic.AddUint64(&counter, 1); the       *)
(*                   message may then be published once by Send itself and *)
(*                   again by every retransmission tick (same seqno).      *)
(*   FailPublish     a publication attempt returns an error (libp2p        *)
(*                   publisher.Publish): nothing is delivered. In Send the *)
(*                   order is nextSeqno, ScheduleRetransmissions, publish: *)
(*                   when the first attempt fails Send returns the error,  *)
(*                   but the message keeps its number and the scheduled    *)
(*                   retransmissions still publish it. (GiveBack = TRUE is *)
(*                   the wrong variant that hands the number back to the   *)
(*                   counter: MC_GiveBack shows two messages sharing one.) *)
(*   StartDeliver    deliver(): snapshot of messageHandlers under the      *)
(*                   handlers mutex.                                       *)
(*   TrySend         deliver(): `select { case h.channel <- m: default: }` *)
(*                   for the next handler of the snapshot: enqueue, or     *)
(*                   drop when the handler's buffered channel is full.     *)
(*   Register        Recv(): append to messageHandlers, start goroutines.  *)
(*   Cancel          the receiver's context is cancelled.                  *)
(*   RemoveHandler   removeHandler(): swap-with-last removal. In libp2p it *)
(*                   runs on its own lifecycle goroutine (Lifecycle =      *)
(*                   "separate"), in local it is done by the processing    *)
(*                   goroutine when its select sees ctx.Done()             *)
(*                   (Lifecycle = "inline").                               *)
(*   Dequeue         processing goroutine: `case msg := <-h.channel`.      *)
(*   ExitOnDone      processing goroutine: `case <-ctx.Done(): return`.    *)
(*                   Both select cases may be ready; Go picks one at       *)
(*                   random, so both actions are enabled.                  *)
(*   CheckCtx        `if messageHandler.ctx.Err() != nil { continue }`.    *)
(*   FilterDup       WithRetransmissionSupport: test-and-set of            *)
(*                   "<sender>-<seqno>" in the cache under its mutex.      *)
(*   Invoke / Return the delegate handler is entered / returns.            *)
(*                                                                         *)
(* The window between CheckCtx and Invoke is real: a context cancelled     *)
(* inside it does not stop the invocation (StrictAfterCancel is violated,  *)
(* see MC_Window.cfg). What the structure of the code guarantees, and what *)
(* C16 is read as: a message dequeued after the cancellation is never      *)
(* handed to the handler (NoStaleInvoke).                                  *)
(*                                                                         *)
(* CONSTANTS SecondCheck / Filter switch off the two mechanisms to show    *)
(* that the invariants depend on them (MC_NoSecondCheck, MC_NoFilter).     *)
(***************************************************************************)
EXTENDS Naturals, Sequences, FiniteSets

CONSTANTS Senders,      \* channel instances that send (each has its own counter)
          Handlers,     \* receivers that may register on the receiving channel
          MaxSend,      \* Send calls per sender
          MaxRetx,      \* retransmissions per message
          Cap,          \* capacity of a handler's buffered channel
          Lifecycle,    \* "separate" (libp2p) | "inline" (local)
          SecondCheck,  \* TRUE: the code as written (ctx.Err() re-checked after dequeue)
          Filter,       \* TRUE: the code as written (duplicate filter in place)
          MaxFail,      \* publication attempts that may fail
          GiveBack      \* FALSE: the code as written (a failed publication keeps its sequence number)

VARIABLES counter,   \* [Senders -> Nat]            channel.counter
          budget,    \* [Msgs -> Nat]               publishes of the message still to come
          dl,        \* set of in-flight deliver() calls [id, c, m, snap, i]
          handlers,  \* Seq(Handlers)               channel.messageHandlers
          ctxDone,   \* [Handlers -> BOOLEAN]       receiver's ctx.Err() != nil
          removed,   \* [Handlers -> BOOLEAN]       removeHandler ran for it
          pc,        \* [Handlers -> PCs]           processing goroutine
          queue,     \* [Handlers -> Seq(Msgs)]     messageHandler.channel
          cur,       \* [Handlers -> Msgs \cup {NoMsg}]  message being processed
          seen,      \* [Handlers -> SUBSET Msgs]   filter cache
          ninv,      \* [Handlers -> [Msgs -> Nat]] handler invocations
          stale,     \* [Handlers -> BOOLEAN]       ctx was done when cur was dequeued
          acc,       \* [Handlers -> SUBSET Msgs]   messages ever accepted into the queue
          book       \* bookkeeping of Send calls: [calls : [Senders -> Nat], tagged : [Msgs -> SUBSET Nat],
                     \* fails : Nat]; tagged[m] = the Send calls (by ordinal) whose message carries number m

vars == <<counter, budget, dl, handlers, ctxDone, removed, pc, queue, cur, seen, ninv, stale, acc, book>>

Msgs  == [s : Senders, n : 1..MaxSend]
NoMsg == [s |-> "none", n |-> 0]
PCs   == {"none", "select", "dequeued", "checked", "passed", "running", "exited"}

Allocated == { m \in Msgs : m.n <= counter[m.s] }
Range(f)  == { f[i] : i \in DOMAIN f }

Init ==
    /\ counter = [s \in Senders |-> 0]
    /\ budget = [m \in Msgs |-> 0]
    /\ dl = {}
    /\ handlers = <<>>
    /\ ctxDone = [h \in Handlers |-> FALSE]
    /\ removed = [h \in Handlers |-> FALSE]
    /\ pc = [h \in Handlers |-> "none"]
    /\ queue = [h \in Handlers |-> <<>>]
    /\ cur = [h \in Handlers |-> NoMsg]
    /\ seen = [h \in Handlers |-> {}]
    /\ ninv = [h \in Handlers |-> [m \in Msgs |-> 0]]
    /\ stale = [h \in Handlers |-> FALSE]
    /\ acc = [h \in Handlers |-> {}]
    /\ book = [calls |-> [s \in Senders |-> 0], tagged |-> [m \in Msgs |-> {}], fails |-> 0]

---------------------------------------------------------------------------
\* senders

\* channel.Send / localChannel.Send: a fresh sequence number; the message will
\* be published once now and up to MaxRetx times by retransmission ticks.
Send(s) ==
    /\ counter[s] < MaxSend /\ book.calls[s] < MaxSend + MaxFail
    /\ LET m == [s |-> s, n |-> counter[s] + 1] IN
         /\ counter' = [counter EXCEPT ![s] = @ + 1]
         /\ budget' = [budget EXCEPT ![m] = @ + 1 + MaxRetx]
         /\ book' = [book EXCEPT !.calls[s] = @ + 1, !.tagged[m] = @ \cup {book.calls[s] + 1}]
    /\ UNCHANGED <<dl, handlers, ctxDone, removed, pc, queue, cur, seen, ninv, stale, acc>>

\* publisher.Publish returns an error: this attempt delivers nothing
FailPublish(m) ==
    /\ budget[m] > 0 /\ book.fails < MaxFail
    /\ budget' = [budget EXCEPT ![m] = @ - 1]
    /\ book' = [book EXCEPT !.fails = @ + 1]
    /\ counter' = IF GiveBack /\ counter[m.s] = m.n THEN [counter EXCEPT ![m.s] = @ - 1] ELSE counter
    /\ UNCHANGED <<dl, handlers, ctxDone, removed, pc, queue, cur, seen, ninv, stale, acc>>

\* in-flight deliver() calls form a multiset: the id (smallest unused number)
\* only keeps two identical calls apart; c tags calls a trace has pinned (0 = none)
FreshId == CHOOSE i \in 1..(Cardinality(dl) + 1) : \A d \in dl : d.id # i

\* deliver(): snapshot under the mutex. First transmission and retransmissions
\* are the same code path (doSend / RetransmitFn), possibly concurrent.
StartDeliverC(m, c) ==
    /\ budget[m] > 0
    /\ budget' = [budget EXCEPT ![m] = @ - 1]
    /\ dl' = IF handlers = <<>> THEN dl
             ELSE dl \cup {[id |-> FreshId, c |-> c, m |-> m, snap |-> handlers, i |-> 1]}
    /\ UNCHANGED <<counter, handlers, ctxDone, removed, pc, queue, cur, seen, ninv, stale, acc, book>>

StartDeliver(m) == StartDeliverC(m, 0)

\* deliver(): non-blocking send to the i-th handler of the snapshot.
TrySend(d) ==
    /\ d \in dl
    /\ LET h == d.snap[d.i]
           rest == IF d.i = Len(d.snap) THEN {} ELSE {[d EXCEPT !.i = @ + 1]}
       IN /\ dl' = (dl \ {d}) \cup rest
          /\ IF Len(queue[h]) < Cap
                THEN /\ queue' = [queue EXCEPT ![h] = Append(@, d.m)]
                     /\ acc' = [acc EXCEPT ![h] = @ \cup {d.m}]
                ELSE UNCHANGED <<queue, acc>>          \* "handler too slow, dropping message"
    /\ UNCHANGED <<counter, budget, handlers, ctxDone, removed, pc, cur, seen, ninv, stale, book>>

---------------------------------------------------------------------------
\* receiver lifecycle

SwapRemove(seq, h) ==
    IF h \notin Range(seq) THEN seq
    ELSE LET i == CHOOSE k \in DOMAIN seq : seq[k] = h
             n == Len(seq)
         IN SubSeq([seq EXCEPT ![i] = seq[n]], 1, n - 1)

\* Recv(ctx, handler). The context may already be cancelled.
Register(h) ==
    /\ pc[h] = "none"
    /\ handlers' = Append(handlers, h)
    /\ pc' = [pc EXCEPT ![h] = "select"]
    /\ UNCHANGED <<counter, budget, dl, ctxDone, removed, queue, cur, seen, ninv, stale, acc, book>>

Cancel(h) ==
    /\ ~ctxDone[h]
    /\ ctxDone' = [ctxDone EXCEPT ![h] = TRUE]
    /\ UNCHANGED <<counter, budget, dl, handlers, removed, pc, queue, cur, seen, ninv, stale, acc, book>>

\* libp2p: `go func() { <-ctx.Done(); c.removeHandler(messageHandler) }()`
RemoveHandler(h) ==
    /\ Lifecycle = "separate"
    /\ ctxDone[h] /\ pc[h] # "none" /\ ~removed[h]
    /\ handlers' = SwapRemove(handlers, h)
    /\ removed' = [removed EXCEPT ![h] = TRUE]
    /\ UNCHANGED <<counter, budget, dl, ctxDone, pc, queue, cur, seen, ninv, stale, acc, book>>

\* processing goroutine, `case <-ctx.Done()`; local removes the handler here.
ExitOnDone(h) ==
    /\ pc[h] = "select" /\ ctxDone[h]
    /\ pc' = [pc EXCEPT ![h] = "exited"]
    /\ IF Lifecycle = "inline"
          THEN /\ handlers' = SwapRemove(handlers, h)
               /\ removed' = [removed EXCEPT ![h] = TRUE]
          ELSE UNCHANGED <<handlers, removed>>
    /\ UNCHANGED <<counter, budget, dl, ctxDone, queue, cur, seen, ninv, stale, acc, book>>

---------------------------------------------------------------------------
\* processing goroutine

Dequeue(h) ==
    /\ pc[h] = "select" /\ queue[h] # <<>>
    /\ cur' = [cur EXCEPT ![h] = Head(queue[h])]
    /\ queue' = [queue EXCEPT ![h] = Tail(@)]
    /\ stale' = [stale EXCEPT ![h] = ctxDone[h]]
    /\ pc' = [pc EXCEPT ![h] = "dequeued"]
    /\ UNCHANGED <<counter, budget, dl, handlers, ctxDone, removed, seen, ninv, acc, book>>

CheckCtx(h) ==
    /\ pc[h] = "dequeued"
    /\ IF SecondCheck /\ ctxDone[h]
          THEN /\ pc' = [pc EXCEPT ![h] = "select"]
               /\ cur' = [cur EXCEPT ![h] = NoMsg]
               /\ stale' = [stale EXCEPT ![h] = FALSE]
          ELSE /\ pc' = [pc EXCEPT ![h] = "checked"]
               /\ UNCHANGED <<cur, stale>>
    /\ UNCHANGED <<counter, budget, dl, handlers, ctxDone, removed, queue, seen, ninv, acc, book>>

FilterDup(h) ==
    /\ pc[h] = "checked"
    /\ IF Filter /\ cur[h] \in seen[h]
          THEN /\ pc' = [pc EXCEPT ![h] = "select"]
               /\ cur' = [cur EXCEPT ![h] = NoMsg]
               /\ UNCHANGED seen
          ELSE /\ pc' = [pc EXCEPT ![h] = "passed"]
               /\ seen' = [seen EXCEPT ![h] = @ \cup {cur[h]}]
               /\ UNCHANGED cur
    /\ UNCHANGED <<counter, budget, dl, handlers, ctxDone, removed, queue, ninv, stale, acc, book>>

Invoke(h) ==
    /\ pc[h] = "passed"
    /\ ninv' = [ninv EXCEPT ![h][cur[h]] = @ + 1]
    /\ pc' = [pc EXCEPT ![h] = "running"]
    /\ UNCHANGED <<counter, budget, dl, handlers, ctxDone, removed, queue, cur, seen, stale, acc, book>>

Return(h) ==
    /\ pc[h] = "running"
    /\ pc' = [pc EXCEPT ![h] = "select"]
    /\ cur' = [cur EXCEPT ![h] = NoMsg]
    /\ UNCHANGED <<counter, budget, dl, handlers, ctxDone, removed, queue, seen, ninv, stale, acc, book>>

---------------------------------------------------------------------------
DoSend          == \E s \in Senders : Send(s)
DoStartDeliver  == \E m \in Msgs : StartDeliver(m)
DoFailPublish   == \E m \in Msgs : FailPublish(m)
DoTrySend       == \E d \in dl : TrySend(d)
DoRegister      == \E h \in Handlers : Register(h)
DoCancel        == \E h \in Handlers : Cancel(h)
DoRemoveHandler == \E h \in Handlers : RemoveHandler(h)
DoExitOnDone    == \E h \in Handlers : ExitOnDone(h)
DoDequeue       == \E h \in Handlers : Dequeue(h)
DoCheckCtx      == \E h \in Handlers : CheckCtx(h)
DoFilterDup     == \E h \in Handlers : FilterDup(h)
DoInvoke        == \E h \in Handlers : Invoke(h)
DoReturn        == \E h \in Handlers : Return(h)

Next == \/ DoSend \/ DoStartDeliver \/ DoFailPublish \/ DoTrySend
        \/ DoRegister \/ DoCancel \/ DoRemoveHandler \/ DoExitOnDone
        \/ DoDequeue \/ DoCheckCtx \/ DoFilterDup \/ DoInvoke \/ DoReturn

Spec == Init /\ [][Next]_vars

---------------------------------------------------------------------------
TypeOK ==
    /\ counter \in [Senders -> 0..MaxSend]
    /\ budget \in [Msgs -> 0..(1 + MaxRetx)]
    /\ book.fails \in 0..MaxFail
    /\ \A d \in dl : d.m \in Msgs /\ d.i \in 1..Len(d.snap) /\ d.id \in Nat \ {0}
    /\ \A d, e \in dl : d.id = e.id => d = e
    /\ Range(handlers) \subseteq Handlers
    /\ \A h \in Handlers :
          /\ pc[h] \in PCs
          /\ Range(queue[h]) \subseteq Msgs
          /\ cur[h] \in Msgs \cup {NoMsg}
          /\ seen[h] \subseteq Msgs

\* C16 (1): a receiver sees a given (sender, seqno) at most once.
AtMostOnce == \A h \in Handlers : \A m \in Msgs : ninv[h][m] <= 1

\* C16 (2): a message dequeued after the receiver's context was cancelled is
\* never handed to the handler.
NoStaleInvoke == \A h \in Handlers : pc[h] \in {"checked", "passed", "running"} => ~stale[h]

\* The strict reading ("the context is live at the moment of the call") does
\* NOT hold: Cancel can fall between CheckCtx and Invoke.
StrictAfterCancel == \A h \in Handlers : pc[h] = "passed" => ~ctxDone[h]

\* C16 (3): sequence numbers are fresh and only allocated messages circulate.
OnlyAllocated ==
    /\ \A m \in Msgs : budget[m] > 0 => m \in Allocated
    /\ \A d \in dl : d.m \in Allocated
    /\ \A h \in Handlers :
          /\ Range(queue[h]) \subseteq Allocated
          /\ cur[h] # NoMsg => cur[h] \in Allocated
          /\ seen[h] \subseteq Allocated
          /\ acc[h] \subseteq Allocated
          /\ \A m \in Msgs : ninv[h][m] > 0 => m \in Allocated

\* C16 (3): a sequence number is never attached to two different messages,
\* including messages whose first publication failed
SeqnoUnique == \A m \in Msgs : Cardinality(book.tagged[m]) <= 1

SeqnoStep == [][\A s \in Senders : counter'[s] \in {counter[s], counter[s] + 1}]_vars

QueueBound == \A h \in Handlers : Len(queue[h]) <= Cap

\* messageHandlers holds each registered, not yet removed handler exactly once.
HandlersConsistent ==
    /\ \A i, j \in DOMAIN handlers : i # j => handlers[i] # handlers[j]
    /\ \A h \in Handlers : h \in Range(handlers) <=> (pc[h] # "none" /\ ~removed[h])

\* the filter cache is exactly the set of messages handed (or about to be
\* handed) to the handler
FilterConsistent ==
    Filter => \A h \in Handlers :
        seen[h] = { m \in Msgs : ninv[h][m] > 0 } \cup (IF pc[h] = "passed" THEN {cur[h]} ELSE {})

\* nothing is lost on the way from the queue to a live handler: a message that
\* was accepted into the queue of a handler whose context is still live is
\* queued, being processed, or was handed to the handler.
NoLoss ==
    Filter => \A h \in Handlers : ~ctxDone[h] =>
        \A m \in acc[h] : m \in Range(queue[h]) \/ m = cur[h] \/ ninv[h][m] = 1

\* once the processing goroutine has exited nothing is being processed
ExitedIdle == \A h \in Handlers : pc[h] = "exited" => (cur[h] = NoMsg /\ ctxDone[h])

\* an invocation happens only while registered
InvokedOnlyRegistered == \A h \in Handlers : pc[h] = "none" => \A m \in Msgs : ninv[h][m] = 0
=============================================================================
