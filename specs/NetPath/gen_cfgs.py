"""Writes the MC_*/Sim_* configuration files of NetPath (kept next to them so that they can be regenerated)."""
import os
os.chdir(os.path.dirname(os.path.abspath(__file__)))
base = dict(PosPeriod=1, NegPeriod=0, MaxClock=2, MaxCalls=3, AllowRChoices='{{}}', AllowSChoices='{{"R"}}',
  RecogAInit='{TRUE, FALSE}', ChainPeers='{"A"}', MaxChain=1, MaxErr=0, GuardOn='TRUE', Nonces='{1}', HsBudget=0,
  MaxDials=1, MaxAdvDials=1, MaxDrops=0, Handlers='{"h1"}', CancelHandlers='{}', MaxSend=1, MaxRetx=2, Cap=1,
  SecondCheck='TRUE', Filter='TRUE', MaxTicks=0, Backoff1='FALSE', Backoff2='TRUE', CancelMsgs='{}', MaxAdv=1,
  AdvKinds='{"own", "impostor"}', FwInbound='TRUE', VerifyAct1='TRUE', MatchInner='TRUE', StrictSign='TRUE', Reduce='TRUE')
SYS = "TypeOK FirewallInvs HandshakeInvs BroadcastInvs RetransmissionInvs\n  LinkAuthenticated LinkJustified HopAdmitted RejectedNeverDelivered HandlerNeverSeesRejected NoImpostor HandlerSeesAuthor Authentic ForgedNeverRead\n  PubsExact SenderStops WireOnLiveLinks"
def w(name, inv=SYS, spec="Spec", props=None, **kw):
    d = dict(base); d.update(kw)
    with open(name + '.cfg', 'w') as f:
        f.write("SPECIFICATION %s\nCONSTANTS\n" % spec)
        for k, v in d.items():
            f.write("  %s = %s\n" % (k, v))
        f.write("INVARIANTS " + inv + "\n")
        if props:
            f.write("PROPERTIES " + props + "\n")
static = dict(MaxClock=0, MaxChain=0, GuardOn='FALSE', MaxCalls=4)
# ---- negative configurations: the glue broken on purpose, or an over-strong reading; TLC must refute each
w('MC_NegNoFirewall', inv='TypeOK HandlerNeverSeesRejected', FwInbound='FALSE', RecogAInit='{FALSE}', MaxChain=0, MaxClock=0, GuardOn='FALSE', AdvKinds='{"own"}')
w('MC_NegNoVerify', inv='TypeOK HandlerNeverSeesRejected', VerifyAct1='FALSE', RecogAInit='{FALSE}', MaxChain=0, MaxClock=0, GuardOn='FALSE', AdvKinds='{"own"}')
w('MC_NegNoMatch', inv='TypeOK HandlerSeesAuthor', MatchInner='FALSE', RecogAInit='{TRUE}', AdvKinds='{"impostor"}', **static)
w('MC_NegNoSign', StrictSign='FALSE', RecogAInit='{TRUE}', AdvKinds='{"forged"}', inv="TypeOK Authentic ForgedNeverRead", **static)
w('MC_NegRelay', inv="TypeOK PerNodeAdmission", AdvKinds='{"own"}', RecogAInit='{TRUE}', MaxClock=0, MaxChain=0, GuardOn='FALSE')
w('MC_NegNoFilter', Filter='FALSE', inv="TypeOK AtMostOnce", RecogAInit='{FALSE}', MaxAdvDials=0, MaxAdv=0, MaxTicks=1, **static)
w('MC_NegNoSecondCheck', SecondCheck='FALSE', inv="TypeOK NothingAfterCancel", RecogAInit='{FALSE}', MaxAdvDials=0, MaxAdv=0, CancelHandlers='{"h1"}', **static)
# ---- positive configurations
# quick tier: small enough for a loaded machine (10^4 states each)
w('MC_Quick_Admit', RecogAInit='{TRUE}', AdvKinds='{"own"}', MaxDials=0, MaxAdvDials=2, MaxCalls=2)
w('MC_Quick_Deliver', RecogAInit='{TRUE}', MaxTicks=1, CancelHandlers='{"h1"}', AdvKinds='{"impostor"}', **static)
w('MC_Quick_Retx', RecogAInit='{TRUE}', MaxTicks=1, CancelMsgs='{1}', AdvKinds='{"replay"}', **static)
# thorough tier
w('MC_AdmitRelay', RecogAInit='{TRUE}', AdvKinds='{"own"}', MaxDials=0, MaxAdvDials=2)
w('MC_DeliverCancel', RecogAInit='{TRUE}', MaxTicks=1, CancelMsgs='{1}', CancelHandlers='{"h1"}', AdvKinds='{"impostor", "replay"}', **static)
w('MC_Live', spec='LSpec', inv='TypeOK AtMostOnce', props='HandlerProgress EndToEnd SentReachesChannel', RecogAInit='{FALSE}', MaxAdvDials=0, MaxAdv=0,
  Handlers='{"h1", "h2"}', CancelHandlers='{"h2"}', MaxTicks=1, **static)
w('MC_Admit')
w('MC_Deliver', MaxDrops=1, MaxDials=2, CancelHandlers='{"h1"}', MaxTicks=1, CancelMsgs='{1}', AdvKinds='{"own", "impostor", "replay"}', **static)
w('MC_Two', MaxSend=2, MaxTicks=2, MaxRetx=3, RecogAInit='{FALSE}', MaxAdvDials=0, MaxAdv=0, CancelMsgs='{2}', CancelHandlers='{"h1"}', **static)
w('MC_TwoHandlers', MaxTicks=1, RecogAInit='{TRUE}', AdvKinds='{"replay"}', CancelMsgs='{1}', Handlers='{"h1", "h2"}', CancelHandlers='{"h2"}', **static)
w('MC_Mitm', HsBudget=1, Nonces='{1, 2}', RecogAInit='{TRUE}', AdvKinds='{"own"}', MaxTicks=1, **static)
w('MC_Unreduced', Reduce='FALSE', RecogAInit='{TRUE}', MaxTicks=1, CancelMsgs='{1}', CancelHandlers='{"h1"}', AdvKinds='{"impostor", "replay"}', **static)
w('MC_NegQueueFull', spec='LSpec', inv='TypeOK', props='EndToEnd', RecogAInit='{FALSE}', MaxAdvDials=0, MaxAdv=0, MaxSend=2, MaxRetx=3,
  MaxTicks=1, **static)
w('Sim_Full', MaxClock=3, MaxCalls=6, AllowRChoices='{{}, {"S"}}', AllowSChoices='{{"R"}, {"R", "A"}}', ChainPeers='{"A", "S"}',
  MaxChain=2, MaxErr=1, Nonces='{1, 2}', HsBudget=1, MaxDials=2, MaxAdvDials=3, MaxDrops=2, Handlers='{"h1", "h2"}',
  CancelHandlers='{"h2"}', MaxSend=2, MaxRetx=6, Cap=2, MaxTicks=3, CancelMsgs='{1, 2}', MaxAdv=3,
  AdvKinds='{"own", "impostor", "garbage", "replay", "forged"}', Reduce='FALSE')
