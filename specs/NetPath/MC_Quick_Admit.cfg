SPECIFICATION Spec
CONSTANTS
  PosPeriod = 1
  NegPeriod = 0
  MaxClock = 2
  MaxCalls = 2
  AllowRChoices = {{}}
  AllowSChoices = {{"R"}}
  RecogAInit = {TRUE}
  ChainPeers = {"A"}
  MaxChain = 1
  MaxErr = 0
  GuardOn = TRUE
  Nonces = {1}
  HsBudget = 0
  MaxDials = 0
  MaxAdvDials = 2
  MaxDrops = 0
  Handlers = {"h1"}
  CancelHandlers = {}
  MaxSend = 1
  MaxRetx = 2
  Cap = 1
  SecondCheck = TRUE
  Filter = TRUE
  MaxTicks = 0
  Backoff1 = FALSE
  Backoff2 = TRUE
  CancelMsgs = {}
  MaxAdv = 1
  AdvKinds = {"own"}
  FwInbound = TRUE
  VerifyAct1 = TRUE
  MatchInner = TRUE
  StrictSign = TRUE
  Reduce = TRUE
INVARIANTS TypeOK FirewallInvs HandshakeInvs BroadcastInvs RetransmissionInvs
  LinkAuthenticated LinkJustified HopAdmitted RejectedNeverDelivered HandlerNeverSeesRejected NoImpostor HandlerSeesAuthor Authentic ForgedNeverRead
  PubsExact SenderStops WireOnLiveLinks
