SPECIFICATION Spec
CONSTANTS
  PosPeriod = 1
  NegPeriod = 0
  MaxClock = 0
  MaxCalls = 4
  AllowRChoices = {{}}
  AllowSChoices = {{"R"}}
  RecogAInit = {FALSE}
  ChainPeers = {"A"}
  MaxChain = 0
  MaxErr = 0
  GuardOn = FALSE
  Nonces = {1}
  HsBudget = 0
  MaxDials = 1
  MaxAdvDials = 0
  MaxDrops = 0
  Handlers = {"h1"}
  CancelHandlers = {"h1"}
  MaxSend = 2
  MaxRetx = 3
  Cap = 1
  SecondCheck = TRUE
  Filter = TRUE
  MaxTicks = 2
  Backoff1 = FALSE
  Backoff2 = TRUE
  CancelMsgs = {2}
  MaxAdv = 0
  AdvKinds = {"own", "impostor"}
  FwInbound = TRUE
  VerifyAct1 = TRUE
  MatchInner = TRUE
  StrictSign = TRUE
  Reduce = TRUE
INVARIANTS TypeOK FirewallInvs HandshakeInvs BroadcastInvs RetransmissionInvs
  LinkAuthenticated LinkJustified HopAdmitted RejectedNeverDelivered HandlerNeverSeesRejected NoImpostor HandlerSeesAuthor Authentic ForgedNeverRead
  PubsExact SenderStops WireOnLiveLinks
