SPECIFICATION TSpec
CONSTANTS
  PosPeriod = 50
  NegPeriod = 0
  MaxClock = 2000
  MaxCalls = 1000000
  AllowRChoices = {{}}
  AllowSChoices = {{}}
  RecogAInit = {FALSE}
  ChainPeers = {"A"}
  MaxChain = 0
  MaxErr = 0
  GuardOn = TRUE
  Nonces = {1}
  HsBudget = 0
  MaxDials = 0
  MaxAdvDials = 0
  MaxDrops = 0
  Handlers = {"h1", "h2", "h3"}
  CancelHandlers = {"h1", "h2", "h3"}
  MaxSend = 8
  MaxRetx = 1000
  Cap = 512
  SecondCheck = TRUE
  Filter = TRUE
  MaxTicks = 1000000
  Backoff1 = FALSE
  Backoff2 = TRUE
  CancelMsgs = {1, 2}
  MaxAdv = 0
  AdvKinds = {}
  FwInbound = TRUE
  VerifyAct1 = TRUE
  MatchInner = TRUE
  StrictSign = TRUE
  Reduce = FALSE
CONSTRAINT Hwm
INVARIANTS TypeOK FirewallInvs HandshakeInvs BroadcastInvs RetransmissionInvs
  LinkAuthenticated LinkJustified HopAdmitted RejectedNeverDelivered HandlerNeverSeesRejected NoImpostor HandlerSeesAuthor
  Authentic ForgedNeverRead PubsExact SenderStops WireOnLiveLinks
POSTCONDITION Accepted
