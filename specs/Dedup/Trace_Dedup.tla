----------------------------- MODULE Trace_Dedup -----------------------------
(* Linearizability check of recorded concurrent deliveries against the       *)
(* contract grain of Dedup: every Return must be explained by an atomic      *)
(* test-and-set taking effect between its Call and its Return.               *)
EXTENDS Dedup, TraceKit

VARIABLE l
tvars == <<vars, l>>

TInit ==
    /\ cache = {} /\ pc = [p \in Procs |-> "idle"] /\ key = [p \in Procs |-> CHOOSE k \in Keys : TRUE]
    /\ ret = [p \in Procs |-> "none"] /\ handled = [k \in Keys |-> 0]
    /\ l = 1 /\ HwmInit

IsEvent(e) == l <= Len(Trace) /\ Trace[l].event = e /\ l' = l + 1

TReset ==
    /\ IsEvent("Reset")
    /\ cache' = {} /\ pc' = [p \in Procs |-> "idle"] /\ key' = key
    /\ ret' = [p \in Procs |-> "none"] /\ handled' = [k \in Keys |-> 0]

TCall ==
    /\ IsEvent("Call")
    /\ LET p == Trace[l].p IN
         /\ pc[p] \in {"idle", "done"}
         /\ key' = [key EXCEPT ![p] = Trace[l].k]
         /\ pc' = [pc EXCEPT ![p] = "called"]
         /\ ret' = [ret EXCEPT ![p] = "none"]
    /\ UNCHANGED <<cache, handled>>

TReturn ==
    /\ IsEvent("Return")
    /\ LET p == Trace[l].p IN pc[p] = "done" /\ ret[p] = Trace[l].r
    /\ UNCHANGED vars

Lin == l' = l /\ \E p \in Procs : AtomicNotify(p)

TNext == TReset \/ TCall \/ TReturn \/ Lin
TSpec == TInit /\ [][TNext]_tvars
Hwm == HwmConstraint(l)
Accepted == HwmAccepted
=============================================================================
