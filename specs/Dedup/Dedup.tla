-------------------------------- MODULE Dedup --------------------------------
(***************************************************************************)
(* Chain-event deduplication: pkg/tbtc/deduplicator.go (notifyDKGStarted,  *)
(* notifyDKGResultSubmitted, notifyWalletClosed) and                       *)
(* pkg/beacon/event/deduplicator.go (NotifyDKGStarted).                    *)
(*                                                                         *)
(* Every chain event handler runs on its own goroutine                     *)
(* (tbtc.go: `OnDKGStarted(func(e){ go func(){ if ok := dedup.notify… `),  *)
(* so deliveries of the same event may overlap.  Each notify function      *)
(* sweeps the time cache, builds a string key and must act as a            *)
(* test-and-set on that key.                                               *)
(*                                                                         *)
(* Two grains:                                                             *)
(*   Atomic = TRUE   the contract: Notify is one indivisible test-and-set  *)
(*   Atomic = FALSE  the hazard grain of `if !cache.Has(k) { cache.Add(k); *)
(*                   return true }`: the membership test (Has, under the   *)
(*                   cache's read lock) and the insertion (Add, under its  *)
(*                   write lock) are separate steps of each delivery, and  *)
(*                   the result of Add is ignored.                         *)
(***************************************************************************)
EXTENDS Naturals, Sequences, FiniteSets

CONSTANTS Procs,        \* concurrent deliveries (handler goroutines)
          Keys,         \* distinct events (cache keys)
          Atomic,
          MayExpire     \* whether the caching period may elapse

VARIABLES cache,        \* keys currently held by the TimeCache
          pc,           \* p -> "idle" | "called" | "checked" | "done"
          key,          \* p -> key being delivered
          ret,          \* p -> result returned ("none" before)
          handled       \* k -> number of deliveries told to proceed since k last (re-)entered the period

vars == <<cache, pc, key, ret, handled>>

Init ==
    /\ cache = {}
    /\ pc = [p \in Procs |-> "idle"]
    /\ key \in [Procs -> Keys]
    /\ ret = [p \in Procs |-> "none"]
    /\ handled = [k \in Keys |-> 0]

\* the handler goroutine starts and sweeps the cache
Call(p) ==
    /\ pc[p] = "idle"
    /\ pc' = [pc EXCEPT ![p] = "called"]
    /\ UNCHANGED <<cache, key, ret, handled>>

\* contract grain: one atomic test-and-set
AtomicNotify(p) ==
    /\ Atomic /\ pc[p] = "called"
    /\ pc' = [pc EXCEPT ![p] = "done"]
    /\ IF key[p] \in cache
          THEN /\ ret' = [ret EXCEPT ![p] = "false"]
               /\ UNCHANGED <<cache, handled>>
          ELSE /\ ret' = [ret EXCEPT ![p] = "true"]
               /\ cache' = cache \cup {key[p]}
               /\ handled' = [handled EXCEPT ![key[p]] = @ + 1]
    /\ UNCHANGED key

\* hazard grain, first half: cache.Has(key)
Has(p) ==
    /\ ~Atomic /\ pc[p] = "called"
    /\ IF key[p] \in cache
          THEN /\ pc' = [pc EXCEPT ![p] = "done"]
               /\ ret' = [ret EXCEPT ![p] = "false"]
          ELSE /\ pc' = [pc EXCEPT ![p] = "checked"]
               /\ UNCHANGED ret
    /\ UNCHANGED <<cache, key, handled>>

\* hazard grain, second half: cache.Add(key); return true
Add(p) ==
    /\ ~Atomic /\ pc[p] = "checked"
    /\ pc' = [pc EXCEPT ![p] = "done"]
    /\ cache' = cache \cup {key[p]}
    /\ ret' = [ret EXCEPT ![p] = "true"]
    /\ handled' = [handled EXCEPT ![key[p]] = @ + 1]
    /\ UNCHANGED key

\* the caching period of k elapsed and a sweep removed it
Expire(k) ==
    /\ MayExpire /\ k \in cache
    /\ \A p \in Procs : key[p] = k => pc[p] \in {"idle", "done"}
    /\ cache' = cache \ {k}
    /\ handled' = [handled EXCEPT ![k] = 0]
    /\ UNCHANGED <<pc, key, ret>>

\* a finished goroutine's slot is reused for a later delivery
Recycle(p) ==
    /\ pc[p] = "done"
    /\ \E k \in Keys : key' = [key EXCEPT ![p] = k]
    /\ pc' = [pc EXCEPT ![p] = "idle"]
    /\ ret' = [ret EXCEPT ![p] = "none"]
    /\ UNCHANGED <<cache, handled>>

DoCall   == \E p \in Procs : Call(p)
DoAtomic == \E p \in Procs : AtomicNotify(p)
DoHas    == \E p \in Procs : Has(p)
DoAdd    == \E p \in Procs : Add(p)
DoExpire == \E k \in Keys : Expire(k)

Next == DoCall \/ DoAtomic \/ DoHas \/ DoAdd \/ DoExpire
Spec == Init /\ [][Next]_vars

---------------------------------------------------------------------------
\* C37: within a caching period at most one delivery of an event is handled ...
AtMostOnce == \A k \in Keys : handled[k] <= 1

\* ... and exactly one once every delivery of it returned.
ExactlyOnce ==
    \A k \in Keys :
        ((\E p \in Procs : key[p] = k /\ pc[p] = "done") /\ k \in cache) => handled[k] = 1

\* a delivery is refused only if the event is (still) in the cache
RefusedOnlyIfCached ==
    \A p \in Procs : (pc[p] = "done" /\ ret[p] = "false") => (key[p] \in cache \/ MayExpire)

\* different events never interfere: a key enters the cache only through a delivery of that key
NoCrossTalk ==
    MayExpire \/ \A k \in cache : \E p \in Procs : (key[p] = k /\ ret[p] = "true")

TypeOK ==
    /\ cache \subseteq Keys
    /\ \A p \in Procs : pc[p] \in {"idle", "called", "checked", "done"}
=============================================================================
