----------------------------- MODULE DedupKinds -----------------------------
(***************************************************************************)
(* One deduplicator instance serves several kinds of events                *)
(* (pkg/tbtc/deduplicator.go: DKG started, DKG result submitted, wallet    *)
(* closed), each with its own cache.  The textual cache keys of different  *)
(* kinds can coincide (a 256-bit DKG seed in hex and a wallet ID in hex    *)
(* are the same string), so the kinds must never share a cache:            *)
(* "two different events are never mistaken for one another".              *)
(* Sequential contract over (kind, value) events on a single instance.     *)
(***************************************************************************)
EXTENDS Naturals, Sequences, FiniteSets, TLC, Json, CSV, IOUtils

CONSTANTS Kinds, Values, MaxLen
VARIABLES cache,   \* kind -> set of values handled within the period
          hist
vars == <<cache, hist>>

Init == cache = [k \in Kinds |-> {}] /\ hist = <<>>

Notify(k, v) ==
    /\ Len(hist) < MaxLen
    /\ IF v \in cache[k]
          THEN /\ hist' = Append(hist, [kind |-> k, v |-> v, ret |-> "false"])
               /\ UNCHANGED cache
          ELSE /\ hist' = Append(hist, [kind |-> k, v |-> v, ret |-> "true"])
               /\ cache' = [cache EXCEPT ![k] = @ \cup {v}]

DoNotify == \E k \in Kinds, v \in Values : Notify(k, v)
Next == DoNotify
Spec == Init /\ [][Next]_vars

\* a delivery is refused only because the very same (kind, value) event was handled before
NoCrossKindConfusion ==
    \A j \in 1..Len(hist) :
        hist[j].ret = "false" =>
            \E i \in 1..(j-1) : hist[i].kind = hist[j].kind /\ hist[i].v = hist[j].v /\ hist[i].ret = "true"

FirstDeliveryHandled ==
    \A j \in 1..Len(hist) :
        (\A i \in 1..(j-1) : ~(hist[i].kind = hist[j].kind /\ hist[i].v = hist[j].v)) => hist[j].ret = "true"

Emit == (Len(hist) = MaxLen) => CSVWrite("%1$s", <<ToJson([steps |-> hist])>>, "kinds.ndjson")
=============================================================================
