SPECIFICATION Spec
CONSTANTS
  Kinds = {"started", "result", "closed"}
  Values = {"v1", "v2"}
  MaxLen = 3
INVARIANTS NoCrossKindConfusion FirstDeliveryHandled Emit
