SPECIFICATION Spec
CONSTANTS
  Keys = {"k1", "k2"}
  MaxLen = 5
  MaxExpire = 1
INVARIANTS OncePerPeriod Emit
