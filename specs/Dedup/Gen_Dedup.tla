----------------------------- MODULE Gen_Dedup -----------------------------
(* Every complete schedule of the hazard-grain model, as JSON:               *)
(*   steps: <<[a |-> "Begin"|"Finish", p |-> proc]...>>  (Begin = Call+Has,  *)
(*   Finish = Add), keys: p -> key, modelTrue: k -> #true in the hazard      *)
(*   model; the contract expects exactly one true per delivered key.         *)
EXTENDS Dedup, TLC, Json, CSV, IOUtils

VARIABLE hist
gvars == <<vars, hist>>
GInit == Init /\ hist = <<>>
Step(a, p) == hist' = Append(hist, [a |-> a, p |-> p])

\* Call and Has are taken together: the real goroutine cannot be held between them
BeginP(p) == /\ pc[p] = "idle"
             /\ IF key[p] \in cache
                   THEN /\ pc' = [pc EXCEPT ![p] = "done"]
                        /\ ret' = [ret EXCEPT ![p] = "false"]
                   ELSE /\ pc' = [pc EXCEPT ![p] = "checked"]
                        /\ UNCHANGED ret
             /\ UNCHANGED <<cache, key, handled>>
             /\ Step("Begin", p)
FinishP(p) == Add(p) /\ Step("Finish", p)

DoBegin  == \E p \in Procs : BeginP(p)
DoFinish == \E p \in Procs : FinishP(p)
GNext == DoBegin \/ DoFinish
GSpec == GInit /\ [][GNext]_gvars

Done == \A p \in Procs : pc[p] = "done"
Emit == Done => CSVWrite("%1$s", <<ToJson([steps |-> hist, keys |-> key,
                                            modelTrue |-> handled])>>, "schedules.ndjson")
=============================================================================
