------------------------------ MODULE DedupKey ------------------------------
(***************************************************************************)
(* Cache-key construction of notifyDKGResultSubmitted                      *)
(* (pkg/tbtc/deduplicator.go):                                             *)
(*     seed.Text(16)  ++  hex(resultHash)  ++  decimal(block)              *)
(* The seed text has no leading zeros and variable length, the hash text   *)
(* has fixed length L (64 in the code, 2 in the model), the block text is  *)
(* decimal without leading zeros.  "Two different events are never         *)
(* mistaken for one another" = the key function is injective.              *)
(* Separator = TRUE models the keys with a "-" between the three parts.    *)
(*                                                                         *)
(* Every model collision lifts to L = 64: if the two seed texts differ in  *)
(* length by d <= L(model), insert the same 62 hex digits at a cut point   *)
(* that lies inside both hash spans; both hashes grow to 64 digits and the *)
(* concatenations stay equal (done by the Go harness).                     *)
(***************************************************************************)
EXTENDS Naturals, Sequences, FiniteSets, TLC, Json, CSV, IOUtils

CONSTANTS Hex,        \* hex digit characters used by the model (must contain Dec)
          Dec,        \* decimal digit characters used by the model
          L,          \* hash text length in the model
          MaxSeed, MaxBlock,  \* maximal text lengths
          Separator

Strings(A, lo, hi) == UNION { [1..n -> A] : n \in lo..hi }

Seeds  == Strings(Hex, 1, MaxSeed)      \* model alphabets exclude "0": no leading-zero issue
Hashes == Strings(Hex, L, L)
Blocks == Strings(Dec, 1, MaxBlock)

Key(t) == IF Separator THEN t.seed \o <<"-">> \o t.hash \o <<"-">> \o t.block
                       ELSE t.seed \o t.hash \o t.block

VARIABLES t1, t2
vars == <<t1, t2>>
Tuples == [seed : Seeds, hash : Hashes, block : Blocks]
Init == t1 \in Tuples /\ t2 \in Tuples
Next == UNCHANGED vars
Spec == Init /\ [][Next]_vars

Injective == (Key(t1) = Key(t2)) => (t1 = t2)

\* generation: write every confusable pair of the concatenation encoding
EmitCollisions ==
    (t1 # t2 /\ t1.seed \o t1.hash \o t1.block = t2.seed \o t2.hash \o t2.block
        /\ Len(t1.seed) < Len(t2.seed))
    => CSVWrite("%1$s", <<ToJson([a |-> t1, b |-> t2])>>, "collisions.ndjson")
=============================================================================
