SPECIFICATION Spec
CONSTANTS
  Procs = {p1, p2}
  Keys = {k1}
  Atomic = FALSE
  MayExpire = FALSE
INVARIANTS TypeOK AtMostOnce
