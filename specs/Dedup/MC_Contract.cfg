SPECIFICATION Spec
CONSTANTS
  Procs = {p1, p2, p3, p4}
  Keys = {k1, k2}
  Atomic = TRUE
  MayExpire = FALSE
INVARIANTS TypeOK AtMostOnce ExactlyOnce RefusedOnlyIfCached NoCrossTalk
