SPECIFICATION GSpec
CONSTANTS
  Procs = {p1, p2, p3}
  Keys = {k1, k2}
  Atomic = FALSE
  MayExpire = FALSE
INVARIANTS Emit
