---------------------------- MODULE Gen_DedupSeq ----------------------------
(* Sequential behaviours of the contract: deliveries one after another and   *)
(* the caching period elapsing (a sweep then removes every entry older than  *)
(* the period; in the replay all entries are older by then).                 *)
(* Notify(k) is exactly Dedup!AtomicNotify for a recycled delivery slot.     *)
EXTENDS Naturals, Sequences, FiniteSets, TLC, Json, CSV, IOUtils

CONSTANTS Keys, MaxLen, MaxExpire
VARIABLES cache, hist, expires
vars == <<cache, hist, expires>>

Init == cache = {} /\ hist = <<>> /\ expires = 0

Notify(k) ==
    /\ Len(hist) < MaxLen
    /\ IF k \in cache
          THEN /\ hist' = Append(hist, [a |-> "Notify", k |-> k, ret |-> "false"])
               /\ UNCHANGED cache
          ELSE /\ hist' = Append(hist, [a |-> "Notify", k |-> k, ret |-> "true"])
               /\ cache' = cache \cup {k}
    /\ UNCHANGED expires

ExpireAll ==
    /\ Len(hist) < MaxLen /\ expires < MaxExpire /\ cache # {}
    /\ cache' = {}
    /\ expires' = expires + 1
    /\ hist' = Append(hist, [a |-> "ExpireAll", k |-> "", ret |-> ""])

DoNotify == \E k \in Keys : Notify(k)
Next == DoNotify \/ ExpireAll
Spec == Init /\ [][Next]_vars

\* at most one "true" per key between two expiries
OncePerPeriod ==
    \A i, j \in 1..Len(hist) :
        (i < j /\ hist[i].a = "Notify" /\ hist[j].a = "Notify" /\ hist[i].k = hist[j].k
           /\ hist[i].ret = "true" /\ hist[j].ret = "true")
        => \E m \in (i+1)..(j-1) : hist[m].a = "ExpireAll"

Emit == (Len(hist) = MaxLen) => CSVWrite("%1$s", <<ToJson([steps |-> hist])>>, "sequences.ndjson")
=============================================================================
