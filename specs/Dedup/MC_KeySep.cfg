SPECIFICATION Spec
CONSTANTS
  Hex = {"1", "a"}
  Dec = {"1"}
  L = 2
  MaxSeed = 2
  MaxBlock = 2
  Separator = TRUE
INVARIANTS Injective
