----------------------------- MODULE Handshake -----------------------------
(***************************************************************************)
(* Connection handshake of keep-core:                                      *)
(*   pkg/net/security/handshake/connection_handshake.go  (the three acts)  *)
(*   pkg/net/libp2p/authenticated_connection.go          (signed, pinned   *)
(*                                                        envelopes)       *)
(*                                                                         *)
(* One session = one initiator and one responder:                          *)
(*   SendAct1      InitiateHandshake + Message: act1{nonce1, protocol1}    *)
(*   AnswerAct1    AnswerHandshake: protocol check, nonce2, challenge =    *)
(*                 H(nonce1 as received, nonce2); act2{nonce2, challenge,  *)
(*                 protocol2}                                              *)
(*   CheckAct2     InitiatorAct2.Next: protocol check, H(own nonce1,       *)
(*                 nonce2 as received) = challenge as received;            *)
(*                 act3{challenge}; the initiator is done once act3 is     *)
(*                 sent                                                    *)
(*   Finalize      ResponderAct3.FinalizeHandshake: challenge as received  *)
(*                 = own challenge                                         *)
(* The hash is symbolic and injective; a challenge is a vector of four     *)
(* words (the 32 bytes as four 8-byte words), word i of H(a, b) being the  *)
(* symbol [a, b, x = 0]. A nonce in an act is a record [n, f]: the value   *)
(* and whether some of its bits were flipped in flight (f = "none" for the *)
(* value as generated, "lo" / "mid" / "hi" for a flip in the first, a      *)
(* middle or the last byte: a value outside the parties' nonce domain).    *)
(*                                                                         *)
(* With Wire = TRUE every act travels in an envelope {message, peer id,    *)
(* signature}. A receiver first checks that the peer id is the pinned one  *)
(* (the initiator knows whom it dialled; the responder pins whoever signed *)
(* act 1) and that the signature is that peer's signature over exactly     *)
(* these message bytes (authenticatedConnection.verify), then unmarshals.  *)
(*                                                                         *)
(* The attacker sits on the connection. Between a send and the matching    *)
(* receive it may (Budget times per session)                               *)
(*   Alter   change one field of the message in flight to another value of *)
(*           its domain; flip bits of a raw nonce (AlterNonceBits) or of   *)
(*           one word of a challenge (AlterWord i, for every i) so that    *)
(*           the value differs from the right one in a few bytes only; on  *)
(*           the wire also the envelope's peer id, or re-sign the envelope *)
(*           with its own key                                              *)
(*   Replay  substitute the corresponding act recorded in another session  *)
(*           of the same two peers (with its original, valid signature)    *)
(* The other session is an honest run with its own nonces, chosen from the *)
(* same small domain, so recorded values may or may not coincide with the  *)
(* current ones.                                                           *)
(***************************************************************************)
EXTENDS Naturals, FiniteSets, Sequences

CONSTANTS Nonces,     \* nonce domain
          Protocols,  \* protocol identifiers
          Wire,       \* TRUE: signed envelopes (authenticated_connection.go)
          Budget      \* attacker actions per session

Peers == {"I", "R", "X"}              \* initiator, responder, attacker's own identity
Words == 1..4
NV(n) == [n |-> n, f |-> "none"]                      \* a nonce as generated
NonceVals == [n : Nonces, f : {"none", "lo", "mid", "hi"}]
H(a, b) == [i \in Words |-> [a |-> a, b |-> b, x |-> 0]]
Challenges == { H(NV(a), NV(b)) : a \in Nonces, b \in Nonces }
NoNonce == [n |-> 0, f |-> "none"]

VARIABLES
    ip, rp,        \* protocol ids the initiator / the responder run
    n1, n2,        \* their nonces (n2 chosen when the responder answers; 0 before)
    rn1,           \* nonce1 as the responder received it (0 before)
    old,           \* the recorded other session: [n1, n2, p]
    ist, rst,      \* "start" | "wait" | "done" | "failed"
    pin,           \* peer id the responder pinned in act 1 ("" before)
    net,           \* message in flight: [act, m, pid, sig] or None
    sent,          \* [1..3 -> message as sent] (None if not sent)
    dlv,           \* [1..3 -> message as delivered]
    used           \* attacker actions so far

vars == <<ip, rp, n1, n2, rn1, old, ist, rst, pin, net, sent, dlv, used>>

None == [act |-> 0]
Env(act, m, who) == [act |-> act, m |-> m, pid |-> who, sig |-> [by |-> who, over |-> m]]

Init ==
    /\ ip \in Protocols /\ rp \in Protocols
    /\ n1 \in Nonces /\ n2 = 0 /\ rn1 = NoNonce
    /\ old \in [n1 : Nonces, n2 : Nonces, p : Protocols]
    /\ ist = "start" /\ rst = "start" /\ pin = ""
    /\ net = None
    /\ sent = [a \in 1..3 |-> None] /\ dlv = [a \in 1..3 |-> None]
    /\ used = 0

\* authenticatedConnection.verify: pinned identity, then signature over these bytes
Verified(e, expected) ==
    ~Wire \/ (e.pid = expected /\ e.sig.by = e.pid /\ e.sig.over = e.m)

---------------------------------------------------------------------------
SendAct1 ==
    /\ ist = "start" /\ net = None
    /\ LET e == Env(1, [nonce |-> NV(n1), proto |-> ip], "I") IN
         /\ net' = e /\ sent' = [sent EXCEPT ![1] = e]
    /\ ist' = "wait"
    /\ UNCHANGED <<ip, rp, n1, n2, rn1, old, rst, pin, dlv, used>>

\* responderReceiveAct1 + AnswerHandshake + responderSendAct2
AnswerAct1 ==
    /\ rst = "start" /\ net # None /\ net.act = 1
    /\ dlv' = [dlv EXCEPT ![1] = net]
    /\ pin' = net.pid                          \* the responder pins whoever the envelope names
    /\ IF Verified(net, net.pid) /\ net.m.proto = rp
          THEN \E x \in Nonces :
                 /\ n2' = x /\ rn1' = net.m.nonce
                 /\ LET e == Env(2, [nonce |-> NV(x), chal |-> H(net.m.nonce, NV(x)), proto |-> rp], "R") IN
                      /\ net' = e /\ sent' = [sent EXCEPT ![2] = e]
                 /\ rst' = "wait"
          ELSE /\ rst' = "failed" /\ net' = None
               /\ UNCHANGED <<n2, rn1, sent>>
    /\ UNCHANGED <<ip, rp, n1, old, ist, used>>

\* initiatorReceiveAct2 + InitiatorAct2.Next + initiatorSendAct3
CheckAct2 ==
    /\ ist = "wait" /\ net # None /\ net.act = 2
    /\ dlv' = [dlv EXCEPT ![2] = net]
    /\ IF /\ Verified(net, "R")
          /\ net.m.proto = ip
          /\ H(NV(n1), net.m.nonce) = net.m.chal
          THEN LET e == Env(3, [chal |-> net.m.chal], "I") IN
                 /\ net' = e /\ sent' = [sent EXCEPT ![3] = e]
                 /\ ist' = "done"
          ELSE /\ ist' = "failed" /\ net' = None /\ UNCHANGED sent
    /\ UNCHANGED <<ip, rp, n1, n2, rn1, old, rst, pin, used>>

\* responderReceiveAct3 + FinalizeHandshake
Finalize ==
    /\ rst = "wait" /\ net # None /\ net.act = 3
    /\ dlv' = [dlv EXCEPT ![3] = net]
    /\ rst' = IF Verified(net, pin) /\ net.m.chal = H(rn1, NV(n2)) THEN "done" ELSE "failed"
    /\ net' = None
    /\ UNCHANGED <<ip, rp, n1, n2, rn1, old, ist, pin, sent, used>>

\* a side whose peer gave up sees the connection closed
InitiatorSeesClose ==
    /\ ist = "wait" /\ rst = "failed" /\ net = None
    /\ ist' = "failed"
    /\ UNCHANGED <<ip, rp, n1, n2, rn1, old, rst, pin, net, sent, dlv, used>>
ResponderSeesClose ==
    /\ rst = "wait" /\ ist = "failed" /\ net = None
    /\ rst' = "failed"
    /\ UNCHANGED <<ip, rp, n1, n2, rn1, old, ist, pin, net, sent, dlv, used>>

---------------------------------------------------------------------------
\* attacker

FieldValues(f) == IF f = "nonce" THEN {NV(k) : k \in Nonces} ELSE IF f = "proto" THEN Protocols ELSE Challenges

AlterField ==
    /\ net # None /\ used < Budget
    /\ \E f \in DOMAIN net.m : \E v \in FieldValues(f) :
          /\ v # net.m[f]
          /\ net' = [net EXCEPT !.m = [net.m EXCEPT ![f] = v]]   \* the signature still covers the old bytes
    /\ used' = used + 1
    /\ UNCHANGED <<ip, rp, n1, n2, rn1, old, ist, rst, pin, sent, dlv>>

\* a few bits of the raw nonce in flight
AlterNonceBits ==
    /\ net # None /\ used < Budget /\ "nonce" \in DOMAIN net.m
    /\ \E pos \in {"lo", "mid", "hi"} :
          /\ net.m.nonce.f # pos
          /\ net' = [net EXCEPT !.m.nonce.f = pos]
    /\ used' = used + 1
    /\ UNCHANGED <<ip, rp, n1, n2, rn1, old, ist, rst, pin, sent, dlv>>

\* a few bits of word i of the challenge in flight
AlterWord ==
    /\ net # None /\ used < Budget /\ "chal" \in DOMAIN net.m
    /\ \E i \in Words : net' = [net EXCEPT !.m.chal[i].x = 1 - @]
    /\ used' = used + 1
    /\ UNCHANGED <<ip, rp, n1, n2, rn1, old, ist, rst, pin, sent, dlv>>

\* on the wire: name another sender, or sign (the possibly altered) bytes with the attacker's key
AlterEnvelope ==
    /\ Wire /\ net # None /\ used < Budget
    /\ \/ \E who \in Peers \ {net.pid} : net' = [net EXCEPT !.pid = who]
       \/ net' = [net EXCEPT !.sig = [by |-> "X", over |-> net.m]]
       \/ net' = [net EXCEPT !.pid = "X", !.sig = [by |-> "X", over |-> net.m]]
    /\ used' = used + 1
    /\ UNCHANGED <<ip, rp, n1, n2, rn1, old, ist, rst, pin, sent, dlv>>

\* the acts of the recorded session, as they were sent then
OldAct(a) ==
    IF a = 1 THEN Env(1, [nonce |-> NV(old.n1), proto |-> old.p], "I")
    ELSE IF a = 2 THEN Env(2, [nonce |-> NV(old.n2), chal |-> H(NV(old.n1), NV(old.n2)), proto |-> old.p], "R")
    ELSE Env(3, [chal |-> H(NV(old.n1), NV(old.n2))], "I")

Replay ==
    /\ net # None /\ used < Budget
    /\ net' = OldAct(net.act)
    /\ used' = used + 1
    /\ UNCHANGED <<ip, rp, n1, n2, rn1, old, ist, rst, pin, sent, dlv>>

Next == \/ SendAct1 \/ AnswerAct1 \/ CheckAct2 \/ Finalize
        \/ InitiatorSeesClose \/ ResponderSeesClose
        \/ AlterField \/ AlterNonceBits \/ AlterWord \/ AlterEnvelope \/ Replay

Spec == Init /\ [][Next]_vars

---------------------------------------------------------------------------
TypeOK ==
    /\ ist \in {"start", "wait", "done", "failed"} /\ rst \in {"start", "wait", "done", "failed"}
    /\ used \in 0..Budget /\ n2 \in Nonces \cup {0} /\ rn1 \in NonceVals \cup {NoNonce}

BothDone == ist = "done" /\ rst = "done"
Unaltered(a) == sent[a] # None /\ dlv[a] = sent[a]
Over == net = None /\ ist \in {"done", "failed"} /\ rst \in {"done", "failed"}

\* C20: the two peers complete exactly when they run the same protocol and
\* every act arrived as it was sent (an attacker action that reproduces the
\* original message bit for bit is no alteration).
\* (On the wire the attacker may also put its own identity X on act 1: the
\* responder then runs - and may complete - a handshake with X, a peer that
\* happens to relay somebody else's nonce. That session is X's, it is judged by
\* WireSound: everything the responder accepted in it was signed by X.)
CompleteIff ==
    (Over /\ pin # "X") => (BothDone <=> (ip = rp /\ Unaltered(1) /\ Unaltered(2) /\ Unaltered(3)))

\* ... and then both hold the challenge derived from both nonces
Agreement ==
    BothDone => /\ rn1 = NV(n1)
                /\ dlv[2].m.chal = H(NV(n1), NV(n2)) /\ dlv[2].m.nonce = NV(n2)
                /\ dlv[3].m.chal = H(NV(n1), NV(n2))

\* each side on its own: what it accepted is consistent with its own nonce
InitiatorSound ==
    ist = "done" => dlv[2].m.proto = ip /\ dlv[2].m.chal = H(NV(n1), dlv[2].m.nonce)
ResponderSound ==
    rst = "done" => /\ dlv[1].m.proto = rp
                    /\ dlv[3].m.chal = H(dlv[1].m.nonce, NV(n2))

\* on the wire: a completed side only ever accepted envelopes signed by the pinned peer
WireSound ==
    Wire => /\ ist = "done" => (dlv[2].pid = "R" /\ dlv[2].sig = [by |-> "R", over |-> dlv[2].m])
            /\ rst = "done" => (dlv[3].pid = pin /\ dlv[3].sig = [by |-> pin, over |-> dlv[3].m]
                                /\ dlv[1].sig = [by |-> pin, over |-> dlv[1].m])

\* every word counts: a side that completes accepted a challenge none of whose
\* words (and a nonce none of whose bits) had been touched
NoTouchedWordAccepted ==
    /\ ist = "done" => (\A i \in Words : dlv[2].m.chal[i].x = 0)
    /\ rst = "done" => (\A i \in Words : dlv[3].m.chal[i].x = 0)
    /\ BothDone => dlv[1].m.nonce.f = "none" /\ dlv[2].m.nonce.f = "none"

\* a mismatch of protocol ids can never end in two completed sides
ProtocolMismatchFails == (ip # rp /\ Over /\ pin # "X") => ~BothDone
=============================================================================
