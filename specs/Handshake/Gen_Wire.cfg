SPECIFICATION GSpec
CONSTANTS
  Nonces = {1, 2}
  Protocols = {"p", "q"}
  Wire = TRUE
  Budget = 2
INVARIANTS Emit GenInvariants
