SPECIFICATION Spec
CONSTANTS
  Nonces = {1, 2, 3}
  Protocols = {"p", "q"}
  Wire = FALSE
  Budget = 1
INVARIANTS TypeOK CompleteIff Agreement InitiatorSound ResponderSound ProtocolMismatchFails NoTouchedWordAccepted
