SPECIFICATION Spec
CONSTANTS
  Nonces = {1, 2, 3}
  Protocols = {"p", "q"}
  Wire = TRUE
  Budget = 2
INVARIANTS TypeOK CompleteIff Agreement InitiatorSound ResponderSound WireSound ProtocolMismatchFails NoTouchedWordAccepted
