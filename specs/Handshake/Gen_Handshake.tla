---------------------------- MODULE Gen_Handshake ----------------------------
(* Every behaviour of Handshake, written out for replay on the real code.    *)
(* Emitted at the end of a session:                                          *)
(*   [wire, ip, rp, n1, old, steps, ist, rst]                                *)
(*   steps[i] = [a, net, ist, rst, n2]: the action, the message in flight    *)
(*   after it (act = 0: none), both sides' states after it, and the          *)
(*   responder's nonce once chosen.                                          *)
EXTENDS Handshake, Sequences, TLC, Json, CSV, IOUtils

VARIABLE hist
gvars == <<vars, hist>>

GInit == Init /\ hist = <<>>

E(a) == hist' = Append(hist, [a |-> a, net |-> net', ist |-> ist', rst |-> rst', n2 |-> n2'])

GNext ==
    \/ SendAct1 /\ E("SendAct1")
    \/ AnswerAct1 /\ E("AnswerAct1")
    \/ CheckAct2 /\ E("CheckAct2")
    \/ Finalize /\ E("Finalize")
    \/ InitiatorSeesClose /\ E("InitiatorSeesClose")
    \/ ResponderSeesClose /\ E("ResponderSeesClose")
    \/ AlterField /\ E("AlterField")
    \/ AlterNonceBits /\ E("AlterNonceBits")
    \/ AlterWord /\ E("AlterWord")
    \/ AlterEnvelope /\ E("AlterEnvelope")
    \/ Replay /\ E("Replay")

GSpec == GInit /\ [][GNext]_gvars

Emit == Over =>
    CSVWrite("%1$s", <<ToJson([wire |-> Wire, ip |-> ip, rp |-> rp, n1 |-> n1, old |-> old,
                                steps |-> hist, ist |-> ist, rst |-> rst])>>, "behaviours.ndjson")
GenInvariants == CompleteIff /\ Agreement /\ InitiatorSound /\ ResponderSound /\ WireSound /\ NoTouchedWordAccepted
=============================================================================
