SPECIFICATION GSpec
CONSTANTS
  Nonces = {1, 2, 3}
  Protocols = {"p", "q"}
  Wire = FALSE
  Budget = 1
INVARIANTS Emit GenInvariants
