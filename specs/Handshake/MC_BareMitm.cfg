SPECIFICATION Spec
CONSTANTS
  Nonces = {1, 2}
  Protocols = {"p", "q"}
  Wire = FALSE
  Budget = 3
INVARIANTS CompleteIff
