SPECIFICATION SSpec
CONSTANTS
  NonceSpace = {1, 2}
  Fresh = FALSE
  MaxSessions = 3
INVARIANTS NoSessionByReplay
