-------------------------- MODULE HandshakeSessions --------------------------
(***************************************************************************)
(* Freshness across sessions: what makes "a replayed act makes the         *)
(* handshake fail" true when the attacker has recorded EARLIER sessions of *)
(* the same node and no honest peer takes part in the new one.             *)
(*                                                                         *)
(* A node (its randomNonce) serves many sessions, as responder and as      *)
(* initiator. Honest sessions complete and are recorded by the attacker    *)
(* (all three acts, with their valid signatures). Later the attacker       *)
(*   ReplayToResponder   opens a session with a recorded act 1, receives   *)
(*                       the node's act 2 (fresh nonce2, challenge         *)
(*                       H(recorded nonce1, nonce2)) and answers with the  *)
(*                       recorded act 3: FinalizeHandshake accepts iff the *)
(*                       challenge is the recorded one, i.e. iff the node  *)
(*                       drew the recorded nonce2 again;                   *)
(*   ReplayToInitiator   answers an act 1 of the node (fresh nonce1) with  *)
(*                       a recorded act 2: InitiatorAct2.Next accepts iff  *)
(*                       H(nonce1, recorded nonce2) is the recorded        *)
(*                       challenge, i.e. iff the node drew the recorded    *)
(*                       nonce1 again.                                     *)
(* So the property needs: the nonces one node draws in different sessions  *)
(* are pairwise distinct (Fresh = TRUE). Fresh = FALSE is a node whose     *)
(* draws cycle through a fixed pool (MC_SessionsStale shows a session      *)
(* completed by replay alone).                                             *)
(***************************************************************************)
EXTENDS Naturals, FiniteSets, Sequences

CONSTANTS NonceSpace,    \* values randomNonce can return
          Fresh,         \* TRUE: every draw of the node is a value it never drew before
          MaxSessions

VARIABLES drawn,     \* sequence of the node's draws, in order
          recorded,  \* set of recorded honest sessions [role, n1, n2]: role = the node's role in it
          done,      \* number of sessions finished
          byReplay   \* a session the node completed although its peer was only a recording

svars == <<drawn, recorded, done, byReplay>>

Range(s) == { s[i] : i \in DOMAIN s }
CanDraw(x) == x \in NonceSpace /\ (Fresh => x \notin Range(drawn))

SInit == drawn = <<>> /\ recorded = {} /\ done = 0 /\ byReplay = FALSE

\* an honest session: the node draws its nonce, the honest peer its own (any value)
HonestSession ==
    /\ done < MaxSessions
    /\ \E role \in {"responder", "initiator"}, mine \in NonceSpace, theirs \in NonceSpace :
          /\ CanDraw(mine)
          /\ drawn' = Append(drawn, mine)
          /\ recorded' = recorded \cup {IF role = "responder" THEN [role |-> role, n1 |-> theirs, n2 |-> mine]
                                                               ELSE [role |-> role, n1 |-> mine, n2 |-> theirs]}
    /\ done' = done + 1 /\ UNCHANGED byReplay

\* recorded act 1 and act 3 against the node as responder
ReplayToResponder ==
    /\ done < MaxSessions
    /\ \E r \in recorded, n2 \in NonceSpace :
          /\ r.role = "responder" /\ CanDraw(n2)
          /\ drawn' = Append(drawn, n2)
          \* FinalizeHandshake: H(r.n1, n2) = H(r.n1, r.n2), H injective
          /\ byReplay' = (byReplay \/ n2 = r.n2)
    /\ done' = done + 1 /\ UNCHANGED recorded

\* recorded act 2 against the node as initiator
ReplayToInitiator ==
    /\ done < MaxSessions
    /\ \E r \in recorded, n1 \in NonceSpace :
          /\ r.role = "initiator" /\ CanDraw(n1)
          /\ drawn' = Append(drawn, n1)
          \* InitiatorAct2.Next: H(n1, r.n2) = H(r.n1, r.n2)
          /\ byReplay' = (byReplay \/ n1 = r.n1)
    /\ done' = done + 1 /\ UNCHANGED recorded

SNext == HonestSession \/ ReplayToResponder \/ ReplayToInitiator
SSpec == SInit /\ [][SNext]_svars

\* C20: an act replayed from ANY earlier session of the node makes the handshake fail
NoSessionByReplay == ~byReplay
\* the requirement on the nonce source this rests on
DrawsDistinct == Fresh => \A i, j \in DOMAIN drawn : i # j => drawn[i] # drawn[j]
=============================================================================
