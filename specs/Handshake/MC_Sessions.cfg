SPECIFICATION SSpec
CONSTANTS
  NonceSpace = {1, 2, 3, 4}
  Fresh = TRUE
  MaxSessions = 4
INVARIANTS NoSessionByReplay DrawsDistinct
