SPECIFICATION Spec
CONSTANTS
  Configs <- FixtureConfigs
  Seed = 200
  Shift = TRUE
  NominalSize = TRUE
INVARIANTS TypeOK QuorumSigns
