-------------------------- MODULE MC_SigningGroup --------------------------
(* Constant definitions for the exhaustive / generation configurations.    *)
(* A configuration is <<N, H, Quorum>>.                                    *)
EXTENDS SigningGroup

QuickConfigs    == {<<3, 2, 2>>, <<4, 3, 3>>, <<5, 3, 4>>, <<5, 3, 3>>}
ThoroughConfigs == QuickConfigs \cup {<<6, 4, 5>>, <<6, 4, 4>>, <<7, 4, 6>>, <<7, 4, 4>>, <<7, 5, 5>>}
FixtureConfigs  == {<<5, 3, 4>>, <<5, 3, 3>>}
=============================================================================
