SPECIFICATION Spec
CONSTANTS
  Configs <- QuickConfigs
  Seed = 200
  Shift = TRUE
INVARIANTS TypeOK PartyMatchesKeygen InverseMapping FinalContiguous OperatorOfSeat SameWallet SigningPartiesAreKeygenParties QuorumIsValid QuorumSigns NoWalletOnlyBelowQuorum ValidWhenWallet
