------------------------- MODULE Gen_SigningGroup -------------------------
(* Case generation: every terminal state of SigningGroup (one per          *)
(* exclusion set and selected signer set) is written as a JSON document.   *)
(* The harness drives the real code of every stage with the case's inputs  *)
(* and compares every value below.                                         *)
EXTENDS MC_SigningGroup, TLC, Json, CSV, IOUtils

MemberView(m) ==
    [m |-> m,
     running |-> m \in Running,
     operating |-> SortedSeq(grp[m]),
     kgParty |-> kgParty[m],
     kgCtx |-> kgCtx[m],
     kgBack |-> DkgMemberOf(kgParty[m]),
     ks |-> share[m].ks,
     shareId |-> share[m].id,
     reg |-> reg[m].st,
     idx |-> reg[m].idx,
     ops |-> reg[m].ops,
     selected |-> Selected(m),
     sgParty |-> sgParty[m],
     sgCtx |-> sgCtx[m]]

Emit ==
    Done => CSVWrite("%1$s", <<ToJson([n |-> N, h |-> H, quorum |-> Quorum, seed |-> Seed,
                                       excluded |-> SortedSeq(excluded),
                                       signers |-> SortedSeq(signers),
                                       proto |-> [size |-> proto.size, dishonest |-> proto.dishonest, excl |-> SortedSeq(proto.excl)],
                                       outcome |-> outcome,
                                       members |-> [m \in Members |-> MemberView(m)]])>>,
                      "cases.ndjson")
=============================================================================
