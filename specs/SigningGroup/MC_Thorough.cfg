SPECIFICATION Spec
CONSTANTS
  Configs <- ThoroughConfigs
  Seed = 200
  Shift = TRUE
  NominalSize = FALSE
INVARIANTS TypeOK PartyMatchesKeygen InverseMapping FinalContiguous OperatorOfSeat SameWallet SigningPartiesAreKeygenParties QuorumIsValid QuorumSigns NoPhantomMembers QuorumRemains NoWalletOnlyBelowQuorum ValidWhenWallet
