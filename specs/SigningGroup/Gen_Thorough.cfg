SPECIFICATION Spec
CONSTANTS
  Configs <- ThoroughConfigs
  Seed = 200
  Shift = TRUE
INVARIANTS Emit TypeOK PartyMatchesKeygen InverseMapping FinalContiguous OperatorOfSeat SameWallet SigningPartiesAreKeygenParties QuorumIsValid QuorumSigns NoWalletOnlyBelowQuorum ValidWhenWallet
