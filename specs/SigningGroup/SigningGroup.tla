---------------------------- MODULE SigningGroup ----------------------------
(***************************************************************************)
(* C08 -- the index / identity pipeline between tECDSA key generation and  *)
(* tECDSA signing.                                                         *)
(*                                                                         *)
(* Seats 1..N are selected by the sortition pool.  A key generation        *)
(* attempt runs with a set of excluded seats.  Every running member m      *)
(*   (1) marks the excluded seats as disqualified                          *)
(*         pkg/tecdsa/dkg/dkg.go  Executor.Execute (the marking loop)      *)
(*   (2) builds its TSS party identity Seed+m and the sorted peer context  *)
(*       of the operating seats                                            *)
(*         pkg/tecdsa/dkg/member.go  initializeTssRoundOne,                *)
(*         identityConverter; pkg/tecdsa/common GenerateTssPartiesIDs      *)
(*   (3) tss-lib keygen saves  Ks = the sorted party keys,  ShareID = own  *)
(*       key  (trusted; checked against the fixtures and, in the thorough  *)
(*       tier, against a real key generation)                              *)
(*   (4) registerSigner / finalSigningGroup (pkg/tbtc/dkg.go) drop the     *)
(*       non-operating seats and SHIFT the member index: the final index   *)
(*       is the rank of m among the sorted operating seats; the final      *)
(*       operators list is the operators of the operating seats in order.  *)
(* A signing attempt selects a set of FINAL indices (the others are the    *)
(* attempt's excluded members).  Every selected signer                     *)
(*   (5) marks the other final indices as disqualified                     *)
(*         pkg/tecdsa/signing/signing.go Execute                           *)
(*   (6) builds its party identity Ks[final-1] and the sorted context of   *)
(*       the selected final indices                                        *)
(*         pkg/tecdsa/signing/member.go initializeTssRoundOne,             *)
(*         identityConverter{keys: Ks}                                     *)
(*   (7) tss-lib signing produces a valid signature iff every signer acts  *)
(*       under the party key its secret share belongs to, all signers      *)
(*       agree on the context, and there are more than threshold = H-1     *)
(*       of them (trusted cryptography; exercised for real by the harness) *)
(*                                                                         *)
(* CONSTANT Shift selects the code as written (TRUE) or the hazard variant *)
(* in which registerSigner keeps the key-generation index (FALSE) -- used  *)
(* as a negative control: TLC must find the broken wallet.                 *)
(***************************************************************************)
EXTENDS Integers, Sequences, FiniteSets

CONSTANTS NominalSize, \* FALSE = signingExecutor.sign as written; TRUE = hazard: the protocol is started for the
                       \* NOMINAL group size (GroupParameters) instead of the stored wallet's size
          Configs,  \* set of group parameters <<N, H, Quorum>>:
                    \*   N      group size (seats 1..N)
                    \*   H      honest threshold: members needed for a signature
                    \*   Quorum GroupQuorum: operating members needed for a valid key generation result
          Seed,     \* key generation identity converter seed
          Shift     \* TRUE = finalSigningGroup as written

ASSUME /\ \A c \in Configs : c[1] \in Nat /\ c[2] \in 1..c[1] /\ c[3] \in c[2]..c[1]
       /\ Seed \in Nat /\ Shift \in BOOLEAN /\ NominalSize \in BOOLEAN

RECURSIVE SortedSeq(_)
SortedSeq(S) ==
    IF S = {} THEN <<>>
    ELSE LET m == CHOOSE x \in S : \A y \in S : x <= y
         IN <<m>> \o SortedSeq(S \ {m})

Range(s) == {s[i] : i \in DOMAIN s}

\* slices.IndexFunc(...) + 1 : position of x in s, 0 when absent
PosOf(s, x) == IF x \in Range(s) THEN CHOOSE i \in DOMAIN s : s[i] = x ELSE 0

\* rank of m among the members of S (1-based)
Rank(m, S) == Cardinality({x \in S : x <= m})

\* dkg identityConverter
DkgKey(m)      == Seed + m
DkgMemberOf(k) == IF Seed > k THEN 0 ELSE k - Seed

NoShare == [ks |-> <<>>, id |-> 0]
NoReg   == [st |-> "none", idx |-> 0, ops |-> <<>>]
NoProto == [size |-> 0, dishonest |-> 0, excl |-> {}]

VARIABLES
    N, H, Quorum,  \* the group parameters of this behaviour (fixed by Init)
    stage,      \* "select" | "keygen" | "wallet" | "attempt" | "done"
    excluded,   \* seats excluded from the key generation attempt
    grp,        \* grp[m]: operating seats of running member m's group ({} = not marked yet)
    kgParty,    \* kgParty[m]: own TSS party key in key generation (0 = not built)
    kgCtx,      \* kgCtx[m]: sorted peer context (party keys) in key generation
    share,      \* share[m]: what tss-lib keygen saved for m
    reg,        \* reg[m]: what registerSigner persisted for m
    signers,    \* final indices selected for the signing attempt
    proto,      \* what signingExecutor.sign hands to signing.Execute for the attempt
    sgParty,    \* sgParty[m]: own TSS party key in signing (0 = not built)
    sgCtx,      \* sgCtx[m]: sorted peer context in signing
    outcome     \* "none" | "valid" | "invalid" | "panic" | "nowallet" | "nokey"

vars == <<N, H, Quorum, stage, excluded, grp, kgParty, kgCtx, share, reg, signers, proto, sgParty, sgCtx, outcome>>

Members == 1..N
Running == Members \ excluded
params  == <<N, H, Quorum>>

Init ==
    \E c \in Configs :
        /\ N = c[1] /\ H = c[2] /\ Quorum = c[3]
        /\ stage = "select" /\ excluded = {}
        /\ grp = [m \in 1..c[1] |-> {}]
        /\ kgParty = [m \in 1..c[1] |-> 0]
        /\ kgCtx = [m \in 1..c[1] |-> <<>>]
        /\ share = [m \in 1..c[1] |-> NoShare]
        /\ reg = [m \in 1..c[1] |-> NoReg]
        /\ signers = {} /\ proto = NoProto
        /\ sgParty = [m \in 1..c[1] |-> 0]
        /\ sgCtx = [m \in 1..c[1] |-> <<>>]
        /\ outcome = "none"

---------------------------------------------------------------------------
(* key generation *)

\* the retry loop fixes the excluded seats of the attempt; at least H seats
\* run (tss keygen needs more parties than its threshold H-1)
SelectExcluded(E) ==
    /\ stage = "select"
    /\ N - Cardinality(E) >= H
    /\ excluded' = E /\ stage' = "keygen"
    /\ UNCHANGED <<params, proto, grp, kgParty, kgCtx, share, reg, signers, sgParty, sgCtx, outcome>>
DoSelectExcluded == \E E \in SUBSET Members : SelectExcluded(E)

\* Executor.Execute: for each excluded index != own id: MarkMemberAsDisqualified
MarkExcluded(m) ==
    /\ stage = "keygen" /\ m \in Running /\ grp[m] = {}
    /\ grp' = [grp EXCEPT ![m] = Members \ (excluded \ {m})]
    /\ UNCHANGED <<params, proto, stage, excluded, kgParty, kgCtx, share, reg, signers, sgParty, sgCtx, outcome>>
DoMarkExcluded == \E m \in Members : MarkExcluded(m)

\* dkg initializeTssRoundOne: GenerateTssPartiesIDs over the operating seats,
\* SortPartyIDs
BuildKeygenParty(m) ==
    /\ stage = "keygen" /\ m \in Running /\ grp[m] # {} /\ kgParty[m] = 0
    /\ kgParty' = [kgParty EXCEPT ![m] = DkgKey(m)]
    /\ kgCtx' = [kgCtx EXCEPT ![m] = SortedSeq({DkgKey(x) : x \in grp[m]})]
    /\ UNCHANGED <<params, proto, stage, excluded, grp, share, reg, signers, sgParty, sgCtx, outcome>>
DoBuildKeygenParty == \E m \in Members : BuildKeygenParty(m)

KeygenReady == \A m \in Running : kgParty[m] # 0
KeygenAgrees ==
    /\ \A a, b \in Running : kgCtx[a] = kgCtx[b]
    /\ \A m \in Running : kgParty[m] \in Range(kgCtx[m])
    /\ \A a, b \in Running : a # b => kgParty[a] # kgParty[b]

\* tss-lib keygen: Ks = sorted party keys, ShareID = own key
KeygenCompletes ==
    /\ stage = "keygen" /\ KeygenReady
    /\ IF KeygenAgrees
          THEN /\ share' = [m \in Members |->
                              IF m \in Running THEN [ks |-> kgCtx[m], id |-> kgParty[m]]
                              ELSE NoShare]
               /\ stage' = "wallet" /\ UNCHANGED outcome
          ELSE /\ stage' = "done" /\ outcome' = "nokey" /\ UNCHANGED share
    /\ UNCHANGED <<params, proto, excluded, grp, kgParty, kgCtx, reg, signers, sgParty, sgCtx>>

---------------------------------------------------------------------------
(* registerSigner / finalSigningGroup *)

FinalIndex(m, op) == IF Shift THEN Rank(m, op) ELSE m

Register(m) ==
    /\ stage = "wallet" /\ m \in Running /\ reg[m].st = "none"
    /\ LET op == grp[m] IN            \* result.Group.OperatingMemberIndexes()
         reg' = [reg EXCEPT ![m] =
                   IF Cardinality(op) < Quorum \/ m \notin op
                      THEN [st |-> "err", idx |-> 0, ops |-> <<>>]
                      ELSE [st |-> "ok", idx |-> FinalIndex(m, op), ops |-> SortedSeq(op)]]
    /\ UNCHANGED <<params, proto, stage, excluded, grp, kgParty, kgCtx, share, signers, sgParty, sgCtx, outcome>>
DoRegister == \E m \in Members : Register(m)

AllRegistered == \A m \in Running : reg[m].st # "none"
WalletOk      == \A m \in Running : reg[m].st = "ok"
GroupSize     == Len(reg[CHOOSE m \in Running : TRUE].ops)     \* wallet.groupSize()

\* below GroupQuorum nothing is registered: there is no wallet to sign with
NoWallet ==
    /\ stage = "wallet" /\ AllRegistered /\ ~WalletOk
    /\ stage' = "done" /\ outcome' = "nowallet"
    /\ UNCHANGED <<params, proto, excluded, grp, kgParty, kgCtx, share, reg, signers, sgParty, sgCtx>>

---------------------------------------------------------------------------
(* a signing attempt *)

\* the signing retry loop selects at least H of the wallet's final indices;
\* the others are the attempt's excluded members
ChooseSigners(Q) ==
    /\ stage = "wallet" /\ AllRegistered /\ WalletOk
    /\ Q \subseteq 1..GroupSize /\ Cardinality(Q) >= H
    /\ signers' = Q /\ stage' = "attempt"
    /\ UNCHANGED <<params, proto, excluded, grp, kgParty, kgCtx, share, reg, sgParty, sgCtx, outcome>>
DoChooseSigners == \E Q \in SUBSET Members : ChooseSigners(Q)

Selected(m) == m \in Running /\ reg[m].idx \in signers

\* pkg/tbtc/signing.go signingExecutor.sign -> signing.Execute(..., wallet.groupSize(),
\* wallet.groupDishonestThreshold(HonestThreshold), attempt.excludedMembersIndexes, ...):
\* the protocol group is the STORED wallet (len(signingGroupOperators) seats), the dishonest
\* threshold is stored size - H, the attempt's excluded members are the unselected indices of
\* the stored operators list (signing_loop.go excludedMembersIndexes).
DeriveParameters ==
    /\ stage = "attempt" /\ proto = NoProto
    /\ LET size == IF NominalSize THEN N ELSE GroupSize IN
         proto' = [size |-> size, dishonest |-> size - H, excl |-> (1..GroupSize) \ signers]
    /\ UNCHANGED <<params, stage, excluded, grp, kgParty, kgCtx, share, reg, signers, sgParty, sgCtx, outcome>>

\* the members the protocol is told to expect messages from / build parties for
Expected == (1..proto.size) \ proto.excl

\* signing.Execute marking loop + initializeTssRoundOne with identityConverter{keys: Ks}:
\* group of GroupSize seats, dishonest threshold GroupSize-H, the unselected
\* final indices disqualified, party key of final index i is Ks[i-1]
BuildSigningParty(m) ==
    /\ stage = "attempt" /\ proto # NoProto /\ Selected(m) /\ sgParty[m] = 0
    /\ LET ks == share[m].ks
           operating == Expected \cup {reg[m].idx}      \* Execute never disqualifies the member itself
       IN IF \E i \in operating : i > Len(ks)
             THEN \* a member that does not exist is expected: the first state waits for its message
                  \* for ever (and ic.keys[i-1] would be out of range): no signature
                  /\ stage' = "done" /\ outcome' = "panic"
                  /\ UNCHANGED <<sgParty, sgCtx>>
             ELSE /\ sgParty' = [sgParty EXCEPT ![m] = ks[reg[m].idx]]
                  /\ sgCtx' = [sgCtx EXCEPT ![m] = SortedSeq({ks[i] : i \in operating})]
                  /\ UNCHANGED <<stage, outcome>>
    /\ UNCHANGED <<params, proto, excluded, grp, kgParty, kgCtx, share, reg, signers>>
DoBuildSigningParty == \E m \in Members : BuildSigningParty(m)

Owners(f) == {m \in Running : reg[m].idx = f}

SigningAgrees ==
    /\ \A f \in signers : Cardinality(Owners(f)) = 1          \* every selected seat has its signer
    /\ \A m \in Running : Selected(m) => sgParty[m] = share[m].id   \* share used under its own party key
    /\ \A a, b \in Running : (Selected(a) /\ Selected(b)) => sgCtx[a] = sgCtx[b]
    /\ Cardinality(signers) >= H                               \* more than threshold = H-1 parties

SignCompletes ==
    /\ stage = "attempt"
    /\ \A m \in Running : Selected(m) => sgParty[m] # 0
    /\ stage' = "done"
    /\ outcome' = IF SigningAgrees THEN "valid" ELSE "invalid"
    /\ UNCHANGED <<params, proto, excluded, grp, kgParty, kgCtx, share, reg, signers, sgParty, sgCtx>>

Next ==
    \/ DoSelectExcluded \/ DoMarkExcluded \/ DoBuildKeygenParty \/ KeygenCompletes
    \/ DoRegister \/ NoWallet \/ DoChooseSigners \/ DeriveParameters \/ DoBuildSigningParty \/ SignCompletes

Spec == Init /\ [][Next]_vars

---------------------------------------------------------------------------
Done == stage = "done"

TypeOK ==
    /\ stage \in {"select", "keygen", "wallet", "attempt", "done"}
    /\ excluded \subseteq Members /\ signers \subseteq Members
    /\ outcome \in {"none", "valid", "invalid", "panic", "nowallet", "nokey"}
    /\ \A m \in Members : /\ grp[m] \subseteq Members
                          /\ reg[m].st \in {"none", "ok", "err"}
                          /\ reg[m].idx \in 0..N

Registered == {m \in Running : reg[m].st = "ok"}

\* C08, second sentence: each member's stored index maps to the
\* key-generation party identity it used
PartyMatchesKeygen ==
    \A m \in Registered :
        /\ reg[m].idx \in 1..Len(share[m].ks)
        /\ share[m].ks[reg[m].idx] = kgParty[m]
        /\ share[m].ks[reg[m].idx] = share[m].id

\* the signing converter's reverse mapping (TssPartyIDToMemberIndex, used to
\* address point-to-point TSS messages) returns the stored index
InverseMapping ==
    \A m \in Registered : PosOf(share[m].ks, kgParty[m]) = reg[m].idx

\* final indices are 1..|operating| without gaps, in seat order
FinalContiguous ==
    (stage \in {"attempt", "done"} /\ WalletOk) =>
        /\ {reg[m].idx : m \in Running} = 1..GroupSize
        /\ \A a, b \in Running : a < b => reg[a].idx < reg[b].idx

\* the operator of seat m sits at m's final index in the stored operators list
OperatorOfSeat ==
    \A m \in Registered : /\ reg[m].idx \in 1..Len(reg[m].ops)
                          /\ reg[m].ops[reg[m].idx] = m

\* all signers of the wallet hold the same group description
SameWallet ==
    \A a, b \in Registered : reg[a].ops = reg[b].ops /\ share[a].ks = share[b].ks
                               /\ Len(reg[a].ops) = Len(share[a].ks)

\* signing parties are key-generation parties; every signer is in its own context
SigningPartiesAreKeygenParties ==
    \A m \in Running : sgParty[m] # 0 =>
        /\ Range(sgCtx[m]) \subseteq Range(kgCtx[m])
        /\ sgParty[m] \in Range(sgCtx[m])
        /\ Len(sgCtx[m]) = Cardinality(signers)

\* every selected set is a set of valid final indices
QuorumIsValid ==
    stage \in {"attempt", "done"} /\ signers # {} =>
        signers \subseteq {reg[m].idx : m \in Registered}

\* every index the protocol is told to expect is a stored final index, the selected
\* signers are exactly the expected members, and enough of them remain
NoPhantomMembers ==
    proto # NoProto =>
        /\ 1..proto.size = {reg[m].idx : m \in Registered}
        /\ Expected = signers
QuorumRemains ==
    proto # NoProto =>
        /\ Cardinality(Expected) >= H
        /\ proto.size - proto.dishonest = H              \* TSS threshold H-1, as in key generation

\* C08, first sentence (index part): every honest quorum of the final group signs
QuorumSigns == outcome \notin {"invalid", "panic", "nokey"}

NoWalletOnlyBelowQuorum ==
    Done => ((outcome = "nowallet") <=> (N - Cardinality(excluded) < Quorum))

ValidWhenWallet ==
    Done => ((outcome = "valid") <=> (N - Cardinality(excluded) >= Quorum))
=============================================================================
