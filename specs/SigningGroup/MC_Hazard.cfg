SPECIFICATION Spec
CONSTANTS
  Configs <- FixtureConfigs
  Seed = 200
  Shift = FALSE
INVARIANTS TypeOK PartyMatchesKeygen
