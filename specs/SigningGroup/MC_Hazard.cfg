SPECIFICATION Spec
CONSTANTS
  Configs <- FixtureConfigs
  Seed = 200
  Shift = FALSE
  NominalSize = FALSE
INVARIANTS TypeOK PartyMatchesKeygen
