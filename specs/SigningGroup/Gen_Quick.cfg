SPECIFICATION Spec
CONSTANTS
  Configs <- QuickConfigs
  Seed = 200
  Shift = TRUE
INVARIANTS Emit TypeOK PartyMatchesKeygen InverseMapping FinalContiguous OperatorOfSeat SameWallet SigningPartiesAreKeygenParties QuorumIsValid QuorumSigns NoWalletOnlyBelowQuorum ValidWhenWallet
