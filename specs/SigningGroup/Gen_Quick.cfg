SPECIFICATION Spec
CONSTANTS
  Configs <- QuickConfigs
  Seed = 200
  Shift = TRUE
  NominalSize = FALSE
INVARIANTS Emit TypeOK PartyMatchesKeygen InverseMapping FinalContiguous OperatorOfSeat SameWallet SigningPartiesAreKeygenParties QuorumIsValid QuorumSigns NoPhantomMembers QuorumRemains NoWalletOnlyBelowQuorum ValidWhenWallet
